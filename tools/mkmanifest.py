#!/usr/bin/env python3
"""Regenerates MANIFEST.json from the table below. A property is claimed iff it is in CLAIMED."""
import json, os, subprocess
ROOT = os.path.dirname(os.path.dirname(os.path.abspath(__file__)))

CLAIMED = ["C01", "C02", "C03", "C04", "C05", "C06", "C07", "C08", "C09", "C10", "C11", "C12", "C13", "C14", "C15", "C16", "C17", "C18", "C19", "C20"]
NA_REASON = {}

P = {
 "C01": ("exploration", "reference-model differential at the cesium API boundary (runtime monitoring), race+checkptr build",
         "Generated legal write scripts run against the real cesium engine; every read (DB.Read and iterator) before and after close+reopen is compared byte-for-byte with a timestamp->value reference model fed at the client boundary. Held on the scripts explored, not a proof.",
         "Trusts the in-memory xfs.MemFS/OS fs as the storage medium and the reference model (ordered map). Auto-index (wall clock) values are not compared.", "§3/C01"),
 "C02": ("fault_enumeration", "crash-point enumeration over a recorded filesystem mutation log + recovery oracle (fault injection, runtime monitoring)",
         "Every prefix of the filesystem mutations issued by each script (plus torn variants of the last write) is rebuilt as an image; cesium.Open and full reads on it must satisfy the durable/maybe/prefix consistency predicate.",
         "Process-crash model of the property (completed FS calls survive; no fsync semantics). MemFS rename atomicity assumed.", "§3/C02"),
 "C03": ("exploration", "invariant check at quiescent points + outcome reference model over domain/unary/cesium writers",
         "Histories over a tiny timestamp universe; after every op the stored domains are enumerated through the DB's own iterator and must be ordered, non-overlapping and fully readable; op outcomes are compared with the statement-level model; failed ops must not change committed data.",
         "Uses verif-tagged re-exports of cesium/internal/domain and unary.", "§3/C03"),
 "C04": ("exploration", "reference-model differential with deletes + GC metamorphic check",
         "C01 scripts extended with arbitrary time-range deletes, synchronous GC passes, reopen and rewrites into freed gaps; reads equal model-minus-deleted; GC changes no read. A second layer biases the scripts to delete -> refill the same timestamps -> delete again (whole-session deletes, head cuts, boundary re-use).",
         "GC is invoked through a verif-tagged synchronous wrapper around the existing private garbageCollect.", "§3/C04"),
 "C05": ("exploration", "step-wise reference model of the gate list; porcupine linearizability check on concurrent gate histories; race detector",
         "Sequential histories at gate and writer level compared step-by-step to a 25-line reference; concurrent histories recorded at the call boundary and checked with porcupine.",
         "Linearizability decided per recorded history only.", "§3/C05"),
 "C06": ("fault_enumeration", "permutation/duplication/batching delivery at the KV ingress hook + cluster-level fault injection with observed quiescence",
         "Same operation set delivered to several real filterPersist replicas in different orders; digests monotone, final state equal and maximal. Real aspen clusters under message faults converge after observed quiescence.",
         "Quiescence is a bounded-progress restatement; never-quiescing run is inconclusive.", "§3/C06"),
 "C07": ("exploration", "differential of a multi-node mock cluster against single-node cesium and a reference model",
         "Placement x gateway x script cases on core/pkg/distribution/mock clusters; iterator results from every node equal the single-node reference; storage only on leaseholder; commit visible immediately on every leaseholder.",
         "In-memory transports only.", "§3/C07"),
 "C08": ("exploration", "normalised round-trip equality; hostile-bytes decoding in a child process with panic/death/allocation oracle",
         "Generated frames through static and dynamic codecs (incl. stream variants) must round-trip; structure-aware mutated and random bytes must yield frame-or-error without panic, death, or disproportionate allocation.",
         "Allocation bound 1MiB+64*len(input) is a proportionality proxy.", "§3/C08"),
 "C09": ("exploration", "Go race detector + state-based deadlock detector + serial-equivalence oracle under concurrent stress with injected yields; porcupine linearizability check of recorded same-key channel create/delete histories",
         "One DB under many goroutines; race reports in repo code are violations; final content must equal a serial result; persisted index must be sorted/non-overlapping; per-key create/delete/retrieve histories must be linearizable and the surviving channels usable and unchanged after reopen.",
         "Only schedules produced are covered; deadlock decided by state not duration.", "§3/C09"),
 "C10": ("exploration", "samples-in-view reference model, adjacency and traversal-completeness monitors on unary and cesium iterators",
         "Command sequences on iterators over generated layouts; Value() must equal the stored samples inside View(); consecutive steps adjacent; full traversals complete and duplicate-free.",
         "unary.Iterator reached through verif-tagged re-export.", "§3/C10"),
 "C11": ("fault_enumeration", "event-log oracle over pledge transport under injected juror faults and stale views; real-cluster concurrent joins",
         "Concurrent pledges through different members with failing/late jurors and per-member request timeouts: admitted keys pairwise distinct, quorum approvals observed before each response. Real cluster.Open scenarios with members leaving and the bootstrapper restarting: keys distinct over the whole life of the cluster.",
         "View model is a sound abstraction of SI gossip (views only grow).", "§3/C11"),
 "C12": ("exploration", "per-exchange monotonicity monitor + closing-phase convergence on real gossip/store",
         "Sequences of exchanges/ticks/state changes/joins/restarts; after each exchange no record regresses; after an all-pairs closing phase all views identical and complete. Run over the mock transport and over aspen's production gRPC transport on loopback.",
         "Loopback only.", "§3/C12"),
 "C13": ("exploration", "at-most-once / no-stale / completeness checker over observer callback logs",
         "Ingress-level accepted stream invariants and real-cluster OnChange logs with unique values; a stalled subscriber next to fast ones (fast logs must stay complete); stale redelivery after deletes learned by start-up recovery.",
         "Completeness only asserted inside bursts smaller than the smallest buffer.", "§3/C13"),
 "C14": ("exploration", "offline per-stream event-log checker (order, no-dup, terminal result) across mock/http/grpc transports",
         "Generated client/handler script pairs on all transports; unique message ids and map/slice payload parts checksummed at receipt and at the end; logs checked offline. WebSocket: idle gaps longer than the write deadline; a deterministic slow-client witness of the open close-wait finding.",
         "Loopback only.", "§3/C14"),
 "C15": ("exploration", "cross-store sweep monitor after every step of channel create/rename/delete histories on mock clusters",
         "Keys ever issued kept by the monitor; after each step metadata and leaseholder engine compared key by key.",
         "Mock distribution layer.", "§3/C15"),
 "C16": ("exploration", "reference graph model + raw relationship-table scan + BFS traversal differential",
         "Histories of resource/relationship ops with prefix-related IDs in committing/aborting transactions.",
         "gorp over memkv.", "§3/C16"),
 "C17": ("exploration", "index-path vs scan-path vs map-model differential with interleaved transactions",
         "Every query executed through index filters and equivalent predicate scans in the same view and compared with a reference map with tx overlays.",
         "memkv engine.", "§3/C17"),
 "C18": ("exploration", "set-based authorisation reference evaluated after every mutation",
         "Histories of role/policy ops; after each, request batches evaluated inside and outside transactions against the reference.",
         "Any non-nil error counts as denied.", "§3/C18"),
 "C19": ("exploration", "reference interpreter written from the Arc spec vs compiled WASM on wazero (differential runtime monitoring)",
         "Type-directed generated programs x boundary argument vectors; spec-silent cases are don't-cares.",
         "Only the scalar imperative fragment.", "§3/C19"),
 "C20": ("exploration", "offline stream-log checker with sentinel-delimited stable windows + stall detector",
         "Writers (index groups with data channels, partial intruders, virtual channels) and churned streamers on one DB; filtering, no-dup, per-writer order, unauthorized exclusion, completeness in stable windows, all calls return; re-subscription to an empty list and streamers opened from one shared key slice.",
         "Non-blocking decided as no deadlock state observed.", "§3/C20"),
}

def main():
    checks = []
    na = []
    for pid in sorted(P):
        cat, tech, text, note, ref = P[pid]
        if pid in CLAIMED:
            checks.append({
                "property_id": pid,
                "quick_cmd": f"./check {pid} --tier quick",
                "thorough_cmd": f"./check {pid} --tier thorough",
                "evidence_file": f"/verif/evidence/{pid}.json",
                "replay_cmd_template": f"./check {pid} --replay {{path}}",
                "engine": "go-monitors",
                "level_claimed": {"category": cat, "text": text, "design_ref": "DESIGN.md " + ref},
                "level_note": note,
                "technique": tech,
            })
        else:
            na.append({"property_id": pid, "reason": NA_REASON.get(pid, "check not yet built/validated in this round; not claimed until it is silent on the unchanged tree (runtime monitoring does apply; see DESIGN.md " + ref + ")")})
    commits = []
    try:
        out = subprocess.run(["git", "-C", "/repo", "log", "--format=%H %s"], capture_output=True, text=True).stdout
        commits = [l.split()[0] for l in out.splitlines() if " verif-hook:" in l or l.split(" ", 1)[1].startswith("verif")]
    except Exception:
        pass
    m = {
        "version": 1,
        "setup_cmd": "./check --setup",
        "hooks": {
            "guard": "verif",
            "enable": "go test -tags verif (Go build tag; hook files begin with //go:build verif)",
            "baseline_off_cmd": "for m in alamos/go arc/go aspen cesium core freighter/go freighter/integration oracle x/go; do (cd /repo/$m && GOFLAGS=-mod=mod go test -vet=off -count=1 -timeout 25m ./...) || exit 1; done",
            "source_commits": commits,
            "add_only": True,
        },
        "engines": [{"name": "go-monitors", "path": "/verif/check", "serves_properties": [c["property_id"] for c in checks],
                     "kind_free_text": "Go test binaries (one per property) built with -tags verif [-race] against /repo's working tree; monitors + oracles in /verif/props, shared harness in /verif/lib; race logs post-processed by lib/racepost.py"}],
        "checks": checks,
        "not_applicable": na,
        "notes": "Technique family: runtime monitoring and sanitizers. VERIF_SEED / VERIF_TIER honoured. Known findings in /verif/known_findings.json.",
    }
    json.dump(m, open(os.path.join(ROOT, "MANIFEST.json"), "w"), indent=1)
    print("claimed:", [c["property_id"] for c in checks])

main()
