// dbg: load a C01/C04 replay witness, run its script up to the mismatch's op and print the
// raw frames of the failing read for each key separately and together.
package main

import (
	"encoding/json"
	"fmt"
	"os"
	"strings"

	"github.com/synnaxlabs/cesium"
	xfs "github.com/synnaxlabs/x/io/fs"
	"github.com/synnaxlabs/x/telem"
	"verif/lib/cskit"
)

var extra func(e *cskit.Exec, m cskit.Mismatch)

func minimize(path string) {
	b, _ := os.ReadFile(path)
	var rs struct {
		Signature string `json:"signature"`
		Witness   struct {
			Script *cskit.Script `json:"script"`
		} `json:"witness"`
	}
	if err := json.Unmarshal(b, &rs); err != nil {
		panic(err)
	}
	prefix := rs.Signature[:3]
	o := cskit.RunOpts{CheckGC: prefix == "c04", FinalReads: 10, FinalSeed: 12345, Prefix: prefix}
	want := rs.Signature
	if len(os.Args) > 3 {
		want = os.Args[3]
	}
	pred := func(s *cskit.Script) bool {
		_, fs := cskit.RunScript(s, o)
		for _, f := range fs {
			if strings.HasPrefix(f.Sig, want) {
				return true
			}
		}
		return false
	}
	if !pred(rs.Witness.Script) {
		fmt.Println("witness does not reproduce signature prefix", want)
		_, fs := cskit.RunScript(rs.Witness.Script, o)
		for _, f := range fs {
			fmt.Println("  got:", f.Sig)
		}
		return
	}
	m := cskit.Minimize(rs.Witness.Script, pred)
	out, _ := json.Marshal(m)
	fmt.Println(string(out))
	_, fs := cskit.RunScript(m, o)
	seen := map[string]bool{}
	for _, f := range fs {
		if !seen[f.Sig] {
			seen[f.Sig] = true
			fmt.Println("FINDING", f.Sig, "::", f.What)
		}
	}
}

func main() {
	if os.Args[1] == "-min" {
		minimize(os.Args[2])
		return
	}
	b, _ := os.ReadFile(os.Args[1])
	var rs struct {
		Witness struct {
			Script   *cskit.Script  `json:"script"`
			Mismatch cskit.Mismatch `json:"mismatch"`
		} `json:"witness"`
	}
	if err := json.Unmarshal(b, &rs); err != nil {
		panic(err)
	}
	s := rs.Witness.Script
	m := rs.Witness.Mismatch
	e := cskit.NewExec(xfs.NewMem(), s)
	if err := e.Setup(); err != nil {
		panic(err)
	}
	for i, op := range s.Ops {
		if op.Kind == "reads" {
			continue
		}
		if !e.Step(i, op) {
			fmt.Println("stopped at", i, e.UnexpectedErr)
			break
		}
		if i >= m.AfterOp {
			break
		}
	}
	tr := telem.TimeRange{Start: telem.TimeStamp(m.A), End: telem.TimeStamp(m.B)}
	show := func(keys ...uint32) {
		fr, err := e.DB.Read(e.Ctx, tr, keys...)
		fmt.Printf("Read keys=%v err=%v\n", keys, err)
		for k, s := range fr.Entries() {
			fmt.Printf("  key=%d tr=[%d,%d) len=%d align=%v\n", k, s.TimeRange.Start, s.TimeRange.End, s.Len(), s.Alignment)
		}
	}
	for _, k := range m.Keys {
		show(k)
	}
	show(m.Keys...)
	if extra != nil {
		extra(e, m)
		return
	}
	for _, k := range m.Keys {
		fmt.Printf("model key %d: %d samples in range; stamps all=%v\n", k, len(e.Model.Range(k, m.A, m.B)), trunc(e.Model.Stamps(k)))
	}
}

func trunc(x []int64) []int64 {
	if len(x) > 12 {
		return x[:12]
	}
	return x
}

func init() {
	extra = func(e *cskit.Exec, m cskit.Mismatch) {
		if m.Mode == "read" {
			return
		}
		tr := telem.TimeRange{Start: telem.TimeStamp(m.A), End: telem.TimeStamp(m.B)}
		it, err := e.DB.OpenIterator(cesium.IteratorConfig{Bounds: tr, Channels: []uint32{m.Key}})
		if err != nil {
			fmt.Println("open iter", err)
			return
		}
		steps := (m.B-m.A)/m.Span + 3
		fmt.Printf("mode=%s span=%d steps=%d\n", m.Mode, m.Span, steps)
		if m.Mode == "iter" {
			fmt.Println("SeekFirst", it.SeekFirst())
		} else {
			fmt.Println("SeekLast", it.SeekLast())
		}
		for i := int64(0); i < steps; i++ {
			var ok bool
			if m.Mode == "iter" {
				ok = it.Next(telem.TimeSpan(m.Span))
			} else {
				ok = it.Prev(telem.TimeSpan(m.Span))
			}
			fmt.Printf(" step %d ok=%v\n", i, ok)
			for k, s := range it.Value().Entries() {
				fmt.Printf("    key=%d tr=[%d,%d) len=%d first=%v\n", k, s.TimeRange.Start, s.TimeRange.End, s.Len(), telem.ValueAt[int64](s, 0))
			}
		}
		fmt.Println("model stamps in range:", e.Model.Range(m.Key, m.A, m.B)[0].TS, "...", len(e.Model.Range(m.Key, m.A, m.B)))
		st := e.Model.Stamps(m.Key)
		fmt.Println("all stamps:", st)
	}
}
