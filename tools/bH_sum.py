import json,glob,sys,collections
alt=sys.argv[1]
ev=json.load(open(alt+'/evidence/C10.json'))
sigs=ev['coverage'].get('violation_signatures',{})
rows=collections.defaultdict(lambda: collections.Counter())
for f in glob.glob(alt+'/replays/C10/*.json'):
    if 'crash-input' in f: continue
    r=json.load(open(f))
    w=r.get('witness') or {}
    if not isinstance(w,dict): continue
    lay=' '.join(w.get('layout',[]))
    feats=[]
    if 'delete(' in lay: feats.append('del')
    if 'pass=1' in lay: feats.append('later')
    if 'gc' in lay.split(): feats.append('gc')
    rows[r['signature']][(w.get('channel','?'),','.join(feats))]+=1
for s,n in sorted(sigs.items()):
    print(n,s,dict(rows[s]))
c=ev['coverage']
print({k:c[k] for k in c if k.startswith('layout') or k.startswith('distinct_layout')})
