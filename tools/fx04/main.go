// fx04: triage helper for C04. Replays cskit scripts step by step against the real engine
// and, after every quiescent op, checks the per-domain storage invariant of every channel:
// the samples stored in a domain [S,E) are exactly the model's samples with S <= ts < E.
//
//	fx04 scan <seed> <ncases>        generate the C04 case list and report the first broken op per case
//	fx04 trace <script-or-replay.json> [-v]  dump domain geometry after every op
package main

import (
	"bytes"
	"encoding/json"
	"fmt"
	"os"
	"sort"
	"strconv"
	"strings"
	"sync"

	"github.com/synnaxlabs/cesium/verifx"
	xfs "github.com/synnaxlabs/x/io/fs"
	"github.com/synnaxlabs/x/telem"
	"verif/lib/cskit"
	"verif/lib/prng"
)

type dom struct {
	S, E    int64
	Size    int64
	Samples [][]byte
	Err     string
}

func domains(e *cskit.Exec, spec cskit.ChanSpec) ([]dom, error) {
	u, ok := e.DB.VerifUnary(spec.Key)
	if !ok {
		return nil, fmt.Errorf("no unary %d", spec.Key)
	}
	dd := u.VerifDomain()
	it := dd.OpenIterator(verifx.DomainIteratorConfig{Bounds: telem.TimeRangeMax})
	defer it.Close()
	var out []dom
	for ok := it.SeekFirst(e.Ctx); ok; ok = it.Next() {
		tr := it.TimeRange()
		d := dom{S: int64(tr.Start), E: int64(tr.End), Size: int64(it.Size())}
		r, err := it.OpenReader(e.Ctx)
		if err != nil {
			d.Err = err.Error()
			out = append(out, d)
			continue
		}
		buf := make([]byte, it.Size())
		if len(buf) > 0 {
			if _, err := r.ReadAt(buf, 0); err != nil {
				d.Err = "read: " + err.Error()
			}
		}
		r.Close()
		s := telem.Series{DataType: spec.DataType(), Data: buf}
		if spec.Variable() {
			// robust split
			pos := 0
			for pos+4 <= len(buf) {
				l := int(telem.ByteOrder.Uint32(buf[pos:]))
				if pos+4+l > len(buf) {
					d.Err = fmt.Sprintf("var sample at %d overruns domain (len %d, size %d)", pos, l, len(buf))
					break
				}
				d.Samples = append(d.Samples, buf[pos+4:pos+4+l])
				pos += 4 + l
			}
			if pos != len(buf) && d.Err == "" {
				d.Err = "trailing bytes"
			}
		} else {
			w := int(spec.DataType().Density())
			if len(buf)%w != 0 {
				d.Err = "size not multiple of density"
			}
			_ = s
			for p := 0; p+w <= len(buf); p += w {
				d.Samples = append(d.Samples, buf[p:p+w])
			}
		}
		out = append(out, d)
	}
	return out, nil
}

func specs(s *cskit.Script) []cskit.ChanSpec {
	var out []cskit.ChanSpec
	for _, g := range s.Groups {
		out = append(out, g.Index)
		out = append(out, g.Data...)
	}
	return out
}

// checkInv returns a list of invariant breaks.
func checkInv(e *cskit.Exec, s *cskit.Script) []string {
	var out []string
	for _, sp := range specs(s) {
		ds, err := domains(e, sp)
		if err != nil {
			out = append(out, err.Error())
			continue
		}
		covered := 0
		for i, d := range ds {
			if d.Err != "" {
				out = append(out, fmt.Sprintf("ch%d(%s) dom%d [%d,%d) size=%d: %s", sp.Key, sp.DT, i, d.S, d.E, d.Size, d.Err))
			}
			if i > 0 && ds[i-1].E > d.S {
				out = append(out, fmt.Sprintf("ch%d dom%d overlaps previous", sp.Key, i))
			}
			want := e.Model.Range(sp.Key, d.S, d.E)
			covered += len(want)
			bad := len(want) != len(d.Samples)
			first := -1
			for j := 0; j < len(want) && j < len(d.Samples); j++ {
				if !bytes.Equal(want[j].Val, d.Samples[j]) {
					bad = true
					first = j
					break
				}
			}
			if bad {
				out = append(out, fmt.Sprintf("ch%d(%s) dom%d [%d,%d) stores %d samples, model has %d in that range (first value diff at %d)", sp.Key, sp.DT, i, d.S, d.E, len(d.Samples), len(want), first))
			}
		}
		if covered != e.Model.Len(sp.Key) {
			out = append(out, fmt.Sprintf("ch%d(%s): domains cover %d model samples of %d", sp.Key, sp.DT, covered, e.Model.Len(sp.Key)))
		}
	}
	return out
}

func dumpGeom(e *cskit.Exec, s *cskit.Script, keys map[uint32]bool) {
	for _, sp := range specs(s) {
		if keys != nil && !keys[sp.Key] {
			continue
		}
		ds, _ := domains(e, sp)
		fmt.Printf("      ch%d(%s idx=%d):", sp.Key, sp.DT, sp.Index)
		for _, d := range ds {
			st := e.Model.Range(sp.Key, d.S, d.E)
			lo, hi := int64(0), int64(0)
			if len(st) > 0 {
				lo, hi = st[0].TS, st[len(st)-1].TS
			}
			fmt.Printf(" [%d,%d)n=%d/m=%d{%d..%d}", d.S, d.E, len(d.Samples), len(st), lo, hi)
		}
		fmt.Println()
	}
}

type result struct {
	c       int
	opIdx   int
	op      cskit.Op
	breaks  []string
	engErr  string
	mism    int
	viols   []string
	script  *cskit.Script
	prevDel []cskit.Op
}

func genCase(seed int64, c int) *cskit.Script {
	r := prng.New(seed, "C04/mem", c)
	o := cskit.DefaultGen()
	o.Deletes, o.GC, o.GapRewrite = true, true, true
	o.MaxSessions = 7
	for _, k := range strings.Split(os.Getenv("VERIF_C04_OPTS"), ",") {
		switch k {
		case "nogap":
			o.GapRewrite = false
		case "nodataonly":
			o.DataOnly = false
		case "nogc":
			o.GC = false
		case "nointerleave":
			o.Interleave = false
		case "novar":
			o.VarTypes = false
		case "noreopen":
			o.Reopen = false
		case "bigfile":
			o.FileSizes = []int64{1 << 30}
		case "onegroup":
			o.MaxGroups = 1
		case "small":
			o.MaxSessions, o.MaxData, o.MaxChunks = 2, 1, 2
		}
	}
	return cskit.Gen(r, o)
}

// runStep runs the script op by op with the invariant check; returns the first broken op.
func runStep(s *cskit.Script, verbose bool) *result {
	e := cskit.NewExec(xfs.NewMem(), s)
	e.CheckGC = true
	if err := e.Setup(); err != nil {
		return &result{engErr: "setup: " + err.Error()}
	}
	defer e.CloseAll()
	open := 0
	res := &result{opIdx: -1, script: s}
	for i, op := range s.Ops {
		if op.Kind == "open" {
			open++
		}
		if op.Kind == "reads" && !verbose {
			// keep reads (they may build caches) but they do not stop the run
		}
		nm, nv := len(e.Mismatches), len(e.Violations)
		if verbose && (op.Kind == "delete" || op.Kind == "gc" || op.Kind == "reopen") {
			fmt.Printf("  -- before op %d\n", i)
			dumpGeom(e, s, nil)
		}
		ok := e.Step(i, op)
		if op.Kind == "close" {
			open--
		}
		if verbose {
			b, _ := json.Marshal(op)
			str := string(b)
			if len(str) > 300 {
				str = str[:300] + "..."
			}
			fmt.Printf("op %d %s ok=%v\n", i, str, ok)
		}
		if !ok {
			if op.Kind == "delete" {
				n := 0
				for _, k := range op.Chans {
					n += len(e.Model.Range(k, op.A, op.B))
				}
				e.UnexpectedErr += fmt.Sprintf(" [model samples of requested chans in range: %d]", n)
			}
			res.opIdx, res.op, res.engErr = i, op, e.UnexpectedErr
			res.viols = e.Violations[nv:]
			return res
		}
		if len(e.Violations) > nv {
			res.opIdx, res.op = i, op
			res.viols = e.Violations[nv:]
			return res
		}
		if open == 0 && op.Kind != "reads" {
			if br := checkInv(e, s); len(br) > 0 {
				res.opIdx, res.op, res.breaks = i, op, br
				if verbose {
					fmt.Printf("  -- after op %d (BROKEN)\n", i)
					dumpGeom(e, s, nil)
				}
				return res
			}
		}
		if len(e.Mismatches) > nm {
			res.opIdx, res.op, res.mism = i, op, len(e.Mismatches)-nm
			m := e.Mismatches[nm]
			res.viols = []string{fmt.Sprintf("read mismatch with intact storage: %s key=%d [%d,%d) mode=%s want=%d got=%d %s", m.Class, m.Key, m.A, m.B, m.Mode, m.Want, m.Got, m.Detail)}
			return res
		}
		if op.Kind == "delete" {
			res.prevDel = append(res.prevDel, op)
		}
	}
	// final: full checks + reopen
	nm := len(e.Mismatches)
	e.FullChecks()
	if err := e.Reopen(); err != nil {
		res.opIdx, res.engErr = len(s.Ops), "final reopen: "+err.Error()
		return res
	}
	if br := checkInv(e, s); len(br) > 0 {
		res.opIdx, res.breaks = len(s.Ops), br
		return res
	}
	e.FullChecks()
	if len(e.Mismatches) > nm {
		m := e.Mismatches[nm]
		res.opIdx = len(s.Ops)
		res.viols = []string{fmt.Sprintf("final read mismatch with intact storage: %s key=%d [%d,%d) mode=%s want=%d got=%d %s", m.Class, m.Key, m.A, m.B, m.Mode, m.Want, m.Got, m.Detail)}
		return res
	}
	return nil
}

func loadScript(path string) *cskit.Script {
	b, err := os.ReadFile(path)
	if err != nil {
		panic(err)
	}
	var rs struct {
		Witness struct {
			Script *cskit.Script `json:"script"`
		} `json:"witness"`
	}
	if json.Unmarshal(b, &rs) == nil && rs.Witness.Script != nil {
		return rs.Witness.Script
	}
	var s cskit.Script
	if err := json.Unmarshal(b, &s); err != nil {
		panic(err)
	}
	return &s
}

func summarize(r *result) string {
	opj, _ := json.Marshal(r.op)
	o := string(opj)
	if len(o) > 160 {
		o = o[:160] + "..."
	}
	what := ""
	switch {
	case r.engErr != "":
		what = "ENGERR " + r.engErr
	case len(r.breaks) > 0:
		what = fmt.Sprintf("INV(%d) %s", len(r.breaks), r.breaks[0])
	case len(r.viols) > 0:
		what = "VIOL " + r.viols[0]
	}
	if len(what) > 330 {
		what = what[:330]
	}
	return fmt.Sprintf("op %d/%d %s fs=%d :: %s", r.opIdx, len(r.script.Ops), o, r.script.FileSize, what)
}

func main() {
	switch os.Args[1] {
	case "scan":
		seed, _ := strconv.ParseInt(os.Args[2], 10, 64)
		n, _ := strconv.Atoi(os.Args[3])
		var mu sync.Mutex
		var wg sync.WaitGroup
		var out []*result
		work := make(chan int, 64)
		for w := 0; w < 12; w++ {
			wg.Add(1)
			go func() {
				defer wg.Done()
				for c := range work {
					s := genCase(seed, c)
					if r := runStep(s, false); r != nil {
						r.c = c
						r.script = s
						mu.Lock()
						out = append(out, r)
						mu.Unlock()
					}
				}
			}()
		}
		for c := 0; c < n; c++ {
			work <- c
		}
		close(work)
		wg.Wait()
		sort.Slice(out, func(i, j int) bool { return out[i].c < out[j].c })
		for _, r := range out {
			fmt.Printf("case %d: %s\n", r.c, summarize(r))
		}
		fmt.Printf("TOTAL seed=%d cases=%d broken=%d\n", seed, n, len(out))
	case "dump": // dump <seed> <case> -> script json
		seed, _ := strconv.ParseInt(os.Args[2], 10, 64)
		c, _ := strconv.Atoi(os.Args[3])
		b, _ := json.Marshal(genCase(seed, c))
		fmt.Println(string(b))
	case "trace":
		s := loadScript(os.Args[2])
		r := runStep(s, true)
		if r == nil {
			fmt.Println("CLEAN")
			return
		}
		fmt.Println("FIRST BROKEN:", summarize(r))
		for _, b := range r.breaks {
			fmt.Println("   ", b)
		}
		for _, b := range r.viols {
			fmt.Println("   ", b)
		}
	case "min": // min <script.json> : minimise w.r.t. "runStep reports something at a delete/gc/... with same class"
		s := loadScript(os.Args[2])
		r0 := runStep(s, false)
		if r0 == nil {
			fmt.Println("CLEAN")
			return
		}
		cls := classOf(r0)
		if len(os.Args) > 3 {
			cls = os.Args[3]
		}
		m := cskit.Minimize(s, func(c *cskit.Script) bool {
			r := runStep(c, false)
			return r != nil && classOf(r) == cls
		})
		b, _ := json.Marshal(m)
		fmt.Println(string(b))
		r := runStep(m, false)
		fmt.Println("CLASS", cls)
		fmt.Println("FIRST BROKEN:", summarize(r))
	}
}

func classOf(r *result) string {
	switch {
	case r.engErr != "":
		return "ENGERR:" + r.op.Kind + ":" + cskit.Letters(r.engErr, 60)
	case len(r.breaks) > 0:
		return "INV:" + r.op.Kind
	default:
		return "VIOL:" + r.op.Kind + ":" + cskit.Letters(r.viols[0], 30)
	}
}
