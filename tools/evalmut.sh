#!/usr/bin/env bash
# tools/evalmut.sh <Cnn-k> [seeds...] : verify /tmp/adv-<Cnn-k> worktree == its _adv/patch.diff, run ./check Cnn against it
w=$1; shift; id=${w%-*}; d=/tmp/adv-$w; seeds=${@:-1}
cd /verif
(cd $d && git diff | grep '^[+-]' | grep -v '^+++\|^---' > /tmp/wt.$w; grep '^[+-]' _adv/patch.diff | grep -v '^+++\|^---' > /tmp/pt.$w; diff -q /tmp/wt.$w /tmp/pt.$w >/dev/null && echo "$w worktree == patch.diff" || echo "$w worktree DIFFERS from patch.diff")
for s in $seeds; do VERIF_SEED=$s VERIF_REPO=$d ./check $id 2>&1 | grep -E "^VIOLATION|  signature|^SUMMARY|HARNESS|BUILD" | cut -c1-220 | head -7; done
