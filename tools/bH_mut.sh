#!/usr/bin/env bash
# usage: bH_mut.sh <prop CNN> <propdir> <name> <file-relative-to-repo> <python-expr old> <new>   (old/new passed via env OLD/NEW)
set -u
prop=$1; pdir=$2; name=$3; file=$4
d=$(/verif/tools/scratch.sh new bH-$name)
cp /repo/cesium/internal/unary/export_verif_bH.go $d/cesium/internal/unary/ 2>/dev/null
python3 - "$d/$file" <<'PY'
import os,sys
p=sys.argv[1]; s=open(p).read(); old=os.environ['OLD']; new=os.environ['NEW']
assert s.count(old)>=1, "pattern not found"
s=s.replace(old,new,1); open(p,'w').write(s)
PY
git -C $d diff -- $file > /verif/props/$pdir/sens/$name.diff
cd /verif
VERIF_REPO=$d ./check $prop 2>&1 | grep -E "^(VIOLATION|  signature|SUMMARY|HARNESS|BUILD)" | cut -c1-300
alt="/verif/.build/alt-$(echo "$d" | md5sum | cut -c1-8)"
jq -c '.coverage.violation_signatures' $alt/evidence/$prop.json 2>/dev/null
/verif/tools/scratch.sh rm bH-$name
