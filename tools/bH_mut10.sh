#!/usr/bin/env bash
# usage: OLD=.. NEW=.. bH_mut10.sh <name> <file>
set -u
name=$1; file=$2
d=$(/verif/tools/scratch.sh new bH-$name)
cp /repo/cesium/internal/unary/export_verif_bH.go $d/cesium/internal/unary/
python3 - "$d/$file" <<'PY'
import os,sys
p=sys.argv[1]; s=open(p).read(); old=os.environ['OLD']; new=os.environ['NEW']
assert s.count(old)>=1, "pattern not found"
s=s.replace(old,new,1); open(p,'w').write(s)
PY
git -C $d diff -- $file > /verif/props/c10_iterator/sens/$name.diff
cd /verif
VERIF_REPO=$d ./check C10 2>&1 | grep -E "^(SUMMARY|HARNESS|BUILD)" | cut -c1-160
alt="/verif/.build/alt-$(echo "$d" | md5sum | cut -c1-8)"
jq -r '.coverage.violation_signatures | to_entries[] | "\(.value) \(.key)"' $alt/evidence/C10.json 2>/dev/null | sort -k2 | grep -v "c10:auto-span:\(wrong\|value\|step\|stale\|trav\|panic\)"
/verif/tools/scratch.sh rm bH-$name
