#!/usr/bin/env bash
# tools/minall.sh <prop> [filter] : minimise the first witness of every signature under replays/<prop>
cd /verif
export GOFLAGS=-mod=mod GOPROXY=off
go build -tags verif -o .build/dbg ./tools/dbg || exit 1
for f in $(ls replays/$1/*-1.json | grep -v race | grep "${2:-.}"); do
  sig=$(jq -r .signature $f)
  echo "=== $sig  ($f)"
  timeout 300 .build/dbg -min $f "$sig" | python3 -c '
import sys, json
for line in sys.stdin:
    line=line.strip()
    if line.startswith("{"):
        s=json.loads(line)
        print("  fs=%d gc=%g groups=%s" % (s["file_size"], s["gc_threshold"], [[g["index"]["key"]]+["%d:%s"%(d["key"],d["dt"]) for d in g["data"]] for g in s["groups"]]))
        for o in s["ops"]:
            if "ts" in o:
                t=o["ts"]; o["ts"]= t if len(t)<=6 else t[:3]+["..%d.."%len(t)]+t[-2:]
            print("   ", json.dumps(o))
    else:
        print("  ", line[:400])
'
done
