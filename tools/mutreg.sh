#!/usr/bin/env bash
# tools/mutreg.sh [ids...] : regression over the seeded changes: apply each seeded/<id>/patch.diff to a scratch
# worktree of /repo, run the quick check of its property (or of the property named in OVERRIDE) against it with
# VERIF_REPO, print "id check caught|MISSED n_violations". Worktrees and their .build/alt-* directory are removed
# again (each instance only removes its own, so several shards may run side by side; not together with evalmut).
cd "$(dirname "$0")/.."
declare -A OVERRIDE=( [C03-3]=C09 [C09-4]=C20 [C09-2]=C09 )
ids=${@:-$(ls seeded | grep '^C' | sort)}
for id in $ids; do
  prop=${OVERRIDE[$id]:-${id%-*}}
  wt=/tmp/mr-$id
  git -C /repo worktree add --detach $wt HEAD >/dev/null 2>&1 || { echo "$id worktree-failed"; continue; }
  if ! git -C $wt apply /verif/seeded/$id/patch.diff 2>/dev/null; then echo "$id $prop patch-does-not-apply"; git -C /repo worktree remove --force $wt; continue; fi
  alt=.build/alt-$(echo "$wt" | md5sum | cut -c1-8)
  out=$(VERIF_REPO=$wt ./check $prop 2>&1)
  n=$(echo "$out" | grep -c '^VIOLATION')
  if [ $n -gt 0 ]; then echo "$id $prop caught $n $(echo "$out" | grep '  signature' | head -1 | cut -c1-110)"; else echo "$id $prop MISSED $(echo "$out" | grep -E 'HARNESS|BUILD' | head -1 | cut -c1-100)"; fi
  git -C /repo worktree remove --force $wt
  rm -rf "$alt"
done
