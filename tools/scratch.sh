#!/usr/bin/env bash
# tools/scratch.sh new <name>   -> creates a detached git worktree of /repo HEAD at /tmp/sx-<name> and prints the path
# tools/scratch.sh rm <name>    -> removes it together with the check's alt build output
# Use with: VERIF_REPO=/tmp/sx-<name> ./check Cnn   (never edits /repo; nothing is written to evidence/)
set -eu
cmd=$1; name=$2; dir=/tmp/sx-$name
case $cmd in
  new) git -C /repo worktree add --detach "$dir" HEAD >/dev/null 2>&1; echo "$dir" ;;
  rm)  alt="/verif/.build/alt-$(echo "$dir" | md5sum | cut -c1-8)"; rm -rf "$alt"; git -C /repo worktree remove --force "$dir" 2>/dev/null || rm -rf "$dir"; git -C /repo worktree prune ;;
esac
