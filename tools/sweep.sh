#!/usr/bin/env bash
# tools/sweep.sh "<seeds>" [props...] : quick tier of every (or the named) property at each seed; prints one line per run
cd "$(dirname "$0")/.."
seeds=${1:-"1 2 3 4 5"}; shift
props=${@:-$(seq -f "C%02g" 1 20)}
for s in $seeds; do for p in $props; do
  out=$(VERIF_SEED=$s ./check $p 2>&1); rc=$?
  echo "seed=$s $p rc=$rc $(echo "$out" | grep -c '^VIOLATION') violations, $(echo "$out" | grep -c '^KNOWN-FINDING') known, $(echo "$out" | grep -E '^SUMMARY' | grep -o 'inconclusive=[0-9]*')"
  echo "$out" | grep -E "^VIOLATION|  signature|INCONCLUSIVE|HARNESS|BUILD-FAIL" | head -6
done; done
