#!/usr/bin/env bash
# tools/baseline.sh [modules...] : the repository's own test suite, hooks off (no verif tag), one log per module
# under .build/baseline/. Prints one line per module: ok / FAIL (+ failing packages).
cd /repo
export GOFLAGS=-mod=mod GOPROXY=off
mods=${@:-"alamos/go arc/go aspen cesium core freighter/go freighter/integration oracle x/go"}
out=/verif/.build/baseline; mkdir -p $out
for m in $mods; do
  log=$out/$(echo $m | tr / _).log
  (cd /repo/$m && go test -vet=off -count=1 -timeout 25m ./... > $log 2>&1); rc=$?
  echo "$m rc=$rc ok=$(grep -c '^ok' $log) fail=$(grep -c '^FAIL\|^--- FAIL\|panic:' $log)"
  grep -E '^FAIL|^--- FAIL' $log | head -5
done
