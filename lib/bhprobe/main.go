package main

import (
	"context"
	"fmt"
	"os"
	"time"

	"github.com/synnaxlabs/cesium"
	"github.com/synnaxlabs/cesium/verifx"
	xfs "github.com/synnaxlabs/x/io/fs"
	"github.com/synnaxlabs/x/telem"
)

var ctx = context.Background()

func must(err error) {
	if err != nil {
		panic(err)
	}
}

func ts(v ...int64) telem.Series {
	o := make([]telem.TimeStamp, len(v))
	for i, x := range v {
		o[i] = telem.TimeStamp(x)
	}
	return telem.NewSeries(o)
}

func open(cap telem.Size) *cesium.DB {
	opts := []cesium.Option{cesium.WithFS(xfs.NewMem()), cesium.WithGCConfig(cesium.GCConfig{TryInterval: time.Hour})}
	if cap > 0 {
		opts = append(opts, cesium.WithFileSizeCap(cap))
	}
	db, err := cesium.Open(ctx, "", opts...)
	must(err)
	must(db.CreateChannel(ctx, cesium.Channel{Key: 1, Name: "idx", IsIndex: true, DataType: telem.TimeStampT},
		cesium.Channel{Key: 2, Name: "d", Index: 1, DataType: telem.Int64T}))
	return db
}

func write(db *cesium.DB, start int64, t ...int64) {
	vals := make([]int64, len(t))
	for i := range t {
		vals[i] = t[i] * 100
	}
	must(db.Write(ctx, telem.TimeStamp(start), telem.MultiFrame([]cesium.ChannelKey{1, 2}, []telem.Series{ts(t...), telem.NewSeries(vals)})))
}

func show(it *cesium.Iterator, what string, ok bool) {
	var got []int64
	for _, s := range it.Value().Get(1).Series {
		for _, v := range telem.UnmarshalSeries[telem.TimeStamp](s) {
			got = append(got, int64(v))
		}
	}
	fmt.Printf("  %-14s ok=%-5v idx samples=%v\n", what, ok, got)
}

func main() {
	which := os.Args[1]
	switch which {
	case "r1": // forward traversal with a span smaller than the sample spacing loses a sample
		db := open(0)
		write(db, 10, 10, 20)
		write(db, 30, 30, 40)
		it, err := db.OpenIterator(cesium.IteratorConfig{Channels: []cesium.ChannelKey{1}, Bounds: telem.TimeRange{Start: 0, End: 100}})
		must(err)
		show(it, "SeekFirst", it.SeekFirst())
		for i := 0; i < 8; i++ {
			ok := it.Next(5)
			show(it, fmt.Sprintf("Next(5)#%d", i+1), ok)
		}
		must(it.Close())
	case "r1b": // step back after a long step forward
		db := open(0)
		write(db, 10, 10, 12)
		write(db, 30, 30, 32)
		write(db, 50, 50, 52)
		it, err := db.OpenIterator(cesium.IteratorConfig{Channels: []cesium.ChannelKey{1}, Bounds: telem.TimeRange{Start: 0, End: 100}})
		must(err)
		show(it, "SeekGE(12)", it.SeekGE(12))
		show(it, "Next(80)", it.Next(80))
		show(it, "Prev(5)", it.Prev(5))
		show(it, "SeekFirst", it.SeekFirst())
		show(it, "Next(max)", it.Next(telem.TimeSpanMax))
		show(it, "Prev(max)", it.Prev(telem.TimeSpanMax))
		must(it.Close())
	case "r2": // stack overflow
		db := open(0)
		write(db, 10, 10, 13, 16, 19, 22, 25)
		it, err := db.OpenIterator(cesium.IteratorConfig{Channels: []cesium.ChannelKey{1}, Bounds: telem.TimeRange{Start: 5, End: 20}, AutoChunkSize: 2})
		must(err)
		show(it, "SeekLE(21)", it.SeekLE(21))
		fmt.Println("  calling Next(AutoSpan) ...")
		show(it, "Next(auto)", it.Next(cesium.AutoSpan))
	case "r3": // Distance discontinuity: data domain spanning three contiguous index domains
		db := open(0)
		// index written in three sessions that are contiguous in time
		must(db.Write(ctx, 10, telem.UnaryFrame[cesium.ChannelKey](1, ts(10, 11, 12))))
		must(db.Write(ctx, 13, telem.UnaryFrame[cesium.ChannelKey](1, ts(13, 14))))
		must(db.Write(ctx, 15, telem.UnaryFrame[cesium.ChannelKey](1, ts(15, 16, 17))))
		// data written later in one session against the stored index
		must(db.Write(ctx, 10, telem.UnaryFrame[cesium.ChannelKey](2, telem.NewSeries([]int64{1000, 1100, 1200, 1300, 1400, 1500, 1600, 1700}))))
		ui, _ := db.VerifUnary(1)
		for _, tr := range []telem.TimeRange{{Start: 10, End: 15}, {Start: 10, End: 13}, {Start: 11, End: 15}, {Start: 10, End: 18}} {
			ap, al, derr := ui.Index().Distance(ctx, tr, true)
			fmt.Println("  Distance", int64(tr.Start), int64(tr.End), "->", ap, al, derr)
		}
		di := ui.VerifDomain().OpenIterator(verifx.DomainIterRange(telem.TimeRangeMax))
		for ok := di.SeekFirst(ctx); ok; ok = di.Next() {
			fmt.Println("  idx domain", int64(di.TimeRange().Start), int64(di.TimeRange().End), di.Size())
		}
		di.Close()
		u, _ := db.VerifUnary(2)
		it, err := u.OpenIterator(verifx.UnaryIteratorConfig{Bounds: telem.TimeRange{Start: 0, End: 100}})
		must(err)
		fmt.Println("  SeekGE(13)", it.SeekGE(ctx, 13), it.View())
		ok := it.Next(ctx, 2)
		fmt.Println("  Next(2) ok=", ok, "view=", it.View().Start, it.View().End, "value=", it.Value().Get(2).Series, "err=", it.Error())
		fr, err := db.Read(ctx, telem.TimeRange{Start: 13, End: 15}, 2)
		fmt.Println("  db.Read([13,15), data) ->", fr.Get(2).Series, err)
	case "r3b":
		db := open(1)
		f := false
		w, err := db.OpenWriter(ctx, cesium.WriterConfig{Start: 75, Channels: []cesium.ChannelKey{1}, EnableAutoCommit: &f})
		must(err)
		for _, chunk := range [][]int64{{75, 80, 82}, {83}, {87, 91, 92}} {
			_, err = w.Write(telem.UnaryFrame[cesium.ChannelKey](1, ts(chunk...)))
			must(err)
			_, err = w.Commit()
			must(err)
		}
		must(w.Close())
		must(db.Write(ctx, 75, telem.UnaryFrame[cesium.ChannelKey](2, telem.NewSeries([]int64{1, 2, 3, 4, 5, 6, 7}))))
		ui, _ := db.VerifUnary(1)
		for _, k := range []cesium.ChannelKey{1, 2} {
			uu, _ := db.VerifUnary(k)
			di := uu.VerifDomain().OpenIterator(verifx.DomainIterRange(telem.TimeRangeMax))
			for ok := di.SeekFirst(ctx); ok; ok = di.Next() {
				fmt.Println("  ch", k, "domain", int64(di.TimeRange().Start), int64(di.TimeRange().End), di.Size())
			}
			di.Close()
		}
		for _, tr := range []telem.TimeRange{{Start: 75, End: 84}, {Start: 75, End: 83}, {Start: 75, End: 85}} {
			ap, al, derr := ui.Index().Distance(ctx, tr, true)
			fmt.Println("  Distance", int64(tr.Start), int64(tr.End), "->", ap, al, derr)
		}
		fr, err := db.Read(ctx, telem.TimeRange{Start: 83, End: 84}, 2)
		fmt.Println("  db.Read([83,84), data) ->", fr.Get(2).Series, err)
		fr, err = db.Read(ctx, telem.TimeRange{Start: 70, End: 84}, 2)
		fmt.Println("  db.Read([70,84), data) ->", fr.Get(2).Series, err)
	case "r6": // backwards commit accepted on file rollover (C03)
		db := open(64)
		f := false
		w, err := db.OpenWriter(ctx, cesium.WriterConfig{Start: 30, Channels: []cesium.ChannelKey{1}, EnableAutoCommit: &f})
		must(err)
		_, err = w.Write(telem.UnaryFrame[cesium.ChannelKey](1, ts(33, 35, 37, 39, 42)))
		must(err)
		end, err := w.Commit()
		fmt.Println("  commit#1 end=", int64(end), err)
		_, err = w.Write(telem.UnaryFrame[cesium.ChannelKey](1, ts(30, 32, 33)))
		must(err)
		end, err = w.Commit()
		fmt.Println("  commit#2 end=", int64(end), err)
		fmt.Println("  close:", w.Close())
		uu, _ := db.VerifUnary(1)
		di := uu.VerifDomain().OpenIterator(verifx.DomainIterRange(telem.TimeRangeMax))
		for ok := di.SeekFirst(ctx); ok; ok = di.Next() {
			fmt.Println("  idx domain", int64(di.TimeRange().Start), int64(di.TimeRange().End), di.Size())
		}
		di.Close()
		fr, err := db.Read(ctx, telem.TimeRange{Start: 34, End: 100}, 1)
		fmt.Println("  db.Read([34,100)) ->", fr.Get(1).Series, err)
		fr, err = db.Read(ctx, telem.TimeRangeMax, 1)
		fmt.Println("  db.Read(all) ->", fr.Get(1).Series, err)
	case "r7": // delete cut snapped to epoch
		db := open(0)
		write(db, 16, 19, 20) // writer start 16 is before the first sample 19
		keys := []cesium.ChannelKey{1, 2}
		if len(os.Args) > 2 {
			keys = []cesium.ChannelKey{2}
		}
		fmt.Println("  delete", keys, "[20,30):", db.DeleteTimeRange(ctx, keys, telem.TimeRange{Start: 20, End: 30}))
		for _, k := range []cesium.ChannelKey{1, 2} {
			uu, _ := db.VerifUnary(k)
			di := uu.VerifDomain().OpenIterator(verifx.DomainIterRange(telem.TimeRangeMax))
			for ok := di.SeekLast(ctx); ok; ok = di.Prev() {
				fmt.Println("  ch", k, "domain (backwards)", int64(di.TimeRange().Start), int64(di.TimeRange().End), di.Size())
			}
			di.Close()
		}
		fr, err := db.Read(ctx, telem.TimeRangeMax, 1, 2)
		fmt.Println("  db.Read(all) ->", fr.Get(1).Series, fr.Get(2).Series, err)
	case "r8":
		db := open(64)
		f := false
		sess := func(start int64, chunks ...[]int64) {
			w, err := db.OpenWriter(ctx, cesium.WriterConfig{Start: telem.TimeStamp(start), Channels: []cesium.ChannelKey{1, 2}, EnableAutoCommit: &f})
			must(err)
			for _, c := range chunks {
				vals := make([]int64, len(c))
				_, err = w.Write(telem.MultiFrame([]cesium.ChannelKey{1, 2}, []telem.Series{ts(c...), telem.NewSeries(vals)}))
				must(err)
				_, err = w.Commit()
				must(err)
			}
			must(w.Close())
		}
		sess(40, []int64{40, 43, 46}, []int64{47, 49, 52, 53}, []int64{54, 57, 58})
		sess(16, []int64{19}, []int64{20})
		dump := func() {
			for _, k := range []cesium.ChannelKey{1, 2} {
				uu, _ := db.VerifUnary(k)
				di := uu.VerifDomain().OpenIterator(verifx.DomainIterRange(telem.TimeRangeMax))
				for ok := di.SeekLast(ctx); ok; ok = di.Prev() {
					fmt.Println("  ch", k, "domain (backwards)", int64(di.TimeRange().Start), int64(di.TimeRange().End), di.Size())
				}
				di.Close()
			}
		}
		dump()
		fmt.Println("  delete [20,59):", db.DeleteTimeRange(ctx, []cesium.ChannelKey{1, 2}, telem.TimeRange{Start: 20, End: 59}))
		dump()
	case "r5": // auto-span backwards from SeekLast with chunk 1
		db := open(0)
		write(db, 10, 10, 13)
		write(db, 20, 20, 23)
		it, err := db.OpenIterator(cesium.IteratorConfig{Channels: []cesium.ChannelKey{1}, Bounds: telem.TimeRange{Start: 0, End: 100}, AutoChunkSize: 1})
		must(err)
		show(it, "SeekLast", it.SeekLast())
		for i := 0; i < 5; i++ {
			ok := it.Prev(cesium.AutoSpan)
			show(it, "Prev(auto)", ok)
			fmt.Println("    err:", it.Error())
		}
		show(it, "SeekFirst", it.SeekFirst())
		show(it, "Next(2)", it.Next(2))
		for i := 0; i < 4; i++ {
			show(it, "Next(auto)", it.Next(cesium.AutoSpan))
		}
	}
}
