package main

import (
	"context"
	"fmt"
	"time"

	"github.com/synnaxlabs/cesium"
	xfs "github.com/synnaxlabs/x/io/fs"
	"github.com/synnaxlabs/x/telem"
)

func main() {
	ctx := context.Background()
	db, err := cesium.Open(ctx, "", cesium.WithFS(xfs.NewMem()), cesium.WithGCConfig(cesium.GCConfig{TryInterval: time.Hour}))
	if err != nil {
		panic(err)
	}
	must(db.CreateChannel(ctx, cesium.Channel{Key: 1, Name: "idx", IsIndex: true, DataType: telem.TimeStampT},
		cesium.Channel{Key: 2, Name: "d", Index: 1, DataType: telem.Int64T}))
	ts := func(v ...int64) telem.Series {
		o := make([]telem.TimeStamp, len(v))
		for i, x := range v {
			o[i] = telem.TimeStamp(x)
		}
		return telem.NewSeries(o)
	}
	w := func(start int64, t []int64) {
		vals := make([]int64, len(t))
		for i := range t {
			vals[i] = t[i] * 100
		}
		must(db.Write(ctx, telem.TimeStamp(start), telem.MultiFrame([]cesium.ChannelKey{1, 2}, []telem.Series{ts(t...), telem.NewSeries(vals)})))
	}
	w(10, []int64{10, 11, 12, 13, 14, 15, 16, 17, 18, 19})
	w(30, []int64{30, 31, 32})
	// delete from ts 13 (offset 3 samples = 24 bytes == size of 2nd domain) to start of 2nd domain
	err = db.DeleteTimeRange(ctx, []cesium.ChannelKey{2}, telem.TimeRange{Start: 13, End: 30})
	fmt.Println("delete err:", err)
	fr, err := db.Read(ctx, telem.TimeRangeMax, 2)
	fmt.Println("read err:", err)
	for _, s := range fr.Get(2).Series {
		fmt.Println(s.TimeRange.Start, s.TimeRange.End, telem.UnmarshalSeries[int64](s))
	}
	must(db.Close())
}

func must(err error) {
	if err != nil {
		panic(err)
	}
}
