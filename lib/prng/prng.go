// Package prng is a splitmix64 generator keyed by (seed, property, case#) so that every
// random choice a monitor makes is a pure function of VERIF_SEED and the case index.
package prng

import (
	"hash/fnv"
	"os"
	"strconv"
)

type R struct{ s uint64 }

func Seed() int64 {
	if v := os.Getenv("VERIF_SEED"); v != "" {
		if n, err := strconv.ParseInt(v, 10, 64); err == nil {
			return n
		}
	}
	return 1
}

func New(seed int64, prop string, c int) *R {
	h := fnv.New64a()
	h.Write([]byte(prop))
	r := &R{s: uint64(seed)*0x9E3779B97F4A7C15 ^ h.Sum64() ^ (uint64(c)+1)*0xBF58476D1CE4E5B9}
	r.U64()
	r.U64()
	return r
}

func (r *R) U64() uint64 {
	r.s += 0x9E3779B97F4A7C15
	z := r.s
	z = (z ^ (z >> 30)) * 0xBF58476D1CE4E5B9
	z = (z ^ (z >> 27)) * 0x94D049BB133111EB
	return z ^ (z >> 31)
}

// Intn returns a value in [0,n). n<=0 returns 0.
func (r *R) Intn(n int) int {
	if n <= 0 {
		return 0
	}
	return int(r.U64() % uint64(n))
}

// Range returns a value in [lo,hi] inclusive.
func (r *R) Range(lo, hi int) int {
	if hi <= lo {
		return lo
	}
	return lo + r.Intn(hi-lo+1)
}

func (r *R) I64n(n int64) int64 {
	if n <= 0 {
		return 0
	}
	return int64(r.U64() % uint64(n))
}

func (r *R) Bool() bool { return r.U64()&1 == 1 }

// Chance returns true with probability num/den.
func (r *R) Chance(num, den int) bool { return r.Intn(den) < num }

func (r *R) Float() float64 { return float64(r.U64()>>11) / float64(1<<53) }

func Pick[T any](r *R, xs []T) T { return xs[r.Intn(len(xs))] }

func Shuffle[T any](r *R, xs []T) {
	for i := len(xs) - 1; i > 0; i-- {
		j := r.Intn(i + 1)
		xs[i], xs[j] = xs[j], xs[i]
	}
}

func (r *R) Bytes(n int) []byte {
	b := make([]byte, n)
	for i := 0; i < n; i += 8 {
		v := r.U64()
		for j := 0; j < 8 && i+j < n; j++ {
			b[i+j] = byte(v >> (8 * j))
		}
	}
	return b
}
