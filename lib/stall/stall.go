// Package stall gives a state-based verdict when a watchdog fires: two full goroutine
// dumps a few seconds apart; "deadlock" iff the workload goroutines are the same set in
// both dumps and every one of them is parked in a channel / select / sync wait. A duration
// alone never yields a verdict.
package stall

import (
	"regexp"
	"runtime"
	"sort"
	"strings"
	"time"
)

type Verdict struct {
	Deadlock bool
	Reason   string
	Dump     string
}

var hdr = regexp.MustCompile(`(?m)^goroutine (\d+) \[([^\]]+)\]:`)

func dump() string {
	buf := make([]byte, 1<<20)
	for {
		n := runtime.Stack(buf, true)
		if n < len(buf) {
			return string(buf[:n])
		}
		buf = make([]byte, 2*len(buf))
	}
}

// states returns goroutine id -> state for goroutines whose stack mentions marker.
func states(d, marker string) map[string]string {
	out := map[string]string{}
	blocks := strings.Split(d, "\n\n")
	for _, b := range blocks {
		m := hdr.FindStringSubmatch(b)
		if m == nil || !strings.Contains(b, marker) {
			continue
		}
		st := m[2]
		if i := strings.Index(st, ","); i > 0 {
			st = st[:i]
		}
		out[m[1]] = st
	}
	return out
}

var parked = map[string]bool{
	"chan receive": true, "chan send": true, "select": true, "sync.Mutex.Lock": true,
	"sync.RWMutex.RLock": true, "sync.RWMutex.Lock": true, "sync.WaitGroup.Wait": true,
	"sync.Cond.Wait": true, "semacquire": true, "chan receive (nil chan)": true,
	"select (no cases)": true,
}

// Judge inspects the goroutines whose stacks contain marker (e.g. "synnaxlabs/cesium").
func Judge(marker string, gap time.Duration) Verdict {
	d1 := dump()
	time.Sleep(gap)
	d2 := dump()
	s1, s2 := states(d1, marker), states(d2, marker)
	// Lock cycle: two or more workload goroutines parked on a sync.(RW)Mutex with the very
	// same stack in both dumps. A mutex is only ever released by another goroutine's
	// Unlock; critical sections in the code under test never sleep, so goroutines that
	// sit on a mutex across two dumps taken seconds apart after the watchdog are stuck
	// on each other (or on one that is), whatever the unrelated goroutines do.
	st1, st2 := stacks(d1, marker), stacks(d2, marker)
	stuck := 0
	for id, a := range st1 {
		if b, ok := st2[id]; ok && a == b && strings.Contains(s1[id], "Mutex") {
			stuck++
		}
	}
	if stuck >= 2 {
		return Verdict{Deadlock: true, Reason: "lock cycle: " + itoa(stuck) + " workload goroutines parked on sync mutexes with identical stacks in two dumps", Dump: d2}
	}
	if len(s1) == 0 {
		return Verdict{Reason: "no workload goroutine found", Dump: d2}
	}
	ids := make([]string, 0, len(s1))
	for id := range s1 {
		ids = append(ids, id)
	}
	sort.Strings(ids)
	for _, id := range ids {
		st2, ok := s2[id]
		if !ok {
			return Verdict{Reason: "goroutine " + id + " finished between dumps (progress)", Dump: d2}
		}
		if st2 != s1[id] {
			return Verdict{Reason: "goroutine " + id + " changed state (progress)", Dump: d2}
		}
		if !parked[st2] {
			return Verdict{Reason: "goroutine " + id + " is " + st2 + " (not parked)", Dump: d2}
		}
	}
	if len(s2) != len(s1) {
		return Verdict{Reason: "goroutine set changed", Dump: d2}
	}
	// sleeping timers could still release them: any goroutine in "sleep" anywhere?
	if strings.Contains(d2, "[sleep") {
		return Verdict{Reason: "a sleeping goroutine exists that may release the waiters", Dump: d2}
	}
	return Verdict{Deadlock: true, Reason: "all workload goroutines parked in channel/sync waits in two dumps", Dump: d2}
}

// stacks returns goroutine id -> its stack text (function lines only) for goroutines
// whose stack mentions marker.
func stacks(d, marker string) map[string]string {
	out := map[string]string{}
	for _, b := range strings.Split(d, "\n\n") {
		m := hdr.FindStringSubmatch(b)
		if m == nil || !strings.Contains(b, marker) {
			continue
		}
		var fn []string
		for _, l := range strings.Split(b, "\n")[1:] {
			if !strings.HasPrefix(l, "\t") {
				if i := strings.LastIndex(l, "("); i > 0 {
					l = l[:i]
				}
				fn = append(fn, l)
			}
		}
		out[m[1]] = strings.Join(fn, ";")
	}
	return out
}

func itoa(n int) string {
	if n == 0 {
		return "0"
	}
	var b []byte
	for n > 0 {
		b = append([]byte{byte('0' + n%10)}, b...)
		n /= 10
	}
	return string(b)
}
