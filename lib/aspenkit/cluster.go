package aspenkit

// cluster.go: real aspen.DB clusters on in-memory engines over the fault-injecting
// transport, clients with unique-valued writes, subscribers, restart, and an observed
// (not timed) quiescence detector.

import (
	"context"
	"fmt"
	"sync"
	"time"

	"github.com/synnaxlabs/aspen"
	"github.com/synnaxlabs/aspen/verifx"
	"github.com/synnaxlabs/x/address"
	"github.com/synnaxlabs/x/change"
	xkv "github.com/synnaxlabs/x/kv"
	"github.com/synnaxlabs/x/kv/memkv"

	"verif/lib/prng"
)

type ClusterParams struct {
	Nodes           int
	KVInterval      time.Duration
	ClusterInterval time.Duration
}

func (p ClusterParams) withDefaults() ClusterParams {
	if p.Nodes == 0 {
		p.Nodes = 3
	}
	if p.KVInterval == 0 {
		p.KVInterval = 5 * time.Millisecond
	}
	if p.ClusterInterval == 0 {
		p.ClusterInterval = 10 * time.Millisecond
	}
	return p
}

// Notification is one change handed to a subscriber.
type Notification struct {
	Key   string `json:"key"`
	Del   bool   `json:"del,omitempty"`
	Value string `json:"value,omitempty"`
	Tx    int    `json:"tx"` // index of the TxReader it arrived in
}

// SubLog is the append-only log of one subscriber.
type SubLog struct {
	Node     int    `json:"node"` // node index
	Name     string `json:"name"`
	Filtered bool   `json:"filtered"` // IgnoreHostLeaseholder
	Epoch    int    `json:"epoch"`    // incarnation of the node's DB it was attached to
	Phase    string `json:"phase"`    // when it was attached
	mu       sync.Mutex
	events   []Notification
	txs      int
	// Stall, when non-nil, blocks the handler until it is closed (a subscriber that has
	// stopped keeping up); what it was handed before is still recorded.
	Stall chan struct{}
}

// Len is the number of notifications recorded so far.
func (s *SubLog) Len() int {
	s.mu.Lock()
	defer s.mu.Unlock()
	return len(s.events)
}

func (s *SubLog) Events() []Notification {
	s.mu.Lock()
	defer s.mu.Unlock()
	return append([]Notification(nil), s.events...)
}

func (s *SubLog) handler(_ context.Context, rd xkv.TxReader) {
	if s.Stall != nil {
		<-s.Stall
	}
	s.mu.Lock()
	defer s.mu.Unlock()
	for ch := range rd {
		n := Notification{Key: string(ch.Key), Tx: s.txs}
		if ch.Variant == change.VariantDelete {
			n.Del = true
		} else {
			n.Value = string(ch.Value)
		}
		s.events = append(s.events, n)
	}
	s.txs++
}

type Node struct {
	Idx   int
	Key   uint32
	Addr  address.Address
	Eng   xkv.DB
	DB    *aspen.DB
	Up    bool
	Epoch int
	// HighWater[i] = the local high-water mark read from the engine right before the
	// i-th restart (what start-up recovery will send to its peers).
	HighWater []int64
	Subs      []*SubLog
}

type Cluster struct {
	P     ClusterParams
	Net   *Net
	Nodes []*Node
}

func (c *Cluster) opts(n *Node, bootstrap bool) []aspen.Option {
	o := []aspen.Option{
		aspen.WithEngine(n.Eng),
		aspen.WithTransport(c.Net.NewTransport()),
		aspen.WithPropagationConfig(aspen.PropagationConfig{
			PledgeRetryInterval:   5 * time.Millisecond,
			PledgeRetryScale:      1,
			PledgeRequestTimeout:  2 * time.Second,
			ClusterGossipInterval: c.P.ClusterInterval,
			KVGossipInterval:      c.P.KVInterval,
		}),
	}
	if bootstrap {
		o = append(o, aspen.Bootstrap())
	}
	return o
}

// OpenCluster bootstraps node 1 and joins the others one after the other, then waits until
// every node's membership view contains every node.
func OpenCluster(ctx context.Context, r *prng.R, p ClusterParams) (*Cluster, error) {
	p = p.withDefaults()
	c := &Cluster{P: p, Net: NewNet(prng.New(int64(r.U64()>>1), "faultnet", 0))}
	for i := 0; i < p.Nodes; i++ {
		n := &Node{Idx: i, Addr: address.Newf("node%d:0", i+1), Eng: memkv.New()}
		c.Nodes = append(c.Nodes, n)
		var peers []address.Address
		if i > 0 {
			peers = []address.Address{c.Nodes[0].Addr}
		}
		octx, cancel := context.WithTimeout(ctx, 30*time.Second)
		db, err := aspen.Open(octx, "", n.Addr, peers, c.opts(n, i == 0)...)
		cancel()
		if err != nil {
			_ = c.Close()
			return nil, fmt.Errorf("open node %d: %w", i+1, err)
		}
		n.DB, n.Up, n.Key = db, true, uint32(db.Cluster.HostKey())
	}
	deadline := time.Now().Add(30 * time.Second)
	for {
		ok := true
		for _, n := range c.Nodes {
			if len(n.DB.Cluster.Nodes()) != p.Nodes {
				ok = false
			}
		}
		if ok {
			return c, nil
		}
		if time.Now().After(deadline) {
			_ = c.Close()
			return nil, fmt.Errorf("membership did not converge")
		}
		time.Sleep(2 * time.Millisecond)
	}
}

// AddNode opens one more node (index i = len(c.Nodes)) that joins through node 1. It
// does not wait for the membership views to converge (WaitMembership does) and does not
// touch c.Nodes, so clients may keep running; call Attach afterwards.
func (c *Cluster) AddNode(ctx context.Context, i int) (*Node, error) {
	n := &Node{Idx: i, Addr: address.Newf("node%d:0", i+1), Eng: memkv.New()}
	octx, cancel := context.WithTimeout(ctx, 30*time.Second)
	defer cancel()
	// inbound messages are refused until Open has returned, as with a real transport
	c.Net.SetDown(n.Addr, true, false)
	db, err := aspen.Open(octx, "", n.Addr, []address.Address{c.Nodes[0].Addr}, c.opts(n, false)...)
	if err != nil {
		_ = n.Eng.Close()
		return nil, err
	}
	c.Net.SetDown(n.Addr, false, false)
	n.DB, n.Up, n.Key = db, true, uint32(db.Cluster.HostKey())
	return n, nil
}

// Attach registers a node opened by AddNode.
func (c *Cluster) Attach(n *Node) {
	c.Nodes = append(c.Nodes, n)
	c.P.Nodes = len(c.Nodes)
}

// WaitMembership polls until every up node's view has all nodes.
func (c *Cluster) WaitMembership(timeout time.Duration) bool {
	deadline := time.Now().Add(timeout)
	for {
		ok := true
		for _, n := range c.Nodes {
			if n.Up && len(n.DB.Cluster.Nodes()) != len(c.Nodes) {
				ok = false
			}
		}
		if ok {
			return true
		}
		if time.Now().After(deadline) {
			return false
		}
		time.Sleep(2 * time.Millisecond)
	}
}

func (c *Cluster) Close() error {
	var first error
	for _, n := range c.Nodes {
		if n.Up && n.DB != nil {
			c.Net.SetDown(n.Addr, true, true)
			if err := n.DB.Close(); err != nil && first == nil {
				first = err
			}
			n.Up = false
		}
	}
	for _, n := range c.Nodes {
		if n.Eng != nil {
			_ = n.Eng.Close()
			n.Eng = nil
		}
	}
	return first
}

// Stop takes node i off the network and closes its DB; the engine survives.
func (c *Cluster) Stop(i int) error {
	n := c.Nodes[i]
	c.Net.SetDown(n.Addr, true, true)
	n.Up = false
	return n.DB.Close()
}

// Restart reopens node i on its engine. As with the real transports (Serve is called
// after kv.Open returned) the node accepts no inbound message until start-up recovery has
// finished.
func (c *Cluster) Restart(ctx context.Context, i int) error {
	n := c.Nodes[i]
	hw, err := verifx.LoadHighWater(ctx, verifx.KVConfig{Engine: n.Eng})
	if err != nil {
		return err
	}
	n.HighWater = append(n.HighWater, hw)
	c.Net.SetDown(n.Addr, true, false)
	octx, cancel := context.WithTimeout(ctx, 30*time.Second)
	defer cancel()
	db, err := aspen.Open(octx, "", n.Addr, nil, c.opts(n, false)...)
	if err != nil {
		c.Net.SetDown(n.Addr, true, true)
		return err
	}
	n.DB, n.Up = db, true
	n.Epoch++
	if got := uint32(db.Cluster.HostKey()); got != n.Key {
		return fmt.Errorf("node %d came back with key %d", n.Key, got)
	}
	c.Net.SetDown(n.Addr, false, false)
	return nil
}

// Subscribe attaches a recording subscriber to node i's current DB.
func (c *Cluster) Subscribe(i int, name string, filtered bool, phase string) *SubLog {
	return c.SubscribeStalled(i, name, filtered, phase, nil)
}

// SubscribeStalled is Subscribe with a handler that blocks until stall is closed.
func (c *Cluster) SubscribeStalled(i int, name string, filtered bool, phase string, stall chan struct{}) *SubLog {
	n := c.Nodes[i]
	s := &SubLog{Node: i, Name: name, Filtered: filtered, Epoch: n.Epoch, Phase: phase, Stall: stall}
	if filtered {
		n.DB.NewObservable(aspen.IgnoreHostLeaseholder).OnChange(s.handler)
	} else {
		n.DB.OnChange(s.handler)
	}
	n.Subs = append(n.Subs, s)
	return s
}

// Infected returns the operations node i's gossip store would emit next.
func (c *Cluster) Infected(ctx context.Context, i int) ([]verifx.Operation, error) {
	return c.Net.Probe(ctx, c.Nodes[i].Addr)
}

// WaitQuiesced returns nil once, on `streak` consecutive probes `spacing` apart, no up
// node had an infected operation and no operation-carrying gossip message was delivered
// in between. The timeout is a watchdog (-> inconclusive), not a verdict.
func (c *Cluster) WaitQuiesced(ctx context.Context, streak int, timeout time.Duration) error {
	spacing := 4 * c.P.KVInterval
	deadline := time.Now().Add(timeout)
	run := 0
	_, _, last, _ := c.Net.Counters()
	for {
		quiet := true
		var still []string
		for i, n := range c.Nodes {
			if !n.Up {
				continue
			}
			ops, err := c.Infected(ctx, i)
			if err != nil {
				return err
			}
			if len(ops) > 0 {
				quiet = false
				for _, op := range ops {
					still = append(still, fmt.Sprintf("node%d:%s@v%d", i+1, op.Key, int64(op.Version)))
				}
			}
		}
		_, _, now, _ := c.Net.Counters()
		moved := now != last
		if moved {
			quiet = false
		}
		last = now
		if quiet {
			run++
			if run >= streak {
				return nil
			}
		} else {
			run = 0
		}
		if time.Now().After(deadline) {
			if len(still) > 12 {
				still = still[:12]
			}
			return fmt.Errorf("no quiescence within %s (still infected: %v; op messages moving: %v)", timeout, still, moved)
		}
		time.Sleep(spacing)
	}
}

// State reads value+digest of every key on every up node.
func (c *Cluster) State(ctx context.Context, keys []string) (map[int]map[string]KeyState, error) {
	out := map[int]map[string]KeyState{}
	for i, n := range c.Nodes {
		if !n.Up {
			continue
		}
		m := map[string]KeyState{}
		for _, k := range keys {
			ks, err := ReadKey(ctx, n.Eng, k)
			if err != nil {
				return nil, err
			}
			m[k] = ks
		}
		out[i] = m
	}
	return out, nil
}

// WaitKey polls node i's engine until pred holds for key (watchdog timeout).
func (c *Cluster) WaitKey(ctx context.Context, i int, key string, timeout time.Duration, pred func(KeyState) bool) (KeyState, bool) {
	deadline := time.Now().Add(timeout)
	for {
		ks, err := ReadKey(ctx, c.Nodes[i].Eng, key)
		if err == nil && pred(ks) {
			return ks, true
		}
		if time.Now().After(deadline) {
			return ks, false
		}
		time.Sleep(time.Millisecond)
	}
}

// ---- clients ----

// KeySpec: one key, written by exactly one client (on node Writer), led by node Leader.
type KeySpec struct {
	Name   string `json:"name"`
	Writer int    `json:"writer"`
	Leader int    `json:"leader"`
}

// Write is one client operation and its outcome.
type Write struct {
	Key   string `json:"key"`
	Seq   int    `json:"seq"` // position in the key's issue order, across rounds
	Del   bool   `json:"del,omitempty"`
	Value string `json:"value,omitempty"`
	OK    bool   `json:"ok"`            // acknowledged
	Err   string `json:"err,omitempty"` // not acknowledged: may or may not have been applied
	Round int    `json:"round"`
}

// History is the per-key issue order (ground truth: one writer per key).
type History map[string][]Write

// RunRound lets every node's client issue, for each key it writes, nOps[k] in [minOps,
// maxOps] operations, concurrently (one goroutine per writer node), with random short
// pauses. About a third of the client transactions carry 2-3 operations on different
// keys of that writer (same or different leaseholders; aspen splits a transaction by
// leaseholder and does not promise atomicity across leaseholders). Values are unique and
// each key's operations are issued in order by its single writer, so the per-key issue
// order stays the ground truth. hist is extended. Returns the number of multi-op
// transactions committed.
func (c *Cluster) RunRound(ctx context.Context, r *prng.R, keys []KeySpec, round int, minOps, maxOps int, delPct int, hist History) int {
	var wg sync.WaitGroup
	var mu sync.Mutex
	multi := 0
	type keyState struct {
		ks      KeySpec
		left    int
		next    int
		lastDel bool
	}
	byWriter := map[int][]*keyState{}
	for _, ks := range keys {
		w, l := c.Nodes[ks.Writer], c.Nodes[ks.Leader]
		if !w.Up || !l.Up {
			continue
		}
		base := len(hist[ks.Name])
		byWriter[ks.Writer] = append(byWriter[ks.Writer], &keyState{
			ks: ks, left: r.Range(minOps, maxOps), next: base,
			lastDel: base == 0 || hist[ks.Name][base-1].Del,
		})
	}
	for wi := 0; wi < len(c.Nodes); wi++ {
		kss := byWriter[wi]
		if len(kss) == 0 {
			continue
		}
		w := c.Nodes[wi]
		kr := prng.New(int64(r.U64()>>1), fmt.Sprintf("writer/%d", wi), round)
		wg.Add(1)
		go func() {
			defer wg.Done()
			for {
				var live []*keyState
				for _, k := range kss {
					if k.left > 0 {
						live = append(live, k)
					}
				}
				if len(live) == 0 {
					return
				}
				prng.Shuffle(kr, live)
				n := 1
				if len(live) > 1 && kr.Chance(1, 3) {
					n = kr.Range(2, min(3, len(live)))
				}
				live = live[:n]
				octx, cancel := context.WithTimeout(ctx, 20*time.Second)
				tx := w.DB.OpenTx()
				var wrs []Write
				var err error
				for _, k := range live {
					l := c.Nodes[k.ks.Leader]
					wr := Write{Key: k.ks.Name, Seq: k.next, Round: round}
					del := !k.lastDel && kr.Intn(100) < delPct
					if del && k.ks.Writer != k.ks.Leader {
						// Delete takes no lease option: the client's node must know the key
						// (digest present) or it would claim the lease itself.
						if _, ok := c.WaitKey(octx, k.ks.Writer, k.ks.Name, 10*time.Second, func(s KeyState) bool { return s.HasDigest }); !ok {
							del = false
						}
					}
					if del {
						wr.Del = true
						err = tx.Delete(octx, []byte(k.ks.Name))
					} else {
						wr.Value = fmt.Sprintf("%s#%d", k.ks.Name, wr.Seq)
						if k.ks.Writer != k.ks.Leader {
							err = tx.Set(octx, []byte(k.ks.Name), []byte(wr.Value), aspen.NodeKey(l.Key))
						} else {
							err = tx.Set(octx, []byte(k.ks.Name), []byte(wr.Value))
						}
					}
					if err != nil {
						break
					}
					wrs = append(wrs, wr)
				}
				applied := err == nil
				if applied {
					err = tx.Commit(octx)
				}
				_ = tx.Close()
				cancel()
				mu.Lock()
				if len(wrs) > 1 && applied {
					multi++
				}
				for i, k := range live {
					k.left--
					if i >= len(wrs) {
						continue // never added to the transaction: not issued at all
					}
					wr := wrs[i]
					if !applied {
						continue // the transaction was never committed: nothing was issued
					}
					if err == nil {
						wr.OK = true
					} else {
						// a failed commit may have applied any subset of its operations
						wr.Err = err.Error()
					}
					k.next++
					k.lastDel = wr.Del
					hist[wr.Key] = append(hist[wr.Key], wr)
				}
				mu.Unlock()
				if p := kr.Intn(4); p > 0 {
					time.Sleep(time.Duration(kr.I64n(int64(time.Duration(p) * c.P.KVInterval))))
				}
			}
		}()
	}
	wg.Wait()
	return multi
}

// DoWrite issues one client write for ks synchronously and appends it to hist.
func (c *Cluster) DoWrite(ctx context.Context, hist History, ks KeySpec, del bool, round int) Write {
	w, l := c.Nodes[ks.Writer], c.Nodes[ks.Leader]
	wr := Write{Key: ks.Name, Seq: len(hist[ks.Name]), Round: round, Del: del}
	octx, cancel := context.WithTimeout(ctx, 20*time.Second)
	defer cancel()
	var err error
	switch {
	case del:
		err = w.DB.Delete(octx, []byte(ks.Name))
	case ks.Writer != ks.Leader:
		wr.Value = fmt.Sprintf("%s#%d", ks.Name, wr.Seq)
		err = w.DB.Set(octx, []byte(ks.Name), []byte(wr.Value), aspen.NodeKey(l.Key))
	default:
		wr.Value = fmt.Sprintf("%s#%d", ks.Name, wr.Seq)
		err = w.DB.Set(octx, []byte(ks.Name), []byte(wr.Value))
	}
	if err == nil {
		wr.OK = true
	} else {
		wr.Err = err.Error()
	}
	hist[ks.Name] = append(hist[ks.Name], wr)
	return wr
}

// WaitAll polls until pred holds for key on every up node.
func (c *Cluster) WaitAll(ctx context.Context, key string, timeout time.Duration, pred func(KeyState) bool) bool {
	for i, n := range c.Nodes {
		if !n.Up {
			continue
		}
		if _, ok := c.WaitKey(ctx, i, key, timeout, pred); !ok {
			return false
		}
	}
	return true
}

// WaitNoInfected polls until none of the given nodes has an infected operation.
func (c *Cluster) WaitNoInfected(ctx context.Context, nodes []int, timeout time.Duration) bool {
	deadline := time.Now().Add(timeout)
	for {
		clean := true
		for _, i := range nodes {
			ops, err := c.Infected(ctx, i)
			if err != nil || len(ops) > 0 {
				clean = false
			}
		}
		if clean {
			return true
		}
		if time.Now().After(deadline) {
			return false
		}
		time.Sleep(2 * c.P.KVInterval)
	}
}
