package aspenkit

// clusterrun.go: the randomised cluster workload shared by C06 and C13: rounds of
// unique-valued client writes under injected message faults, separated by observed
// quiescence; optionally one node is stopped for a round and restarted (start-up
// recovery). At every quiescent point a checkpoint (engine state of every node,
// subscriber logs) is handed to the property's checker.

import (
	"context"
	"fmt"
	"sync"
	"time"

	"verif/lib/prng"
)

type ClusterSpec struct {
	Nodes       int       `json:"nodes"`
	Keys        []KeySpec `json:"keys"`
	Profile     string    `json:"fault_profile"`
	Restart     bool      `json:"restart"`
	RestartNode int       `json:"restart_node,omitempty"`
	Rounds      int       `json:"rounds"`
}

type Checkpoint struct {
	Phase    string                      `json:"phase"`
	Round    int                         `json:"round"`
	Up       []bool                      `json:"up"`
	Epochs   []int                       `json:"epochs"`
	State    map[int]map[string]KeyState `json:"state"`
	Infected map[int][]string            `json:"infected,omitempty"`
	// HistLen[k] = number of client ops on k issued so far
	HistLen  map[string]int `json:"hist_len"`
	Extended bool           `json:"extended"`
	// NotQuiescent: the quiescence watchdog expired; only oracles that do not need a
	// quiescent state may use this checkpoint.
	NotQuiescent bool                       `json:"not_quiescent,omitempty"`
	Subs         map[*SubLog][]Notification `json:"-"`
}

type ClusterTrace struct {
	Spec         ClusterSpec   `json:"spec"`
	Hist         History       `json:"history"`
	Checkpoints  []*Checkpoint `json:"checkpoints"`
	Cluster      *Cluster      `json:"-"`
	Inconclusive string        `json:"inconclusive,omitempty"`
	MultiOpTxs   int           `json:"multi_op_txs"`
	// DownRounds[node] = rounds during which the node was stopped
	DownRounds map[int][]int `json:"down_rounds,omitempty"`
	// RestartBaseline[node] = engine state read right after the subscribers were attached
	// to the restarted node (changes before that instant had no subscriber to notify).
	RestartBaseline map[int]map[string]KeyState `json:"restart_baseline,omitempty"`
}

// FaultProfiles: named per-channel fault rates (percent per message).
var FaultProfiles = map[string]Faults{}
var faultProfileNames []string

func init() {
	ms := time.Millisecond
	add := func(name string, f Faults) {
		FaultProfiles[name] = f
		faultProfileNames = append(faultProfileNames, name)
	}
	add("none", Faults{})
	add("light", Faults{
		ChTx:       {DropReq: 5, DropRes: 5, Dup: 5, Delay: 10, MaxDelay: 10 * ms},
		ChFeedback: {DropReq: 5, Delay: 10, MaxDelay: 10 * ms},
		ChLease:    {DropReq: 3, DropRes: 2, Delay: 10, MaxDelay: 5 * ms},
	})
	add("lossy", Faults{
		ChTx:       {DropReq: 30, DropRes: 20},
		ChFeedback: {DropReq: 40},
		ChLease:    {DropReq: 10, DropRes: 10},
		ChGossip:   {DropReq: 20},
	})
	add("dup", Faults{
		ChTx:       {Dup: 50, Delay: 10, MaxDelay: 5 * ms},
		ChFeedback: {Dup: 30},
	})
	add("slow", Faults{
		ChTx:       {Delay: 60, MaxDelay: 30 * ms},
		ChFeedback: {Delay: 80, MaxDelay: 60 * ms},
		ChLease:    {Delay: 30, MaxDelay: 10 * ms},
	})
	add("slow-feedback", Faults{
		ChFeedback: {Delay: 100, MaxDelay: 40 * ms},
	})
}

// QuiesceWatchdog bounds every wait for observed quiescence (expiry -> inconclusive).
var QuiesceWatchdog = 45 * time.Second

// Checker is the property oracle: called at every quiescent checkpoint. With report=false
// it only says whether the checkpoint satisfies it (a failing checkpoint is re-taken after
// a much longer observed quiescence); with report=true it reports.
type Checker func(t *ClusterTrace, cp *Checkpoint, report bool) bool

// GenClusterSpec draws a case.
func GenClusterSpec(r *prng.R) ClusterSpec {
	s := ClusterSpec{Nodes: r.Range(3, 4), Rounds: 2}
	nk := r.Range(3, 6)
	for i := 0; i < nk; i++ {
		k := KeySpec{Name: fmt.Sprintf("key%d", i), Writer: r.Intn(s.Nodes)}
		k.Leader = k.Writer
		if r.Chance(1, 3) {
			k.Leader = (k.Writer + 1 + r.Intn(s.Nodes-1)) % s.Nodes
		}
		s.Keys = append(s.Keys, k)
	}
	s.Profile = prng.Pick(r, faultProfileNames)
	if r.Chance(1, 3) {
		s.Restart = true
		s.RestartNode = r.Intn(s.Nodes)
		s.Rounds = 3
	}
	return s
}

// TakeCheckpoint snapshots every up node (engine state, infected set, subscriber logs).
func (t *ClusterTrace) TakeCheckpoint(ctx context.Context, phase string, round int, keys []string) (*Checkpoint, error) {
	c := t.Cluster
	cp := &Checkpoint{Phase: phase, Round: round, HistLen: map[string]int{}, Infected: map[int][]string{}, Subs: map[*SubLog][]Notification{}}
	for i, n := range c.Nodes {
		cp.Up = append(cp.Up, n.Up)
		cp.Epochs = append(cp.Epochs, n.Epoch)
		if n.Up {
			ops, err := c.Infected(ctx, i)
			if err != nil {
				return nil, err
			}
			for _, op := range ops {
				cp.Infected[i] = append(cp.Infected[i], fmt.Sprintf("%s@v%d", op.Key, int64(op.Version)))
			}
		}
		for _, s := range n.Subs {
			cp.Subs[s] = s.Events()
		}
	}
	st, err := c.State(ctx, keys)
	if err != nil {
		return nil, err
	}
	cp.State = st
	for k, h := range t.Hist {
		cp.HistLen[k] = len(h)
	}
	return cp, nil
}

// QuiesceAndCheck waits for observed quiescence, takes a checkpoint and runs the checker;
// on failure it waits for a far longer quiescent streak and re-takes it before reporting.
func (t *ClusterTrace) QuiesceAndCheck(ctx context.Context, phase string, round int, keys []string, check Checker) bool {
	c := t.Cluster
	if err := c.WaitQuiesced(ctx, 8, QuiesceWatchdog); err != nil {
		t.Inconclusive = "no-quiescence:" + phase + ": " + err.Error()
		if cp, err := t.TakeCheckpoint(ctx, phase, round, keys); err == nil && check != nil {
			cp.NotQuiescent = true
			check(t, cp, true)
		}
		return false
	}
	cp, err := t.TakeCheckpoint(ctx, phase, round, keys)
	if err != nil {
		t.Inconclusive = "checkpoint-error:" + err.Error()
		return false
	}
	if check == nil || check(t, cp, false) {
		t.Checkpoints = append(t.Checkpoints, cp)
		return true
	}
	if err := c.WaitQuiesced(ctx, 50, QuiesceWatchdog); err != nil {
		t.Inconclusive = "no-quiescence-extended:" + phase + ": " + err.Error()
		return false
	}
	cp, err = t.TakeCheckpoint(ctx, phase, round, keys)
	if err != nil {
		t.Inconclusive = "checkpoint-error:" + err.Error()
		return false
	}
	cp.Extended = true
	check(t, cp, true) // sees t.Checkpoints without cp: "previous checkpoint" stays the previous one
	t.Checkpoints = append(t.Checkpoints, cp)
	return true
}

// RunClusterCase executes spec. The cluster in the returned trace is already closed; its
// Net observations remain readable.
func RunClusterCase(ctx context.Context, r *prng.R, spec ClusterSpec, check Checker) (*ClusterTrace, error) {
	c, err := OpenCluster(ctx, r, ClusterParams{Nodes: spec.Nodes})
	if err != nil {
		return nil, err
	}
	t := &ClusterTrace{Spec: spec, Hist: History{}, Cluster: c, DownRounds: map[int][]int{}, RestartBaseline: map[int]map[string]KeyState{}}
	defer func() { _ = c.Close() }()
	var keys []string
	for _, k := range spec.Keys {
		keys = append(keys, k.Name)
	}
	for i := range c.Nodes {
		c.Subscribe(i, "all", false, "start")
		c.Subscribe(i, "remote-only", true, "start")
	}
	faults := FaultProfiles[spec.Profile]
	for round := 0; round < spec.Rounds; round++ {
		down := -1
		if spec.Restart && round == 1 {
			down = spec.RestartNode
			if err := c.Stop(down); err != nil {
				t.Inconclusive = "stop-error:" + err.Error()
				return t, nil
			}
			t.DownRounds[down] = append(t.DownRounds[down], round)
		}
		var wg sync.WaitGroup
		if round == 1 {
			// subscribers that attach while traffic is flowing
			for i, n := range c.Nodes {
				if !n.Up {
					continue
				}
				d := time.Duration(r.I64n(int64(20 * time.Millisecond)))
				wg.Add(1)
				go func(i int) {
					defer wg.Done()
					time.Sleep(d)
					c.Subscribe(i, "all-mid", false, "mid")
					c.Subscribe(i, "remote-only-mid", true, "mid")
				}(i)
			}
		}
		c.Net.SetFaults(faults)
		t.MultiOpTxs += c.RunRound(ctx, r, spec.Keys, round, 4, 9, 25, t.Hist)
		wg.Wait()
		c.Net.FaultsOff()
		if !t.QuiesceAndCheck(ctx, fmt.Sprintf("after-round-%d", round), round, keys, check) {
			return t, nil
		}
		if down >= 0 {
			if err := c.Restart(ctx, down); err != nil {
				t.Inconclusive = "restart-error:" + err.Error()
				return t, nil
			}
			c.Subscribe(down, "all", false, "restart")
			c.Subscribe(down, "remote-only", true, "restart")
			if st, err := c.State(ctx, keys); err == nil {
				t.RestartBaseline[down] = st[down]
			}
			if !t.QuiesceAndCheck(ctx, "after-restart", round, keys, check) {
				return t, nil
			}
		}
	}
	return t, nil
}
