// Package aspenkit drives the real aspen key-value pipeline for the C06 / C13 monitors.
//
// ingress.go: deterministic, timer-free delivery of generated operation sets into the
// real filterPersist segment (gossip ingress) and the real versionAssigner->persist local
// path of R replicas (through the verif-tagged hooks in aspen/internal/kv), recording a
// trace (pre/post engine state, accepted/rejected split) that the property oracles
// evaluate. Nothing in this file decides a verdict.
package aspenkit

import (
	"context"
	"errors"
	"fmt"
	"sort"

	"github.com/synnaxlabs/aspen/verifx"
	"github.com/synnaxlabs/x/change"
	xkv "github.com/synnaxlabs/x/kv"
	"github.com/synnaxlabs/x/kv/memkv"
	"github.com/synnaxlabs/x/query"
	"github.com/synnaxlabs/x/version"

	"verif/lib/prng"
)

// Op is a generated or locally produced operation, JSON-able for witnesses.
type Op struct {
	ID      int    `json:"id"`
	Key     string `json:"key"`
	Del     bool   `json:"del,omitempty"`
	Value   string `json:"value,omitempty"`
	Version int64  `json:"version"`
	Lease   uint32 `json:"lease"`
	// Origin: 0 = remote op of the generated set, else the replica id that produced it
	// through the local write path.
	Origin uint32 `json:"origin,omitempty"`
	// Lost: a local op that the local path did not forward at commit (it is therefore
	// never gossiped; only its origin ever "received" it).
	Lost bool `json:"lost,omitempty"`
}

func (o Op) String() string {
	v := "set=" + o.Value
	if o.Del {
		v = "del"
	}
	return fmt.Sprintf("#%d(%s %s v%d@%d)", o.ID, o.Key, v, o.Version, o.Lease)
}

// Newer reports whether a wins against b under the STATEMENT's rule: higher version wins,
// equal versions go to the higher leaseholder.
func Newer(av int64, al uint32, bv int64, bl uint32) bool {
	if av != bv {
		return av > bv
	}
	return al > bl
}

// KeyState is what a replica's engine holds for one key.
type KeyState struct {
	HasDigest bool   `json:"has_digest"`
	Version   int64  `json:"version,omitempty"`
	Lease     uint32 `json:"lease,omitempty"`
	DigestDel bool   `json:"digest_del,omitempty"`
	Present   bool   `json:"present"`
	Value     string `json:"value,omitempty"`
}

func (k KeyState) String() string {
	if !k.HasDigest {
		if k.Present {
			return "nodigest,value=" + k.Value
		}
		return "empty"
	}
	s := fmt.Sprintf("v%d@%d", k.Version, k.Lease)
	if k.DigestDel {
		s += ",del"
	}
	if k.Present {
		s += ",value=" + k.Value
	} else {
		s += ",absent"
	}
	return s
}

// ReadKey reads value and digest of key from an engine. The two reads are not atomic with
// respect to a concurrently committing pipeline, so the pair is re-read until the digest is
// the same before and after the value read.
func ReadKey(ctx context.Context, eng xkv.Reader, key string) (KeyState, error) {
	var prev KeyState
	for i := 0; ; i++ {
		ks, err := readKeyOnce(ctx, eng, key)
		if err != nil {
			return ks, err
		}
		if i > 0 && ks == prev || i >= 8 {
			return ks, nil
		}
		prev = ks
	}
}

func readKeyOnce(ctx context.Context, eng xkv.Reader, key string) (KeyState, error) {
	var ks KeyState
	d, err := verifx.GetDigest(ctx, eng, []byte(key))
	if err == nil {
		ks.HasDigest = true
		ks.Version = int64(d.Version)
		ks.Lease = uint32(d.Leaseholder)
		ks.DigestDel = d.Variant == change.VariantDelete
	} else if !errors.Is(err, query.ErrNotFound) {
		return ks, err
	}
	v, closer, err := eng.Get(ctx, []byte(key))
	if err == nil {
		ks.Present = true
		ks.Value = string(v)
		_ = closer.Close()
	} else if !errors.Is(err, query.ErrNotFound) {
		return ks, err
	}
	return ks, nil
}

// Step is one recorded delivery to one replica.
type Step struct {
	Replica  int                 `json:"replica"` // index
	Kind     string              `json:"kind"`    // "batch" | "local"
	Ops      []int               `json:"ops"`     // delivered op ids in batch order (local: the produced op ids)
	Accepted []int               `json:"accepted"`
	Rejected []int               `json:"rejected"`
	Pre      map[string]KeyState `json:"pre"`
	Post     map[string]KeyState `json:"post"`
	Err      string              `json:"err,omitempty"`
	// local steps: index of the step before which the transaction's leases were decided
	LeaseDecidedAt int `json:"lease_decided_at,omitempty"`
}

// IngressTrace is the full record of one case.
type IngressTrace struct {
	ReplicaIDs []uint32 `json:"replica_ids"`
	Keys       []string `json:"keys"`
	Ops        []Op     `json:"ops"` // registry, index = ID (remote first, local ops appended)
	Steps      []Step   `json:"steps"`
	// Delivered[r] = set of op ids replica r has received (ingress) or produced (local).
	Delivered []map[int]bool        `json:"-"`
	Final     []map[string]KeyState `json:"final"`
	Shape     string                `json:"shape"`
	// Counters
	NBatches, NLocal, NDupDeliveries, NTies int
	// local transactions: ops in them, ops that lost at commit, multi-op transactions,
	// transactions with both a winner and a loser
	NLocalOps, NLocalLost, NLocalMulti, NLocalMixed int
}

type replica struct {
	id    uint32
	eng   xkv.DB
	in    *verifx.Ingress
	loc   *verifx.Local
	queue []int
	// open local transaction: ops whose lease was decided at step pendingAt
	pending   []Op
	pendingAt int
	nextBase  int64
}

// SetOperation builds the gossip form of a Set from what a node's state shows for it.
func SetOperation(key, value string, ver int64, lease uint32) verifx.Operation {
	return Op{Key: key, Value: value, Version: ver, Lease: lease}.toOperation()
}

func (o Op) toOperation() verifx.Operation {
	op := verifx.Operation{
		Change:      xkv.Change{Key: []byte(o.Key), Variant: change.VariantSet},
		Version:     version.Counter(o.Version),
		Leaseholder: verifx.NodeKey(o.Lease),
	}
	if o.Del {
		op.Variant = change.VariantDelete
	} else {
		op.Value = []byte(o.Value)
	}
	return op
}

// IngressParams bounds the generator.
type IngressParams struct {
	MaxReplicas, MaxKeys, MaxRemoteOps, MaxVersion, MaxLocal int
}

var DefaultIngressParams = IngressParams{MaxReplicas: 4, MaxKeys: 4, MaxRemoteOps: 25, MaxVersion: 7, MaxLocal: 6}

// RunIngress generates one case from r and executes it against real pipeline stages.
func RunIngress(ctx context.Context, r *prng.R, p IngressParams) (*IngressTrace, error) {
	nRep := r.Range(2, p.MaxReplicas)
	nKeys := r.Range(1, p.MaxKeys)
	t := &IngressTrace{}
	for i := 0; i < nKeys; i++ {
		t.Keys = append(t.Keys, fmt.Sprintf("k%d", i))
	}
	// replica ids are even, remote leaseholders odd: both lower and higher neighbours
	// exist for the tie-break, and remote ops never claim a replica's own counter.
	reps := make([]*replica, nRep)
	for i := range reps {
		id := uint32(2 * (i + 1))
		eng := memkv.New()
		cfg := verifx.KVConfig{Engine: eng}
		loc, err := verifx.NewLocal(ctx, cfg)
		if err != nil {
			return nil, err
		}
		reps[i] = &replica{id: id, eng: eng, in: verifx.NewIngress(cfg), loc: loc}
		t.ReplicaIDs = append(t.ReplicaIDs, id)
		t.Delivered = append(t.Delivered, map[int]bool{})
	}
	defer func() {
		for _, rp := range reps {
			_ = rp.eng.Close()
		}
	}()
	// Remote op set: per remote leaseholder a set of distinct versions (a leaseholder's
	// counter never repeats), each on a random key. Ties across leaseholders on a key are
	// deliberate and frequent because the version range is tiny.
	leases := []uint32{1, 3, 5, 7, 9}
	nLease := r.Range(1, 3)
	prng.Shuffle(r, leases)
	leases = leases[:nLease]
	nRemote := r.Range(5, p.MaxRemoteOps)
	maxV := r.Range(3, p.MaxVersion)
	used := map[[2]int64]bool{}
	for len(t.Ops) < nRemote {
		l := prng.Pick(r, leases)
		v := int64(r.Range(1, maxV))
		if used[[2]int64{int64(l), v}] {
			if len(used) >= nLease*maxV {
				break
			}
			continue
		}
		used[[2]int64{int64(l), v}] = true
		o := Op{ID: len(t.Ops), Key: prng.Pick(r, t.Keys), Version: v, Lease: l}
		if r.Chance(1, 4) {
			o.Del = true
		} else {
			o.Value = fmt.Sprintf("r%d", o.ID)
		}
		t.Ops = append(t.Ops, o)
	}
	// Per-replica delivery multiset: every op at least once, some twice or three times,
	// own permutation.
	for ri, rp := range reps {
		for _, o := range t.Ops {
			n := 1
			if r.Chance(1, 3) {
				n = 2
				if r.Chance(1, 3) {
					n = 3
				}
			}
			for j := 0; j < n; j++ {
				rp.queue = append(rp.queue, o.ID)
			}
			t.NDupDeliveries += n - 1
		}
		prng.Shuffle(r, rp.queue)
		_ = ri
	}
	// how eager this case is to batch and to write locally
	batchMax := prng.Pick(r, []int{1, 2, 3, 5, 8, 1000})
	localPct := prng.Pick(r, []int{0, 5, 10, 20, 35})
	nLocal := 0
	snapshot := func(rp *replica) (map[string]KeyState, error) {
		m := make(map[string]KeyState, len(t.Keys))
		for _, k := range t.Keys {
			ks, err := readKeyOnce(ctx, rp.eng, k) // nothing runs concurrently here
			if err != nil {
				return nil, err
			}
			m[k] = ks
		}
		return m, nil
	}
	remaining := func() int {
		n := 0
		for _, rp := range reps {
			n += len(rp.queue)
		}
		return n
	}
	insertAt := func(q []int, pos int, id int) []int {
		q = append(q, 0)
		copy(q[pos+1:], q[pos:])
		q[pos] = id
		return q
	}
	anyPending := func() bool {
		for _, rp := range reps {
			if len(rp.pending) > 0 {
				return true
			}
		}
		return false
	}
	// begin: the replica's client adds 1-3 ops on distinct keys to a transaction. The
	// lease is decided NOW, as tx.Set/tx.Delete do: legal only for keys that have no
	// digest here or whose digest is led by this replica. The transaction commits later.
	begin := func(rp *replica, state map[string]KeyState) {
		n := r.Range(1, 3)
		seenKey := map[string]bool{}
		for j := 0; j < n; j++ {
			k := prng.Pick(r, t.Keys)
			ks := state[k]
			if (ks.HasDigest && ks.Lease != rp.id) || seenKey[k] {
				continue
			}
			seenKey[k] = true
			o := Op{Key: k, Lease: rp.id, Origin: rp.id}
			if r.Chance(1, 4) {
				o.Del = true
			}
			rp.pending = append(rp.pending, o)
		}
		rp.pendingAt = len(t.Steps)
	}
	// commit: the pending transaction goes through the real versionAssigner -> persist
	// path. Whatever that path forwards is what the real pipeline hands to the persist
	// splitter (observers, gossip store): only those ops are gossiped to the others.
	commit := func(ri int, rp *replica, pre map[string]KeyState) error {
		specs := rp.pending
		rp.pending = nil
		var req verifx.TxRequest
		req.Leaseholder = verifx.NodeKey(rp.id)
		for i := range specs {
			specs[i].ID = len(t.Ops) + i
			if !specs[i].Del {
				specs[i].Value = fmt.Sprintf("l%d", specs[i].ID)
			}
			req.Operations = append(req.Operations, specs[i].toOperation())
		}
		out, ok, err := rp.loc.Apply(ctx, req)
		st := Step{Replica: ri, Kind: "local", Pre: pre, LeaseDecidedAt: rp.pendingAt}
		if err != nil {
			st.Err = fmt.Sprintf("local apply ok=%v err=%v", ok, err)
		}
		// versions: the i-th op of a request gets counter+i+1. Read the base off a
		// forwarded op when there is one, else continue from the previous request.
		base := rp.nextBase
		fwd := map[string]verifx.Operation{}
		if ok {
			for _, oo := range out.Operations {
				fwd[string(oo.Key)] = oo
			}
		}
		for i, o := range specs {
			if oo, isFwd := fwd[o.Key]; isFwd {
				base = int64(oo.Version) - int64(i) - 1
				break
			}
		}
		rp.nextBase = base + int64(len(specs))
		winners, losers := 0, 0
		for i := range specs {
			specs[i].Version = base + int64(i) + 1
			if oo, isFwd := fwd[specs[i].Key]; isFwd {
				specs[i].Version = int64(oo.Version)
				winners++
			} else {
				specs[i].Lost = true
				losers++
			}
		}
		for _, o := range specs {
			t.Ops = append(t.Ops, o)
			st.Ops = append(st.Ops, o.ID)
			t.Delivered[ri][o.ID] = true
			if o.Lost {
				st.Rejected = append(st.Rejected, o.ID)
				continue
			}
			st.Accepted = append(st.Accepted, o.ID)
			// gossip it to everybody else once or twice, and back to its origin
			for qi, q := range reps {
				n := 1
				if r.Chance(1, 3) {
					n = 2
				}
				if qi == ri && !r.Chance(1, 2) {
					continue
				}
				for j := 0; j < n; j++ {
					q.queue = insertAt(q.queue, r.Intn(len(q.queue)+1), o.ID)
				}
			}
		}
		var serr error
		if st.Post, serr = snapshot(rp); serr != nil {
			return serr
		}
		t.Steps = append(t.Steps, st)
		t.NLocal++
		t.NLocalOps += len(specs)
		t.NLocalLost += losers
		if len(specs) > 1 {
			t.NLocalMulti++
		}
		if winners > 0 && losers > 0 {
			t.NLocalMixed++
		}
		nLocal++
		return nil
	}
	if localPct > 0 {
		// transactions opened before anything was delivered: every key is still free, so
		// these are the ones most likely to race with a remote creation of the same key
		for _, rp := range reps {
			if r.Chance(1, 2) {
				begin(rp, map[string]KeyState{})
			}
		}
	}
	for remaining() > 0 || anyPending() {
		ri := r.Intn(nRep)
		rp := reps[ri]
		pre, err := snapshot(rp)
		if err != nil {
			return nil, err
		}
		if len(rp.pending) > 0 && (remaining() == 0 || r.Chance(1, 4)) {
			if err := commit(ri, rp, pre); err != nil {
				return nil, err
			}
			continue
		}
		if len(rp.pending) == 0 && nLocal < p.MaxLocal && remaining() > 0 && r.Intn(100) < localPct {
			begin(rp, pre)
			if len(rp.pending) > 0 && r.Chance(1, 2) {
				// committed at once: no window between lease decision and commit
				if err := commit(ri, rp, pre); err != nil {
					return nil, err
				}
			}
			continue
		}
		if len(rp.queue) == 0 {
			continue
		}
		n := r.Range(1, min(batchMax, len(rp.queue)))
		ids := append([]int(nil), rp.queue[:n]...)
		rp.queue = rp.queue[n:]
		var req verifx.TxRequest
		req.Sender = verifx.NodeKey(99)
		for _, id := range ids {
			req.Operations = append(req.Operations, t.Ops[id].toOperation())
			t.Delivered[ri][id] = true
		}
		acc, rej, err := rp.in.Deliver(ctx, req)
		st := Step{Replica: ri, Kind: "batch", Ops: ids, Pre: pre}
		if err != nil {
			st.Err = err.Error()
		}
		st.Accepted = t.idsOf(acc)
		st.Rejected = t.idsOf(rej)
		if st.Post, err = snapshot(rp); err != nil {
			return nil, err
		}
		t.Steps = append(t.Steps, st)
		t.NBatches++
	}
	for _, rp := range reps {
		f, err := snapshot(rp)
		if err != nil {
			return nil, err
		}
		t.Final = append(t.Final, f)
	}
	// ties: pairs of ops on one key with equal version and different leaseholder
	byKV := map[string]int{}
	for _, o := range t.Ops {
		byKV[fmt.Sprintf("%s/%d", o.Key, o.Version)]++
	}
	for _, n := range byKV {
		if n > 1 {
			t.NTies += n - 1
		}
	}
	t.Shape = t.shape()
	return t, nil
}

func (t *IngressTrace) idsOf(ops []verifx.Operation) []int {
	out := make([]int, 0, len(ops))
	for _, op := range ops {
		out = append(out, t.Lookup(string(op.Key), int64(op.Version), uint32(op.Leaseholder)))
	}
	return out
}

// Lookup finds the op id owning (key, version, lease); -1 if none.
func (t *IngressTrace) Lookup(key string, version int64, lease uint32) int {
	for _, o := range t.Ops {
		if o.Key == key && o.Version == version && o.Lease == lease {
			return o.ID
		}
	}
	return -1
}

// MaxOp returns, for key, the op that is maximal under the statement's rule among ids
// (nil if none).
func (t *IngressTrace) MaxOp(key string, ids map[int]bool) *Op {
	var best *Op
	for id := range ids {
		o := t.Ops[id]
		if o.Key != key {
			continue
		}
		if best == nil || Newer(o.Version, o.Lease, best.Version, best.Lease) {
			oo := o
			best = &oo
		}
	}
	return best
}

func (t *IngressTrace) shape() string {
	// normalised: the op set and the per-replica delivery order
	s := fmt.Sprintf("R%d;", len(t.ReplicaIDs))
	for _, o := range t.Ops {
		s += fmt.Sprintf("%s:%d@%d:%v:%d,", o.Key, o.Version, o.Lease, o.Del, o.Origin)
	}
	for _, st := range t.Steps {
		s += fmt.Sprintf("|%d%s%v", st.Replica, st.Kind[:1], st.Ops)
	}
	return s
}

// SortedKeys is a small helper for deterministic iteration.
func SortedKeys[V any](m map[string]V) []string {
	ks := make([]string, 0, len(m))
	for k := range m {
		ks = append(ks, k)
	}
	sort.Strings(ks)
	return ks
}
