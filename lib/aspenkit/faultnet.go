package aspenkit

// faultnet.go: a fault-injecting, observing decorator around aspen's in-memory transport
// (aspen/transport/mock). All faults are applied on the client side of a call: drop the
// request (never delivered), drop the response (delivered, caller sees an error),
// duplicate (delivered twice), delay (delivered after a pause). Directed schedules can
// also hold back feedback messages for one node and release them on command, silence the
// operation gossip a node sends, and take nodes down (every call to them fails).

import (
	"context"
	"fmt"
	"go/types"
	"sync"
	"time"

	"github.com/synnaxlabs/alamos"
	"github.com/synnaxlabs/aspen"
	amock "github.com/synnaxlabs/aspen/transport/mock"
	"github.com/synnaxlabs/aspen/verifx"
	"github.com/synnaxlabs/freighter"
	"github.com/synnaxlabs/x/address"
	"github.com/synnaxlabs/x/errors"

	"verif/lib/prng"
)

type Chan int

const (
	ChTx Chan = iota
	ChFeedback
	ChLease
	ChGossip
	ChPledge
	ChRecovery
	nChan
)

var chanNames = [...]string{"tx", "feedback", "lease", "cluster", "pledge", "recovery"}

// Rates are percentages per message for one channel.
type Rates struct {
	DropReq, DropRes, Dup, Delay int
	MaxDelay                     time.Duration
}

type Faults [nChan]Rates

var errInjected = errors.New("[faultnet] injected message loss")
var errDown = errors.New("[faultnet] target node is down")

type fbKey struct {
	target  address.Address
	key     string
	version int64
}

type heldFeedback struct {
	send func()
	msg  verifx.FeedbackMessage
}

// Net is one simulated network shared by all nodes of a cluster.
type Net struct {
	mock *amock.Network
	mu   sync.Mutex
	rng  *prng.R
	on   bool
	f    Faults
	// downIn: calls TO the node fail; downOut: calls FROM the node fail. A stopped node
	// has both; a node that is opening (start-up recovery runs before the real transport
	// serves) has only downIn.
	downIn  map[address.Address]bool
	downOut map[address.Address]bool
	// directed controls
	holdFeedbackTo map[address.Address]bool
	held           map[address.Address][]heldFeedback
	muteTxFrom     map[address.Address]bool
	// observations
	Sent      [nChan]int64 // calls attempted
	Delivered [nChan]int64 // handler invocations
	Injected  map[string]int64
	TxWithOps int64 // delivered op messages whose request or response carried operations
	// feedback digests delivered per (target node, key, version)
	fbDelivered map[fbKey]int
	// last version of each key a node was seen gossiping (in a request it sent or in the
	// response it returned), and how often
	gossiped map[string]int // "<addr>|<key>|<version>" -> times seen
	received map[string]int // "<addr>|<key>|<version>" -> times the op was handed to addr
	probe    aspen.Transport
}

func NewNet(r *prng.R) *Net {
	n := &Net{
		mock:           amock.NewNetwork(),
		rng:            r,
		downIn:         map[address.Address]bool{},
		downOut:        map[address.Address]bool{},
		holdFeedbackTo: map[address.Address]bool{},
		held:           map[address.Address][]heldFeedback{},
		muteTxFrom:     map[address.Address]bool{},
		Injected:       map[string]int64{},
		fbDelivered:    map[fbKey]int{},
		gossiped:       map[string]int{},
		received:       map[string]int{},
	}
	return n
}

func (n *Net) SetFaults(f Faults) { n.mu.Lock(); n.f = f; n.on = true; n.mu.Unlock() }
func (n *Net) FaultsOff()         { n.mu.Lock(); n.on = false; n.mu.Unlock() }
func (n *Net) SetDown(a address.Address, in, out bool) {
	n.mu.Lock()
	n.downIn[a] = in
	n.downOut[a] = out
	n.mu.Unlock()
}

// MuteTxFrom loses every operation-gossip message sent by or to a (its responses carry
// its infected operations too) while mute is set.
func (n *Net) MuteTxFrom(a address.Address, mute bool) {
	n.mu.Lock()
	n.muteTxFrom[a] = mute
	n.mu.Unlock()
}
func (n *Net) HoldFeedbackTo(a address.Address) {
	n.mu.Lock()
	n.holdFeedbackTo[a] = true
	n.mu.Unlock()
}

// HeldFeedbackCount returns how many held feedback digests for (key, version) wait for a.
func (n *Net) HeldFeedbackCount(a address.Address, key string, version int64) int {
	n.mu.Lock()
	defer n.mu.Unlock()
	c := 0
	for _, h := range n.held[a] {
		for _, d := range h.msg.Digests {
			if string(d.Key) == key && int64(d.Version) == version {
				c++
			}
		}
	}
	return c
}

// ReleaseFeedbackTo stops holding and delivers everything held for a, in arrival order,
// synchronously.
func (n *Net) ReleaseFeedbackTo(a address.Address) int {
	n.mu.Lock()
	n.holdFeedbackTo[a] = false
	q := n.held[a]
	n.held[a] = nil
	n.mu.Unlock()
	for _, h := range q {
		h.send()
	}
	return len(q)
}

// FeedbackDelivered returns how many feedback digests for (key, version) reached node a.
func (n *Net) FeedbackDelivered(a address.Address, key string, version int64) int {
	n.mu.Lock()
	defer n.mu.Unlock()
	return n.fbDelivered[fbKey{a, key, version}]
}

// Gossiped returns how many times node a was seen offering (key, version).
func (n *Net) Gossiped(a address.Address, key string, version int64) int {
	n.mu.Lock()
	defer n.mu.Unlock()
	return n.gossiped[fmt.Sprintf("%s|%s|%d", a, key, version)]
}

// Received returns how many times (key, version) was handed to node a in an operation
// message or in the response to one.
func (n *Net) Received(a address.Address, key string, version int64) int {
	n.mu.Lock()
	defer n.mu.Unlock()
	return n.received[fmt.Sprintf("%s|%s|%d", a, key, version)]
}

func (n *Net) Counters() (sent, delivered [nChan]int64, txWithOps int64, injected map[string]int64) {
	n.mu.Lock()
	defer n.mu.Unlock()
	inj := make(map[string]int64, len(n.Injected))
	for k, v := range n.Injected {
		inj[k] = v
	}
	return n.Sent, n.Delivered, n.TxWithOps, inj
}

func ChanName(c int) string { return chanNames[c] }

const NChan = int(nChan)

type action struct {
	down, mute, dropReq, dropRes, dup bool
	delay                             time.Duration
}

func (n *Net) decide(ch Chan, from, to address.Address) action {
	n.mu.Lock()
	defer n.mu.Unlock()
	n.Sent[ch]++
	var a action
	if n.downIn[to] || n.downOut[from] {
		a.down = true
		n.Injected["down/"+chanNames[ch]]++
		return a
	}
	if ch == ChTx && (n.muteTxFrom[from] || n.muteTxFrom[to]) {
		a.mute = true
		n.Injected["mute/tx"]++
		return a
	}
	if !n.on {
		return a
	}
	r := n.f[ch]
	x := n.rng.Intn(100)
	switch {
	case x < r.DropReq:
		a.dropReq = true
		n.Injected["dropreq/"+chanNames[ch]]++
	case x < r.DropReq+r.DropRes:
		a.dropRes = true
		n.Injected["dropres/"+chanNames[ch]]++
	case x < r.DropReq+r.DropRes+r.Dup:
		a.dup = true
		n.Injected["dup/"+chanNames[ch]]++
	case x < r.DropReq+r.DropRes+r.Dup+r.Delay:
		if r.MaxDelay > 0 {
			a.delay = time.Duration(n.rng.I64n(int64(r.MaxDelay)) + 1)
		}
		n.Injected["delay/"+chanNames[ch]]++
	}
	return a
}

func (n *Net) noteDelivered(ch Chan, from, to address.Address, req, res any) {
	n.mu.Lock()
	defer n.mu.Unlock()
	n.Delivered[ch]++
	switch ch {
	case ChTx:
		rq, _ := req.(verifx.TxRequest)
		rs, _ := res.(verifx.TxRequest)
		if len(rq.Operations) > 0 || len(rs.Operations) > 0 {
			n.TxWithOps++
		}
		for _, op := range rq.Operations {
			n.gossiped[fmt.Sprintf("%s|%s|%d", from, op.Key, int64(op.Version))]++
			n.received[fmt.Sprintf("%s|%s|%d", to, op.Key, int64(op.Version))]++
		}
		for _, op := range rs.Operations {
			n.gossiped[fmt.Sprintf("%s|%s|%d", to, op.Key, int64(op.Version))]++
			n.received[fmt.Sprintf("%s|%s|%d", from, op.Key, int64(op.Version))]++
		}
	case ChFeedback:
		m, _ := req.(verifx.FeedbackMessage)
		for _, d := range m.Digests {
			n.fbDelivered[fbKey{to, string(d.Key), int64(d.Version)}]++
		}
	}
}

// Probe asks node a for the operations its gossip store would emit next, by sending an
// empty operation message over the (un-faulted) transport: the real handler answers every
// such message with the node's infected set. An empty request changes nothing.
func (n *Net) Probe(ctx context.Context, a address.Address) ([]verifx.Operation, error) {
	n.mu.Lock()
	if n.probe == nil {
		n.probe = n.mock.NewTransport()
		if err := n.probe.Configure("probe:0", alamos.Instrumentation{}, true); err != nil {
			n.mu.Unlock()
			return nil, err
		}
	}
	p := n.probe
	isDown := n.downIn[a]
	n.mu.Unlock()
	if isDown {
		return nil, errDown
	}
	res, err := p.TxClient().Send(ctx, a, verifx.TxRequest{Sender: 0})
	return res.Operations, err
}

// Inject delivers an operation message to node a over the (un-faulted) transport, as a
// peer's gossip would: used to redeliver an operation captured earlier with Probe.
func (n *Net) Inject(ctx context.Context, a address.Address, req verifx.TxRequest) error {
	if _, err := n.Probe(ctx, a); err != nil { // makes sure the probe transport exists
		return err
	}
	n.mu.Lock()
	p := n.probe
	n.mu.Unlock()
	_, err := p.TxClient().Send(ctx, a, req)
	return err
}

// NewTransport returns the transport for one node.
func (n *Net) NewTransport() aspen.Transport {
	return &ftransport{Transport: n.mock.NewTransport(), net: n}
}

type ftransport struct {
	aspen.Transport
	net  *Net
	host address.Address
}

func (t *ftransport) Configure(addr address.Address, ins alamos.Instrumentation, external bool) error {
	t.host = addr
	return t.Transport.Configure(addr, ins, external)
}

type unaryClient[RQ, RS freighter.Payload] struct {
	freighter.UnaryClient[RQ, RS]
	t  *ftransport
	ch Chan
}

func (c *unaryClient[RQ, RS]) Send(ctx context.Context, target address.Address, req RQ) (res RS, err error) {
	n := c.t.net
	a := n.decide(c.ch, c.t.host, target)
	if a.down {
		return res, errDown
	}
	if a.mute || a.dropReq {
		return res, errInjected
	}
	if a.delay > 0 {
		time.Sleep(a.delay)
	}
	if c.ch == ChFeedback {
		if m, ok := any(req).(verifx.FeedbackMessage); ok {
			n.mu.Lock()
			if n.holdFeedbackTo[target] {
				n.held[target] = append(n.held[target], heldFeedback{msg: m, send: func() {
					r2, e2 := c.UnaryClient.Send(context.Background(), target, req)
					if e2 == nil {
						n.noteDelivered(c.ch, c.t.host, target, req, r2)
					}
				}})
				n.mu.Unlock()
				return res, nil
			}
			n.mu.Unlock()
		}
	}
	res, err = c.UnaryClient.Send(ctx, target, req)
	if err == nil {
		n.noteDelivered(c.ch, c.t.host, target, req, res)
	}
	if a.dup {
		r2, e2 := c.UnaryClient.Send(ctx, target, req)
		if e2 == nil {
			n.noteDelivered(c.ch, c.t.host, target, req, r2)
		}
	}
	if a.dropRes {
		var zero RS
		return zero, errInjected
	}
	return res, err
}

type streamClient struct {
	freighter.StreamClient[verifx.RecoveryRequest, verifx.RecoveryResponse]
	t *ftransport
}

func (c *streamClient) Stream(ctx context.Context, target address.Address) (freighter.ClientStream[verifx.RecoveryRequest, verifx.RecoveryResponse], error) {
	a := c.t.net.decide(ChRecovery, c.t.host, target)
	if a.down {
		return nil, errDown
	}
	s, err := c.StreamClient.Stream(ctx, target)
	if err == nil {
		c.t.net.noteDelivered(ChRecovery, c.t.host, target, nil, nil)
	}
	return s, err
}

func (t *ftransport) TxClient() freighter.UnaryClient[verifx.TxRequest, verifx.TxRequest] {
	return &unaryClient[verifx.TxRequest, verifx.TxRequest]{UnaryClient: t.Transport.TxClient(), t: t, ch: ChTx}
}

func (t *ftransport) FeedbackClient() freighter.UnaryClient[verifx.FeedbackMessage, types.Nil] {
	return &unaryClient[verifx.FeedbackMessage, types.Nil]{UnaryClient: t.Transport.FeedbackClient(), t: t, ch: ChFeedback}
}

func (t *ftransport) LeaseClient() freighter.UnaryClient[verifx.TxRequest, types.Nil] {
	return &unaryClient[verifx.TxRequest, types.Nil]{UnaryClient: t.Transport.LeaseClient(), t: t, ch: ChLease}
}

func (t *ftransport) GossipClient() freighter.UnaryClient[verifx.GossipMessage, verifx.GossipMessage] {
	return &unaryClient[verifx.GossipMessage, verifx.GossipMessage]{UnaryClient: t.Transport.GossipClient(), t: t, ch: ChGossip}
}

func (t *ftransport) PledgeClient() freighter.UnaryClient[verifx.PledgeRequest, verifx.PledgeResponse] {
	return &unaryClient[verifx.PledgeRequest, verifx.PledgeResponse]{UnaryClient: t.Transport.PledgeClient(), t: t, ch: ChPledge}
}

func (t *ftransport) RecoveryClient() freighter.StreamClient[verifx.RecoveryRequest, verifx.RecoveryResponse] {
	return &streamClient{StreamClient: t.Transport.RecoveryClient(), t: t}
}
