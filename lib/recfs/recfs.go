// Package recfs is a recording xfs.FS: every mutating call that crosses the filesystem
// interface (directory creation via Sub, file creation/truncation via Open, Write,
// WriteAt, Truncate, Rename, Remove) is appended to a log with full arguments and
// payload, in the order the calls returned. The log can be replayed, up to any prefix and
// with a torn last write, onto a fresh MemFS — the process-crash model of property C02
// (completed filesystem calls survive; nothing else does).
//
// It also offers optional yield/sleep injection at filesystem calls (real suspension
// points of the engine) for the concurrency monitors.
package recfs

import (
	"os"
	"path"
	"sync"
	"sync/atomic"

	xfs "github.com/synnaxlabs/x/io/fs"
)

type Kind string

const (
	Mkdir   Kind = "mkdir"
	Create  Kind = "create" // Open with O_CREATE on a file that did not exist
	Trunc   Kind = "trunc"  // Truncate(size) or Open with O_TRUNC (size 0)
	WriteAt Kind = "writeat"
	Rename  Kind = "rename"
	Remove  Kind = "remove"
	Marker  Kind = "marker" // written by the driver, not a mutation
)

type Mutation struct {
	Kind Kind   `json:"kind"`
	Path string `json:"path"`
	To   string `json:"to,omitempty"`   // rename target
	Off  int64  `json:"off,omitempty"`  // writeat offset
	Size int64  `json:"size,omitempty"` // trunc size
	Data []byte `json:"data,omitempty"`
	Note string `json:"note,omitempty"` // marker payload
	Idx  int    `json:"idx,omitempty"`  // marker: index into the driver's marker table
}

type Log struct {
	mu   sync.Mutex
	muts []Mutation
	// Inject, when non-nil, is called before every filesystem call with the call name
	// and path; used to yield/sleep at real suspension points.
	Inject func(call, path string)
	// Fail, when non-nil, may return an error to inject for a call (before it reaches
	// the inner FS).
	Fail   func(call, path string) error
	Calls  atomic.Int64
	paused atomic.Bool
}

func (l *Log) add(m Mutation) {
	if l.paused.Load() {
		return
	}
	l.mu.Lock()
	l.muts = append(l.muts, m)
	l.mu.Unlock()
}

// Mark appends a driver marker.
func (l *Log) Mark(idx int, note string) { l.add(Mutation{Kind: Marker, Idx: idx, Note: note}) }

// Pause stops recording (used while the oracle itself reads through the FS).
func (l *Log) Pause(p bool) { l.paused.Store(p) }

func (l *Log) Len() int { l.mu.Lock(); defer l.mu.Unlock(); return len(l.muts) }

func (l *Log) Snapshot() []Mutation {
	l.mu.Lock()
	defer l.mu.Unlock()
	out := make([]Mutation, len(l.muts))
	copy(out, l.muts)
	return out
}

func (l *Log) pre(call, p string) error {
	l.Calls.Add(1)
	if l.Inject != nil {
		l.Inject(call, p)
	}
	if l.Fail != nil {
		return l.Fail(call, p)
	}
	return nil
}

type FS struct {
	inner  xfs.FS // root
	prefix string
	log    *Log
}

var _ xfs.FS = (*FS)(nil)

// New wraps root (typically xfs.NewMem()).
func New(root xfs.FS) (*FS, *Log) {
	l := &Log{}
	return &FS{inner: root, log: l}, l
}

// NewWithLog wraps root with an existing log.
func NewWithLog(root xfs.FS, l *Log) *FS { return &FS{inner: root, log: l} }

func (f *FS) Inner() xfs.FS { return f.inner }
func (f *FS) Log() *Log     { return f.log }

func (f *FS) p(name string) string { return path.Join(f.prefix, name) }

func (f *FS) Open(name string, flag int) (xfs.File, error) {
	full := f.p(name)
	if err := f.log.pre("open", full); err != nil {
		return nil, err
	}
	existed := true
	if flag&(os.O_CREATE|os.O_TRUNC) != 0 {
		existed, _ = f.inner.Exists(full)
	}
	file, err := f.inner.Open(full, flag)
	if err != nil {
		return nil, err
	}
	if flag&os.O_CREATE != 0 && !existed {
		f.log.add(Mutation{Kind: Create, Path: full})
	} else if flag&os.O_TRUNC != 0 && existed {
		f.log.add(Mutation{Kind: Trunc, Path: full, Size: 0})
	}
	rf := &File{File: file, path: full, log: f.log}
	if flag&os.O_APPEND != 0 {
		if st, err := file.Stat(); err == nil {
			rf.wpos = st.Size()
		}
	}
	return rf, nil
}

func (f *FS) Sub(name string) (xfs.FS, error) {
	full := f.p(name)
	if err := f.log.pre("sub", full); err != nil {
		return nil, err
	}
	existed, _ := f.inner.Exists(full)
	if _, err := f.inner.Sub(full); err != nil {
		return nil, err
	}
	if !existed {
		f.log.add(Mutation{Kind: Mkdir, Path: full})
	}
	return &FS{inner: f.inner, prefix: full, log: f.log}, nil
}

func (f *FS) List(name string) ([]xfs.FileInfo, error) {
	if err := f.log.pre("list", f.p(name)); err != nil {
		return nil, err
	}
	return f.inner.List(f.p(name))
}

func (f *FS) Exists(name string) (bool, error) {
	if err := f.log.pre("exists", f.p(name)); err != nil {
		return false, err
	}
	return f.inner.Exists(f.p(name))
}

func (f *FS) Remove(name string) error {
	full := f.p(name)
	if err := f.log.pre("remove", full); err != nil {
		return err
	}
	if err := f.inner.Remove(full); err != nil {
		return err
	}
	f.log.add(Mutation{Kind: Remove, Path: full})
	return nil
}

func (f *FS) Rename(oldPath, newPath string) error {
	o, n := f.p(oldPath), f.p(newPath)
	if err := f.log.pre("rename", o); err != nil {
		return err
	}
	if err := f.inner.Rename(o, n); err != nil {
		return err
	}
	f.log.add(Mutation{Kind: Rename, Path: o, To: n})
	return nil
}

func (f *FS) Stat(name string) (xfs.FileInfo, error) {
	if err := f.log.pre("stat", f.p(name)); err != nil {
		return nil, err
	}
	return f.inner.Stat(f.p(name))
}

type File struct {
	xfs.File
	path string
	log  *Log
	mu   sync.Mutex
	wpos int64
}

func (f *File) Write(p []byte) (int, error) {
	if err := f.log.pre("write", f.path); err != nil {
		return 0, err
	}
	f.mu.Lock()
	defer f.mu.Unlock()
	n, err := f.File.Write(p)
	if n > 0 {
		d := make([]byte, n)
		copy(d, p[:n])
		f.log.add(Mutation{Kind: WriteAt, Path: f.path, Off: f.wpos, Data: d})
		f.wpos += int64(n)
	}
	return n, err
}

func (f *File) WriteAt(p []byte, off int64) (int, error) {
	if err := f.log.pre("writeat", f.path); err != nil {
		return 0, err
	}
	n, err := f.File.WriteAt(p, off)
	if n > 0 {
		d := make([]byte, n)
		copy(d, p[:n])
		f.log.add(Mutation{Kind: WriteAt, Path: f.path, Off: off, Data: d})
	}
	return n, err
}

func (f *File) Truncate(size int64) error {
	if err := f.log.pre("truncate", f.path); err != nil {
		return err
	}
	if err := f.File.Truncate(size); err != nil {
		return err
	}
	f.log.add(Mutation{Kind: Trunc, Path: f.path, Size: size})
	return nil
}

func (f *File) ReadAt(p []byte, off int64) (int, error) {
	if err := f.log.pre("readat", f.path); err != nil {
		return 0, err
	}
	return f.File.ReadAt(p, off)
}

func (f *File) Read(p []byte) (int, error) {
	if err := f.log.pre("read", f.path); err != nil {
		return 0, err
	}
	return f.File.Read(p)
}

func (f *File) Close() error {
	if err := f.log.pre("close", f.path); err != nil {
		_ = f.File.Close()
		return err
	}
	return f.File.Close()
}

// Apply replays one mutation onto fs (a root filesystem).
func Apply(fs xfs.FS, m Mutation) error {
	switch m.Kind {
	case Marker:
		return nil
	case Mkdir:
		_, err := fs.Sub(m.Path)
		return err
	case Create:
		f, err := fs.Open(m.Path, os.O_CREATE|os.O_RDWR)
		if err != nil {
			return err
		}
		return f.Close()
	case Trunc:
		f, err := fs.Open(m.Path, os.O_RDWR)
		if err != nil {
			return err
		}
		if err := f.Truncate(m.Size); err != nil {
			_ = f.Close()
			return err
		}
		return f.Close()
	case WriteAt:
		f, err := fs.Open(m.Path, os.O_RDWR)
		if err != nil {
			return err
		}
		if len(m.Data) > 0 {
			if _, err := f.WriteAt(m.Data, m.Off); err != nil {
				_ = f.Close()
				return err
			}
		}
		return f.Close()
	case Rename:
		return fs.Rename(m.Path, m.To)
	case Remove:
		return fs.Remove(m.Path)
	}
	return nil
}

// Image builds a fresh MemFS holding the effect of muts[:k]; if torn >= 0 and muts[k-1]
// is a write, only its first torn bytes are applied.
func Image(muts []Mutation, k int, torn int) (*xfs.MemFS, error) {
	fs := xfs.NewMem()
	for i := 0; i < k; i++ {
		m := muts[i]
		if i == k-1 && torn >= 0 && m.Kind == WriteAt && torn < len(m.Data) {
			m.Data = m.Data[:torn]
		}
		if err := Apply(fs, m); err != nil {
			return fs, err
		}
	}
	return fs, nil
}
