package cskit

import (
	"fmt"
	"sort"

	"verif/lib/prng"
)

type Op struct {
	Kind string `json:"k"` // open write commit close reads reopen delete gc
	W    int    `json:"w,omitempty"`

	// open
	Chans      []uint32 `json:"chans,omitempty"`
	Start      int64    `json:"start,omitempty"`
	AutoCommit bool     `json:"ac,omitempty"`
	Persist    int64    `json:"persist,omitempty"` // AutoIndexPersistInterval: -1 always, else ns
	Sync       bool     `json:"sync,omitempty"`
	Gen        int      `json:"gen,omitempty"`

	// write: index timestamps of the samples in this frame
	TS []int64 `json:"ts,omitempty"`

	// delete
	A int64 `json:"a,omitempty"`
	B int64 `json:"b,omitempty"`

	// reads
	N     int    `json:"n,omitempty"`
	RSeed uint64 `json:"rseed,omitempty"`
}

type Script struct {
	FileSize    int64   `json:"file_size"`
	GCThreshold float32 `json:"gc_threshold"`
	Groups      []Group `json:"groups"`
	Ops         []Op    `json:"ops"`
	// generator statistics (not part of the script's meaning)
	WholeSessionDeletes int `json:"whole_session_deletes,omitempty"`
	ReplayRewrites      int `json:"replay_rewrites,omitempty"`
	HeadCuts            int `json:"head_cuts,omitempty"`
}

func (s *Script) Shape() string {
	// normalised shape for distinctness: op kinds + sizes, not absolute timestamps
	out := fmt.Sprintf("fs%d|g%d|", s.FileSize, len(s.Groups))
	for _, g := range s.Groups {
		out += g.Index.DT[:1]
		for _, d := range g.Data {
			out += d.DT + ","
		}
		out += ";"
	}
	for _, o := range s.Ops {
		switch o.Kind {
		case "open":
			out += fmt.Sprintf("o%d:%d:%v:%d:%v|", o.W, len(o.Chans), o.AutoCommit, o.Persist, o.Sync)
		case "write":
			sp := int64(0)
			if len(o.TS) > 1 {
				sp = o.TS[1] - o.TS[0]
			}
			out += fmt.Sprintf("w%d:%d:%d|", o.W, len(o.TS), sp)
		case "delete":
			out += fmt.Sprintf("d%d:%d|", len(o.Chans), o.B-o.A)
		default:
			out += o.Kind[:2] + fmt.Sprint(o.W) + "|"
		}
	}
	return out
}

type GenOpts struct {
	MaxGroups   int
	MaxData     int
	MaxSessions int
	Deletes     bool // generate DeleteTimeRange ops
	GC          bool // generate gc ops
	Reopen      bool
	Reads       bool    // generate reads ops at quiescent points
	ReadsPerOp  int     // reads per reads-op
	Interleave  bool    // allow two writers of different groups to be open at once
	FileSizes   []int64 // candidates
	ChanOps     bool    // (C02) channel create/delete ops — not used by the generator yet
	DataOnly    bool    // generate data-only sessions against a stored index
	// Rewrite biases the script towards delete -> write the same stretch again -> delete
	// again: whole-session deletes, refills with the very same timestamps (optionally
	// extended by a head that is cut off again), deletes after every session.
	Rewrite bool
	GapRewrite  bool    // rewrite into gaps freed by deletes
	VarTypes    bool
	Types       []string // when set, data channel types are drawn from this list only
	MaxChunks   int
	PersistOpts []int64
	// ForceAlwaysPersist makes every session use always-persist (C02 durable class).
}

func DefaultGen() GenOpts {
	return GenOpts{
		MaxGroups: 2, MaxData: 4, MaxSessions: 6, Reopen: true, Reads: true, ReadsPerOp: 6,
		Interleave: true, DataOnly: true, VarTypes: true, MaxChunks: 6,
		FileSizes:   []int64{1, 1, 8, 40, 64, 200, 1000, 1 << 30},
		PersistOpts: []int64{-1, 1, 1_000_000_000},
	}
}

const (
	T0     = int64(1_000_000_000_000)
	Window = int64(1_000_000_000_000)
)

var spacings = []int64{1, 1, 2, 3, 10, 1000, 1_000_000, 1_000_000_000}
var chunkSizes = []int{1, 1, 2, 3, 5, 8, 16, 33, 64}

// session is the generator's bookkeeping for one writer session.
type session struct {
	id    int
	group int
	chans []uint32
	ts    []int64
	cut   bool // index samples of this session were touched by a delete
	ops   []Op
}

type gen struct {
	r    *prng.R
	o    GenOpts
	s    *Script
	sim  *Model // what will be committed if everything succeeds
	sess []*session
	gaps map[int][][2]int64 // per group: fully freed ranges
	// index stamps a freed range held before its delete: a gap rewrite may replay exactly
	// these (same domain start and end as before, new values of other lengths)
	gapStamps map[[2]int64][]int64
	delPts    map[int][]int64    // per group: endpoints of earlier deletes (re-used later)
	cuts      map[int][][2]int64 // per group: [first stamp, old first stamp) of a head-extended replay
	nextW     int
	window    []int
	used      map[int]bool
}

// Gen produces a legal script. Every random choice comes from r.
func Gen(r *prng.R, o GenOpts) *Script {
	g := &gen{r: r, o: o, s: &Script{}, sim: NewModel(), gaps: map[int][][2]int64{}, gapStamps: map[[2]int64][]int64{}, delPts: map[int][]int64{}, cuts: map[int][][2]int64{}, used: map[int]bool{}}
	g.s.FileSize = prng.Pick(r, o.FileSizes)
	g.s.GCThreshold = []float32{1e-9, 0.01, 0.2, 0.5, 1}[r.Intn(5)]
	ng := r.Range(1, o.MaxGroups)
	key := uint32(1)
	for i := 0; i < ng; i++ {
		grp := Group{Index: ChanSpec{Key: key, Name: fmt.Sprintf("idx%d", key), DT: "timestamp", Index: key, IsIndex: true}}
		key++
		nd := r.Range(1, o.MaxData)
		for j := 0; j < nd; j++ {
			dt := prng.Pick(r, FixedTypes)
			if o.VarTypes && r.Chance(1, 4) {
				dt = prng.Pick(r, VarTypes)
			}
			if len(o.Types) > 0 {
				dt = prng.Pick(r, o.Types)
			}
			grp.Data = append(grp.Data, ChanSpec{Key: key, Name: fmt.Sprintf("d%d", key), DT: dt, Index: grp.Index.Key})
			key++
		}
		g.s.Groups = append(g.s.Groups, grp)
		g.sim.AddChannel(grp.Index)
		for _, d := range grp.Data {
			g.sim.AddChannel(d)
		}
	}
	ns := r.Range(1, o.MaxSessions)
	g.window = make([]int, ns+2)
	for i := range g.window {
		g.window[i] = i
	}
	prng.Shuffle(r, g.window)
	var plans []*session
	for i := 0; i < ns; i++ {
		if s := g.planSession(i); s != nil {
			plans = append(plans, s)
			g.sess = append(g.sess, s)
		}
		// maintenance between sessions is emitted as pseudo-sessions holding only ops
		if m := g.maintenance(); m != nil {
			plans = append(plans, m)
		}
	}
	// emit: optionally interleave two adjacent writer sessions of different groups
	for i := 0; i < len(plans); i++ {
		a := plans[i]
		if o.Interleave && i+1 < len(plans) && a.id >= 0 && plans[i+1].id >= 0 &&
			a.group != plans[i+1].group && r.Chance(1, 3) {
			b := plans[i+1]
			g.emitInterleaved(a.ops, b.ops)
			i++
		} else {
			g.s.Ops = append(g.s.Ops, a.ops...)
		}
		if o.Reads && (a.id < 0 || r.Chance(1, 2)) {
			g.s.Ops = append(g.s.Ops, g.readsOp())
		}
		if o.Reopen && r.Chance(1, 5) {
			g.s.Ops = append(g.s.Ops, Op{Kind: "reopen"})
			if o.Reads {
				g.s.Ops = append(g.s.Ops, g.readsOp())
			}
		}
	}
	if o.Reads {
		g.s.Ops = append(g.s.Ops, g.readsOp())
	}
	return g.s
}

func (g *gen) readsOp() Op { return Op{Kind: "reads", N: g.o.ReadsPerOp, RSeed: g.r.U64()} }

func (g *gen) emitInterleaved(a, b []Op) {
	i, j := 0, 0
	for i < len(a) || j < len(b) {
		if j >= len(b) || (i < len(a) && g.r.Bool()) {
			g.s.Ops = append(g.s.Ops, a[i])
			i++
		} else {
			g.s.Ops = append(g.s.Ops, b[j])
			j++
		}
	}
}

func (g *gen) genStamps(start int64, n int, limit int64) []int64 {
	ts := make([]int64, 0, n)
	cur := start
	sp := prng.Pick(g.r, spacings)
	for i := 0; i < n; i++ {
		if cur >= limit {
			break
		}
		ts = append(ts, cur)
		if g.r.Chance(1, 6) {
			sp = prng.Pick(g.r, spacings) // irregular spacing
		}
		cur += sp
	}
	return ts
}

func (g *gen) planSession(i int) *session {
	r := g.r
	gi := r.Intn(len(g.s.Groups))
	grp := g.s.Groups[gi]
	s := &session{id: g.nextW, group: gi}
	g.nextW++
	gen := s.id + 1
	ac := r.Chance(2, 3)
	persist := prng.Pick(r, g.o.PersistOpts)
	sync := r.Chance(1, 3)

	// choose the kind of session
	kind := "combined"
	if g.o.DataOnly && r.Chance(1, 3) {
		kind = "dataonly"
	}
	if g.o.GapRewrite && len(g.gaps[gi]) > 0 && (r.Chance(1, 2) || g.o.Rewrite) {
		kind = "gap"
	}
	g.used[g.window[i%len(g.window)]] = true

	if kind == "dataonly" {
		// find an uncut index session of this group with a data channel that has a run of
		// uncovered positions
		type cand struct {
			s    *session
			c    ChanSpec
			p, q int
		}
		var cands []cand
		for _, is := range g.sess {
			if is.group != gi || is.cut || len(is.ts) == 0 {
				continue
			}
			// the index samples must all still be there
			for _, c := range grp.Data {
				p := -1
				for k := 0; k <= len(is.ts); k++ {
					free := k < len(is.ts) && !g.sim.Has(c.Key, is.ts[k]) && g.sim.Has(grp.Index.Key, is.ts[k])
					if free && p < 0 {
						p = k
					}
					if !free && p >= 0 {
						cands = append(cands, cand{is, c, p, k})
						p = -1
					}
				}
			}
		}
		if len(cands) == 0 {
			kind = "combined"
		} else {
			cd := prng.Pick(r, cands)
			p := cd.p
			q := cd.q
			if r.Chance(1, 3) && q-p > 1 {
				p = r.Range(cd.p, cd.q-1)
			}
			if r.Chance(1, 3) && q-p > 1 {
				q = r.Range(p+1, q)
			}
			ts := cd.s.ts[p:q]
			// several data channels of the group that are free on the same run may join
			chans := []uint32{cd.c.Key}
			for _, c := range grp.Data {
				if c.Key == cd.c.Key || !r.Chance(1, 3) {
					continue
				}
				ok := true
				for _, t := range ts {
					if g.sim.Has(c.Key, t) {
						ok = false
						break
					}
				}
				// also the position just before must not belong to an existing domain that
				// would contain Start: guaranteed by !Has at ts[0] only if domains end at
				// last sample+1, which they do for uncut sessions.
				if ok {
					chans = append(chans, c.Key)
				}
			}
			s.chans = chans
			s.ts = nil // data-only sessions do not own index samples
			g.emitWriter(s, chans, ts, ac, persist, sync, gen, grp)
			return s
		}
	}

	var start, limit int64
	var replay []int64
	if kind == "gap" {
		gl := g.gaps[gi]
		k := r.Intn(len(gl))
		gp := gl[k]
		g.gaps[gi] = append(gl[:k:k], gl[k+1:]...)
		// stay inside the (already used) window the gap starts in, so no later
		// fresh-window session can collide with what is written here
		w := (gp[0] + 1 - T0) / Window
		if gp[0]+1 < T0 || !g.used[int(w)] || w == int64(g.window[i%len(g.window)]) {
			return nil
		}
		if we := T0 + (w+1)*Window - 1; gp[1] > we {
			gp[1] = we
		}
		if gp[1]-gp[0] < 4 {
			return nil
		}
		start = gp[0] + 1 + r.I64n((gp[1]-gp[0])/2)
		limit = gp[1]
		if old := g.gapStamps[[2]int64{gp[0], gp[1]}]; len(old) > 0 && old[0] >= gp[0] && old[len(old)-1] < gp[1] && (r.Chance(1, 2) || g.o.Rewrite) {
			replay = old
		}
	} else {
		w := int64(g.window[i%len(g.window)])
		start = T0 + w*Window
		if r.Chance(1, 2) {
			start += r.I64n(1000)
		}
		limit = T0 + (w+1)*Window - 1
	}
	// total samples
	nchunks := r.Range(1, g.o.MaxChunks)
	total := 0
	var chunkLens []int
	for c := 0; c < nchunks; c++ {
		n := prng.Pick(r, chunkSizes)
		chunkLens = append(chunkLens, n)
		total += n
	}
	ts := g.genStamps(start, total, limit)
	if len(replay) > 0 {
		ts = append([]int64{}, replay...)
		g.s.ReplayRewrites++
		// extend the replay by a few earlier stamps when the stretch before it is free
		// (sessions own their window; nothing else can have been written there)
		if ws := T0 + ((ts[0]-T0)/Window)*Window; ts[0]-ws >= 2 && (r.Chance(2, 3) || g.o.Rewrite) {
			lo := ts[0] - 1 - r.I64n(min64(ts[0]-ws-1, 40))
			free := true
			for _, c := range append([]ChanSpec{grp.Index}, grp.Data...) {
				if g.sim.HasAny(c.Key, ws, ts[0]) {
					free = false
				}
			}
			if free {
				var head []int64
				for t := lo; t < ts[0] && len(head) < 4; t += 1 + r.I64n(3) {
					head = append(head, t)
				}
				g.cuts[gi] = append(g.cuts[gi], [2]int64{head[0], ts[0]})
				ts = append(head, ts...)
				if len(chunkLens) == 1 {
					chunkLens = []int{len(ts)}
				} else {
					chunkLens = append([]int{len(head)}, chunkLens...)
				}
			}
		}
		if r.Chance(1, 3) { // the same layout as well: one chunk, one commit
			chunkLens = []int{len(ts)}
		} else {
			chunkLens = nil
			for rem := len(ts); rem > 0; {
				n := prng.Pick(r, chunkSizes)
				if n > rem {
					n = rem
				}
				chunkLens = append(chunkLens, n)
				rem -= n
			}
		}
	}
	if len(ts) == 0 {
		return nil
	}
	if kind == "gap" {
		// the stretch must still be free: an earlier refill (its head reaches outside its
		// own gap) or an overlapping older gap may have been written since
		for _, c := range append([]ChanSpec{grp.Index}, grp.Data...) {
			if g.sim.HasAny(c.Key, ts[0], ts[len(ts)-1]+1) {
				return nil
			}
		}
	}
	// channels: index + subset of data (usually all)
	chans := []uint32{grp.Index.Key}
	for _, d := range grp.Data {
		if !g.o.DataOnly || r.Chance(4, 5) {
			chans = append(chans, d.Key)
		}
	}
	s.chans = chans
	s.ts = ts
	g.emitWriterChunks(s, chans, ts, chunkLens, ac, persist, sync, gen, grp)
	return s
}

func (g *gen) emitWriter(s *session, chans []uint32, ts []int64, ac bool, persist int64, sync bool, gn int, grp Group) {
	var lens []int
	rem := len(ts)
	for rem > 0 {
		n := prng.Pick(g.r, chunkSizes)
		if n > rem {
			n = rem
		}
		lens = append(lens, n)
		rem -= n
	}
	g.emitWriterChunks(s, chans, ts, lens, ac, persist, sync, gn, grp)
}

func (g *gen) emitWriterChunks(s *session, chans []uint32, ts []int64, lens []int, ac bool, persist int64, sync bool, gn int, grp Group) {
	r := g.r
	s.ops = append(s.ops, Op{Kind: "open", W: s.id, Chans: chans, Start: ts[0], AutoCommit: ac, Persist: persist, Sync: sync, Gen: gn})
	pos := 0
	lastCommitted := 0
	for ci, n := range lens {
		if pos >= len(ts) {
			break
		}
		if pos+n > len(ts) {
			n = len(ts) - pos
		}
		s.ops = append(s.ops, Op{Kind: "write", W: s.id, TS: ts[pos : pos+n]})
		pos += n
		if ac {
			lastCommitted = pos
			if r.Chance(1, 4) {
				s.ops = append(s.ops, Op{Kind: "commit", W: s.id})
			}
		} else if r.Chance(1, 2) || (ci == len(lens)-1 && r.Chance(3, 4)) {
			s.ops = append(s.ops, Op{Kind: "commit", W: s.id})
			lastCommitted = pos
		}
		if g.o.Reads && lastCommitted == pos && r.Chance(1, 4) {
			s.ops = append(s.ops, g.readsOp())
		}
	}
	s.ops = append(s.ops, Op{Kind: "close", W: s.id})
	// sim: committed prefix
	byKey := map[uint32]ChanSpec{grp.Index.Key: grp.Index}
	for _, d := range grp.Data {
		byKey[d.Key] = d
	}
	for _, t := range ts[:lastCommitted] {
		for _, k := range chans {
			g.sim.Put(k, t, Value(byKey[k], t, gn))
		}
	}
	if s.ts != nil {
		s.ts = ts[:lastCommitted]
	}
}

// maintenance emits deletes / gc between sessions.
func (g *gen) maintenance() *session {
	r := g.r
	m := &session{id: -1, group: -1}
	if g.o.Deletes && (r.Chance(1, 2) || g.o.Rewrite) {
		nd := r.Range(1, 3)
		for i := 0; i < nd; i++ {
			if op, ok := g.deleteOp(); ok {
				m.ops = append(m.ops, op)
				if g.o.Reads && r.Chance(1, 2) {
					m.ops = append(m.ops, g.readsOp())
				}
			}
		}
	}
	if g.o.GC && r.Chance(1, 2) {
		m.ops = append(m.ops, Op{Kind: "gc"})
	}
	if len(m.ops) == 0 {
		return nil
	}
	return m
}

// deleteOp picks a delete whose outcome the statement determines: data channels only,
// an index channel alone, or an index channel together with ALL of its data channels.
func (g *gen) deleteOp() (Op, bool) {
	r := g.r
	gi := r.Intn(len(g.s.Groups))
	grp := g.s.Groups[gi]
	// boundary candidates from the sim model
	var pts []int64
	for _, t := range g.sim.Stamps(grp.Index.Key) {
		pts = append(pts, t)
	}
	for _, d := range grp.Data {
		for _, t := range g.sim.Stamps(d.Key) {
			pts = append(pts, t)
		}
	}
	if len(pts) == 0 {
		return Op{}, false
	}
	sort.Slice(pts, func(i, j int) bool { return pts[i] < pts[j] })
	pick := func() int64 {
		// the same boundary as an earlier delete, e.g. the same range again after the
		// stretch was written anew
		if hs := g.delPts[gi]; len(hs) > 0 && r.Chance(1, 4) {
			return prng.Pick(r, hs)
		}
		t := prng.Pick(r, pts)
		switch r.Intn(6) {
		case 0:
			return t
		case 1:
			return t + 1
		case 2:
			return t - 1
		case 3:
			return t + r.I64n(2000) - 1000
		case 4:
			return t + r.I64n(Window) - Window/2
		}
		return t
	}
	a, b := pick(), pick()
	if a > b {
		a, b = b, a
	}
	if a <= 0 {
		a = 1
	}
	if b <= a && r.Chance(3, 4) {
		b = a + 1 + r.I64n(5000)
	}
	var chans []uint32
	mode := r.Intn(5)
	if cs := g.cuts[gi]; len(cs) > 0 && (r.Chance(1, 2) || g.o.Rewrite) {
		// cut the head a replayed session was extended by: what is left starts and ends
		// exactly where the session it replaced did
		k := r.Intn(len(cs))
		a, b = cs[k][0], cs[k][1]
		g.cuts[gi] = append(cs[:k:k], cs[k+1:]...)
		if r.Bool() {
			mode = 4
		}
		g.s.HeadCuts++
	} else if g.o.GapRewrite && (r.Chance(1, 6) || (g.o.Rewrite && r.Chance(1, 2))) {
		// exactly what one writer session of this group committed, index and data: the
		// freed range can then be refilled with the very same timestamps
		var cands []*session
		for _, s := range g.sess {
			if s.group == gi && !s.cut && len(s.ts) > 0 && g.sim.HasAny(grp.Index.Key, s.ts[0], s.ts[len(s.ts)-1]+1) {
				cands = append(cands, s)
			}
		}
		if len(cands) > 0 {
			s := prng.Pick(r, cands)
			a, b = s.ts[0], s.ts[len(s.ts)-1]+1
			mode = 4
			g.s.WholeSessionDeletes++
		}
	}
	switch {
	case mode <= 2: // data channels only
		for _, d := range grp.Data {
			if r.Bool() {
				chans = append(chans, d.Key)
			}
		}
		if len(chans) == 0 {
			chans = []uint32{grp.Data[0].Key}
		}
	case mode == 3: // index only (refused iff a dependant has data in range)
		chans = []uint32{grp.Index.Key}
	default: // index and all of its data channels
		chans = []uint32{grp.Index.Key}
		for _, d := range grp.Data {
			chans = append(chans, d.Key)
		}
		prng.Shuffle(r, chans)
	}
	op := Op{Kind: "delete", Chans: chans, A: a, B: b}
	g.delPts[gi] = append(g.delPts[gi], a, b)
	// sim
	hasIdx := false
	for _, k := range chans {
		if k == grp.Index.Key {
			hasIdx = true
		}
	}
	refused := false
	if hasIdx {
		inReq := map[uint32]bool{}
		for _, k := range chans {
			inReq[k] = true
		}
		for _, d := range grp.Data {
			if !inReq[d.Key] && g.sim.HasAny(d.Key, a, b) {
				refused = true
			}
		}
	}
	if !refused {
		idxRemoved := 0
		var idxBefore []int64
		for _, t := range g.sim.Stamps(grp.Index.Key) {
			if t >= a && t < b {
				idxBefore = append(idxBefore, t)
			}
		}
		for _, k := range chans {
			n := g.sim.Delete(k, a, b)
			if k == grp.Index.Key {
				idxRemoved = n
			}
		}
		if hasIdx {
			for _, s := range g.sess {
				if s.group == gi && len(s.ts) > 0 && s.ts[0] < b && s.ts[len(s.ts)-1] >= a {
					s.cut = true
				}
			}
			// A range is only writable again when the delete removed at least one index
			// sample: a range that lies between two consecutive samples of a stored
			// domain stays inside that domain's time range, and a writer opened there
			// is (rightly) refused as overlapping existing data.
			if len(chans) == len(grp.Data)+1 && b-a > 8 && idxRemoved > 0 {
				g.gaps[gi] = append(g.gaps[gi], [2]int64{a, b})
				g.gapStamps[[2]int64{a, b}] = idxBefore
			}
		}
	}
	return op, true
}

func min64(a, b int64) int64 {
	if a < b {
		return a
	}
	return b
}
