package cskit

import (
	"bytes"
	"context"
	"fmt"
	"sort"
	"strings"
	"time"

	"github.com/synnaxlabs/cesium"
	xfs "github.com/synnaxlabs/x/io/fs"
	"github.com/synnaxlabs/x/telem"
	"verif/lib/prng"
)

type pend struct {
	key uint32
	ts  int64
	val []byte
}

type wstate struct {
	op       Op
	w        *cesium.Writer
	specs    map[uint32]ChanSpec
	inflight []pend // written, not yet acknowledged
	pending  []pend // acknowledged, not committed (auto-commit off)
	lazy     []pend // committed, index persistence not known (auto-commit with a persist interval)
}

// Stamp identifies a written sample.
type Stamp struct {
	TS  int64
	Gen int
}

// SessionLog is the client-side record of one writer session, used by the crash oracle:
// the samples in issue order per channel and the commit boundaries (sample counts at which
// a commit was issued).
type SessionLog struct {
	Gen        int
	Chans      []uint32
	Stamps     []int64 // issue order
	Boundaries []int   // counts (of Stamps) at which a commit was issued (every write when auto-commit)
	AutoCommit bool
}

// Mismatch describes a read that disagrees with the model.
type Mismatch struct {
	Class   string   `json:"class"` // missing extra-or-foreign order value count error
	Key     uint32   `json:"key"`
	DT      string   `json:"dt"`
	A       int64    `json:"a"`
	B       int64    `json:"b"`
	Mode    string   `json:"mode"`
	Span    int64    `json:"span,omitempty"`
	Keys    []uint32 `json:"keys"`
	Want    int      `json:"want_samples"`
	Got     int      `json:"got_samples"`
	Detail  string   `json:"detail"`
	AfterOp int      `json:"after_op"`
	// EmptyKeys are the requested channels that hold no sample in [A,B) in the model
	// at the time of the read.
	EmptyKeys []uint32 `json:"empty_keys,omitempty"`
	Reopened  bool     `json:"reopened"`
}

// Exec drives a script against a real cesium DB.
type Exec struct {
	Ctx    context.Context
	FS     xfs.FS
	Dir    string
	Script *Script
	DB     *cesium.DB
	Model  *Model
	// Durable holds the samples whose commit completed with index persistence
	// (always-persist auto-commits, explicit commits with auto-commit off, closed writers).
	Durable *Model
	// Ever holds every (channel, ts) -> value ever handed to Write (latest generation).
	Ever     map[uint32]map[string]Stamp // channel -> value bytes -> (timestamp, generation)
	Sessions map[int]*SessionLog
	// Tomb holds, per channel, the values of every sample ever handed to Write whose
	// timestamp lay in the range of a DeleteTimeRange that returned nil (the sample was
	// removed by a completed delete, or was never committed and can no longer appear).
	Tomb map[uint32]map[string]bool
	// Bounds collects the client-visible layout boundaries (first timestamp of every
	// write and last timestamp + 1, i.e. every possible commit end / domain edge); reads
	// are aimed at them.
	Bounds  []int64
	writers map[int]*wstate
	specs   map[uint32]ChanSpec

	// Observations
	ReadsCompared   int
	SamplesCompared int
	UnexpectedErr   string // first engine error on a legal op (script stops there)
	UnexpectedAt    int
	Mismatches      []Mismatch
	Reopens         int
	Deletes         int
	DeletedSamples  int
	DeletesRefused  int
	// DeleteTags accumulates the known-finding precondition tags of the deletes issued so
	// far; Tainted stops read comparison after a delete failed part-way.
	DeleteTags string
	Tainted    bool
	// delEnds[c][b]: an earlier successful delete of data channel c ended at b, so c's kept
	// domain may start at b although b is no sample (R7 precondition, second form)
	delEnds map[uint32]map[int64]bool
	// DeletesRefusedVacuous counts index deletes the engine refused although no dependant
	// holds a sample in the range, where the request itself covered no sample either.
	DeletesRefusedVacuous int
	GCs                   int
	reopened              bool
	opIdx                 int

	// Hooks
	OnChannelCreated func(c ChanSpec)
	AfterOp          func(i int, op Op, e *Exec) // called after each op returns (C02 markers)
	BeforeOp         func(i int, op Op, e *Exec)
	ExtraOptions     []cesium.Option
	// AutoReads adds automatic-chunking (AutoSpan) walks to the generated reads.
	AutoReads bool
	// CheckGC, when set, performs the metamorphic GC check (full read before/after).
	CheckGC bool
	// OnViolation receives non-read violations (delete refusal mismatch, gc change...).
	Violations []string
}

func NewExec(fs xfs.FS, s *Script) *Exec {
	e := &Exec{Ctx: context.Background(), FS: fs, Dir: "db", Script: s, Model: NewModel(), Durable: NewModel(),
		Ever: map[uint32]map[string]Stamp{}, Sessions: map[int]*SessionLog{}, Tomb: map[uint32]map[string]bool{},
		writers: map[int]*wstate{}, specs: map[uint32]ChanSpec{}}
	return e
}

func (e *Exec) Open() error {
	opts := []cesium.Option{
		cesium.WithFS(e.FS),
		cesium.WithFileSizeCap(telem.Size(e.Script.FileSize)),
		cesium.WithGCConfig(cesium.GCConfig{Threshold: e.Script.GCThreshold, TryInterval: 24 * time.Hour}),
	}
	opts = append(opts, e.ExtraOptions...)
	db, err := cesium.Open(e.Ctx, e.Dir, opts...)
	if err != nil {
		return err
	}
	e.DB = db
	return nil
}

// Setup opens the DB and creates the script's channels.
func (e *Exec) Setup() error {
	if err := e.Open(); err != nil {
		return err
	}
	for _, g := range e.Script.Groups {
		all := append([]ChanSpec{g.Index}, g.Data...)
		for _, c := range all {
			ch := cesium.Channel{Key: c.Key, Name: c.Name, DataType: c.DataType(), Index: c.Index, IsIndex: c.IsIndex}
			if c.IsIndex {
				ch.Index = 0
			}
			if err := e.DB.CreateChannel(e.Ctx, ch); err != nil {
				return fmt.Errorf("create channel %v: %w", c, err)
			}
			e.Model.AddChannel(c)
			e.Durable.AddChannel(c)
			e.Ever[c.Key] = map[string]Stamp{}
			e.specs[c.Key] = c
			if e.OnChannelCreated != nil {
				e.OnChannelCreated(c)
			}
		}
	}
	return nil
}

func (e *Exec) fail(i int, what string, err error) {
	if e.UnexpectedErr == "" {
		e.UnexpectedErr = fmt.Sprintf("%s: %v", what, err)
		e.UnexpectedAt = i
	}
}

// Run executes all ops; it stops at the first engine error on a legal op.
func (e *Exec) Run() {
	for i, op := range e.Script.Ops {
		e.opIdx = i
		if e.BeforeOp != nil {
			e.BeforeOp(i, op, e)
		}
		ok := e.Step(i, op)
		if e.AfterOp != nil {
			e.AfterOp(i, op, e)
		}
		if !ok {
			break
		}
	}
}

func boolp(b bool) *bool { return &b }

// Step executes one op. Returns false when the script must stop.
func (e *Exec) Step(i int, op Op) bool {
	switch op.Kind {
	case "open":
		cfg := cesium.WriterConfig{
			Start:                    telem.TimeStamp(op.Start),
			Channels:                 op.Chans,
			EnableAutoCommit:         boolp(op.AutoCommit),
			AutoIndexPersistInterval: telem.TimeSpan(op.Persist),
			Sync:                     boolp(op.Sync),
			ErrOnUnauthorized:        boolp(true),
		}
		w, err := e.DB.OpenWriter(e.Ctx, cfg)
		if err != nil {
			e.fail(i, "OpenWriter", err)
			return false
		}
		ws := &wstate{op: op, w: w, specs: map[uint32]ChanSpec{}}
		for _, k := range op.Chans {
			ws.specs[k] = e.specs[k]
		}
		e.writers[op.W] = ws
		e.Sessions[op.W] = &SessionLog{Gen: op.Gen, Chans: op.Chans, AutoCommit: op.AutoCommit}
	case "write":
		ws := e.writers[op.W]
		if ws == nil {
			return true
		}
		keys := make([]uint32, 0, len(ws.op.Chans))
		series := make([]telem.Series, 0, len(ws.op.Chans))
		var ps []pend
		for _, k := range ws.op.Chans {
			spec := ws.specs[k]
			vals := make([][]byte, len(op.TS))
			for j, t := range op.TS {
				vals[j] = Value(spec, t, ws.op.Gen)
				ps = append(ps, pend{k, t, vals[j]})
			}
			keys = append(keys, k)
			series = append(series, BuildSeries(spec, vals))
		}
		for _, p := range ps {
			e.Ever[p.key][string(p.val)] = Stamp{p.ts, ws.op.Gen}
		}
		if len(op.TS) > 0 && len(e.Bounds) < 4096 {
			e.Bounds = append(e.Bounds, op.TS[0], op.TS[len(op.TS)-1]+1)
		}
		sl := e.Sessions[op.W]
		sl.Stamps = append(sl.Stamps, op.TS...)
		if ws.op.AutoCommit {
			sl.Boundaries = append(sl.Boundaries, len(sl.Stamps))
		}
		auth, err := ws.w.Write(telem.MultiFrame(keys, series))
		if err != nil {
			e.fail(i, "Write", err)
			e.abandon(op.W)
			return false
		}
		if !auth {
			e.fail(i, "Write", fmt.Errorf("sole writer reported unauthorized"))
			e.abandon(op.W)
			return false
		}
		ws.inflight = append(ws.inflight, ps...)
		if ws.op.Sync {
			e.ack(ws)
		}
	case "commit":
		ws := e.writers[op.W]
		if ws == nil {
			return true
		}
		if sl := e.Sessions[op.W]; !ws.op.AutoCommit {
			sl.Boundaries = append(sl.Boundaries, len(sl.Stamps))
		}
		if _, err := ws.w.Commit(); err != nil {
			e.fail(i, "Commit", err)
			e.abandon(op.W)
			return false
		}
		e.ack(ws)
		e.commit(ws)
	case "close":
		ws := e.writers[op.W]
		if ws == nil {
			return true
		}
		err := ws.w.Close()
		delete(e.writers, op.W)
		if err != nil {
			e.fail(i, "Writer.Close", err)
			return false
		}
		e.ack(ws)
		// auto-commit: every acknowledged write was committed; otherwise the
		// uncommitted tail is discarded. A closed writer's commits are persisted.
		for _, p := range ws.lazy {
			e.Durable.Put(p.key, p.ts, p.val)
		}
		ws.lazy = nil
	case "reads":
		if len(e.writersNotQuiescent()) > 0 {
			return true
		}
		e.DoReads(op.RSeed, op.N)
	case "reopen":
		if len(e.writers) > 0 {
			return true
		}
		if err := e.Reopen(); err != nil {
			e.fail(i, "Reopen", err)
			return false
		}
	case "delete":
		if len(e.writers) > 0 {
			return true
		}
		return e.doDelete(i, op)
	case "gc":
		if len(e.writers) > 0 {
			return true
		}
		return e.doGC(i)
	}
	return true
}

func (e *Exec) writersNotQuiescent() []int {
	var out []int
	for id, ws := range e.writers {
		if len(ws.inflight) > 0 {
			out = append(out, id)
		}
	}
	return out
}

// ack: the engine has processed all writes issued so far.
func (e *Exec) ack(ws *wstate) {
	if ws.op.AutoCommit {
		for _, p := range ws.inflight {
			e.Model.Put(p.key, p.ts, p.val)
			if ws.op.Persist == -1 {
				e.Durable.Put(p.key, p.ts, p.val)
			} else {
				ws.lazy = append(ws.lazy, p)
			}
		}
	} else {
		ws.pending = append(ws.pending, ws.inflight...)
	}
	ws.inflight = nil
}

func (e *Exec) commit(ws *wstate) {
	for _, p := range ws.pending {
		e.Model.Put(p.key, p.ts, p.val)
		e.Durable.Put(p.key, p.ts, p.val) // explicit commits always persist the index
	}
	ws.pending = nil
}

func (e *Exec) abandon(w int) {
	if ws := e.writers[w]; ws != nil {
		_ = ws.w.Close()
		delete(e.writers, w)
	}
}

// Reopen closes and reopens the DB on the same filesystem.
func (e *Exec) Reopen() error {
	if err := e.DB.Close(); err != nil {
		return fmt.Errorf("DB.Close: %w", err)
	}
	if err := e.Open(); err != nil {
		return fmt.Errorf("cesium.Open: %w", err)
	}
	e.Reopens++
	e.reopened = true
	return nil
}

func (e *Exec) CloseAll() {
	for id := range e.writers {
		e.abandon(id)
	}
	if e.DB != nil {
		_ = e.DB.Close()
	}
}

func (e *Exec) doDelete(i int, op Op) bool {
	// expected outcome from the statement: an index channel's range cannot be deleted
	// while a channel it indexes (not itself being deleted in the same call) has data there.
	inReq := map[uint32]bool{}
	for _, k := range op.Chans {
		inReq[k] = true
	}
	refuse := false
	for _, k := range op.Chans {
		if !e.specs[k].IsIndex {
			continue
		}
		for _, c := range e.specs {
			if c.Index == k && !c.IsIndex && !inReq[c.Key] && e.Model.HasAny(c.Key, op.A, op.B) {
				refuse = true
			}
		}
	}
	// Precondition tags of the two open known findings (R6, R7 in DESIGN.md), computed
	// from the model BEFORE the delete so that they describe the input, not the outcome.
	tag := ""
	for _, k := range op.Chans {
		if !e.specs[k].IsIndex {
			continue
		}
		nonVacuous := false
		for _, q := range op.Chans {
			if e.Model.HasAny(q, op.A, op.B) {
				nonVacuous = true
			}
		}
		for _, c := range e.specs {
			if c.Index != k || c.IsIndex {
				continue
			}
			// R6: a dependant that holds samples, but none in the range (its stored domain
			// extent may still overlap the range with a sample-free head or tail):
			// requested together with the index (r6pre) or not requested (r6npre)
			if nonVacuous && e.Model.Len(c.Key) > 0 && !e.Model.HasAny(c.Key, op.A, op.B) {
				if inReq[c.Key] {
					tag += "r6pre,"
				} else {
					tag += "r6npre,"
				}
			}
			// R7: the range ends one nanosecond after a dependant's sample and not on an
			// index sample (the start of a rollover domain of that dependant)
			if (e.Model.Has(c.Key, op.B-1) || e.delEnds[c.Key][op.B] || e.everAt(c.Key, op.B-1)) && !e.Model.Has(k, op.B) {
				tag += "r7pre,"
			}
		}
	}
	if strings.Contains(tag, "r6pre") && !strings.Contains(e.DeleteTags, "r6pre") {
		e.DeleteTags += "r6pre,"
	}
	if strings.Contains(tag, "r7pre") && !strings.Contains(e.DeleteTags, "r7pre") {
		e.DeleteTags += "r7pre,"
	}
	if strings.Contains(tag, "r6npre") && !strings.Contains(e.DeleteTags, "r6npre") {
		e.DeleteTags += "r6npre,"
	}
	err := e.DB.DeleteTimeRange(e.Ctx, op.Chans, telem.TimeRange{Start: telem.TimeStamp(op.A), End: telem.TimeStamp(op.B)})
	e.Deletes++
	if refuse {
		e.DeletesRefused++
		if err == nil {
			e.Violations = append(e.Violations, fmt.Sprintf("delete-not-refused: op %d deleted index range [%d,%d) although a dependent channel has data there", i, op.A, op.B))
			for _, k := range op.Chans {
				e.Model.Delete(k, op.A, op.B)
			}
		}
		return true
	}
	if err != nil && strings.Contains(err.Error(), "cannot delete index channel") {
		// The statement only says when an index delete MUST be refused. The engine decides
		// "a dependant has data in that range" per stored domain (a contiguous extent), so
		// it also refuses a range that falls between two samples of a dependant's domain
		// (or an empty range inside it). When no requested channel holds a sample in the
		// range the request was vacuous: the refusal changes nothing a read can observe,
		// the model stays as it is and the script continues. A refusal of a request that
		// does hold samples of the requested channels is still reported below.
		vacuous := true
		for _, k := range op.Chans {
			if e.Model.HasAny(k, op.A, op.B) {
				vacuous = false
			}
		}
		if vacuous {
			e.DeletesRefusedVacuous++
			return true
		}
	}
	if err != nil {
		e.Violations = append(e.Violations, fmt.Sprintf("delete-refused-or-failed: op %d chans %v [%d,%d): %v", i, op.Chans, op.A, op.B, err))
		e.fail(i, "DeleteTimeRange", err)
		// a failed multi-channel delete may have been applied to some of the channels;
		// what reads return afterwards is a consequence of this (already reported)
		// failure and is not judged
		e.Tainted = true
		return false
	}
	for _, k := range op.Chans {
		if !e.specs[k].IsIndex {
			if e.delEnds == nil {
				e.delEnds = map[uint32]map[int64]bool{}
			}
			if e.delEnds[k] == nil {
				e.delEnds[k] = map[int64]bool{}
			}
			e.delEnds[k][op.B] = true
		}
		e.DeletedSamples += e.Model.Delete(k, op.A, op.B)
		e.Durable.Delete(k, op.A, op.B)
		for v, st := range e.Ever[k] {
			if st.TS >= op.A && st.TS < op.B {
				if e.Tomb[k] == nil {
					e.Tomb[k] = map[string]bool{}
				}
				e.Tomb[k][v] = true
			}
		}
	}
	return true
}

// everAt: was a sample with timestamp ts ever written to channel k (a stored domain of k
// may still start right after it although the sample has been deleted since)?
func (e *Exec) everAt(k uint32, ts int64) bool {
	for _, st := range e.Ever[k] {
		if st.TS == ts {
			return true
		}
	}
	return false
}

func (e *Exec) doGC(i int) bool {
	var before map[uint32][]Sample
	var size0 telem.Size
	if e.CheckGC {
		before = e.fullRead()
		size0 = e.DB.Metrics().DiskSize
	}
	if err := e.DB.VerifGarbageCollect(e.Ctx); err != nil {
		e.Violations = append(e.Violations, fmt.Sprintf("gc-error: op %d: %v", i, err))
		e.fail(i, "GarbageCollect", err)
		return false
	}
	e.GCs++
	if e.CheckGC {
		after := e.fullRead()
		for k, b := range before {
			a := after[k]
			if !sameSamples(a, b) {
				e.Violations = append(e.Violations, fmt.Sprintf("gc-changed-read: op %d channel %d (%s): %d samples before, %d after", i, k, e.specs[k].DT, len(b), len(a)))
			}
		}
		if s1 := e.DB.Metrics().DiskSize; s1 > size0 {
			e.Violations = append(e.Violations, fmt.Sprintf("gc-grew-disk: op %d: %d -> %d", i, size0, s1))
		}
	}
	return true
}

func sameSamples(a, b []Sample) bool {
	if len(a) != len(b) {
		return false
	}
	for i := range a {
		if a[i].TS != b[i].TS || !bytes.Equal(a[i].Val, b[i].Val) {
			return false
		}
	}
	return true
}

// fullRead reads every channel over all time through DB.Read, pairing values with index
// timestamps positionally (used only for before/after comparisons).
func (e *Exec) fullRead() map[uint32][]Sample {
	out := map[uint32][]Sample{}
	for k := range e.specs {
		fr, err := e.DB.Read(e.Ctx, telem.TimeRangeMax, k)
		if err != nil {
			out[k] = []Sample{{TS: -1, Val: []byte(err.Error())}}
			continue
		}
		var ss []Sample
		for _, s := range fr.Get(k).Series {
			for j, v := range SplitSeries(s) {
				ss = append(ss, Sample{TS: int64(s.Alignment) + int64(j)*0, Val: append([]byte{}, v...)})
			}
		}
		// timestamps are not known per data sample; order + bytes are compared
		for j := range ss {
			ss[j].TS = int64(j)
		}
		out[k] = ss
	}
	return out
}

// ReadSpec is one read request.
type ReadSpec struct {
	Keys []uint32
	A, B int64
	Mode string // read | iter | riter
	Span int64
}

// GenReads derives read requests from the current model state.
func (e *Exec) GenReads(seed uint64, n int) []ReadSpec {
	r := prng.New(int64(seed), "reads", 0)
	keys := e.Model.Keys()
	if len(keys) == 0 {
		return nil
	}
	var pts []int64
	for _, k := range keys {
		if e.specs[k].IsIndex {
			pts = append(pts, e.Model.Stamps(k)...)
		}
	}
	for _, k := range keys {
		if !e.specs[k].IsIndex && r.Chance(1, 3) {
			pts = append(pts, e.Model.Stamps(k)...)
		}
	}
	sort.Slice(pts, func(i, j int) bool { return pts[i] < pts[j] })
	pick := func() int64 {
		if len(pts) == 0 {
			return T0 + r.I64n(3*Window)
		}
		if len(e.Bounds) > 0 && r.Chance(1, 4) {
			return prng.Pick(r, e.Bounds)
		}
		i := r.Intn(len(pts))
		t := pts[i]
		switch r.Intn(8) {
		case 0:
			return t
		case 1:
			return t + 1
		case 2:
			return t - 1
		case 3: // midpoint to the neighbour
			if i+1 < len(pts) {
				return t + (pts[i+1]-t)/2
			}
			return t + 7
		case 4:
			return t + r.I64n(3000) - 1500
		case 5:
			return pts[0] - 1 - r.I64n(1000)
		case 6:
			return pts[len(pts)-1] + 1 + r.I64n(1000)
		}
		return t
	}
	var out []ReadSpec
	for i := 0; i < n; i++ {
		var rs ReadSpec
		// channels: 1..3 random keys
		nk := r.Range(1, 3)
		seen := map[uint32]bool{}
		for j := 0; j < nk; j++ {
			k := prng.Pick(r, keys)
			if !seen[k] {
				seen[k] = true
				rs.Keys = append(rs.Keys, k)
			}
		}
		switch r.Intn(10) {
		case 0:
			rs.A, rs.B = int64(telem.TimeStampMin), int64(telem.TimeStampMax)
		case 1:
			rs.A = pick()
			rs.B = rs.A // empty
		default:
			rs.A, rs.B = pick(), pick()
			if rs.A > rs.B && r.Chance(9, 10) {
				rs.A, rs.B = rs.B, rs.A
			}
		}
		nm := 5
		if e.AutoReads {
			nm = 6
		}
		switch r.Intn(nm) {
		case 0, 1, 2:
			rs.Mode = "read"
		case 3:
			rs.Mode = "iter"
		case 4:
			rs.Mode = "riter"
		case 5:
			// automatic chunking: single channel (each channel advances by its own
			// sample count), chunk sizes 1..40
			// A chunk is the window of the next N INDEX samples; a data channel that
			// holds no sample in such a window yields a false step although more data
			// follows, and the top-level iterator offers no way to tell that from the
			// end. The `while Next(AutoSpan)` read idiom is therefore only complete on
			// index channels, which is where it is compared.
			rs.Mode = "auto"
			rs.Keys = rs.Keys[:1]
			if !e.specs[rs.Keys[0]].IsIndex {
				rs.Keys[0] = e.specs[rs.Keys[0]].Index
			}
			rs.Span = int64(r.Range(1, 40))
		}
		out = append(out, rs)
	}
	return out
}

// DoReads generates and checks n reads.
func (e *Exec) DoReads(seed uint64, n int) {
	for _, rs := range e.GenReads(seed, n) {
		e.CheckRead(rs)
	}
}

// ReadRaw performs the read and returns, per key, the concatenated per-sample bytes in
// the order returned.
func (e *Exec) ReadRaw(rs ReadSpec) (map[uint32][][]byte, error) {
	tr := telem.TimeRange{Start: telem.TimeStamp(rs.A), End: telem.TimeStamp(rs.B)}
	got := map[uint32][][]byte{}
	add := func(fr cesium.Frame, prepend bool) {
		for _, k := range rs.Keys {
			var chunk [][]byte
			for _, s := range fr.Get(k).Series {
				chunk = append(chunk, SplitSeries(s)...)
			}
			if prepend {
				got[k] = append(chunk, got[k]...)
			} else {
				got[k] = append(got[k], chunk...)
			}
		}
	}
	switch rs.Mode {
	case "read":
		fr, err := e.DB.Read(e.Ctx, tr, rs.Keys...)
		if err != nil {
			return nil, err
		}
		add(fr, false)
	case "iter", "riter", "auto":
		it, err := e.DB.OpenIterator(cesium.IteratorConfig{Bounds: tr, Channels: rs.Keys, AutoChunkSize: rs.Span})
		if err != nil {
			return nil, err
		}
		// Range reads through the iterator, used the way DB.Read and the distribution
		// layer use it: seek, then step while the step reports data. Fixed-span stepping
		// over sparse data is property C10's subject and is not exercised here.
		switch rs.Mode {
		case "iter":
			if it.SeekFirst() {
				for i := 0; i < 10000 && it.Next(telem.TimeSpanMax); i++ {
					add(it.Value(), false)
				}
			}
		case "riter":
			if it.SeekLast() {
				for i := 0; i < 10000 && it.Prev(telem.TimeSpanMax); i++ {
					add(it.Value(), true)
				}
			}
		case "auto":
			if it.SeekFirst() {
				for i := 0; i < 100000 && it.Next(cesium.AutoSpan); i++ {
					add(it.Value(), false)
				}
			}
		}
		ierr := it.Error()
		if cerr := it.Close(); ierr == nil {
			ierr = cerr
		}
		if ierr != nil {
			return nil, ierr
		}
	}
	return got, nil
}

// CheckRead compares one read with the model.
func (e *Exec) CheckRead(rs ReadSpec) {
	if e.Tainted {
		return
	}
	got, err := e.ReadRaw(rs)
	e.ReadsCompared++
	base := Mismatch{A: rs.A, B: rs.B, Mode: rs.Mode, Span: rs.Span, Keys: rs.Keys, AfterOp: e.opIdx, Reopened: e.reopened}
	for _, k := range rs.Keys {
		if len(e.Model.Range(k, rs.A, rs.B)) == 0 {
			base.EmptyKeys = append(base.EmptyKeys, k)
		}
	}
	if err != nil {
		m := base
		m.Class = "error"
		m.Detail = err.Error()
		e.Mismatches = append(e.Mismatches, m)
		return
	}
	// riter accumulates whole frames in reverse frame order; within a frame series are
	// ascending, so prepending chunks yields ascending order overall.
	for _, k := range rs.Keys {
		want := e.Model.Range(k, rs.A, rs.B)
		g := got[k]
		e.SamplesCompared += len(want)
		if m, bad := diff(want, g); bad {
			mm := base
			mm.Key = k
			mm.DT = e.specs[k].DT
			mm.Class = m
			mm.Want = len(want)
			mm.Got = len(g)
			mm.Detail = describe(want, g)
			e.Mismatches = append(e.Mismatches, mm)
		}
	}
}

func diff(want []Sample, got [][]byte) (string, bool) {
	if len(want) == len(got) {
		ok := true
		for i := range want {
			if !bytes.Equal(want[i].Val, got[i]) {
				ok = false
				break
			}
		}
		if ok {
			return "", false
		}
	}
	// classify
	wantSet := map[string]int{}
	for _, w := range want {
		wantSet[string(w.Val)]++
	}
	gotSet := map[string]int{}
	for _, g := range got {
		gotSet[string(g)]++
	}
	missing, extra, dup := 0, 0, 0
	for v, n := range wantSet {
		if gotSet[v] < n {
			missing += n - gotSet[v]
		}
	}
	for v, n := range gotSet {
		if wantSet[v] < n {
			if wantSet[v] > 0 {
				dup += n - wantSet[v]
			} else {
				extra += n
			}
		}
	}
	switch {
	case extra > 0:
		return "foreign", true
	case dup > 0:
		return "duplicate", true
	case missing > 0:
		return "missing", true
	default:
		return "order", true
	}
}

func describe(want []Sample, got [][]byte) string {
	i := 0
	for i < len(want) && i < len(got) && bytes.Equal(want[i].Val, got[i]) {
		i++
	}
	d := fmt.Sprintf("first difference at sample %d: ", i)
	if i < len(want) {
		d += fmt.Sprintf("want ts=%d val=%x; ", want[i].TS, want[i].Val)
	} else {
		d += "want <end>; "
	}
	if i < len(got) {
		d += fmt.Sprintf("got val=%x", got[i])
	} else {
		d += "got <end>"
	}
	return d
}

func IsVar(dt string) bool { return telem.DataType(dt).IsVariable() }

// CloseWriters closes any writer left open (script stopped early).
func (e *Exec) CloseWriters() {
	for id := range e.writers {
		e.abandon(id)
	}
}

// FullChecks reads every channel over all time (single-channel DB.Read and a forward
// iterator walk) and compares with the model.
func (e *Exec) FullChecks() {
	for _, k := range e.Model.Keys() {
		e.CheckRead(ReadSpec{Keys: []uint32{k}, A: int64(telem.TimeStampMin), B: int64(telem.TimeStampMax), Mode: "read"})
	}
	keys := e.Model.Keys()
	if len(keys) > 0 {
		e.CheckRead(ReadSpec{Keys: keys, A: int64(telem.TimeStampMin), B: int64(telem.TimeStampMax), Mode: "iter"})
	}
}
