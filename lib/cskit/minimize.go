package cskit

import (
	"fmt"
	"strings"

	xfs "github.com/synnaxlabs/x/io/fs"
)

// RunOpts configures a full script run (as the C01/C04 monitors perform it).
type RunOpts struct {
	CheckGC    bool
	FinalReads int
	FinalSeed  uint64
	Prefix     string // signature prefix, e.g. "c04"
}

type Finding struct {
	Sig      string
	What     string
	Mismatch *Mismatch
}

// RunScript executes s on a fresh in-memory filesystem and returns the executor and the
// classified findings.
func RunScript(s *Script, o RunOpts) (*Exec, []Finding) {
	e := NewExec(xfs.NewMem(), s)
	e.CheckGC = o.CheckGC
	if err := e.Setup(); err != nil {
		return e, []Finding{{Sig: o.Prefix + ":setup-error", What: err.Error()}}
	}
	e.Run()
	e.CloseWriters()
	e.DoReads(o.FinalSeed, o.FinalReads)
	e.FullChecks()
	var out []Finding
	if err := e.Reopen(); err != nil {
		out = append(out, Finding{Sig: o.Prefix + ":reopen-failed", What: "close+reopen failed after a legal script: " + err.Error()})
	} else {
		e.DoReads(o.FinalSeed, o.FinalReads)
		e.FullChecks()
	}
	e.CloseAll()
	out = append(out, e.Classify(o.Prefix)...)
	return e, out
}

// Classify turns the executor's observations into signed findings.
func (e *Exec) Classify(prefix string) []Finding {
	var out []Finding
	for _, v := range e.Violations {
		kind := v
		if i := strings.Index(v, ":"); i > 0 {
			kind = v[:i]
		}
		if kind == "delete-refused-or-failed" {
			kind += ":" + Letters(v[strings.LastIndex(v, "): ")+3:], 40)
		}
		vafter := ""
		if e.DeleteTags != "" && strings.HasPrefix(kind, "delete-refused-or-failed") {
			vafter = "|after-delete:" + strings.TrimSuffix(e.DeleteTags, ",")
		}
		out = append(out, Finding{Sig: prefix + ":" + kind + vafter, What: v})
	}
	after := ""
	if e.DeleteTags != "" {
		after = "|after-delete:" + strings.TrimSuffix(e.DeleteTags, ",")
	}
	for i := range e.Mismatches {
		m := e.Mismatches[i]
		kind := "fixed"
		if IsVar(m.DT) {
			kind = "var"
		}
		phase := "live"
		if m.Reopened {
			phase = "reopened"
		}
		sig := fmt.Sprintf("%s:%s:%s:%s:%s", prefix, m.Class, m.Mode, kind, phase)
		if m.Class == "error" {
			sig = fmt.Sprintf("%s:error:%s:%s", prefix, m.Mode, Letters(m.Detail, 48))
		}
		out = append(out, Finding{Sig: sig + after, Mismatch: &m,
			What: fmt.Sprintf("read of channel %d (%s) over [%d,%d) via %s returned %d samples, model has %d: %s", m.Key, m.DT, m.A, m.B, m.Mode, m.Got, m.Want, m.Detail)})
	}
	return out
}

// Letters keeps letters and single dashes of s (a structural normalisation of error text).
func Letters(s string, n int) string {
	out := make([]rune, 0, n)
	for _, r := range s {
		if len(out) >= n {
			break
		}
		switch {
		case r >= 'a' && r <= 'z', r >= 'A' && r <= 'Z':
			out = append(out, r)
		case r == ' ' && len(out) > 0 && out[len(out)-1] != '-':
			out = append(out, '-')
		}
	}
	return string(out)
}

func cloneScript(s *Script) *Script {
	c := *s
	c.Ops = append([]Op(nil), s.Ops...)
	c.Groups = append([]Group(nil), s.Groups...)
	return &c
}

// Minimize greedily shrinks s while pred keeps holding. pred must be deterministic.
func Minimize(s *Script, pred func(*Script) bool) *Script {
	cur := cloneScript(s)
	try := func(c *Script) bool {
		if pred(c) {
			cur = c
			return true
		}
		return false
	}
	for changed := true; changed; {
		changed = false
		// drop all reads ops at once, then individually
		{
			c := cloneScript(cur)
			c.Ops = c.Ops[:0]
			for _, o := range cur.Ops {
				if o.Kind != "reads" {
					c.Ops = append(c.Ops, o)
				}
			}
			if len(c.Ops) < len(cur.Ops) && try(c) {
				changed = true
			}
		}
		// drop whole writer sessions
		seen := map[int]bool{}
		for _, o := range cur.Ops {
			if o.Kind == "open" && !seen[o.W] {
				seen[o.W] = true
				c := cloneScript(cur)
				c.Ops = c.Ops[:0]
				for _, p := range cur.Ops {
					isW := p.Kind == "open" || p.Kind == "write" || p.Kind == "commit" || p.Kind == "close"
					if isW && p.W == o.W {
						continue
					}
					c.Ops = append(c.Ops, p)
				}
				if try(c) {
					changed = true
				}
			}
		}
		// lastWrite[w] = index of the last write op of session w (only a session's suffix
		// may be removed or shortened, so Start stays the first sample's timestamp and
		// the stamps stay contiguous with what a data-only session aligns to)
		lastWrite := func() map[int]int {
			m := map[int]int{}
			for i, o := range cur.Ops {
				if o.Kind == "write" {
					m[o.W] = i
				}
			}
			return m
		}
		firstWrite := func() map[int]int {
			m := map[int]int{}
			for i, o := range cur.Ops {
				if o.Kind == "write" {
					if _, ok := m[o.W]; !ok {
						m[o.W] = i
					}
				}
			}
			return m
		}
		// drop single non-writer ops, commits, and a session's last write
		for i := 0; i < len(cur.Ops); i++ {
			k := cur.Ops[i].Kind
			if k == "open" || k == "close" {
				continue
			}
			if k == "write" && (lastWrite()[cur.Ops[i].W] != i || firstWrite()[cur.Ops[i].W] == i) {
				continue
			}
			c := cloneScript(cur)
			c.Ops = append(append([]Op(nil), cur.Ops[:i]...), cur.Ops[i+1:]...)
			if try(c) {
				changed = true
				i--
			}
		}
		// shorten a session's last write from the end
		for i := 0; i < len(cur.Ops); i++ {
			if cur.Ops[i].Kind != "write" || len(cur.Ops[i].TS) < 2 || lastWrite()[cur.Ops[i].W] != i {
				continue
			}
			for _, keep := range []int{len(cur.Ops[i].TS) / 2, len(cur.Ops[i].TS) - 1} {
				if keep < 1 || keep >= len(cur.Ops[i].TS) {
					continue
				}
				c := cloneScript(cur)
				o := c.Ops[i]
				o.TS = append([]int64(nil), o.TS[:keep]...)
				c.Ops[i] = o
				if try(c) {
					changed = true
					i--
					break
				}
			}
		}
		// drop data channels that no op names... (groups are kept; cheap)
		// shrink file size / simplify config
		if cur.FileSize != 1<<30 {
			c := cloneScript(cur)
			c.FileSize = 1 << 30
			if try(c) {
				changed = true
			}
		}
	}
	return cur
}
