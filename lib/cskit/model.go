// Package cskit is the shared cesium workload kit: a timestamp->value reference model,
// a generator of legal write/delete/gc/reopen scripts, and an executor that drives the
// real cesium engine through its public API while feeding the model at the client
// boundary.
package cskit

import (
	"encoding/binary"
	"fmt"
	"sort"

	"github.com/synnaxlabs/x/telem"
)

type ChanSpec struct {
	Key     uint32 `json:"key"`
	Name    string `json:"name"`
	DT      string `json:"dt"`
	Index   uint32 `json:"index"`
	IsIndex bool   `json:"is_index,omitempty"`
}

func (c ChanSpec) DataType() telem.DataType { return telem.DataType(c.DT) }
func (c ChanSpec) Variable() bool           { return c.DataType().IsVariable() }

type Group struct {
	Index ChanSpec   `json:"index"`
	Data  []ChanSpec `json:"data"`
}

type Sample struct {
	TS  int64
	Val []byte
}

// Model is the reference: per channel, the committed samples keyed by index timestamp.
type Model struct {
	Chans map[uint32]ChanSpec
	data  map[uint32]map[int64][]byte
}

func NewModel() *Model {
	return &Model{Chans: map[uint32]ChanSpec{}, data: map[uint32]map[int64][]byte{}}
}

func (m *Model) AddChannel(c ChanSpec) {
	m.Chans[c.Key] = c
	if m.data[c.Key] == nil {
		m.data[c.Key] = map[int64][]byte{}
	}
}

func (m *Model) RemoveChannel(k uint32) { delete(m.Chans, k); delete(m.data, k) }

func (m *Model) Put(key uint32, ts int64, val []byte) { m.data[key][ts] = val }

func (m *Model) Has(key uint32, ts int64) bool { _, ok := m.data[key][ts]; return ok }

func (m *Model) Get(key uint32, ts int64) ([]byte, bool) { v, ok := m.data[key][ts]; return v, ok }

// Delete removes samples with a <= ts < b.
func (m *Model) Delete(key uint32, a, b int64) int {
	n := 0
	for ts := range m.data[key] {
		if ts >= a && ts < b {
			delete(m.data[key], ts)
			n++
		}
	}
	return n
}

func (m *Model) HasAny(key uint32, a, b int64) bool {
	for ts := range m.data[key] {
		if ts >= a && ts < b {
			return true
		}
	}
	return false
}

// Range returns committed samples with a <= ts < b in ascending time order.
func (m *Model) Range(key uint32, a, b int64) []Sample {
	var out []Sample
	for ts, v := range m.data[key] {
		if ts >= a && ts < b {
			out = append(out, Sample{ts, v})
		}
	}
	sort.Slice(out, func(i, j int) bool { return out[i].TS < out[j].TS })
	return out
}

func (m *Model) All(key uint32) []Sample { return m.Range(key, -1<<63, 1<<63-1) }

func (m *Model) Len(key uint32) int { return len(m.data[key]) }

func (m *Model) Keys() []uint32 {
	ks := make([]uint32, 0, len(m.Chans))
	for k := range m.Chans {
		ks = append(ks, k)
	}
	sort.Slice(ks, func(i, j int) bool { return ks[i] < ks[j] })
	return ks
}

// Stamps returns all committed timestamps of a channel in ascending order.
func (m *Model) Stamps(key uint32) []int64 {
	out := make([]int64, 0, len(m.data[key]))
	for ts := range m.data[key] {
		out = append(out, ts)
	}
	sort.Slice(out, func(i, j int) bool { return out[i] < out[j] })
	return out
}

func (m *Model) Clone() *Model {
	c := NewModel()
	for k, v := range m.Chans {
		c.Chans[k] = v
		c.data[k] = make(map[int64][]byte, len(m.data[k]))
		for ts, b := range m.data[k] {
			c.data[k][ts] = b
		}
	}
	return c
}

func mix(x uint64) uint64 {
	x += 0x9E3779B97F4A7C15
	x = (x ^ (x >> 30)) * 0xBF58476D1CE4E5B9
	x = (x ^ (x >> 27)) * 0x94D049BB133111EB
	return x ^ (x >> 31)
}

// Value returns the bytes written for (channel, timestamp, session generation): a pure
// function, unique per triple for types of 8 bytes or more, so a sample found in the
// wrong place names where it came from.
func Value(c ChanSpec, ts int64, gen int) []byte {
	if c.IsIndex {
		b := make([]byte, 8)
		binary.LittleEndian.PutUint64(b, uint64(ts))
		return b
	}
	h := mix(uint64(c.Key)<<40 ^ mix(uint64(ts)) ^ uint64(gen)<<56)
	dt := c.DataType()
	switch dt {
	case telem.StringT:
		n := int(h % 9) // 0..8, includes the empty string
		s := fmt.Sprintf("%d.%d.%d.%x", c.Key, gen, ts, h)
		if n == 0 {
			return []byte{}
		}
		if n < 8 {
			return []byte(s[len(s)-n:])
		}
		return []byte(s)
	case telem.JSONT:
		return []byte(fmt.Sprintf(`{"c":%d,"g":%d,"t":%d}`, c.Key, gen, ts))
	case telem.BytesT:
		n := int(h % 11)
		b := make([]byte, n)
		for i := range b {
			b[i] = byte(mix(h + uint64(i)))
		}
		return b
	}
	w := int(dt.Density())
	b := make([]byte, w)
	hh := h
	for i := 0; i < w; i++ {
		if i == 8 {
			hh = mix(h)
		}
		b[i] = byte(hh >> (8 * (i % 8)))
	}
	// avoid NaN payload normalisation concerns: bytes are compared raw, floats are never
	// interpreted by the engine.
	return b
}

// BuildSeries marshals values for a channel.
func BuildSeries(c ChanSpec, vals [][]byte) telem.Series {
	s := telem.Series{DataType: c.DataType()}
	if c.Variable() {
		for _, v := range vals {
			s.Data = append(s.Data, telem.MarshalVariableSample(v)...)
		}
		return s
	}
	for _, v := range vals {
		s.Data = append(s.Data, v...)
	}
	return s
}

// SplitSeries returns the per-sample bytes of a series.
func SplitSeries(s telem.Series) [][]byte {
	var out [][]byte
	for b := range s.Samples() {
		out = append(out, b)
	}
	return out
}

var FixedTypes = []string{"int8", "int16", "int32", "int64", "uint8", "uint16", "uint32", "uint64", "float32", "float64", "timestamp", "uuid"}
var VarTypes = []string{"string", "json", "bytes"}
