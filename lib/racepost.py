#!/usr/bin/env python3
"""Post-process Go race-detector logs written with GORACE=log_path.

usage: racepost.py <prop> <racedir> <known_findings.json> <evidence.json> <decides 0|1> <replaydir> [replay]

Counts 'WARNING: DATA RACE' blocks, dedupes them by the unordered pair of innermost
synnaxlabs (non-verif) functions of the two access stacks, then classifies:
  repo race   : both access stacks contain a github.com/synnaxlabs/ frame
  harness race: neither stack does (monitor bug -> exit 2)
When <decides>=1 a repo race is a violation of the property unless its signature is an
open entry of known_findings.json; otherwise it is only recorded in the evidence file.
Exit 0 ok, 1 violation, 2 harness race.
"""
import json, os, re, sys, glob, hashlib

prop, racedir, kf_path, ev_path, decides, replaydir = sys.argv[1:7]
replay = sys.argv[7] if len(sys.argv) > 7 else ""
decides = decides == "1"

blocks = []
for f in sorted(glob.glob(os.path.join(racedir, "r.*"))):
    txt = open(f, errors="replace").read()
    for b in txt.split("=================="):
        if "WARNING: DATA RACE" in b:
            blocks.append(b)

fn_re = re.compile(r"^\s{2}([\w./\-\[\]\*\(\)·…,~ {}]+?)\(.*\)?\s*$")

def stacks(block):
    """returns list of (header, [function names]) for the access stacks (first two)."""
    out = []
    cur = None
    for line in block.splitlines():
        if re.match(r"^(Write|Read|Previous write|Previous read|Atomic|Previous atomic)", line.strip()) and line.startswith(("Write", "Read", "Previous", "Atomic")):
            cur = (line.strip(), [])
            out.append(cur)
            continue
        if line.startswith("Goroutine ") or line.startswith("WARNING"):
            cur = None
            continue
        if cur is not None:
            m = re.match(r"^  (\S.*)\(", line)
            if m and not line.startswith("      "):
                cur[1].append(m.group(1))
    return out[:2]

def innermost_repo(fns):
    for fn in fns:
        if "github.com/synnaxlabs/" in fn:
            return re.sub(r"\[.*?\]", "", fn).replace("github.com/synnaxlabs/", "")
    return None

sigs = {}
harness_only = 0
for b in blocks:
    st = stacks(b)
    if len(st) < 2:
        continue
    a, c = innermost_repo(st[0][1]), innermost_repo(st[1][1])
    if a is None and c is None:
        harness_only += 1
        sigs.setdefault("HARNESS", []).append(b)
        continue
    pair = sorted([a or "<extern>", c or "<extern>"])
    sig = "race:" + pair[0] + "|" + pair[1]
    sigs.setdefault(sig, []).append(b)

known = []
try:
    known = [f for f in json.load(open(kf_path)).get("findings", []) if f.get("property") == prop and f.get("status") == "open"]
except Exception:
    pass

def match(sig):
    for f in known:
        if f.get("signature") == sig:
            return f
        if f.get("signature_re") and re.fullmatch(f["signature_re"], sig):
            return f
    return None

rc = 0
viol = 0
known_hits = {}
os.makedirs(replaydir, exist_ok=True)
for sig, bl in sorted(sigs.items()):
    if sig == "HARNESS":
        continue
    f = match(sig)
    path = os.path.join(replaydir, "race-" + hashlib.sha256(sig.encode()).hexdigest()[:10] + ".txt")
    if decides or f:
        with open(path, "w") as fh:
            fh.write("signature: %s\ncount: %d\n\n%s\n" % (sig, len(bl), bl[0]))
    if f:
        known_hits[f["key"]] = known_hits.get(f["key"], 0) + len(bl)
        print("KNOWN-FINDING: property=%s %s [key=%s witness=%s]" % (prop, f["what_fails"], f["key"], path))
    elif decides:
        viol += 1
        rc = 1
        print("VIOLATION property=%s replay=%s" % (prop, path))
        print("  signature: %s\n  what: data race reported by the Go race detector (%d reports)" % (sig, len(bl)))
    else:
        print("NOTE: race report outside this property's statement: %s (%d reports)" % (sig, len(bl)))

if harness_only:
    path = os.path.join(replaydir, "race-harness.txt")
    with open(path, "w") as fh:
        fh.write(sigs["HARNESS"][0])
    print("HARNESS-ERROR: %d race report(s) entirely inside the monitor (see %s)" % (harness_only, path))
    if rc == 0:
        rc = 2

if not replay and os.path.exists(ev_path):
    try:
        ev = json.load(open(ev_path))
        cov = ev.setdefault("coverage", {})
        cov["race_report_blocks"] = len(blocks)
        cov["race_distinct_signatures"] = len([s for s in sigs if s != "HARNESS"])
        cov["race_signatures"] = {s: len(b) for s, b in sigs.items()}
        cov["race_detector"] = "go -race, halt_on_error=0, reports counted from log"
        if decides:
            ev["violations"] = int(ev.get("violations", 0)) + viol
        if known_hits:
            cov.setdefault("known_finding_matches", {}).update(known_hits)
        json.dump(ev, open(ev_path, "w"), indent=1)
    except Exception as e:
        print("HARNESS-ERROR: cannot patch evidence with race info: %s" % e)
        rc = rc or 2
sys.exit(rc)
