// Package harness is the shared verdict/evidence plumbing for every property monitor.
//
// One H per property process. Monitors report generated cases, distinct non-trivial
// cases, samples, violations (with a machine-checkable signature and a witness that is
// written to replays/ BEFORE the verdict line is printed), and inconclusive cases.
// Finish writes evidence/<id>.json (EVIDENCE.schema.json) and decides the exit status:
// 0 held (possibly with KNOWN-FINDING lines), 1 violation not listed in
// known_findings.json, 2 the check observed too little / is broken.
package harness

import (
	"crypto/sha256"
	"encoding/hex"
	"encoding/json"
	"fmt"
	"os"
	"path/filepath"
	"regexp"
	"runtime/debug"
	"runtime/pprof"
	"sort"
	"strconv"
	"strings"
	"sync"
	"time"

	"verif/lib/prng"
)

type Finding struct {
	Property    string `json:"property"`
	Key         string `json:"key"`
	Status      string `json:"status"` // open | fixed
	Commit      string `json:"commit,omitempty"`
	Signature   string `json:"signature"`              // exact match on the violation signature
	SignatureRe string `json:"signature_re,omitempty"` // or an anchored regexp
	WhatFails   string `json:"what_fails"`
}

type violation struct {
	Sig    string `json:"signature"`
	What   string `json:"what"`
	Replay string `json:"replay"`
	Known  string `json:"known_finding,omitempty"`
}

type H struct {
	mu           sync.Mutex
	Prop         string
	Level        string
	tier         string
	seed         int64
	start        time.Time
	root         string
	evals        int64
	distinct     map[string]struct{}
	samples      []any
	maxSamples   int
	counters     map[string]int64
	sets         map[string]map[string]struct{}
	assumptions  []string
	rule         string
	violations   []violation
	seenSig      map[string]int
	knownPrinted map[string]bool
	inconclusive map[string]int64
	findings     []Finding
	replay       *ReplaySpec
	minDistinct  int
	finished     bool
	extra        map[string]any
}

type ReplaySpec struct {
	Property  string          `json:"property"`
	Seed      int64           `json:"seed"`
	Tier      string          `json:"tier"`
	Layer     string          `json:"layer"`
	Case      int             `json:"case"`
	Signature string          `json:"signature"`
	What      string          `json:"what"`
	Witness   json.RawMessage `json:"witness"`
}

var global *H

// Root returns the /verif directory (VERIF_ROOT or the directory two levels above the
// package under test).
func Root() string {
	if r := os.Getenv("VERIF_ROOT"); r != "" {
		return r
	}
	return "/verif"
}

func newH(prop, level string) *H {
	h := &H{
		Prop: prop, Level: level,
		tier:         "quick",
		seed:         prng.Seed(),
		start:        time.Now(),
		root:         Root(),
		distinct:     map[string]struct{}{},
		counters:     map[string]int64{},
		sets:         map[string]map[string]struct{}{},
		seenSig:      map[string]int{},
		knownPrinted: map[string]bool{},
		inconclusive: map[string]int64{},
		maxSamples:   4,
		minDistinct:  2,
		extra:        map[string]any{},
	}
	if t := os.Getenv("VERIF_TIER"); t == "thorough" {
		h.tier = "thorough"
	}
	if b, err := os.ReadFile(filepath.Join(h.root, "known_findings.json")); err == nil {
		var all struct {
			Findings []Finding `json:"findings"`
		}
		if err := json.Unmarshal(b, &all); err != nil {
			fmt.Printf("HARNESS-ERROR: known_findings.json does not parse: %v\n", err)
			os.Exit(2)
		}
		for _, f := range all.Findings {
			if f.Property == prop {
				h.findings = append(h.findings, f)
			}
		}
	}
	if p := os.Getenv("VERIF_REPLAY"); p != "" {
		b, err := os.ReadFile(p)
		if err != nil {
			fmt.Printf("HARNESS-ERROR: cannot read replay %s: %v\n", p, err)
			os.Exit(2)
		}
		var rs ReplaySpec
		if err := json.Unmarshal(b, &rs); err != nil {
			fmt.Printf("HARNESS-ERROR: replay %s does not parse: %v\n", p, err)
			os.Exit(2)
		}
		h.replay = &rs
		h.seed = rs.Seed
		if rs.Tier == "thorough" {
			h.tier = "thorough"
		}
	}
	return h
}

// Layer is one monitor of a property (a workload plus its oracle).
type Layer struct {
	Name string
	Run  func(h *H)
}

// Main is the entry point of a property binary: it runs the layers in order (only the
// replayed one during --replay; only those named in VERIF_LAYERS, comma separated, when
// set), writes the evidence file and exits with the verdict code. A panic in a monitor
// is a broken check (exit 2), never a verdict; monitors that expect panics from the code
// under test recover them themselves and report a Violation.
func Main(prop, level string, layers ...Layer) {
	h := newH(prop, level)
	global = h
	code := 0
	only := map[string]bool{}
	for _, l := range strings.Split(os.Getenv("VERIF_LAYERS"), ",") {
		if l != "" {
			only[l] = true
		}
	}
	if pp := os.Getenv("VERIF_HEAPPROF"); pp != "" {
		// debugging aid: a heap profile every 45 s (the monitors hold whole clusters/DBs)
		go func() {
			for i := 0; ; i++ {
				time.Sleep(45 * time.Second)
				if f, err := os.Create(fmt.Sprintf("%s.%d", pp, i)); err == nil {
					_ = pprof.WriteHeapProfile(f)
					_ = f.Close()
				}
			}
		}()
	}
	func() {
		defer func() {
			if r := recover(); r != nil {
				st := string(debug.Stack())
				// a panic raised inside the code under test (first non-runtime frame below
				// the panic is repository code) is a verdict, not a monitor failure
				where := ""
				for _, line := range strings.Split(st, "\n") {
					if strings.HasPrefix(line, "panic(") || strings.HasPrefix(line, "runtime.") || strings.HasPrefix(line, "runtime/debug.") || strings.HasPrefix(line, "\t") || strings.HasPrefix(line, "goroutine ") || strings.HasPrefix(line, "verif/lib/harness.") || line == "" {
						continue
					}
					if strings.HasPrefix(line, "github.com/synnaxlabs/") {
						where = strings.TrimPrefix(line, "github.com/synnaxlabs/")
						if i := strings.LastIndex(where, "("); i > 0 {
							where = where[:i]
						}
					}
					break
				}
				if where != "" {
					h.Violation("", -1, strings.ToLower(prop)+":engine-panic:"+where, fmt.Sprintf("the code under test panicked: %v (in %s)", r, where), map[string]any{"stack": st})
				} else {
					fmt.Printf("HARNESS-ERROR: monitor panicked: %v\n%s\n", r, st)
					code = 2
				}
			}
		}()
		for _, l := range layers {
			if h.replay != nil && h.replay.Layer != "" && h.replay.Layer != l.Name {
				continue
			}
			if len(only) > 0 && !only[l.Name] {
				continue
			}
			t0 := time.Now()
			l.Run(h)
			h.SetExtra("wall_s_"+l.Name, time.Since(t0).Seconds())
		}
	}()
	os.Exit(h.Finish(code))
}

func Get() *H { return global }

func (h *H) Tier() string   { return h.tier }
func (h *H) Quick() bool    { return h.tier == "quick" }
func (h *H) Thorough() bool { return h.tier == "thorough" }
func (h *H) Seed() int64    { return h.seed }

// N picks a case count by tier; VERIF_SCALE (float) scales it for experiments.
func (h *H) N(quick, thorough int) int {
	n := quick
	if h.tier == "thorough" {
		n = thorough
	}
	if s := os.Getenv("VERIF_SCALE"); s != "" {
		if f, err := strconv.ParseFloat(s, 64); err == nil && f > 0 {
			n = int(float64(n) * f)
			if n < 1 {
				n = 1
			}
		}
	}
	return n
}

// Rand returns the PRNG for (layer, case#).
func (h *H) Rand(layer string, c int) *prng.R { return prng.New(h.seed, h.Prop+"/"+layer, c) }

// Replaying reports whether this run is a replay, and of which (layer, case).
func (h *H) Replaying() (*ReplaySpec, bool) { return h.replay, h.replay != nil }

// Skip reports whether (layer, case) should be skipped because a replay of another
// case is in progress.
func (h *H) Skip(layer string, c int) bool {
	if h.replay == nil {
		return false
	}
	if h.replay.Layer != "" && h.replay.Layer != layer {
		return true
	}
	return h.replay.Case >= 0 && h.replay.Case != c
}

func (h *H) SetRule(r string) { h.mu.Lock(); h.rule = r; h.mu.Unlock() }
func (h *H) AddRule(r string) {
	h.mu.Lock()
	if h.rule != "" {
		h.rule += " | "
	}
	h.rule += r
	h.mu.Unlock()
}
func (h *H) Assume(a string)          { h.mu.Lock(); h.assumptions = append(h.assumptions, a); h.mu.Unlock() }
func (h *H) SetMinDistinct(n int)     { h.mu.Lock(); h.minDistinct = n; h.mu.Unlock() }
func (h *H) SetExtra(k string, v any) { h.mu.Lock(); h.extra[k] = v; h.mu.Unlock() }

// Eval counts one generated case / execution.
func (h *H) Eval()       { h.mu.Lock(); h.evals++; h.mu.Unlock() }
func (h *H) Evals(n int) { h.mu.Lock(); h.evals += int64(n); h.mu.Unlock() }

// Distinct records a case that is non-trivial by the monitor's rule under a
// normalised key; only distinct keys are counted.
func (h *H) Distinct(key string) {
	s := sha256.Sum256([]byte(key))
	k := string(s[:12])
	h.mu.Lock()
	h.distinct[k] = struct{}{}
	h.mu.Unlock()
}

// Count adds to a named coverage counter.
func (h *H) Count(name string, d int) { h.mu.Lock(); h.counters[name] += int64(d); h.mu.Unlock() }

// Seen adds a member to a named set whose cardinality is reported (distinct states,
// interleavings, flag combinations ...).
func (h *H) Seen(set, member string) {
	h.mu.Lock()
	m := h.sets[set]
	if m == nil {
		m = map[string]struct{}{}
		h.sets[set] = m
	}
	if len(m) < 1<<20 {
		m[member] = struct{}{}
	}
	h.mu.Unlock()
}

func (h *H) SeenCount(set string) int {
	h.mu.Lock()
	defer h.mu.Unlock()
	return len(h.sets[set])
}

// Sample keeps the first few cases written out.
func (h *H) Sample(v any) {
	h.mu.Lock()
	if len(h.samples) < h.maxSamples {
		h.samples = append(h.samples, v)
	}
	h.mu.Unlock()
}

func (h *H) Inconclusive(reason string) {
	h.mu.Lock()
	h.inconclusive[reason]++
	h.mu.Unlock()
}

func sanitize(s string) string {
	re := regexp.MustCompile(`[^A-Za-z0-9_.-]+`)
	s = re.ReplaceAllString(s, "_")
	if len(s) > 60 {
		s = s[:60]
	}
	return s
}

func (h *H) match(sig string) *Finding {
	for i := range h.findings {
		f := &h.findings[i]
		if f.Status != "open" {
			continue
		}
		if f.Signature != "" && f.Signature == sig {
			return f
		}
		if f.SignatureRe != "" {
			if re, err := regexp.Compile("^(?:" + f.SignatureRe + ")$"); err == nil && re.MatchString(sig) {
				return f
			}
		}
	}
	return nil
}

// Violation records a refuting observation. sig is the machine-checkable signature the
// known-findings file keys on; witness is what replays it. layer/case identify the
// generating case (case<0 = not case-indexed). Only the first 3 witnesses per signature
// are written out; all are counted.
func (h *H) Violation(layer string, c int, sig, what string, witness any) {
	h.mu.Lock()
	defer h.mu.Unlock()
	h.seenSig[sig]++
	n := h.seenSig[sig]
	if n > 3 {
		return
	}
	wb, err := json.Marshal(witness)
	if err != nil {
		wb, _ = json.Marshal(fmt.Sprintf("%+v", witness))
	}
	rs := ReplaySpec{Property: h.Prop, Seed: h.seed, Tier: h.tier, Layer: layer, Case: c, Signature: sig, What: what, Witness: wb}
	dir := filepath.Join(h.root, "replays", h.Prop)
	if d := os.Getenv("VERIF_REPLAY_DIR"); d != "" {
		dir = filepath.Join(d, h.Prop)
	}
	_ = os.MkdirAll(dir, 0o755)
	hs := sha256.Sum256([]byte(sig))
	path := filepath.Join(dir, fmt.Sprintf("%s-%s-s%d-c%d-%d.json", sanitize(sig), hex.EncodeToString(hs[:3]), h.seed, c, n))
	b, _ := json.MarshalIndent(rs, "", " ")
	_ = os.WriteFile(path, b, 0o644)
	v := violation{Sig: sig, What: what, Replay: path}
	if f := h.match(sig); f != nil {
		v.Known = f.Key
		if !h.knownPrinted[f.Key] {
			h.knownPrinted[f.Key] = true
			fmt.Printf("KNOWN-FINDING: property=%s %s [key=%s witness=%s]\n", h.Prop, f.WhatFails, f.Key, path)
		}
	} else if n == 1 {
		fmt.Printf("VIOLATION property=%s replay=%s\n", h.Prop, path)
		fmt.Printf("  signature: %s\n  what: %s\n", sig, what)
	}
	h.violations = append(h.violations, v)
}

// Finish writes the evidence file and returns the process exit code.
func (h *H) Finish(testCode int) int {
	h.mu.Lock()
	defer h.mu.Unlock()
	if h.finished {
		return 0
	}
	h.finished = true
	unknown := 0
	knownKeys := map[string]int{}
	sigs := map[string]int{}
	for s, n := range h.seenSig {
		if f := h.match(s); f != nil {
			knownKeys[f.Key] += n
		} else {
			unknown += n
			sigs[s] = n
		}
	}
	cov := map[string]any{
		"evaluations":         h.evals,
		"distinct_nontrivial": len(h.distinct),
		"rule":                h.rule,
		"samples":             h.samples,
	}
	for k, v := range h.counters {
		cov[k] = v
	}
	if len(h.samples) == 0 {
		cov["samples"] = []any{}
		if h.evals > 0 {
			// only layers that record counters ran (VERIF_LAYERS): their totals are the sample
			cov["samples"] = []any{map[string]any{"note": "the layers that ran record counters only", "counters": h.counters}}
		}
	}
	for k, m := range h.sets {
		cov["distinct_"+k] = len(m)
	}
	inc := int64(0)
	for _, n := range h.inconclusive {
		inc += n
	}
	cov["inconclusive"] = inc
	if inc > 0 {
		cov["inconclusive_by_reason"] = h.inconclusive
	}
	if len(knownKeys) > 0 {
		cov["known_finding_matches"] = knownKeys
	}
	if len(sigs) > 0 {
		cov["violation_signatures"] = sigs
	}
	for k, v := range h.extra {
		cov[k] = v
	}
	ev := map[string]any{
		"property_id": h.Prop,
		"tier":        h.tier,
		"seed":        h.seed,
		"level":       h.Level,
		"coverage":    cov,
		"assumptions": h.assumptions,
		"wall_s":      time.Since(h.start).Seconds(),
		"violations":  unknown,
	}
	if h.assumptions == nil {
		ev["assumptions"] = []string{}
	}
	path := os.Getenv("VERIF_EVIDENCE")
	if path == "" {
		path = filepath.Join(h.root, "evidence", h.Prop+".json")
	}
	if h.replay == nil {
		_ = os.MkdirAll(filepath.Dir(path), 0o755)
		b, _ := json.MarshalIndent(ev, "", " ")
		if err := os.WriteFile(path, b, 0o644); err != nil {
			fmt.Printf("HARNESS-ERROR: cannot write evidence: %v\n", err)
			return 2
		}
	}
	keys := make([]string, 0, len(h.counters))
	for k := range h.counters {
		keys = append(keys, k)
	}
	sort.Strings(keys)
	var sb strings.Builder
	for _, k := range keys {
		fmt.Fprintf(&sb, " %s=%d", k, h.counters[k])
	}
	fmt.Printf("SUMMARY property=%s tier=%s seed=%d evaluations=%d distinct_nontrivial=%d inconclusive=%d violations=%d known=%d%s\n",
		h.Prop, h.tier, h.seed, h.evals, len(h.distinct), inc, unknown, len(knownKeys), sb.String())
	if unknown > 0 {
		return 1
	}
	if testCode != 0 {
		return 2
	}
	if h.replay == nil && (h.evals < 1 || len(h.distinct) < h.minDistinct) {
		fmt.Printf("HARNESS-ERROR: observed too little: evaluations=%d distinct_nontrivial=%d (floor %d)\n", h.evals, len(h.distinct), h.minDistinct)
		return 2
	}
	return 0
}
