// C20 — streamers see an ordered, filtered, duplicate-free view of writes and never block
// writers.
//
// Layers:
//
//	complete  2-5 writers (persist+stream, stream-only, persist-only; authorized and not) and
//	          2-6 streamer slots that subscribe / re-subscribe / disconnect / reconnect while
//	          the writers run; relay slow-consumer timeout raised to 120 s through the verif
//	          hook so that an always-ready consumer is never dropped; safety + completeness
//	nonblock  the production 20 ms timeout, tiny relay buffer, consumers that stop reading,
//	          abrupt disconnects, DB.Close with streamers open: every Write / Writer.Close /
//	          DB.Close must return; safety clauses still checked on whatever was received
package main

import (
	"fmt"
	"runtime"
	"strings"

	"verif/lib/harness"
)

func main() {
	harness.Main("C20", "exploration",
		harness.Layer{Name: "complete", Run: func(h *harness.H) { layer(h, "complete", false, h.N(400, 8000)) }},
		harness.Layer{Name: "nonblock", Run: func(h *harness.H) { layer(h, "nonblock", true, h.N(96, 2000)) }},
		harness.Layer{Name: "resub-empty", Run: layerResubEmpty},
	)
}

func layer(h *harness.H, name string, nonBlocking bool, n int) {
	if nonBlocking {
		h.AddRule("nonblock: PRNG run plans with the production slow-consumer timeout, relay buffer 1-4, stalled consumers, abrupt disconnects, optional DB.Close before the streamers; distinct = plan shape; non-trivial = all writer calls returned and >=1 consumer stalled or DB closed first")
	} else {
		h.AddRule("complete: PRNG run plans (writers x writes x authority flips, streamer slots x instances x subscription phases); distinct = plan shape; non-trivial = >=1 stable window with >=1 write inside it and >=1 unauthorized write")
	}
	runtime.GOMAXPROCS(16)
	type out struct {
		c   int
		res runResult
	}
	const chunk = 16
	for base := 0; base < n; base += chunk {
		m := min(chunk, n-base)
		results := parallel(m, 8, func(i int) any {
			c := base + i
			if h.Skip(name, c) {
				return nil
			}
			p := genPlan(h.Rand(name, c), nonBlocking, h.Thorough())
			return out{c, execute(p)}
		})
		for _, r := range results {
			if r == nil {
				continue
			}
			o := r.(out)
			h.Eval()
			res := o.res
			for k, v := range res.counts {
				h.Count(name+"_"+k, v)
			}
			if res.sig != "" {
				h.Violation(name, o.c, res.sig, res.what, map[string]any{"plan": res.plan, "goroutines": res.dump})
				continue
			}
			if res.inconclusive != "" {
				h.Inconclusive(name + ":" + strings.SplitN(res.inconclusive, ":", 2)[0])
				h.SetExtra(name+"_last_inconclusive", fmt.Sprintf("case %d: %s", o.c, res.inconclusive))
				if res.dump != "" {
					h.SetExtra(name+"_last_watchdog_goroutines", res.dump)
				}
				continue
			}
			if bad := checkWriteFlags(res); bad != "" {
				h.Inconclusive(name + ":authorization-bookkeeping")
				h.SetExtra(name+"_last_inconclusive", fmt.Sprintf("case %d: %s", o.c, bad))
				continue
			}
			vs, st := check(res)
			for _, v := range vs {
				h.Violation(name, o.c, v.sig, v.what, map[string]any{"plan": res.plan, "detail": v.witness})
			}
			if len(vs) > 0 {
				continue
			}
			nw, unauth := 0, 0
			for _, l := range res.wlogs {
				for _, w := range l {
					nw++
					if len(w.AuthKeys) != len(w.Keys) {
						unauth++
					}
				}
			}
			forced := 0
			for _, il := range res.ilogs {
				if il.Forced {
					forced++
				}
			}
			h.Count(name+"_writes", nw)
			h.Count(name+"_writes_partly_unauthorized", unauth)
			h.Count(name+"_frames_received_checked", st.framesChecked)
			h.Count(name+"_series_checked", st.seriesChecked)
			h.Count(name+"_frames_in_stable_windows", st.stableFrames)
			h.Count(name+"_frames_while_resubscribing", st.inflightFrames)
			h.Count(name+"_stable_windows", st.windows)
			h.Count(name+"_writes_required_by_completeness", st.windowWrites)
			h.Count(name+"_consumers_force_cancelled", forced)
			nontrivial := st.windows > 0 && st.windowWrites > 0 && unauth > 0
			if nonBlocking {
				nontrivial = res.counts["consumers_stalled"] > 0 || res.counts["db_closed_with_open_streamers"] > 0
			}
			if nontrivial {
				h.Distinct(name + "|" + res.plan.shape())
			}
			h.Sample(map[string]any{"layer": name, "case": o.c, "plan": res.plan.shape(), "writes": nw, "frames_checked": st.framesChecked, "windows": st.windows, "writes_required": st.windowWrites})
		}
	}
}

// parallel runs f(0..n-1) on k goroutines and returns the results in case order.
func parallel(n, k int, f func(int) any) []any {
	res := make([]any, n)
	ch := make(chan int)
	done := make(chan struct{})
	for g := 0; g < k; g++ {
		go func() {
			for c := range ch {
				res[c] = f(c)
			}
			done <- struct{}{}
		}()
	}
	for c := 0; c < n; c++ {
		ch <- c
	}
	close(ch)
	for g := 0; g < k; g++ {
		<-done
	}
	return res
}
