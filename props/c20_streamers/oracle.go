package main

import (
	"fmt"
	"sort"
)

// ---- offline oracle over the event log --------------------------------------------------------
//
// Encodes the statement, clause by clause:
//   filtered      every received key is in the subscription in force; while a re-subscription
//                 is in flight (requested, not yet confirmed by a sentinel on a new-only key)
//                 it may be in the union of the sets from the last confirmed one onwards
//   subsequence   every received regular frame is a frame some writer wrote (same keys subset,
//                 same values), written before it was received, by a stream-enabled writer
//   authorized    no received series belongs to a (writer, channel) the writer was not
//                 authorized on at that write
//   no duplicate / per-writer order
//                 per streamer and writer, sequence numbers strictly increase
//   complete      an always-ready streamer receives every frame whose Write began after the
//                 streamer's subscription was confirmed and returned before the flush/end
//                 sentinel that closes the window was written — with exactly the authorized,
//                 subscribed keys
// Blocking is decided while running (run.go).

type violation struct {
	sig, what string
	witness   any
}

func contains(ks []key, k key) bool {
	for _, x := range ks {
		if x == k {
			return true
		}
	}
	return false
}

func intersect(a, b []key) []key {
	var out []key
	for _, k := range a {
		if contains(b, k) {
			out = append(out, k)
		}
	}
	sort.Slice(out, func(i, j int) bool { return out[i] < out[j] })
	return out
}

type oracleStats struct {
	framesChecked, seriesChecked, windows, windowWrites, stableFrames, inflightFrames int
}

func check(res runResult) (vs []violation, st oracleStats) {
	writes := map[[2]int]*wrec{}
	for li := range res.wlogs {
		for i := range res.wlogs[li] {
			w := &res.wlogs[li][i]
			writes[[2]int{w.W, w.Seq}] = w
		}
	}
	add := func(sig, what string, wit any) {
		if len(vs) < 8 {
			vs = append(vs, violation{sig, what, wit})
		}
	}
	for _, il := range res.ilogs {
		if !il.Exited {
			continue // a consumer that never returned still owns its log
		}
		last := map[int]int{}
		seen := map[[2]int]bool{}
		for ri, r := range il.Recv {
			var allowed []key
			for v := r.Conf; v <= r.Ver && v < len(il.Sets); v++ {
				allowed = append(allowed, il.Sets[v]...)
			}
			for _, k := range r.Keys {
				if !contains(allowed, k) {
					sig := "c20:filter:key-outside-subscription"
					if r.Conf != r.Ver {
						sig = "c20:filter:key-outside-old-and-new-subscription"
					}
					add(sig, fmt.Sprintf("streamer %d received key %d; subscription in force (versions %d..%d) is %v", il.SID, k, r.Conf, r.Ver, allowed),
						map[string]any{"streamer": il.SID, "recv_index": ri, "frame": r})
				}
			}
			if !r.Regular {
				continue
			}
			st.framesChecked++
			if r.Mixed {
				add("c20:frame-mixes-writes", fmt.Sprintf("streamer %d received one frame carrying series of different writes", il.SID), r)
				continue
			}
			w := writes[[2]int{r.W, r.Seq}]
			if w == nil {
				add("c20:received-unwritten-frame", fmt.Sprintf("streamer %d received (writer %d, seq %d) which no writer wrote", il.SID, r.W, r.Seq), r)
				continue
			}
			if w.Call > r.At {
				add("c20:received-before-written", fmt.Sprintf("streamer %d received (writer %d, seq %d) before the Write call began", il.SID, r.W, r.Seq), r)
			}
			if !w.Streams {
				add("c20:persist-only-frame-relayed", fmt.Sprintf("streamer %d received a frame of persist-only writer %d", il.SID, r.W), r)
			}
			dataKeys := 0
			for _, k := range r.Keys {
				if k >= kS0 {
					continue
				}
				dataKeys++
				st.seriesChecked++
				if !contains(w.Keys, k) {
					add("c20:series-for-unwritten-channel", fmt.Sprintf("streamer %d: frame (writer %d, seq %d) carries key %d the write did not contain", il.SID, r.W, r.Seq, k), r)
					continue
				}
				if !contains(w.AuthKeys, k) {
					add("c20:unauthorized-series-relayed", fmt.Sprintf("streamer %d received key %d of (writer %d, seq %d) although that writer was not authorized on it", il.SID, k, r.W, r.Seq),
						map[string]any{"streamer": il.SID, "frame": r, "write": w})
				}
				if len(r.Vals[k]) != w.N {
					add("c20:series-length-mismatch", fmt.Sprintf("streamer %d: key %d of (writer %d, seq %d) has %d samples, written %d", il.SID, k, r.W, r.Seq, len(r.Vals[k]), w.N), r)
				} else {
					for j, v := range r.Vals[k] {
						if v != regVal(r.W, r.Seq, j) {
							add("c20:series-value-mismatch", fmt.Sprintf("streamer %d: key %d of (writer %d, seq %d) sample %d differs from what was written", il.SID, k, r.W, r.Seq, j), r)
							break
						}
					}
				}
			}
			id := [2]int{r.W, r.Seq}
			switch {
			case seen[id]:
				add("c20:duplicate-frame", fmt.Sprintf("streamer %d received (writer %d, seq %d) twice", il.SID, r.W, r.Seq), map[string]any{"streamer": il.SID, "recv_index": ri, "frame": r})
			case r.Seq < last[r.W]:
				add("c20:reordered-frames", fmt.Sprintf("streamer %d received writer %d's seq %d after seq %d", il.SID, r.W, r.Seq, last[r.W]), map[string]any{"streamer": il.SID, "recv_index": ri, "frame": r})
			}
			seen[id] = true
			if r.Seq > last[r.W] {
				last[r.W] = r.Seq
			}
			if r.Stable && r.Conf == r.Ver && il.ConfirmAt[r.Ver] != 0 && w.Call > il.ConfirmAt[r.Ver] {
				st.stableFrames++
				want := intersect(w.AuthKeys, il.DataSets[r.Ver])
				got := intersect(r.Keys, dataKeys6)
				if fmt.Sprint(want) != fmt.Sprint(got) {
					add("c20:frame-keys-differ-from-authorized-subscribed", fmt.Sprintf("streamer %d in a stable window received keys %v of (writer %d, seq %d); authorized∩subscribed is %v", il.SID, got, r.W, r.Seq, want),
						map[string]any{"streamer": il.SID, "frame": r, "write": w, "subscription": il.Sets[r.Ver]})
				}
			} else {
				st.inflightFrames++
			}
		}
		if res.plan.NonBlocking {
			continue // the production slow-consumer timeout may drop frames: completeness is not asserted
		}
		for ver := range il.Sets {
			open, cl := il.ConfirmAt[ver], il.CloseAt[ver]
			if cl == -1 {
				cl = res.endCall
			}
			if open == 0 || cl == 0 {
				continue
			}
			st.windows++
			for _, w := range writes {
				if !w.Streams || w.Err != "" || w.Call <= open || w.Ret >= cl {
					continue
				}
				want := intersect(w.AuthKeys, il.DataSets[ver])
				if len(want) == 0 {
					continue
				}
				st.windowWrites++
				if !seen[[2]int{w.W, w.Seq}] {
					add("c20:frame-missed-by-ready-streamer", fmt.Sprintf("always-ready streamer %d (subscription v%d %v, confirmed at t=%d, window closed at t=%d) never received (writer %d, seq %d) written in [%d,%d] on %v", il.SID, ver, il.DataSets[ver], open, cl, w.W, w.Seq, w.Call, w.Ret, want),
						map[string]any{"streamer": il.SID, "version": ver, "write": w})
				}
			}
		}
	}
	return
}

var dataKeys6 = dataKeys

// checkWriteFlags validates the monitor's own authorization bookkeeping against the
// authorized flag every Sync write returned. A disagreement means the per-channel
// expectations above cannot be trusted: the run is inconclusive, not a verdict.
func checkWriteFlags(res runResult) string {
	for _, l := range res.wlogs {
		for _, w := range l {
			if w.Err != "" {
				continue
			}
			if want := len(w.AuthKeys) == len(w.Keys); w.Flag != want {
				return fmt.Sprintf("writer %d seq %d keys %v: authorized flag %v, monitor expected %v", w.W, w.Seq, w.Keys, w.Flag, want)
			}
		}
	}
	return ""
}
