package main

import (
	"context"
	"fmt"
	"regexp"
	"runtime"
	"sort"
	"strings"
	"sync"
	"sync/atomic"
	"time"

	"github.com/synnaxlabs/cesium"
	"github.com/synnaxlabs/x/confluence"
	xcontrol "github.com/synnaxlabs/x/control"
	xfs "github.com/synnaxlabs/x/io/fs"
	"github.com/synnaxlabs/x/signal"
	"github.com/synnaxlabs/x/telem"
)

// ---- event log -----------------------------------------------------------------------------

type wrec struct {
	W, Seq   int
	Keys     []key
	N        int
	AuthKeys []key // keys the writer is authorized on at this write, by construction
	Flag     bool
	Err      string
	Call     int64
	Ret      int64
	Streams  bool
}

type rrec struct {
	At      int64
	Ver     int // latest subscription version requested by the consumer at this point
	Conf    int // latest version confirmed in force at this point
	Stable  bool
	Regular bool
	W, Seq  int
	Mixed   bool // series of more than one write in one frame
	Keys    []key
	Vals    map[key][]int64
	Sent    []sentinel
	End     bool
}

type instLog struct {
	SID       int
	Slot      int
	Sets      [][]key // full subscription per version
	DataSets  [][]key
	ReqAt     []int64
	ConfirmAt []int64 // 0 = never confirmed
	CloseAt   []int64 // logical time the stable window of the version closed (flush/end write call), 0 = none
	Recv      []rrec
	Forced    bool // the coordinator had to cancel it
	Exited    bool
}

type svcReq struct {
	sid, ver, nonce, kind int
}

type run struct {
	plan      runPlan
	ctx       context.Context
	db        *cesium.DB
	clock     atomic.Int64
	writes    atomic.Int64 // completed regular writes
	sidSeq    atomic.Int64
	ended     atomic.Bool // the end sentinel has been requested: no new streamer instance starts
	svc       chan svcReq
	mu        sync.Mutex
	flushCall map[[2]int]int64 // (sid, nonce) -> logical time just before the flush sentinel was written
	endCall   int64
	wlogs     [][]wrec
	ilogs     []*instLog
	cancels   []context.CancelFunc
	release   chan struct{} // closed to let stalled consumers go
	problems  []string      // unexpected errors: the run is inconclusive
	dump      string
	counts    map[string]int
}

func (rn *run) problem(format string, a ...any) {
	rn.mu.Lock()
	if len(rn.problems) < 5 {
		rn.problems = append(rn.problems, fmt.Sprintf(format, a...))
	}
	rn.mu.Unlock()
}

func (rn *run) count(k string, n int) {
	rn.mu.Lock()
	rn.counts[k] += n
	rn.mu.Unlock()
}

func (rn *run) sentinel(sid, ver, nonce, kind int) {
	select {
	case rn.svc <- svcReq{sid, ver, nonce, kind}:
	default: // the consumer never blocks; it will ask again on the next frame
	}
}

// wait runs f in a goroutine and waits for it with a watchdog.
func waitFor(d time.Duration, f func()) bool {
	done := make(chan struct{})
	go func() { f(); close(done) }()
	t := time.NewTimer(d)
	defer t.Stop()
	select {
	case <-done:
		return true
	case <-t.C:
		return false
	}
}

type runResult struct {
	plan         runPlan
	wlogs        [][]wrec
	ilogs        []*instLog
	endCall      int64
	flushCall    map[[2]int]int64
	inconclusive string
	sig, what    string // a violation decided while running (blocking)
	dump         string // goroutines of repo code at the time a watchdog fired
	counts       map[string]int
}

// blockedVerdicts counts runs that ended in a blocked-writers verdict; after two, the
// remaining cases of the process are skipped (inconclusive) so that a tree that really
// blocks does not cost one watchdog period per case.
var blockedVerdicts atomic.Int64

func execute(p runPlan) (res runResult) {
	res.plan = p
	if blockedVerdicts.Load() >= 2 {
		res.inconclusive = "skipped-after-blocked-verdicts"
		return
	}
	// watchdogs only trigger the state-based verdict; the runtime must have seen the goroutine
	// parked for at least a minute before it counts
	stepWatchdog := 150 * time.Second
	if p.NonBlocking {
		stepWatchdog = 70 * time.Second
	}
	ctx := context.Background()
	timeout := 120 * time.Second
	if p.NonBlocking {
		timeout = cesium.DefaultDBStreamingConfig.SlowConsumerTimeout // production value
	}
	db, err := cesium.Open(ctx, "", cesium.WithFS(xfs.NewMem()),
		cesium.WithStreamingConfig(cesium.DBStreamingConfig{BufferSize: p.Buffer, SlowConsumerTimeout: timeout}))
	if err != nil {
		res.inconclusive = "open-db: " + err.Error()
		return
	}
	rn := &run{plan: p, ctx: ctx, db: db, svc: make(chan svcReq, 4096), flushCall: map[[2]int]int64{},
		release: make(chan struct{}), counts: map[string]int{}}
	defer func() {
		// consumers that never returned may still touch the shared maps: copy under the lock
		rn.mu.Lock()
		defer rn.mu.Unlock()
		res.wlogs, res.endCall, res.dump = rn.wlogs, rn.endCall, rn.dump
		res.ilogs = append([]*instLog{}, rn.ilogs...)
		res.flushCall = map[[2]int]int64{}
		for k, v := range rn.flushCall {
			res.flushCall[k] = v
		}
		res.counts = map[string]int{}
		for k, v := range rn.counts {
			res.counts[k] = v
		}
		if res.inconclusive == "" && res.sig == "" && len(rn.problems) > 0 {
			res.inconclusive = rn.problems[0]
		}
		if strings.HasPrefix(res.sig, "c20:blocked:") {
			blockedVerdicts.Add(1)
		}
	}()
	var chans []cesium.Channel
	for _, k := range unaryKeys {
		chans = append(chans, cesium.Channel{Key: k, Name: fmt.Sprintf("u%d", k), DataType: telem.TimeStampT, IsIndex: true})
	}
	for _, k := range []key{kD0, kD1, kD2} {
		chans = append(chans, cesium.Channel{Key: k, Name: fmt.Sprintf("d%d", k), DataType: telem.Int64T, Index: indexOf[k]})
	}
	for _, k := range append(append([]key{}, virtKeys...), kS0, kS1, kS2, kE) {
		chans = append(chans, cesium.Channel{Key: k, Name: fmt.Sprintf("v%d", k), DataType: telem.Int64T, Virtual: true})
	}
	if err = db.CreateChannel(ctx, chans...); err != nil {
		res.inconclusive = "create-channels: " + err.Error()
		_ = db.Close()
		return
	}
	// service writer: anchors every virtual channel at authority 200 and writes sentinels
	syncT := true
	svcW, err := db.OpenWriter(ctx, cesium.WriterConfig{
		ControlSubject: xcontrol.Subject{Key: "service"},
		Channels:       append(append([]key{}, virtKeys...), kS0, kS1, kS2, kE),
		Authorities:    []xcontrol.Authority{authHigh},
		Start:          1,
		Mode:           cesium.WriterModeStreamOnly,
		Sync:           &syncT,
	})
	if err != nil {
		res.inconclusive = "open-service-writer: " + err.Error()
		_ = db.Close()
		return
	}
	svcDone := make(chan struct{})
	go func() {
		defer close(svcDone)
		for rq := range rn.svc {
			if rq.kind == 0 { // stop request; the channel itself is never closed (consumers may still send)
				return
			}
			k := kS0 + key(rq.ver%3)
			if rq.kind == kindEnd {
				k = kE
			}
			call := rn.clock.Add(1)
			rn.mu.Lock()
			if rq.kind == kindFlush {
				rn.flushCall[[2]int{rq.sid, rq.nonce}] = call
			}
			if rq.kind == kindEnd && rn.endCall == 0 {
				rn.endCall = call
			}
			rn.mu.Unlock()
			if _, err := svcW.Write(telem.UnaryFrame[key](k, telem.NewSeriesV[int64](sentVal(rq.sid, rq.ver, rq.nonce, rq.kind)))); err != nil {
				rn.problem("service-write: %v", err)
				return
			}
			rn.count("sentinels_written", 1)
		}
	}()

	// open regular writers: owners first, then the rest (so an intruder always finds its owner)
	type live struct {
		plan writerPlan
		w    *cesium.Writer
	}
	order := make([]writerPlan, 0, len(p.Writers))
	for _, w := range p.Writers {
		if len(w.Owns) > 0 {
			order = append(order, w)
		}
	}
	for _, w := range p.Writers {
		if len(w.Owns) == 0 {
			order = append(order, w)
		}
	}
	var lives []live
	for _, wp := range order {
		var auths []xcontrol.Authority
		for range wp.Owns {
			auths = append(auths, 255)
		}
		for range wp.Intrudes {
			auths = append(auths, 1)
		}
		for range wp.Virt {
			auths = append(auths, xcontrol.Authority(wp.VirtAuth))
		}
		w, err := db.OpenWriter(ctx, cesium.WriterConfig{
			ControlSubject: xcontrol.Subject{Key: fmt.Sprintf("w%d", wp.ID), Group: uint32(wp.ID)},
			Channels:       wp.keys(),
			Authorities:    auths,
			Start:          telem.TimeStamp(10 + wp.ID),
			Mode:           cesium.WriterMode(wp.Mode),
			Sync:           &syncT,
		})
		if err != nil {
			rn.problem("open-writer: %v", err)
			continue
		}
		lives = append(lives, live{wp, w})
	}
	rn.wlogs = make([][]wrec, len(lives))

	// streamer slots
	var slotWG sync.WaitGroup
	for si, sp := range p.Slots {
		slotWG.Add(1)
		go func(si int, sp slotPlan) {
			defer slotWG.Done()
			for rn.writes.Load() < int64(sp.StartAfter) {
				runtime.Gosched()
			}
			for _, ip := range sp.Insts {
				if rn.ended.Load() {
					return
				}
				if end := rn.runInstance(si, ip); end {
					return
				}
			}
		}(si, sp)
	}

	// writers
	var wWG sync.WaitGroup
	for li, l := range lives {
		wWG.Add(1)
		go func(li int, l live) {
			defer wWG.Done()
			cur := l.plan.VirtAuth
			isVirt := map[key]bool{}
			for _, k := range l.plan.Virt {
				isVirt[k] = true
			}
			owns := map[key]bool{}
			for _, k := range l.plan.Owns {
				owns[k] = true
			}
			for i, wp := range l.plan.Writes {
				if wp.FlipTo != 0 {
					if err := l.w.SetAuthority(cesium.WriterConfig{Channels: append([]key{}, l.plan.Virt...), Authorities: []xcontrol.Authority{xcontrol.Authority(wp.FlipTo)}}); err != nil {
						rn.problem("set-authority: %v", err)
						return
					}
					cur = wp.FlipTo
				}
				seq := i + 1
				rec := wrec{W: l.plan.ID, Seq: seq, Keys: wp.Keys, N: wp.N, Streams: l.plan.Mode != 2}
				series := make([]telem.Series, 0, len(wp.Keys))
				for _, k := range wp.Keys {
					if isVirt[k] {
						vals := make([]int64, wp.N)
						for j := range vals {
							vals[j] = regVal(l.plan.ID, seq, j)
						}
						series = append(series, telem.NewSeries(vals))
						if cur == authHigh {
							rec.AuthKeys = append(rec.AuthKeys, k)
						}
					} else if _, isData := indexOf[k]; isData {
						vals := make([]int64, wp.N)
						for j := range vals {
							vals[j] = regVal(l.plan.ID, seq, j)
						}
						series = append(series, telem.NewSeries(vals))
						if owns[k] {
							rec.AuthKeys = append(rec.AuthKeys, k)
						}
					} else {
						vals := make([]telem.TimeStamp, wp.N)
						for j := range vals {
							vals[j] = telem.TimeStamp(regVal(l.plan.ID, seq, j))
						}
						series = append(series, telem.NewSeries(vals))
						if owns[k] {
							rec.AuthKeys = append(rec.AuthKeys, k)
						}
					}
				}
				for y := 0; y < wp.Yield; y++ {
					runtime.Gosched()
				}
				rec.Call = rn.clock.Add(1)
				flag, err := l.w.Write(telem.MultiFrame(append([]key{}, wp.Keys...), series))
				rec.Ret = rn.clock.Add(1)
				rec.Flag = flag
				if err != nil {
					rec.Err = err.Error()
					rn.problem("write by w%d: %v", l.plan.ID, err)
					rn.wlogs[li] = append(rn.wlogs[li], rec)
					return
				}
				rn.wlogs[li] = append(rn.wlogs[li], rec)
				rn.writes.Add(1)
			}
		}(li, l)
	}
	if !waitFor(stepWatchdog, wWG.Wait) {
		res.sig, res.what, res.inconclusive = rn.stallVerdict("writes")
		rn.abandon()
		return
	}
	rn.writes.Store(1 << 40) // slots that have not started yet start now
	// Writer.Close must return: intruders and non-owners first, owners last
	closeAll := func() {
		for i := len(lives) - 1; i >= 0; i-- {
			if err := lives[i].w.Close(); err != nil {
				rn.problem("close-writer: %v", err)
			}
		}
	}
	if !waitFor(stepWatchdog, closeAll) {
		res.sig, res.what, res.inconclusive = rn.stallVerdict("writer-close")
		rn.abandon()
		return
	}
	// end-of-run sentinel, then wait for the consumers
	rn.ended.Store(true)
	rn.svc <- svcReq{kind: kindEnd}
	if p.CloseDBFirst {
		// the database is closed while streamers are still open (all writers are closed)
		waitFor(5*time.Second, func() {
			for {
				rn.mu.Lock()
				e := rn.endCall
				rn.mu.Unlock()
				if e != 0 {
					return
				}
				runtime.Gosched()
			}
		})
		rn.svc <- svcReq{}
		<-svcDone
		if !waitFor(stepWatchdog, func() { _ = svcW.Close() }) {
			res.sig, res.what, res.inconclusive = rn.stallVerdict("writer-close")
			rn.abandon()
			return
		}
		if !waitFor(stepWatchdog, func() { _ = db.Close() }) {
			res.sig, res.what, res.inconclusive = rn.stallVerdict("db-close")
			rn.abandon()
			return
		}
		rn.count("db_closed_with_open_streamers", 1)
		close(rn.release)
		rn.cancelAll()
		if !waitFor(3*time.Second, slotWG.Wait) {
			rn.count("streamer_exit_hung_after_db_close", 1) // outside the statement: counted, not judged
		}
		return
	}
	// An instance that connected while the end sentinel was in flight may have missed it:
	// repeat it until every consumer has left (pacing only; nothing is decided by this clock).
	grace := 120
	if p.NonBlocking {
		grace = 12 // frames (and end sentinels) may legitimately be dropped for slow consumers
	}
	close(rn.release)
	finished := false
	for i := 0; i < grace && !finished; i++ {
		finished = waitFor(250*time.Millisecond, slotWG.Wait)
		if !finished {
			select {
			case rn.svc <- svcReq{kind: kindEnd}:
			default:
			}
		}
	}
	if !finished {
		rn.cancelAll()
		if !p.NonBlocking {
			rn.problem("consumers did not finish after the end sentinel")
		}
		if !waitFor(stepWatchdog, slotWG.Wait) {
			res.sig, res.what, res.inconclusive = rn.stallVerdict("streamer-close")
			rn.abandon()
			return
		}
	}
	rn.svc <- svcReq{}
	<-svcDone
	if !waitFor(stepWatchdog, func() { _ = svcW.Close() }) {
		res.sig, res.what, res.inconclusive = rn.stallVerdict("writer-close")
		return
	}
	if !waitFor(stepWatchdog, func() { _ = db.Close() }) {
		res.sig, res.what, res.inconclusive = rn.stallVerdict("db-close")
		return
	}
	return
}

func (rn *run) cancelAll() {
	rn.mu.Lock()
	cs := append([]context.CancelFunc{}, rn.cancels...)
	for _, il := range rn.ilogs {
		if !il.Exited {
			il.Forced = true
		}
	}
	rn.mu.Unlock()
	for _, c := range cs {
		c()
	}
}

// abandon releases what can be released after a blocked run; goroutines that are really
// stuck are leaked (the process continues with the next case).
func (rn *run) abandon() {
	select {
	case <-rn.release:
	default:
		close(rn.release)
	}
	rn.cancelAll()
}

func decodeFrame(fr cesium.Frame) (r rrec) {
	r.Vals = map[key][]int64{}
	first := true
	for k, s := range fr.Entries() {
		vals := telem.UnmarshalSeries[int64](s)
		r.Keys = append(r.Keys, k)
		r.Vals[k] = append(r.Vals[k], vals...)
		for _, v := range vals {
			w := int(v >> 48)
			if w == serviceID {
				sn := decodeSent(v)
				r.Sent = append(r.Sent, sn)
				if sn.Kind == kindEnd {
					r.End = true
				}
				continue
			}
			seq := int(v>>8) & 0xffffffffff
			if first {
				r.Regular, r.W, r.Seq, first = true, w, seq, false
			} else if r.W != w || r.Seq != seq {
				r.Mixed = true
			}
		}
	}
	sort.Slice(r.Keys, func(i, j int) bool { return r.Keys[i] < r.Keys[j] })
	return
}

// runInstance is one streamer together with its consumer. The consumer is always ready
// (it only appends to its own log and does non-blocking channel sends) unless the plan
// says it stalls. Returns true once the end-of-run sentinel was seen.
func (rn *run) runInstance(slot int, ip instPlan) (endSeen bool) {
	sid := int(rn.sidSeq.Add(1))
	il := &instLog{SID: sid, Slot: slot}
	add := func(ver int) {
		il.Sets = append(il.Sets, fullSet(ip.Phases[ver].Set, ver))
		il.DataSets = append(il.DataSets, ip.Phases[ver].Set)
		il.ReqAt = append(il.ReqAt, rn.clock.Add(1))
		il.ConfirmAt = append(il.ConfirmAt, 0)
		il.CloseAt = append(il.CloseAt, 0)
	}
	add(0)
	st, err := rn.db.NewStreamer(rn.ctx, cesium.StreamerConfig{Channels: append([]key{}, il.Sets[0]...)})
	if err != nil {
		if !rn.ended.Load() { // after the end (DB possibly closed already) a refused open is expected
			rn.problem("new-streamer: %v", err)
		}
		return true
	}
	in, out := confluence.Attach(st, 16)
	sctx, cancel := signal.Isolated()
	rn.mu.Lock()
	rn.ilogs = append(rn.ilogs, il)
	rn.cancels = append(rn.cancels, cancel)
	rn.mu.Unlock()
	st.Flow(sctx, confluence.CloseOutputInletsOnExit())
	rn.count("streamers_opened", 1)
	// Flow connects to the relay synchronously, so the initial subscription is in force and the
	// streamer is "open" from here on: every frame whose Write begins later must reach it.
	// Re-subscriptions travel through the streamer's inlet asynchronously and are confirmed by
	// a sentinel on a key only the new set contains.
	ver, conf, confirmed, flushing, closing, got, total := 0, 0, true, false, false, 0, 0
	il.ConfirmAt[0] = rn.clock.Add(1)
	rn.count("windows_opened", 1)
	leave := func() {
		closing = true
		if ip.Abrupt {
			cancel()
		} else {
			in.Close()
		}
	}
	for r := range out.Outlet() {
		rec := decodeFrame(r.Frame)
		rec.At, rec.Ver, rec.Conf, rec.Stable = rn.clock.Add(1), ver, conf, confirmed && !closing
		il.Recv = append(il.Recv, rec)
		total++
		if closing {
			continue
		}
		if ip.StallAfter > 0 && total >= ip.StallAfter {
			// stop reading: the relay must drop for this consumer and move on
			rn.count("consumers_stalled", 1)
			<-rn.release
			closing = true
			cancel()
			continue
		}
		for _, sn := range rec.Sent {
			if sn.SID != sid || sn.Ver != ver&0xfff {
				continue
			}
			switch {
			case sn.Kind == kindConfirm && !confirmed:
				confirmed, conf, got = true, ver, 0
				il.ConfirmAt[ver] = rec.At
				rn.count("windows_opened", 1)
			case sn.Kind == kindFlush && flushing && confirmed:
				// everything written before the flush sentinel has been delivered:
				// the stable window of this version is closed
				rn.mu.Lock()
				il.CloseAt[ver] = rn.flushCall[[2]int{sid, sn.Nonce}]
				rn.mu.Unlock()
				flushing, confirmed = false, false
				if ver+1 < len(ip.Phases) {
					ver++
					add(ver)
					in.Inlet() <- cesium.StreamerRequest{Channels: append([]key{}, il.Sets[ver]...)}
					rn.count("resubscriptions", 1)
					rn.sentinel(sid, ver, 0, kindConfirm)
				} else {
					leave()
				}
			}
		}
		if closing {
			continue
		}
		if rec.End {
			endSeen = true
			if confirmed {
				il.CloseAt[ver] = -1 // closed by the end sentinel: resolved to endCall by the oracle
			}
			leave()
			continue
		}
		if rec.Regular {
			if !confirmed {
				rn.sentinel(sid, ver, 0, kindConfirm)
			} else if !flushing {
				got++
				if got >= ip.Phases[ver].Dwell {
					flushing = true
					rn.sentinel(sid, ver, ver+1, kindFlush)
				}
			}
		}
	}
	rn.mu.Lock()
	il.Exited = true
	rn.mu.Unlock()
	cancel()
	rn.count("streamers_closed", 1)
	return endSeen
}

// stallVerdict is called when a watchdog fired. The verdict is state based: the logical
// clock is sampled twice; if nothing moved and goroutines of this run are parked in a
// writer call path, writers are blocked (violation). Otherwise the case is inconclusive.
func (rn *run) stallVerdict(step string) (sig, what, inconclusive string) {
	a := rn.clock.Load()
	time.Sleep(5 * time.Second)
	b := rn.clock.Load()
	buf := make([]byte, 8<<20)
	buf = buf[:runtime.Stack(buf, true)]
	dump := string(buf)
	var keep []string
	for _, g := range strings.Split(dump, "\n\n") {
		if strings.Contains(g, "synnaxlabs") {
			if len(g) > 1500 {
				g = g[:1500]
			}
			keep = append(keep, g)
		}
		if len(keep) >= 40 {
			break
		}
	}
	rn.mu.Lock()
	rn.dump = strings.Join(keep, "\n\n")
	rn.mu.Unlock()
	// Only a goroutine the runtime itself reports as parked for minutes inside a writer-side
	// call path counts, and only for the steps the statement speaks about (writers, DB.Close).
	blockedAt := ""
	parked := regexp.MustCompile(`^goroutine \d+ \[(chan send|chan receive|select|sync\.[A-Za-z.]+|semacquire)[^\]]*, \d+ minutes\]`)
	sites := []string{"cesium.(*streamWriter).write", "cesium.(*Writer).exec", "cesium.(*Writer).close", "cesium.(*DB).Close",
		"confluence.(*DynamicDeltaMultiplier[...]).Connect", "confluence.(*DynamicDeltaMultiplier[...]).Disconnect",
		"confluence.(*AbstractMultiSource[...]).SendToEach"}
	if step != "streamer-close" {
		for _, g := range strings.Split(dump, "\n\n") {
			if !parked.MatchString(g) {
				continue
			}
			for _, site := range sites {
				if strings.Contains(g, site) {
					blockedAt = site
					break
				}
			}
			if blockedAt != "" {
				break
			}
		}
	}
	if a == b && blockedAt != "" {
		site := strings.NewReplacer("(", "", ")", "", "*", "", "[...]", "").Replace(blockedAt)
		return "c20:blocked:" + step + ":" + site,
			fmt.Sprintf("%s did not return within the watchdog and the run made no progress over a further 5 s; the runtime reports a goroutine parked for minutes in %s", step, blockedAt), ""
	}
	return "", "", "watchdog-" + step
}
