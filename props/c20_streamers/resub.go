package main

import (
	"context"
	"fmt"
	"runtime"
	"sync/atomic"
	"time"

	"github.com/synnaxlabs/cesium"
	"github.com/synnaxlabs/x/confluence"
	xcontrol "github.com/synnaxlabs/x/control"
	xfs "github.com/synnaxlabs/x/io/fs"
	"github.com/synnaxlabs/x/signal"
	"github.com/synnaxlabs/x/telem"
	"verif/lib/harness"
)

// Layer `resub-empty`: a streamer that re-subscribes to NO channels. The sentinel
// protocol of the other layers cannot confirm such a subscription (nothing can reach the
// consumer), so this layer counts instead. After the empty request has been handed to the
// streamer, M (100-200) frames are written to the channel it used to follow; then the
// streamer is re-subscribed to a sentinel channel and sentinels are written until one
// arrives (requests are consumed in order, so the empty one has been consumed by then).
// The streamer's loop picks at random between a pending request and a pending frame, so
// a few frames may still be delivered after the request was handed over: each one with
// probability 1/2 at most, 60 of them with probability below 2^-60. 60 or more is the
// verdict; fewer is what a correct streamer may do.
func layerResubEmpty(h *harness.H) {
	h.AddRule("resub-empty: per case one DB (relay buffer 1/8/1000), one always-ready consumer on a streamer subscribed to 1-2 virtual channels, one stream-enabled writer; 1 frame is delivered, the streamer is re-subscribed to an empty (nil or zero-length) channel list, 100-200 frames are written to the old channels, the streamer is re-subscribed to a sentinel channel and sentinels are written until one arrives; verdict: >= 60 frames of the old channels delivered after the empty request was accepted; distinct = (buffer, old set size, nil/empty, M/25)")
	n := h.N(40, 1500)
	for c := 0; c < n; c++ {
		if h.Skip("resub-empty", c) {
			continue
		}
		h.Eval()
		if msg := resubEmptyCase(h, c); msg != "" {
			h.Inconclusive("resub-empty:" + msg)
		}
		h.Eval()
		if msg := sharedListCase(h, c); msg != "" {
			h.Inconclusive("shared-list:" + msg)
		}
	}
}

func resubEmptyCase(h *harness.H, c int) string {
	r := h.Rand("resub-empty", c)
	ctx := context.Background()
	buf := []int{1, 8, 1000}[r.Intn(3)]
	db, err := cesium.Open(ctx, "", cesium.WithFS(xfs.NewMem()),
		cesium.WithStreamingConfig(cesium.DBStreamingConfig{BufferSize: buf, SlowConsumerTimeout: 120 * time.Second}))
	if err != nil {
		return "open-db"
	}
	defer func() { _ = db.Close() }()
	const (
		k1, k2, kSent key = 1, 2, 9
	)
	for _, k := range []key{k1, k2, kSent} {
		if err := db.CreateChannel(ctx, cesium.Channel{Key: k, Name: fmt.Sprintf("v%d", k), DataType: telem.Int64T, Virtual: true}); err != nil {
			return "create-channel"
		}
	}
	old := []key{k1}
	if r.Bool() {
		old = []key{k1, k2}
	}
	syncT := true
	w, err := db.OpenWriter(ctx, cesium.WriterConfig{
		ControlSubject: xcontrol.Subject{Key: "w"}, Channels: []key{k1, k2, kSent}, Start: 1,
		Mode: cesium.WriterModeStreamOnly, Sync: &syncT,
	})
	if err != nil {
		return "open-writer"
	}
	defer func() { _ = w.Close() }()
	st, err := db.NewStreamer(ctx, cesium.StreamerConfig{Channels: append([]key{}, old...)})
	if err != nil {
		return "new-streamer"
	}
	in, out := confluence.Attach(st, 16)
	sctx, cancel := signal.Isolated()
	defer cancel()
	st.Flow(sctx, confluence.CloseOutputInletsOnExit())
	var oldFrames, sentinels atomic.Int64
	done := make(chan struct{})
	go func() {
		defer close(done)
		for res := range out.Outlet() {
			isSent := false
			for _, k := range res.Frame.KeysSlice() {
				if k == kSent {
					isSent = true
				}
			}
			if isSent {
				sentinels.Add(1)
			} else {
				oldFrames.Add(1)
			}
		}
	}()
	write := func(k key, v int64) bool {
		_, err := w.Write(telem.UnaryFrame[key](k, telem.NewSeriesV[int64](v)))
		return err == nil
	}
	waitFor := func(cond func() bool, step func() bool) bool {
		deadline := time.Now().Add(15 * time.Second) // watchdog: inconclusive, never a verdict
		for !cond() {
			if time.Now().After(deadline) {
				return false
			}
			if step != nil && !step() {
				return false
			}
			runtime.Gosched()
			time.Sleep(50 * time.Microsecond)
		}
		return true
	}
	// the initial subscription delivers
	if !write(k1, 1) || !waitFor(func() bool { return oldFrames.Load() >= 1 }, nil) {
		return "first-frame-not-delivered"
	}
	// re-subscribe to nothing
	var none []key
	nilList := r.Bool()
	if !nilList {
		none = []key{}
	}
	in.Inlet() <- cesium.StreamerRequest{Channels: none}
	before := oldFrames.Load()
	m := r.Range(100, 200)
	for i := 0; i < m; i++ {
		if !write(old[i%len(old)], int64(100+i)) {
			return "write-failed"
		}
		if i%8 == 0 {
			runtime.Gosched()
		}
	}
	// close the observation: a sentinel subscription, confirmed by a sentinel
	in.Inlet() <- cesium.StreamerRequest{Channels: []key{kSent}}
	if !waitFor(func() bool { return sentinels.Load() >= 1 }, func() bool { return write(kSent, 7) }) {
		return "sentinel-not-delivered"
	}
	after := oldFrames.Load() - before
	h.Count("resub_empty_frames_written_while_subscribed_to_nothing", m)
	h.Count("resub_empty_frames_delivered_after_the_empty_request", int(after))
	if after >= 60 {
		h.Violation("resub-empty", c, "c20:resubscribe-to-empty-set-ignored",
			fmt.Sprintf("a streamer subscribed to %v was re-subscribed to no channels; of the %d frames written to %v afterwards %d were still delivered to it (a request is consumed within a few loop turns: 60 deliveries after it have probability < 2^-60)", old, m, old, after),
			map[string]any{"relay_buffer": buf, "old_set": old, "nil_list": nilList, "written": m, "delivered_after": after})
	}
	in.Close()
	cancel()
	select {
	case <-done:
	case <-time.After(10 * time.Second):
		return "consumer-did-not-exit"
	}
	h.Distinct(fmt.Sprintf("resub-empty|%d|%d|%v|%d", buf, len(old), nilList, m/25))
	return ""
}

// sharedListCase: two streamers opened from the SAME key slice (a caller re-using its
// list), one of them re-subscribed to a list that fits the slice's capacity. The other
// streamer's subscription and the caller's list must not change. Streamer B's log is
// closed by a frame on a channel that is in its subscription whatever happened (k2):
// frames reach a streamer in write order, so when the marker arrives every earlier frame
// has been delivered or filtered.
func sharedListCase(h *harness.H, c int) string {
	r := h.Rand("shared-list", c)
	ctx := context.Background()
	db, err := cesium.Open(ctx, "", cesium.WithFS(xfs.NewMem()),
		cesium.WithStreamingConfig(cesium.DBStreamingConfig{BufferSize: []int{1, 8, 1000}[r.Intn(3)], SlowConsumerTimeout: 120 * time.Second}))
	if err != nil {
		return "open-db"
	}
	defer func() { _ = db.Close() }()
	const (
		k1, k2, k3, kSent key = 1, 2, 3, 9
	)
	for _, k := range []key{k1, k2, k3, kSent} {
		if err := db.CreateChannel(ctx, cesium.Channel{Key: k, Name: fmt.Sprintf("v%d", k), DataType: telem.Int64T, Virtual: true}); err != nil {
			return "create-channel"
		}
	}
	syncT := true
	w, err := db.OpenWriter(ctx, cesium.WriterConfig{
		ControlSubject: xcontrol.Subject{Key: "w"}, Channels: []key{k1, k2, k3, kSent}, Start: 1,
		Mode: cesium.WriterModeStreamOnly, Sync: &syncT,
	})
	if err != nil {
		return "open-writer"
	}
	defer func() { _ = w.Close() }()
	shared := []key{k1, k2}
	type cons struct {
		in     confluence.Inlet[cesium.StreamerRequest]
		counts [16]atomic.Int64
		done   chan struct{}
		cancel context.CancelFunc
	}
	open := func() (*cons, bool) {
		st, err := db.NewStreamer(ctx, cesium.StreamerConfig{Channels: shared})
		if err != nil {
			return nil, false
		}
		in, out := confluence.Attach(st, 16)
		sctx, cancel := signal.Isolated()
		st.Flow(sctx, confluence.CloseOutputInletsOnExit())
		cn := &cons{in: in, done: make(chan struct{}), cancel: cancel}
		go func() {
			defer close(cn.done)
			for res := range out.Outlet() {
				for _, k := range res.Frame.KeysSlice() {
					if int(k) < len(cn.counts) {
						cn.counts[k].Add(1)
					}
				}
			}
		}()
		return cn, true
	}
	a, ok := open()
	if !ok {
		return "new-streamer"
	}
	b, ok := open()
	if !ok {
		return "new-streamer"
	}
	defer func() {
		for _, cn := range []*cons{a, b} {
			cn.in.Close()
			cn.cancel()
			select {
			case <-cn.done:
			case <-time.After(5 * time.Second):
			}
		}
	}()
	write := func(k key, v int64) bool {
		_, err := w.Write(telem.UnaryFrame[key](k, telem.NewSeriesV[int64](v)))
		return err == nil
	}
	waitFor := func(cond func() bool, step func() bool) bool {
		deadline := time.Now().Add(4 * time.Second) // watchdog: never a verdict by itself
		for !cond() {
			if time.Now().After(deadline) || (step != nil && !step()) {
				return false
			}
			runtime.Gosched()
			time.Sleep(50 * time.Microsecond)
		}
		return true
	}
	// A is re-subscribed to a list of the same length; confirmed by a sentinel
	a.in.Inlet() <- cesium.StreamerRequest{Channels: []key{k3, kSent}}
	if !waitFor(func() bool { return a.counts[kSent].Load() >= 1 }, func() bool { return write(kSent, 7) }) {
		return "sentinel-not-delivered"
	}
	m := r.Range(20, 60)
	for i := 0; i < m; i++ {
		if !write(k1, int64(100+i)) || !write(k3, int64(300+i)) {
			return "write-failed"
		}
	}
	base2 := b.counts[k2].Load()
	marker := waitFor(func() bool { return b.counts[k2].Load() > base2 }, func() bool { return write(k2, 9) })
	got1, got3 := b.counts[k1].Load(), b.counts[k3].Load()
	if !marker && got3 == 0 && shared[0] == k1 && shared[1] == k2 {
		return "marker-not-delivered" // nothing positive observed either: inconclusive
	}
	h.Count("shared_list_frames_checked", 2*m)
	wit := map[string]any{"written_each": m, "b_received_k1": got1, "b_received_k3": got3, "callers_list_after": append([]key{}, shared...)}
	if got3 > 0 {
		h.Violation("resub-empty", c, "c20:shared-list:streamer-received-a-channel-it-never-subscribed-to",
			fmt.Sprintf("streamers A and B were opened from the same key slice [1 2]; A was re-subscribed to [3 9]; B, never re-subscribed, received %d frames of channel 3", got3), wit)
	}
	if marker && got1 != int64(m) {
		h.Violation("resub-empty", c, "c20:shared-list:always-ready-streamer-missed-subscribed-frames",
			fmt.Sprintf("streamers A and B were opened from the same key slice [1 2]; A was re-subscribed to [3 9]; B, never re-subscribed and always ready, received %d of the %d frames written to channel 1 before the marker on channel 2", got1, m), wit)
	}
	if shared[0] != k1 || shared[1] != k2 {
		h.Violation("resub-empty", c, "c20:shared-list:callers-key-list-overwritten",
			fmt.Sprintf("the caller's key slice [1 2] handed to NewStreamer reads %v after another streamer's re-subscription", shared), wit)
	}
	h.Distinct(fmt.Sprintf("shared-list|%d", m/10))
	return ""
}
