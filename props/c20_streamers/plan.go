package main

import (
	"fmt"

	"github.com/synnaxlabs/cesium"

	"verif/lib/prng"
)

type key = cesium.ChannelKey

const (
	kU0 key = 1 // unary index channels (exclusive): one owner writer, optional intruder
	kU1 key = 2
	kD0 key = 3  // unary data channels: kD0, kD1 are indexed by kU0, kD2 by kU1. A frame that
	kD1 key = 4  // touches an index group must carry every channel of the group its writer
	kD2 key = 5  // has open (the engine's rule), in any order.
	kV0 key = 11 // virtual channels (shared): authority 200 = authorized, 100 = not
	kV1 key = 12
	kV2 key = 13
	kV3 key = 14
	kS0 key = 21 // sentinel channels, version v of a subscription contains kS0+v%3 only
	kS1 key = 22
	kS2 key = 23
	kE  key = 30 // end-of-run channel, in every subscription
)

var (
	unaryKeys = []key{kU0, kU1}
	virtKeys  = []key{kV0, kV1, kV2, kV3}
	dataKeys  = []key{kU0, kU1, kD0, kD1, kD2, kV0, kV1, kV2, kV3}
	groupOf   = map[key][]key{kU0: {kU0, kD0, kD1}, kU1: {kU1, kD2}}
	indexOf   = map[key]key{kD0: kU0, kD1: kU0, kD2: kU1}
)

const (
	authHigh  = 200 // the anchor (service writer) holds every virtual channel at 200
	authLow   = 100
	serviceID = 127
)

// value layouts (int64, always positive):
//
//	regular : writer(8) << 48 | seq(40) << 8 | sample(8)
//	sentinel: 127 << 48 | streamer(12) << 36 | version(12) << 24 | nonce(16) << 8 | kind(8)
func regVal(w, seq, i int) int64 { return int64(w)<<48 | int64(seq)<<8 | int64(i) }

const (
	kindConfirm = 1
	kindFlush   = 2
	kindEnd     = 3
)

func sentVal(sid, ver, nonce, kind int) int64 {
	return int64(serviceID)<<48 | int64(sid)<<36 | int64(ver&0xfff)<<24 | int64(nonce&0xffff)<<8 | int64(kind)
}

type sentinel struct{ SID, Ver, Nonce, Kind int }

func decodeSent(v int64) sentinel {
	return sentinel{SID: int(v>>36) & 0xfff, Ver: int(v>>24) & 0xfff, Nonce: int(v>>8) & 0xffff, Kind: int(v & 0xff)}
}

type writePlan struct {
	Keys   []key `json:"keys"`
	N      int   `json:"n"`
	FlipTo int   `json:"flip,omitempty"` // SetAuthority on the virtual channels before this write
	Yield  int   `json:"-"`
}

type writerPlan struct {
	ID       int         `json:"id"`
	Mode     int         `json:"mode"`               // 1 persist+stream, 2 persist only, 3 stream only
	Owns     []key       `json:"owns,omitempty"`     // unary channels held at 255
	Intrudes []key       `json:"intrudes,omitempty"` // unary channels opened at authority 1 under an owner
	Virt     []key       `json:"virt,omitempty"`
	VirtAuth int         `json:"virt_auth,omitempty"`
	Writes   []writePlan `json:"writes"`
}

func (w writerPlan) keys() []key {
	return append(append(append([]key{}, w.Owns...), w.Intrudes...), w.Virt...)
}

type phasePlan struct {
	Set   []key `json:"set"`
	Dwell int   `json:"dwell"`
}

type instPlan struct {
	Phases []phasePlan `json:"phases"`
	Abrupt bool        `json:"abrupt,omitempty"` // leave by cancelling the context instead of closing the inlet
	// non-blocking runs only: stop reading after this many frames (0 = always ready)
	StallAfter int `json:"stall_after,omitempty"`
}

type slotPlan struct {
	StartAfter int        `json:"start_after"` // global number of completed writes before connecting
	Insts      []instPlan `json:"instances"`
}

type runPlan struct {
	NonBlocking  bool         `json:"non_blocking"`
	Buffer       int          `json:"relay_buffer"`
	CloseDBFirst bool         `json:"close_db_first,omitempty"`
	Writers      []writerPlan `json:"writers"`
	Slots        []slotPlan   `json:"slots"`
}

func (p runPlan) totalWrites() int {
	n := 0
	for _, w := range p.Writers {
		n += len(w.Writes)
	}
	return n
}

func subset(r *prng.R, from []key, num, den int) []key {
	var out []key
	for _, k := range from {
		if r.Chance(num, den) {
			out = append(out, k)
		}
	}
	return out
}

// pickUnits chooses what one write carries: every virtual channel is a unit of its own, an
// index group is one unit made of all the channels of the group the writer has open. The
// keys are returned in a random order (the engine walks a frame in its own order).
func pickUnits(r *prng.R, w writerPlan) []key {
	var units [][]key
	for _, u := range unaryKeys {
		var g []key
		for _, k := range append(append([]key{}, w.Owns...), w.Intrudes...) {
			if k == u || indexOf[k] == u {
				g = append(g, k)
			}
		}
		if len(g) > 0 {
			units = append(units, g)
		}
	}
	for _, v := range w.Virt {
		units = append(units, []key{v})
	}
	var out []key
	for _, u := range units {
		if r.Chance(1, 2) {
			out = append(out, u...)
		}
	}
	if len(out) == 0 {
		out = append(out, prng.Pick(r, units)...)
	}
	prng.Shuffle(r, out)
	return out
}

func genPlan(r *prng.R, nonBlocking, thorough bool) runPlan {
	p := runPlan{NonBlocking: nonBlocking}
	p.Buffer = []int{1, 8, 1000}[r.Intn(3)]
	if nonBlocking {
		p.Buffer = []int{1, 2, 4}[r.Intn(3)]
		p.CloseDBFirst = r.Chance(1, 3)
	}
	nw := r.Range(2, 5)
	maxWrites := 40
	if thorough {
		maxWrites = 120
	}
	if nonBlocking {
		maxWrites = 14 // every frame may cost one slow-consumer timeout per stalled streamer
	}
	owner := map[key]int{}
	owned := map[key][]key{} // index -> the channels of its group the owner holds
	for i := 0; i < nw; i++ {
		w := writerPlan{ID: i + 1, Mode: 1}
		switch r.Intn(6) {
		case 0:
			w.Mode = 2
		case 1, 2:
			w.Mode = 3
		}
		for _, u := range unaryKeys {
			switch {
			case owner[u] == 0 && r.Chance(1, 2):
				// the owner holds the index and some of its data channels
				owner[u] = w.ID
				w.Owns = append(w.Owns, u)
				for _, d := range groupOf[u][1:] {
					if r.Chance(2, 3) {
						w.Owns = append(w.Owns, d)
					}
				}
				for _, k := range w.Owns {
					if k == u || indexOf[k] == u {
						owned[u] = append(owned[u], k)
					}
				}
			case owner[u] != 0 && r.Chance(1, 3):
				// an intruder opens some of the channels the owner holds, with or without
				// the index: it is refused on every one of them
				var in []key
				for _, k := range owned[u] {
					if r.Chance(2, 3) {
						in = append(in, k)
					}
				}
				if len(in) == 0 {
					in = []key{prng.Pick(r, owned[u])}
				}
				w.Intrudes = append(w.Intrudes, in...)
			}
		}
		w.Virt = subset(r, virtKeys, 1, 2)
		if len(w.keys()) == 0 {
			w.Virt = []key{prng.Pick(r, virtKeys)}
		}
		w.VirtAuth = authHigh
		if r.Chance(1, 3) {
			w.VirtAuth = authLow
		}
		nWrites := r.Range(maxWrites/3, maxWrites)
		cur := w.VirtAuth
		for j := 0; j < nWrites; j++ {
			wp := writePlan{N: r.Range(1, 2), Yield: r.Intn(4)}
			wp.Keys = pickUnits(r, w)
			if len(w.Virt) > 0 && r.Chance(1, 12) {
				cur = authHigh + authLow - cur
				wp.FlipTo = cur
			}
			w.Writes = append(w.Writes, wp)
		}
		p.Writers = append(p.Writers, w)
	}
	total := p.totalWrites()
	ns := r.Range(2, 6)
	for s := 0; s < ns; s++ {
		sp := slotPlan{}
		if r.Chance(1, 2) {
			sp.StartAfter = r.Intn(total/2 + 1)
		}
		ni := r.Range(1, 3)
		for i := 0; i < ni; i++ {
			ip := instPlan{Abrupt: r.Chance(1, 4)}
			np := r.Range(1, 4)
			for k := 0; k < np; k++ {
				ph := phasePlan{Set: subset(r, dataKeys, 1, 2), Dwell: r.Range(2, total/(ns+1)+3)}
				ip.Phases = append(ip.Phases, ph)
			}
			if nonBlocking && r.Chance(1, 2) {
				ip.StallAfter = r.Range(1, 6)
			}
			sp.Insts = append(sp.Insts, ip)
		}
		p.Slots = append(p.Slots, sp)
	}
	if nonBlocking && r.Chance(1, 3) && len(p.Slots) >= 2 {
		// two consumers that stop reading early and at the same time: the relay must give
		// up on EACH of them for every frame (the slow-consumer timeout is per consumer)
		for i := 0; i < 2; i++ {
			p.Slots[i].StartAfter = 0
			p.Slots[i].Insts = p.Slots[i].Insts[:1]
			p.Slots[i].Insts[0].StallAfter = r.Range(1, 2)
		}
	}
	return p
}

// fullSet is the subscription of version ver: the data keys plus that version's sentinel
// channel plus the end channel.
func fullSet(data []key, ver int) []key {
	return append(append([]key{}, data...), kS0+key(ver%3), kE)
}

func (p runPlan) shape() string {
	s := fmt.Sprintf("nb=%v buf=%d dbfirst=%v |", p.NonBlocking, p.Buffer, p.CloseDBFirst)
	for _, w := range p.Writers {
		s += fmt.Sprintf("w%d m%d o%v i%v v%v@%d n%d|", w.ID, w.Mode, w.Owns, w.Intrudes, w.Virt, w.VirtAuth, len(w.Writes))
	}
	for _, sl := range p.Slots {
		s += fmt.Sprintf("s@%d:", sl.StartAfter)
		for _, in := range sl.Insts {
			s += fmt.Sprintf("[a%v st%d", in.Abrupt, in.StallAfter)
			for _, ph := range in.Phases {
				s += fmt.Sprintf(" %v/%d", ph.Set, ph.Dwell)
			}
			s += "]"
		}
		s += "|"
	}
	return s
}
