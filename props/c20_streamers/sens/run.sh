#!/usr/bin/env bash
# usage: sens/run.sh <PROP> <name> <file-relative-to-repo> <python-expr-file> [layers]
# Applies one mutation (a python snippet operating on variable s = file text) to a pristine
# scratch worktree to record sens/<name>.diff, then to a scratch with the proposed fixes
# and runs the quick check there. Scratch worktrees are removed afterwards.
set -u
prop=$1; name=$2; file=$3; mut=$(realpath "$4"); layers=${5:-}
here=$(cd "$(dirname "$0")" && pwd)
fix=$here/../proposed_fixes/ALL.diff
cd /verif
p=$(tools/scratch.sh new bGp_$name)
python3 - "$p/$file" "$mut" <<'PY'
import sys
path, mut = sys.argv[1], sys.argv[2]
s = open(path).read()
o = s
exec(open(mut).read())
assert s != o, "mutation did not change the file"
open(path, "w").write(s)
PY
git -C "$p" diff > "$here/$name.diff"
tools/scratch.sh rm bGp_$name
d=$(tools/scratch.sh new bGm_$name)
[ -f "$fix" ] && git -C "$d" apply "$fix"
python3 - "$d/$file" "$mut" <<'PY'
import sys
path, mut = sys.argv[1], sys.argv[2]
s = open(path).read()
o = s
exec(open(mut).read())
assert s != o, "mutation did not change the file"
open(path, "w").write(s)
PY
VERIF_REPO=$d VERIF_LAYERS=$layers ./check $prop --tier quick 2>&1 | grep -E "VIOLATION|signature|SUMMARY|HARNESS" | cut -c1-260
tools/scratch.sh rm bGm_$name
