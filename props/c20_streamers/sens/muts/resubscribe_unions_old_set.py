s = s.replace("s.Channels = s.translateRequest(req).Channels", "s.Channels = append(s.Channels, s.translateRequest(req).Channels...)")
