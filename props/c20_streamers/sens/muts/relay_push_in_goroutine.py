s = s.replace("""		w.relay.Inlet() <- relayResponse{
			frame: req.Frame.ExcludeKeys(excludeUnauthorized),
			group: w.ControlSubject.Group,
		}""", """		rr := relayResponse{
			frame: req.Frame.ExcludeKeys(excludeUnauthorized),
			group: w.ControlSubject.Group,
		}
		go func() { w.relay.Inlet() <- rr }()""")
