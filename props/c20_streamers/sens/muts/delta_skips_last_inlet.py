s = s.replace("""	var timedOutInlet = -1
	for i, inlet := range ams.Out {""", """	var timedOutInlet = -1
	outs := ams.Out
	if len(outs) > 2 {
		outs = outs[:len(outs)-1]
	}
	for i, inlet := range outs {""")
