s = s.replace("""		case inlet.Inlet() <- v:
		}
	}
	if timedOutInlet >= 0 {""", """		case inlet.Inlet() <- v:
			if i == 0 && len(ams.Out) > 3 {
				inlet.Inlet() <- v
			}
		}
	}
	if timedOutInlet >= 0 {""")
