s = s.replace("if filtered := rf.frame.KeepKeys(s.Channels); !filtered.Empty() {", "if filtered := rf.frame; !filtered.Empty() {")
