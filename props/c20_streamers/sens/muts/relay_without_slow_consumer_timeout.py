s = s.replace("""	delta := confluence.NewDynamicDeltaMultiplier[relayResponse](
		cfg.SlowConsumerTimeout,""", """	delta := confluence.NewDynamicDeltaMultiplier[relayResponse](
		0*cfg.SlowConsumerTimeout,""")
