s = s.replace("frame: req.Frame.ExcludeKeys(excludeUnauthorized),", "frame: req.Frame,")
