package main

import (
	"context"
	"fmt"
	"net"
	"sync"
	"time"

	"github.com/gofiber/fiber/v3"
	"github.com/synnaxlabs/freighter"
	fgrpc "github.com/synnaxlabs/freighter/grpc"
	v1 "github.com/synnaxlabs/freighter/grpc/v1"
	fhttp "github.com/synnaxlabs/freighter/http"
	fmock "github.com/synnaxlabs/freighter/mock"
	"github.com/synnaxlabs/x/address"
	"github.com/synnaxlabs/x/encoding/json"
	"github.com/synnaxlabs/x/encoding/msgpack"
	"google.golang.org/grpc"
	"google.golang.org/grpc/credentials/insecure"
)

type handlerFn = func(context.Context, freighter.ServerStream[Req, Res]) error

// lane is one (server, client) pair of a transport that runs one stream at a time; the
// bound handler dispatches to whatever script the lane is currently running.
type lane struct {
	transport string
	mu        sync.Mutex
	current   handlerFn
	open      func(ctx context.Context, mockBuf int) (freighter.ClientStream[Req, Res], error)
}

func (l *lane) handler(ctx context.Context, s freighter.ServerStream[Req, Res]) error {
	l.mu.Lock()
	h := l.current
	l.mu.Unlock()
	if h == nil {
		return fmt.Errorf("c14: no script bound to lane")
	}
	return h(ctx, s)
}

func (l *lane) bind(h handlerFn) {
	l.mu.Lock()
	l.current = h
	l.mu.Unlock()
}

type transports struct {
	lanes   map[string][]*lane
	closers []func()
}

func (t *transports) Close() {
	for _, c := range t.closers {
		c()
	}
}

var transportNames = []string{"mock", "http-json", "http-msgpack", "grpc"}

// ---- gRPC plumbing (the repo's grpc/v1 test stream service) ------------------------

type reqTranslator struct{}

func (reqTranslator) Forward(_ context.Context, r Req) (*v1.Request, error) {
	return &v1.Request{Id: int32(r.ID), Message: r.Message}, nil
}
func (reqTranslator) Backward(_ context.Context, r *v1.Request) (Req, error) {
	return Req{ID: int(r.Id), Message: r.Message}, nil
}

type resTranslator struct{}

func (resTranslator) Forward(_ context.Context, r Res) (*v1.Response, error) {
	return &v1.Response{Id: int32(r.ID), Message: r.Message}, nil
}
func (resTranslator) Backward(_ context.Context, r *v1.Response) (Res, error) {
	return Res{ID: int(r.Id), Message: r.Message}, nil
}

type grpcStreamServer struct {
	fgrpc.StreamServerCore[Req, *v1.Request, Res, *v1.Response]
}

func (s *grpcStreamServer) Exec(stream v1.TestStreamService_ExecServer) error {
	return s.Handler(stream.Context(), stream)
}

const (
	writeDeadlineDL = time.Second
	idleGap         = 1150 * time.Millisecond
)

func openTransports(nLanes int) (*transports, error) {
	t := &transports{lanes: map[string][]*lane{}}
	// in-memory: a fresh pair per stream (buffer sizes are part of the script)
	for i := 0; i < nLanes; i++ {
		l := &lane{transport: "mock"}
		l.open = func(ctx context.Context, buf int) (freighter.ClientStream[Req, Res], error) {
			srv, cli := fmock.NewStreamPair[Req, Res](buf)
			srv.BindHandler(l.handler)
			return cli.Stream(ctx, "localhost:0")
		}
		t.lanes["mock"] = append(t.lanes["mock"], l)
	}
	// WebSocket: one fiber app on 127.0.0.1:0, one route per lane, JSON and msgpack clients
	ln, err := net.Listen("tcp", "127.0.0.1:0")
	if err != nil {
		return nil, err
	}
	app := fiber.New(fiber.Config{})
	router, err := fhttp.NewRouter(fhttp.RouterConfig{StreamWriteDeadline: 30 * time.Second})
	if err != nil {
		return nil, err
	}
	jsonClient, err := fhttp.NewStreamClient[Req, Res](fhttp.StreamClientConfig{Codec: json.Codec})
	if err != nil {
		return nil, err
	}
	msgpackClient, err := fhttp.NewStreamClient[Req, Res](fhttp.StreamClientConfig{Codec: msgpack.Codec})
	if err != nil {
		return nil, err
	}
	for _, name := range []string{"http-json", "http-msgpack"} {
		for i := 0; i < nLanes; i++ {
			path := fmt.Sprintf("/%s/%d", name, i)
			l := &lane{transport: name}
			srv := fhttp.NewStreamServer[Req, Res](router, path)
			srv.BindHandler(l.handler)
			cli := jsonClient
			if name == "http-msgpack" {
				cli = msgpackClient
			}
			target := address.Address(ln.Addr().String() + path)
			l.open = func(ctx context.Context, _ int) (freighter.ClientStream[Req, Res], error) {
				return cli.Stream(ctx, target)
			}
			t.lanes[name] = append(t.lanes[name], l)
		}
	}
	// the same two clients against a second router whose write deadline (1 s) is SHORTER
	// than the idle gaps of the `idle` layer's handler scripts: every Send must arm the
	// deadline afresh, however long the stream has been quiet. Payloads there stay below
	// 32 KiB (they fit the loopback socket buffers, so a write never waits for the reader
	// and the deadline cannot expire for any reason but staleness).
	routerDL, err := fhttp.NewRouter(fhttp.RouterConfig{StreamWriteDeadline: writeDeadlineDL})
	if err != nil {
		return nil, err
	}
	for _, name := range []string{"http-json", "http-msgpack"} {
		for i := 0; i < nLanes; i++ {
			path := fmt.Sprintf("/dl/%s/%d", name, i)
			l := &lane{transport: name}
			srv := fhttp.NewStreamServer[Req, Res](routerDL, path)
			srv.BindHandler(l.handler)
			cli := jsonClient
			if name == "http-msgpack" {
				cli = msgpackClient
			}
			target := address.Address(ln.Addr().String() + path)
			l.open = func(ctx context.Context, _ int) (freighter.ClientStream[Req, Res], error) {
				return cli.Stream(ctx, target)
			}
			t.lanes[name+"/deadline"] = append(t.lanes[name+"/deadline"], l)
		}
	}
	router.BindTo(app)
	routerDL.BindTo(app)
	go func() { _ = app.Listener(ln, fiber.ListenConfig{DisableStartupMessage: true}) }()
	t.closers = append(t.closers, func() { _ = app.ShutdownWithTimeout(2 * time.Second) })
	// gRPC: one server per lane
	pool := fgrpc.NewPool("", grpc.WithTransportCredentials(insecure.NewCredentials()))
	for i := 0; i < nLanes; i++ {
		gl, err := net.Listen("tcp", "127.0.0.1:0")
		if err != nil {
			return nil, err
		}
		l := &lane{transport: "grpc"}
		gs := grpc.NewServer()
		srv := &grpcStreamServer{StreamServerCore: fgrpc.StreamServerCore[Req, *v1.Request, Res, *v1.Response]{
			RequestTranslator:  reqTranslator{},
			ResponseTranslator: resTranslator{},
			ServiceDesc:        &v1.TestStreamService_ServiceDesc,
			Internal:           true,
		}}
		v1.RegisterTestStreamServiceServer(gs, srv)
		srv.BindHandler(l.handler)
		cli := &fgrpc.StreamClient[Req, *v1.Request, Res, *v1.Response]{
			RequestTranslator:  reqTranslator{},
			ResponseTranslator: resTranslator{},
			Pool:               pool,
			ServiceDesc:        &v1.TestStreamService_ServiceDesc,
			ClientFunc: func(ctx context.Context, conn grpc.ClientConnInterface) (fgrpc.GRPCClientStream[*v1.Request, *v1.Response], error) {
				return v1.NewTestStreamServiceClient(conn).Exec(ctx)
			},
		}
		target := address.Address(gl.Addr().String())
		l.open = func(ctx context.Context, _ int) (freighter.ClientStream[Req, Res], error) {
			return cli.Stream(ctx, target)
		}
		go func() { _ = gs.Serve(gl) }()
		t.closers = append(t.closers, gs.Stop)
		t.lanes["grpc"] = append(t.lanes["grpc"], l)
	}
	// wait until the WebSocket listener answers
	deadline := time.Now().Add(10 * time.Second)
	for {
		c, err := net.DialTimeout("tcp", ln.Addr().String(), time.Second)
		if err == nil {
			_ = c.Close()
			break
		}
		if time.Now().After(deadline) {
			return nil, fmt.Errorf("websocket listener did not come up: %w", err)
		}
		time.Sleep(5 * time.Millisecond)
	}
	return t, nil
}
