// C14 — freighter streams deliver in order, once, with a definite end, on all transports.
//
// One layer ("streams"): PRNG-generated (client script, handler script) pairs are run over
// the in-memory, WebSocket (JSON and msgpack) and gRPC transports of freighter/go; every
// Send/Receive/CloseSend result on both ends and the handler's return value are logged
// and an offline checker decides prefix/order/no-dup, all-responses-before-return,
// terminal mapping and stability, and CloseSend semantics.
package main

import (
	"context"
	"fmt"
	"os"
	"runtime"
	"runtime/debug"
	"strings"
	"sync"
	"time"

	"github.com/synnaxlabs/freighter"
	"github.com/synnaxlabs/x/errors"

	"verif/lib/harness"
	"verif/lib/prng"
)

func main() {
	harness.Main("C14", "exploration", harness.Layer{Name: "streams", Run: layerStreams}, harness.Layer{Name: "idle", Run: layerIdle}, harness.Layer{Name: "slowclose", Run: layerSlowClose})
}

// ---------------------------------------------------------------------------------
// Event log of one stream.

type recvEv struct {
	ID    int
	Len   int
	Sum   uint64
	X     uint64 // checksum of the map/slice extras when the message was received ...
	XEnd  uint64 // ... and of the very same map/slice once the stream was over
	lab   map[string]int64
	tag   []int64
	Err   error
	Panic string
}

type sendEv struct {
	ID  int
	Err error
}

type trace struct {
	mu          sync.Mutex
	cliSent     []sendEv
	cliClosed   bool
	cliCloseErr error
	cliPost     []error
	cliRecv     []recvEv // data..., first error = terminal, then the repeated calls
	srvRecv     []recvEv
	srvSent     []sendEv
	srvRet      error
	srvReturned bool
	srvPanic    string
	openErr     error
	stuck       []string
}

func pause(d int) {
	switch d {
	case 0:
	case 1:
		runtime.Gosched()
	case 2:
		time.Sleep(50 * time.Microsecond)
	case 3:
		time.Sleep(400 * time.Microsecond)
	default:
		if d >= 100 {
			time.Sleep(time.Duration(d) * time.Millisecond)
			return
		}
		time.Sleep(2 * time.Millisecond)
	}
}

func at(d []int, i int) int {
	if i < len(d) {
		return d[i]
	}
	return 0
}

const watchdog = 20 * time.Second

// runStream executes one script over one lane and returns the recorded trace.
func runStream(l *lane, s script) *trace {
	tr := &trace{}
	kind := kindByName(s.Kind)
	handlerDone := make(chan struct{})
	l.bind(func(ctx context.Context, srv freighter.ServerStream[Req, Res]) (ret error) {
		defer close(handlerDone)
		defer func() {
			if p := recover(); p != nil {
				tr.mu.Lock()
				tr.srvPanic = fmt.Sprintf("%v\n%s", p, debug.Stack())
				tr.mu.Unlock()
				ret = fmt.Errorf("handler panicked")
			}
		}()
		for i, h := range s.Handler {
			pause(at(s.HandlerDelay, i))
			switch h.Op {
			case "idle":
				time.Sleep(idleGap)
			case "recv":
				req, err := srv.Receive()
				tr.mu.Lock()
				if err != nil {
					tr.srvRecv = append(tr.srvRecv, recvEv{Err: err})
				} else {
					tr.srvRecv = append(tr.srvRecv, recvEv{ID: req.ID, Len: len(req.Message), Sum: sum(req.Message), X: xsum(req.Labels, req.Tags), lab: req.Labels, tag: req.Tags})
				}
				tr.mu.Unlock()
			case "send":
				lab, tag := extras(h.ID, h.Size)
				err := srv.Send(Res{ID: h.ID, Message: body(h.ID, h.Size), Labels: lab, Tags: tag})
				tr.mu.Lock()
				tr.srvSent = append(tr.srvSent, sendEv{ID: h.ID, Err: err})
				tr.mu.Unlock()
			case "ret":
				ret = kind.make(s.ErrMsg)
				tr.mu.Lock()
				tr.srvRet, tr.srvReturned = ret, true
				tr.mu.Unlock()
				return ret
			}
		}
		return nil
	})
	ctx, cancel := context.WithCancel(context.Background())
	defer cancel()
	stream, err := l.open(ctx, s.MockBuf)
	if err != nil {
		tr.openErr = err
		return tr
	}
	senderDone, receiverDone := make(chan struct{}), make(chan struct{})
	var senderAt, receiverAt string
	var posMu sync.Mutex
	setPos := func(p *string, v string) { posMu.Lock(); *p = v; posMu.Unlock() }
	go func() {
		defer close(senderDone)
		for i, m := range s.Sends {
			pause(at(s.ClientDelay, i))
			setPos(&senderAt, "Send")
			lab, tag := extras(m.ID, m.Size)
			err := stream.Send(Req{ID: m.ID, Message: body(m.ID, m.Size), Labels: lab, Tags: tag})
			tr.mu.Lock()
			tr.cliSent = append(tr.cliSent, sendEv{ID: m.ID, Err: err})
			tr.mu.Unlock()
		}
		if s.CloseSend {
			pause(at(s.ClientDelay, len(s.Sends)))
			setPos(&senderAt, "CloseSend")
			err := stream.CloseSend()
			tr.mu.Lock()
			tr.cliClosed, tr.cliCloseErr = true, err
			tr.mu.Unlock()
			for i := 0; i < s.PostClose; i++ {
				pause(at(s.ClientDelay, len(s.Sends)+1+i))
				setPos(&senderAt, "Send-after-CloseSend")
				err := stream.Send(Req{ID: 9000 + i, Message: "late"})
				tr.mu.Lock()
				tr.cliPost = append(tr.cliPost, err)
				tr.mu.Unlock()
			}
		}
		setPos(&senderAt, "done")
	}()
	go func() {
		defer close(receiverDone)
		after := 0
		for i := 0; after < 4; i++ {
			pause(at(s.RecvDelay, i))
			setPos(&receiverAt, "Receive")
			var ev recvEv
			func() {
				defer func() {
					if p := recover(); p != nil {
						ev = recvEv{Panic: fmt.Sprintf("%v", p), Err: fmt.Errorf("panic: %v", p)}
					}
				}()
				res, err := stream.Receive()
				if err != nil {
					ev = recvEv{Err: err}
				} else {
					ev = recvEv{ID: res.ID, Len: len(res.Message), Sum: sum(res.Message), X: xsum(res.Labels, res.Tags), lab: res.Labels, tag: res.Tags}
				}
			}()
			tr.mu.Lock()
			tr.cliRecv = append(tr.cliRecv, ev)
			tr.mu.Unlock()
			if ev.Err != nil {
				after++
			} else if after > 0 {
				after++ // data after the terminal result: recorded, the checker flags it
			}
		}
		setPos(&receiverAt, "done")
	}()
	wait := func(ch chan struct{}, d time.Duration) bool {
		select {
		case <-ch:
			return true
		case <-time.After(d):
			return false
		}
	}
	if !wait(handlerDone, watchdog) {
		tr.stuck = append(tr.stuck, "handler")
	}
	if !wait(receiverDone, watchdog) {
		posMu.Lock()
		tr.stuck = append(tr.stuck, "client-receiver@"+receiverAt)
		posMu.Unlock()
	}
	// The handler has returned and the client has its terminal result: every further
	// Send/CloseSend has to come back on its own. The in-memory CloseSend is a plain
	// channel send; if it is still sitting there 300 ms later nobody will ever take it.
	deadline := time.Now().Add(watchdog)
	closeSendSince := time.Time{}
	for done := false; !done; {
		select {
		case <-senderDone:
			done = true
		case <-time.After(20 * time.Millisecond):
			posMu.Lock()
			pos := senderAt
			posMu.Unlock()
			if pos == "CloseSend" {
				if closeSendSince.IsZero() {
					closeSendSince = time.Now()
				}
			} else {
				closeSendSince = time.Time{}
			}
			if (!closeSendSince.IsZero() && time.Since(closeSendSince) > 300*time.Millisecond) || time.Now().After(deadline) {
				tr.stuck = append(tr.stuck, "client-sender@"+pos)
				done = true
			}
		}
	}
	cancel()
	// the maps and slices handed out with earlier messages must still hold what they held
	// at receipt
	tr.mu.Lock()
	for _, evs := range [][]recvEv{tr.cliRecv, tr.srvRecv} {
		for i := range evs {
			if evs[i].Err == nil && evs[i].Panic == "" {
				evs[i].XEnd = xsum(evs[i].lab, evs[i].tag)
			}
		}
	}
	tr.mu.Unlock()
	return tr
}

// ---------------------------------------------------------------------------------
// Offline checker.

type finding struct {
	Class string
	What  string
}

func isEOF(err error) bool { return err != nil && errors.Is(err, freighter.EOF) }

func checkTrace(transport string, s script, tr *trace) (out []finding) {
	tr.mu.Lock()
	defer tr.mu.Unlock()
	add := func(class, format string, a ...any) {
		out = append(out, finding{Class: class, What: fmt.Sprintf(format, a...)})
	}
	kind := kindByName(s.Kind)
	if tr.srvPanic != "" {
		add("handler-side-panic", "a stream call panicked inside the handler: %s", firstLine(tr.srvPanic))
	}
	size := map[int]int{}
	for _, m := range s.Sends {
		size[m.ID] = m.Size
	}
	for _, h := range s.Handler {
		if h.Op == "send" {
			size[h.ID] = h.Size
		}
	}
	okPayload := func(e recvEv) bool {
		sz, known := size[e.ID]
		return known && e.Len == sz && e.Sum == sum(body(e.ID, sz))
	}
	// the map/slice part (not carried by the gRPC lanes' proto)
	okExtras := func(e recvEv) string {
		if transport == "grpc" {
			return ""
		}
		sz, known := size[e.ID]
		if !known {
			return ""
		}
		if e.X != xsum(extras(e.ID, sz)) {
			return "extras-differ-at-receipt"
		}
		if e.XEnd != e.X {
			return "extras-changed-after-receipt"
		}
		return ""
	}

	// (1) requests seen by the handler: a prefix of the requests sent, in order, once
	var got []recvEv
	firstErrAt := -1
	for i, e := range tr.srvRecv {
		if e.Err != nil {
			if firstErrAt < 0 {
				firstErrAt = i
			}
			continue
		}
		if firstErrAt >= 0 {
			add("request-after-end-of-stream", "handler Receive #%d returned request %d after an earlier Receive had returned %v", i, e.ID, tr.srvRecv[firstErrAt].Err)
		}
		got = append(got, e)
	}
	for i, e := range got {
		if i >= len(s.Sends) || e.ID != s.Sends[i].ID {
			want := "nothing"
			if i < len(s.Sends) {
				want = fmt.Sprint(s.Sends[i].ID)
			}
			add("request-order", "handler received request %d at position %d, the client's request there is %s (sent %v)", e.ID, i, want, ids(s.Sends))
			break
		}
		if !okPayload(e) {
			add("request-payload", "request %d arrived with %d bytes / different content (sent %d bytes)", e.ID, e.Len, size[e.ID])
		} else if x := okExtras(e); x != "" {
			add("request-payload:"+x, "request %d: its map/slice fields %s (labels %v tags %v)", e.ID, x, e.lab, e.tag)
		}
	}
	// (2) end-of-stream at the handler: only after CloseSend, after all earlier requests,
	// and the same result on every later call
	if firstErrAt >= 0 {
		e0 := tr.srvRecv[firstErrAt].Err
		switch {
		case !s.CloseSend:
			add("handler-receive-error", "handler Receive failed with %q although the client never closed its sending side", e0)
		case !isEOF(e0):
			add("handler-receive-error", "after CloseSend the handler's Receive returned %q instead of end-of-stream", e0)
		default:
			sentOK := 0
			for _, c := range tr.cliSent {
				if c.Err == nil {
					sentOK++
				}
			}
			if len(got) < sentOK && len(tr.cliSent) == len(s.Sends) {
				add("eof-before-requests", "handler saw end-of-stream after %d requests; the client had sent %d before CloseSend", len(got), sentOK)
			}
		}
		for _, e := range tr.srvRecv[firstErrAt:] {
			if e.Err != nil && (isEOF(e0) != isEOF(e.Err)) {
				add("handler-terminal-unstable", "handler Receive returned %q and later %q", e0, e.Err)
				break
			}
		}
	}
	// (3) responses: the client sees every response sent before the handler returned, in
	// order, once, and nothing else
	var data []recvEv
	termAt := -1
	for i, e := range tr.cliRecv {
		if e.Err != nil {
			if termAt < 0 {
				termAt = i
			}
			continue
		}
		if termAt >= 0 {
			add("response-after-terminal", "client Receive returned response %d after the terminal result %v", e.ID, tr.cliRecv[termAt].Err)
			continue
		}
		data = append(data, e)
	}
	stuckRecv := false
	for _, st := range tr.stuck {
		if strings.HasPrefix(st, "client-receiver") || st == "handler" {
			stuckRecv = true
		}
	}
	if !stuckRecv && tr.srvReturned {
		j := 0
		for _, snt := range tr.srvSent {
			if j < len(data) && data[j].ID == snt.ID {
				if !okPayload(data[j]) {
					add("response-payload", "response %d arrived with %d bytes / different content (sent %d bytes)", snt.ID, data[j].Len, size[snt.ID])
				} else if x := okExtras(data[j]); x != "" {
					add("response-payload:"+x, "response %d: its map/slice fields %s (labels %v tags %v)", snt.ID, x, data[j].lab, data[j].tag)
				}
				j++
				continue
			}
			if snt.Err != nil {
				continue // a Send that reported failure may or may not have been delivered
			}
			add("response-missing", "handler sent %v and returned; client received %v before its terminal result: response %d is missing or out of order", sentIDs(tr.srvSent), evIDs(data), snt.ID)
			break
		}
		if j < len(data) && len(out) == 0 {
			add("response-order", "client received %v; handler sent %v: response %d was never sent, or is duplicated / out of order", evIDs(data), sentIDs(tr.srvSent), data[j].ID)
		}
	}
	// (4) terminal result and its stability
	if termAt >= 0 && tr.srvReturned {
		t0 := tr.cliRecv[termAt]
		switch {
		case t0.Panic != "":
			add("receive-panic", "client Receive panicked: %s", t0.Panic)
		case kind.Name == "nil":
			if !isEOF(t0.Err) {
				add("terminal-mismatch:nil", "handler returned nil; client's terminal result is %q, not end-of-stream", t0.Err)
			}
		case kind.match == nil && kind.matchFn == nil: // unregistered
			if isEOF(t0.Err) || !strings.Contains(t0.Err.Error(), "plain failure") {
				add("terminal-mismatch:unregistered", "handler returned %q; client's terminal result is %q", tr.srvRet, t0.Err)
			} else if kind.Name == "unregistered.sentinel" && (transport == "mock" || transport == "grpc") && !errors.Is(t0.Err, ErrPlain) {
				add("terminal-mismatch:unregistered-identity-lost", "handler returned %q (wrapping a sentinel) to an internal peer; the client's terminal result %q no longer satisfies errors.Is with it", tr.srvRet, t0.Err)
			}
		default:
			if !kind.matches(t0.Err) {
				cl := "terminal-mismatch:" + kind.Name
				if strings.Contains(s.ErrMsg, "---") {
					cl += ":message-with-triple-dash"
				}
				add(cl, "handler returned %q (kind %s); client's terminal result %q does not match that kind", tr.srvRet, kind.Name, t0.Err)
			}
		}
		for n, e := range tr.cliRecv[termAt+1:] {
			if e.Panic != "" {
				add("terminal-unstable:panic", "call %d after the terminal result %q panicked: %s", n+1, t0.Err, e.Panic)
				break
			}
			if e.Err == nil {
				continue
			}
			if t0.Panic == "" && (e.Err.Error() != t0.Err.Error() || isEOF(e.Err) != isEOF(t0.Err)) {
				add("terminal-unstable", "terminal result %q; call %d after it returned %q", t0.Err, n+1, e.Err)
				break
			}
		}
	}
	// Known finding C14-ws-close-wait (see known_findings.json): after the handler returns,
	// the WebSocket server waits closeReadWriteDeadline (500 ms of wall clock) for the
	// client's close acknowledgement and then drops the connection; with request bytes
	// still unread on the server side the kernel resets it and the client loses what it
	// had not read yet. Precondition from the script: the handler returns leaving >= 64 KiB
	// of the client's requests unread; observed: the client's terminal result is "stream
	// closed" (its read failed with a connection reset). Findings of that shape are
	// tagged so that the entry matches them and nothing else.
	if strings.HasPrefix(transport, "http-") && termAt >= 0 {
		recvHops := 0
		for _, h := range s.Handler {
			if h.Op == "recv" {
				recvHops++
			}
		}
		unread := 0
		for i := recvHops; i < len(s.Sends); i++ {
			unread += s.Sends[i].Size
		}
		writeFailed := false
		for _, e := range tr.cliSent {
			if e.Err != nil && !isEOF(e.Err) {
				writeFailed = true
			}
		}
		t0 := tr.cliRecv[termAt]
		_ = writeFailed
		if unread >= 64<<10 && t0.Err != nil && strings.Contains(t0.Err.Error(), "stream closed") {
			for i := range out {
				if out[i].Class == "response-missing" || strings.HasPrefix(out[i].Class, "terminal-mismatch") {
					out[i].Class += ":upload-cut-at-close"
				}
			}
		}
	}
	return out
}

func firstLine(s string) string {
	if i := strings.IndexByte(s, '\n'); i >= 0 {
		return s[:i]
	}
	return s
}

func ids(ms []msgSpec) []int {
	out := make([]int, len(ms))
	for i, m := range ms {
		out[i] = m.ID
	}
	return out
}

func sentIDs(es []sendEv) []int {
	out := make([]int, len(es))
	for i, e := range es {
		out[i] = e.ID
	}
	return out
}

func evIDs(es []recvEv) []int {
	out := make([]int, len(es))
	for i, e := range es {
		out[i] = e.ID
	}
	return out
}

// ---------------------------------------------------------------------------------

func errStr(err error) string {
	if err == nil {
		return "<nil>"
	}
	s := err.Error()
	if len(s) > 260 {
		s = s[:130] + " ... " + s[len(s)-120:] // the cause (e.g. the syscall error) is at the end
	}
	return s
}

func (tr *trace) summary() map[string]any {
	tr.mu.Lock()
	defer tr.mu.Unlock()
	f := func(es []recvEv) []string {
		var out []string
		for _, e := range es {
			switch {
			case e.Panic != "":
				out = append(out, "PANIC "+e.Panic)
			case e.Err != nil:
				out = append(out, "ERR "+errStr(e.Err))
			default:
				out = append(out, fmt.Sprintf("%d(%dB)", e.ID, e.Len))
			}
		}
		return out
	}
	g := func(es []sendEv) []string {
		var out []string
		for _, e := range es {
			out = append(out, fmt.Sprintf("%d:%s", e.ID, errStr(e.Err)))
		}
		return out
	}
	var post []string
	for _, e := range tr.cliPost {
		post = append(post, errStr(e))
	}
	return map[string]any{
		"client_sent": g(tr.cliSent), "client_closed": tr.cliClosed, "client_close_err": errStr(tr.cliCloseErr),
		"client_send_after_close": post, "client_received": f(tr.cliRecv),
		"handler_received": f(tr.srvRecv), "handler_sent": g(tr.srvSent),
		"handler_returned": tr.srvReturned, "handler_return": errStr(tr.srvRet), "stuck": tr.stuck,
	}
}

func layerStreams(h *harness.H) {
	h.AddRule("a case is one generated (client script, handler script) pair - 0-12 requests of 0 B-1 MiB, optional CloseSend and late Sends, 0-19 handler Receive/Send ops, return(nil | one of 12 error kinds with one of 11 messages), PRNG yields/sleeps on all three goroutines, mock buffer 0/1/10 - run over each of mock, http-json, http-msgpack, grpc; evaluations count streams; distinct+non-trivial = distinct (transport, #requests, CloseSend, #handler receives, #handler sends, kind, message length, #large payloads) with at least one message or a non-nil result")
	h.Assume("loopback TCP only: no packet loss, no connection resets other than the transports' own close handshakes")
	const nLanes = 6
	t, err := openTransports(nLanes)
	if err != nil {
		panic(err)
	}
	defer t.Close()
	n := h.N(600, 30000)
	var wg sync.WaitGroup
	cases := make(chan int, nLanes)
	for w := 0; w < nLanes; w++ {
		wg.Add(1)
		go func(w int) {
			defer wg.Done()
			for c := range cases {
				runCase(h, t, w, c)
			}
		}(w)
	}
	for c := 0; c < n; c++ {
		if h.Skip("streams", c) {
			continue
		}
		cases <- c
	}
	close(cases)
	wg.Wait()
}

// layerIdle: WebSocket streams whose handler stays quiet for longer than the router's
// write deadline between sends.
func layerIdle(h *harness.H) {
	h.AddRule("idle: handler scripts with 1-2 gaps of 1.15 s (router write deadline 1 s) before sends of 0-900 B, 1.1-4 KiB and 4-32 KiB, then return(nil | error kind); run over http-json and http-msgpack at once; same offline checker (every response the handler sent is delivered, terminal result matches the handler's)")
	const nLanes = 6
	t, err := openTransports(nLanes)
	if err != nil {
		panic(err)
	}
	defer t.Close()
	n := h.N(12, 400)
	var wg sync.WaitGroup
	cases := make(chan int, nLanes)
	for w := 0; w < nLanes; w++ {
		wg.Add(1)
		go func(w int) {
			defer wg.Done()
			for c := range cases {
				s := genIdleScript(h.Rand("idle", c))
				var iw sync.WaitGroup
				for _, name := range []string{"http-json", "http-msgpack"} {
					iw.Add(1)
					go func(name string) {
						defer iw.Done()
						l := t.lanes[name+"/deadline"][w]
						h.Eval()
						tr := runStream(l, s)
						if tr.openErr != nil {
							h.Inconclusive("open-failed:" + name)
							return
						}
						h.Count("idle_gaps_longer_than_the_write_deadline", strings.Count(fmt.Sprint(s.Handler), "idle"))
						judge(h, "idle", c, name+":after-idle", l, s, tr, false)
					}(name)
				}
				iw.Wait()
			}
		}(w)
	}
	for c := 0; c < n; c++ {
		if !h.Skip("idle", c) {
			cases <- c
		}
	}
	close(cases)
	wg.Wait()
}

// layerSlowClose: the open finding C14-ws-close-wait reproduced on purpose (every run
// prints its KNOWN-FINDING line from a deterministic witness, not only under machine load). The handler
// sends a few responses and returns without receiving; the client has sent >= 2 requests
// of 100-300 KiB that stay unread on the server, and does not call Receive for 800 ms
// (longer than the server's 500 ms wait for the close acknowledgement).
func layerSlowClose(h *harness.H) {
	h.AddRule("slowclose: 4 scripts x {http-json, http-msgpack}: handler sends 8 x 64 KiB and returns one of the result kinds without receiving; the client uploads 40 requests of 3-5 MiB without a pause and waits 1.5 s before its first Receive (longer than the server's 500 ms wait for the close acknowledgement); same offline checker; expected outcome on the unchanged tree: the open finding C14-ws-close-wait")
	const nLanes = 2
	t, err := openTransports(nLanes)
	if err != nil {
		panic(err)
	}
	defer t.Close()
	n := h.N(4, 40)
	for c := 0; c < n; c++ {
		if h.Skip("slowclose", c) {
			continue
		}
		r := h.Rand("slowclose", c)
		var s script
		for i := 0; i < 40; i++ {
			s.Sends = append(s.Sends, msgSpec{ID: 1000 + i, Size: r.Range(3<<20, 5<<20)}) // uploads without a pause for well over 500 ms
		}
		for i := 0; i < 8; i++ {
			// 8 x 64 KiB: more than the client's kernel accepts while its application is
			// not reading, so part of it is still queued on the server when it gives up
			s.Handler = append(s.Handler, hop{Op: "send", ID: 5000 + i, Size: 64 << 10})
		}
		s.Handler = append(s.Handler, hop{Op: "ret"})
		s.Kind = prng.Pick(r, errKinds).Name
		s.ErrMsg = prng.Pick(r, errMsgs)
		s.RecvDelay = []int{1500}
		s.CloseSend = true
		for i, name := range []string{"http-json", "http-msgpack"} {
			h.Eval()
			l := t.lanes[name][i%nLanes]
			tr := runStream(l, s)
			if tr.openErr != nil {
				h.Inconclusive("open-failed:" + name)
				continue
			}
			if os.Getenv("VERIF_C14_DEBUG") != "" {
				fmt.Printf("DEBUG slowclose %d %s %v\n", c, name, tr.summary())
			}
			judge(h, "slowclose", c, name, l, s, tr, false)
		}
	}
}

func runCase(h *harness.H, t *transports, w, c int) {
	r := h.Rand("streams", c)
	s := genScript(r)
	for _, name := range transportNames {
		l := t.lanes[name][w]
		h.Eval()
		tr := runStream(l, s)
		if tr.openErr != nil {
			h.Inconclusive("open-failed:" + name)
			continue
		}
		judge(h, "streams", c, name, l, s, tr, true)
	}
	if c < 2 {
		h.Sample(map[string]any{"case": c, "script": s, "shape": s.shape()})
	}
}

var (
	sigMu   sync.Mutex
	sigSeen = map[string]bool{}
)

func firstOfSignature(sig string) bool {
	sigMu.Lock()
	defer sigMu.Unlock()
	if sigSeen[sig] {
		return false
	}
	sigSeen[sig] = true
	return true
}

func judge(h *harness.H, layer string, c int, name string, l *lane, s script, tr *trace, first bool) []finding {
	tr.mu.Lock()
	events := len(tr.cliSent) + len(tr.cliRecv) + len(tr.srvRecv) + len(tr.srvSent) + len(tr.cliPost) + 2
	nData := 0
	for _, e := range tr.cliRecv {
		if e.Err == nil {
			nData++
		}
	}
	for _, e := range tr.srvRecv {
		if e.Err == nil {
			nData++
		}
	}
	sendErrs := 0
	for _, e := range tr.srvSent {
		if e.Err != nil {
			sendErrs++
		}
	}
	stuck := append([]string{}, tr.stuck...)
	tr.mu.Unlock()
	h.Count("events_observed", events)
	h.Count("messages_delivered", nData)
	h.Count("streams_"+name, 1)
	if sendErrs > 0 {
		h.Count("handler_send_errors", sendErrs)
	}
	for _, st := range stuck {
		switch {
		case strings.HasPrefix(st, "client-sender"):
			// not a clause of the statement: counted, reported, never a verdict
			key := "sender_left_blocked:" + name + ":" + strings.TrimPrefix(st, "client-sender@")
			h.Count(key, 1)
			if firstOfSignature(key) {
				fmt.Printf("NOTE: C14 %s (case %d, %s): the client's sender goroutine was still blocked 500 ms after the handler had returned and the client had its terminal result; trace %v\n", key, c, s.shape(), tr.summary())
			}
		default:
			h.Inconclusive("stalled:" + name + ":" + st)
		}
	}
	fs := checkTrace(name, s, tr)
	if len(fs) == 0 {
		if nData > 0 || s.Kind != "nil" {
			h.Distinct(name + "/" + s.shape())
		}
		h.Seen("kinds_"+name, s.Kind)
		return nil
	}
	for _, f := range fs {
		sig := "c14:" + name + ":" + f.Class
		wit := map[string]any{"transport": name, "script": s, "trace": tr.summary(), "all_findings": fs}
		if first && firstOfSignature(sig) {
			// how often does the same script show the same finding again?
			again := 0
			for k := 0; k < 5; k++ {
				tr2 := runStream(l, s)
				for _, f2 := range checkTrace(name, s, tr2) {
					if f2.Class == f.Class {
						again++
						break
					}
				}
			}
			wit["reproduced_in_5_reruns"] = again
		}
		h.Violation(layer, c, sig, f.What, wit)
	}
	return fs
}
