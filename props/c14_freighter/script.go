package main

import (
	"context"
	"fmt"
	"hash/fnv"
	"strings"

	"github.com/synnaxlabs/freighter"
	"github.com/synnaxlabs/x/control"
	"github.com/synnaxlabs/x/errors"
	"github.com/synnaxlabs/x/query"
	"github.com/synnaxlabs/x/validate"

	"verif/lib/prng"
)

// Req / Res are the payloads of every stream in this monitor.
// Req and Res carry, besides the flat fields, a map and a slice (reference types: a
// decoder that reuses its target would leak keys of earlier messages into later ones and
// overwrite messages already handed out). The gRPC lanes translate to a proto with the
// flat fields only, so the extras are not carried (and not compared) there.
type Req struct {
	Message string           `json:"message" msgpack:"message"`
	ID      int              `json:"id" msgpack:"id"`
	Labels  map[string]int64 `json:"labels" msgpack:"labels"`
	Tags    []int64          `json:"tags" msgpack:"tags"`
}

type Res struct {
	Message string           `json:"message" msgpack:"message"`
	ID      int              `json:"id" msgpack:"id"`
	Labels  map[string]int64 `json:"labels" msgpack:"labels"`
	Tags    []int64          `json:"tags" msgpack:"tags"`
}

// extras is the deterministic map/slice content of message id.
func extras(id, size int) (map[string]int64, []int64) {
	labels := map[string]int64{fmt.Sprintf("k%d", id%7): int64(id), "size": int64(size)}
	if id%3 == 0 {
		labels[fmt.Sprintf("only%d", id)] = 1
	}
	tags := make([]int64, 0, 4)
	for i := 0; i < 1+(id+size)%4; i++ {
		tags = append(tags, int64(id*10+i))
	}
	return labels, tags
}

// xsum is an order-independent checksum of a message's extras.
func xsum(labels map[string]int64, tags []int64) uint64 {
	var x uint64 = uint64(len(labels))<<32 | uint64(len(tags))
	for k, v := range labels {
		x += sum(k) * uint64(v+7)
	}
	for i, t := range tags {
		x = x*1099511628211 + uint64(t) + uint64(i)
	}
	return x
}

// body is the deterministic content of message id with the given size (ASCII, so that
// it is a valid proto3 string too).
func body(id, size int) string {
	if size == 0 {
		return ""
	}
	seed := fmt.Sprintf("%d|%x.", id, uint32(size*2654435761+id))
	return strings.Repeat(seed, size/len(seed)+1)[:size]
}

func sum(s string) uint64 {
	h := fnv.New64a()
	h.Write([]byte(s))
	return h.Sum64()
}

// ---------------------------------------------------------------------------------
// Error kinds: nil and every kind registered with x/errors that is importable from the
// freighter and x modules, plus one registered here.

var ErrCustom = errors.New("c14 custom error")

func init() {
	errors.Register(
		func(_ context.Context, err error) (errors.Payload, bool) {
			if errors.Is(err, ErrCustom) {
				return errors.Payload{Type: "c14.custom", Data: err.Error()}, true
			}
			return errors.Payload{}, false
		},
		func(_ context.Context, p errors.Payload) (error, bool) {
			if p.Type != "c14.custom" {
				return nil, false
			}
			return errors.Wrap(ErrCustom, p.Data), true
		},
	)
}

type errKind struct {
	Name string
	// make builds the handler's return value carrying msg.
	make func(msg string) error
	// match is the sentinel the client's terminal error must satisfy errors.Is with (the
	// registered kind). nil for kind "nil" (terminal must be EOF) and for "unregistered"
	// (terminal must be a non-nil error that is not EOF).
	match error
	// matchFn, when set, replaces errors.Is(err, match).
	matchFn func(error) bool
}

func (k errKind) matches(err error) bool {
	if k.matchFn != nil {
		return k.matchFn(err)
	}
	return errors.Is(err, k.match)
}

func wrap(sentinel error) func(string) error {
	return func(msg string) error {
		if msg == "" {
			return sentinel
		}
		return errors.Wrap(sentinel, msg)
	}
}

var errKinds = []errKind{
	{Name: "nil", make: func(string) error { return nil }},
	{Name: "freighter.eof", make: func(string) error { return freighter.EOF }, match: freighter.EOF},
	{Name: "freighter.stream_closed", make: wrap(freighter.ErrStreamClosed), match: freighter.ErrStreamClosed},
	{Name: "query", make: wrap(query.ErrQuery), match: query.ErrQuery},
	{Name: "query.not_found", make: wrap(query.ErrNotFound), match: query.ErrNotFound},
	{Name: "query.unique_violation", make: wrap(query.ErrUniqueViolation), match: query.ErrUniqueViolation},
	{Name: "query.invalid_parameters", make: wrap(query.ErrInvalidParameters), match: query.ErrInvalidParameters},
	{Name: "control.unauthorized", make: wrap(control.ErrUnauthorized), match: control.ErrUnauthorized},
	{Name: "validation", make: wrap(validate.ErrValidation), match: validate.ErrValidation},
	{Name: "validation.required", make: wrap(validate.ErrRequired), match: validate.ErrValidation},
	{Name: "validation.path", make: func(msg string) error {
		return validate.PathedError(wrap(validate.ErrValidation)(msg), "config.keys")
	}, match: validate.ErrValidation, matchFn: func(err error) bool {
		// PathError has no Unwrap: the kind is "a path error around a validation error"
		var pe validate.PathError
		return errors.As(err, &pe) && errors.Is(pe.Err, validate.ErrValidation) && strings.Join(pe.Path, ".") == "config.keys"
	}},
	{Name: "custom", make: wrap(ErrCustom), match: ErrCustom},
	{Name: "unregistered", make: func(msg string) error { return errors.New("plain failure " + msg) }},
	// a package-level sentinel of no registered kind: the in-memory transport hands the
	// error value over and an Internal gRPC server sends it fully encoded, so identity
	// survives there; the client-facing transports only keep the text.
	{Name: "unregistered.sentinel", make: func(msg string) error { return errors.Wrap(ErrPlain, "plain failure "+msg) }},
}

var ErrPlain = errors.New("c14 unregistered sentinel")

func kindByName(n string) errKind {
	for _, k := range errKinds {
		if k.Name == n {
			return k
		}
	}
	panic("unknown kind " + n)
}

var errMsgs = []string{
	"", "simple", "channel 12 not found", "with: colon and \"quotes\"", "percent %d %s %v",
	"dash---dash", "a---b---c", "unicode é世界", "line1\nline2", "trailing space ",
	strings.Repeat("long message ", 60),
}

// ---------------------------------------------------------------------------------
// Scripts.

type msgSpec struct {
	ID   int `json:"id"`
	Size int `json:"size"`
}

type hop struct {
	Op   string `json:"op"` // recv | send | ret | idle (the handler does nothing for idleGap)
	ID   int    `json:"id,omitempty"`
	Size int    `json:"size,omitempty"`
}

// script is one deterministic (client script, handler script) pair.
type script struct {
	Sends     []msgSpec `json:"sends"`      // client requests, in order
	CloseSend bool      `json:"close_send"` // client calls CloseSend after its last request
	PostClose int       `json:"post_close"` // Send attempts after CloseSend
	Handler   []hop     `json:"handler"`    // ends with ret
	Kind      string    `json:"kind"`
	ErrMsg    string    `json:"err_msg"`
	MockBuf   int       `json:"mock_buf"`
	// timing (never part of a verdict): per side, one small number per op
	ClientDelay  []int `json:"-"`
	RecvDelay    []int `json:"-"`
	HandlerDelay []int `json:"-"`
}

func genSize(r *prng.R) int {
	switch x := r.Intn(100); {
	case x < 10:
		return 0
	case x < 70:
		return r.Intn(200)
	case x < 90:
		return r.Range(1<<10, 64<<10)
	case x < 98:
		return r.Range(64<<10, 256<<10)
	default:
		return r.Range(256<<10, 1<<20)
	}
}

func genDelays(r *prng.R, n int) []int {
	mode := r.Intn(4) // 0: none, 1: yields, 2: mixed, 3: slow side
	out := make([]int, n)
	for i := range out {
		switch mode {
		case 1:
			out[i] = r.Intn(2)
		case 2:
			out[i] = r.Intn(4)
		case 3:
			out[i] = 2 + r.Intn(3)
		}
	}
	return out
}

// genScript draws a script pair that cannot deadlock by construction: the handler only
// receives more often than the client sends if the client closes its sending side (after
// which Receive must report end-of-stream, repeatedly); the client receives continuously
// in its own goroutine, so handler sends always drain.
func genScript(r *prng.R) script {
	var s script
	nSend := r.Intn(13)
	if r.Chance(1, 8) {
		nSend = 0
	}
	for i := 0; i < nSend; i++ {
		s.Sends = append(s.Sends, msgSpec{ID: 1000 + i, Size: genSize(r)})
	}
	s.CloseSend = r.Chance(2, 3)
	if s.CloseSend {
		s.PostClose = r.Intn(3)
	}
	nOps := r.Intn(20)
	recvs, sends := 0, 0
	// handler shapes: echo-like, drain-then-send, send-only, early return, random
	shape := r.Intn(5)
	for i := 0; i < nOps; i++ {
		wantRecv := r.Bool()
		switch shape {
		case 0: // alternate
			wantRecv = i%2 == 0
		case 1: // drain first
			wantRecv = recvs < nSend+1
		case 2:
			wantRecv = false
		}
		if wantRecv {
			if !s.CloseSend && recvs >= nSend {
				wantRecv = false
			} else if s.CloseSend && recvs >= nSend+3 {
				wantRecv = false
			}
		}
		if wantRecv {
			s.Handler = append(s.Handler, hop{Op: "recv"})
			recvs++
		} else {
			s.Handler = append(s.Handler, hop{Op: "send", ID: 5000 + sends, Size: genSize(r)})
			sends++
		}
	}
	s.Handler = append(s.Handler, hop{Op: "ret"})
	k := prng.Pick(r, errKinds)
	if r.Chance(1, 4) {
		k = errKinds[0]
	}
	s.Kind = k.Name
	s.ErrMsg = prng.Pick(r, errMsgs)
	s.MockBuf = prng.Pick(r, []int{0, 1, 10})
	s.ClientDelay = genDelays(r, len(s.Sends)+1+s.PostClose)
	s.RecvDelay = genDelays(r, sends+6)
	s.HandlerDelay = genDelays(r, len(s.Handler))
	return s
}

// genIdleScript: a handler that stays quiet for longer than the transport's write
// deadline before some of its sends (1-32 KiB and small ones), then returns one of the
// result kinds; the client sends a few small requests and closes its sending side.
func genIdleScript(r *prng.R) script {
	var s script
	nSend := r.Range(0, 3)
	for i := 0; i < nSend; i++ {
		s.Sends = append(s.Sends, msgSpec{ID: 1000 + i, Size: r.Intn(300)})
	}
	s.CloseSend = true
	sends := 0
	send := func(size int) {
		s.Handler = append(s.Handler, hop{Op: "send", ID: 5000 + sends, Size: size})
		sends++
	}
	for i := 0; i < nSend && r.Bool(); i++ {
		s.Handler = append(s.Handler, hop{Op: "recv"})
	}
	if r.Bool() {
		send(r.Intn(200))
	}
	for g, ng := 0, r.Range(1, 2); g < ng; g++ {
		s.Handler = append(s.Handler, hop{Op: "idle"})
		switch r.Intn(3) {
		case 0:
			send(r.Intn(900)) // fits the websocket write buffer
		case 1:
			send(r.Range(1100, 4<<10))
		default:
			send(r.Range(4<<10, 32<<10))
		}
		if r.Bool() {
			send(r.Range(1100, 8<<10))
		}
	}
	s.Handler = append(s.Handler, hop{Op: "ret"})
	k := prng.Pick(r, errKinds)
	s.Kind = k.Name
	s.ErrMsg = prng.Pick(r, errMsgs)
	s.ClientDelay = genDelays(r, len(s.Sends)+1)
	s.RecvDelay = genDelays(r, sends+6)
	s.HandlerDelay = make([]int, len(s.Handler))
	return s
}

func (s script) shape() string {
	recvs, sends := 0, 0
	for _, h := range s.Handler {
		switch h.Op {
		case "recv":
			recvs++
		case "send":
			sends++
		}
	}
	big := 0
	for _, m := range s.Sends {
		if m.Size >= 64<<10 {
			big++
		}
	}
	return fmt.Sprintf("cs%d/close%v/hr%d/hs%d/%s/msg%d/big%d", len(s.Sends), s.CloseSend, recvs, sends, s.Kind, len(s.ErrMsg), big)
}
