package main

// Layer "ingress": the same deterministic delivery as C06 (permuted / duplicated / batched
// operation sets into the real filterPersist stage, interleaved with writes through the
// real local path). The `accepted` output of filterPersist and the output of the local
// persist stage are exactly what kv.Open routes to the persist splitter and from there to
// every subscriber, and they carry versions, so at this level the statement's clauses are
// checked per (key, version, leaseholder):
//   - at most once: no operation appears twice in a replica's notification stream, however
//     often it is redelivered;
//   - never stale: every notified operation strictly beats what the replica held before it;
//   - complete: whenever the replica's stored state for a key changed, the operation that
//     now owns the key was notified in that step.

import (
	"context"
	"fmt"
	"runtime"
	"sync"

	"verif/lib/aspenkit"
	"verif/lib/harness"
)

type ingressWitness struct {
	Why   string                 `json:"why"`
	Step  int                    `json:"step"`
	Trace *aspenkit.IngressTrace `json:"trace"`
}

func layerIngress(h *harness.H) {
	h.AddRule("ingress: case = op set + per-replica permutation/duplication/batching + interleaved local transactions of 1-3 ops whose leases are decided before newer remote ops for the same keys arrive (generator of C06), notification stream = accepted output of the real filterPersist plus output of the real local persist; distinct = hash of op set and delivery order; non-trivial = some op was redelivered after it had been notified and some op lost to a stored newer one")
	n := h.N(3000, 150000)
	par := runtime.GOMAXPROCS(0)
	if par > 16 {
		par = 16
	}
	var wg sync.WaitGroup
	cases := make(chan int, par)
	for w := 0; w < par; w++ {
		wg.Add(1)
		go func() {
			defer wg.Done()
			for c := range cases {
				ingressCase(h, c)
			}
		}()
	}
	for c := 0; c < n; c++ {
		if h.Skip("ingress", c) {
			continue
		}
		cases <- c
	}
	close(cases)
	wg.Wait()
}

func ingressCase(h *harness.H, c int) {
	ctx := context.Background()
	r := h.Rand("ingress", c)
	h.Eval()
	t, err := aspenkit.RunIngress(ctx, r, aspenkit.DefaultIngressParams)
	if err != nil {
		h.Inconclusive("ingress-run-error")
		fmt.Printf("NOTE: ingress case %d: %v\n", c, err)
		return
	}
	viol := func(step int, sig, why string) {
		h.Violation("ingress", c, sig, why, ingressWitness{Why: why, Step: step, Trace: t})
	}
	notified := make([]map[int]int, len(t.ReplicaIDs)) // replica -> op id -> step of notification
	for i := range notified {
		notified[i] = map[int]int{}
	}
	redeliveredAfterNotify, lostToNewer, nNotified := 0, 0, 0
	nLocalOps, nLocalLost := 0, 0
	for si, st := range t.Steps {
		if st.Err != "" {
			continue // C06 reports pipeline errors
		}
		seen := notified[st.Replica]
		cur := map[string]aspenkit.KeyState{}
		for k, v := range st.Pre {
			cur[k] = v
		}
		for _, id := range st.Ops {
			if _, ok := seen[id]; ok && st.Kind == "batch" {
				redeliveredAfterNotify++
			}
		}
		for _, id := range st.Accepted {
			o := t.Ops[id]
			nNotified++
			if prev, ok := seen[id]; ok {
				viol(si, "c13:ingress:operation-notified-twice", fmt.Sprintf("replica %d notified %s at step %d and again at step %d (redelivery)", st.Replica, o, prev, si))
			}
			seen[id] = si
			ks := cur[o.Key]
			if ks.HasDigest && !aspenkit.Newer(o.Version, o.Lease, ks.Version, ks.Lease) {
				if ks.Version == o.Version && ks.Lease == o.Lease {
					// same (key, version, leaseholder) as what is stored: a duplicate
					viol(si, "c13:ingress:stored-operation-notified-again", fmt.Sprintf("replica %d notified %s while it already held %s", st.Replica, o, ks))
				} else {
					viol(si, "c13:ingress:stale-operation-notified", fmt.Sprintf("replica %d notified %s although it already held the newer %s", st.Replica, o, ks))
				}
			}
			cur[o.Key] = aspenkit.KeyState{HasDigest: true, Version: o.Version, Lease: o.Lease, DigestDel: o.Del, Present: !o.Del, Value: o.Value}
		}
		for _, id := range st.Rejected {
			o := t.Ops[id]
			if ks := st.Post[o.Key]; ks.HasDigest && aspenkit.Newer(ks.Version, ks.Lease, o.Version, o.Lease) {
				lostToNewer++
			}
		}
		// every notified op changed the stored state: the last op notified for a key in
		// this step is what the replica stores for the key afterwards
		lastFor := map[string]aspenkit.Op{}
		for _, id := range st.Accepted {
			lastFor[t.Ops[id].Key] = t.Ops[id]
		}
		for k, o := range lastFor {
			if post := st.Post[k]; !post.HasDigest || post.Version != o.Version || post.Lease != o.Lease {
				viol(si, "c13:ingress:notified-op-was-not-stored", fmt.Sprintf("replica %d (%s step) notified %s but stores %s for the key afterwards", st.Replica, st.Kind, o, post))
			}
		}
		if st.Kind == "local" {
			nLocalOps += len(st.Ops)
			nLocalLost += len(st.Rejected)
		}
		for _, k := range t.Keys {
			pre, post := st.Pre[k], st.Post[k]
			if pre == post {
				continue
			}
			// stored state changed: the op that owns the key now must have been notified
			// in this step
			ok := false
			for _, id := range st.Accepted {
				o := t.Ops[id]
				if o.Key == k && post.HasDigest && o.Version == post.Version && o.Lease == post.Lease {
					ok = true
				}
			}
			if !ok {
				viol(si, "c13:ingress:state-changed-without-notification", fmt.Sprintf("replica %d key %s changed from %s to %s in step %d (%s %v) but the notified ops were %v", st.Replica, k, pre, post, si, st.Kind, st.Ops, st.Accepted))
			}
		}
	}
	if redeliveredAfterNotify > 0 && lostToNewer > 0 {
		h.Distinct(t.Shape)
	}
	h.Count("ingress_ops_notified", nNotified)
	h.Count("ingress_redeliveries_after_notification", redeliveredAfterNotify)
	h.Count("ingress_ops_lost_to_stored_newer", lostToNewer)
	h.Count("ingress_batches", t.NBatches)
	h.Count("ingress_local_writes", t.NLocal)
	h.Count("ingress_local_ops", nLocalOps)
	h.Count("ingress_local_ops_lost_at_commit_not_notified", nLocalLost)
	h.Count("ingress_local_multi_op_txs", t.NLocalMulti)
	h.Count("ingress_local_txs_with_winner_and_loser", t.NLocalMixed)
	h.Count("ingress_replica_streams", len(t.ReplicaIDs))
	if c < 2 {
		h.Sample(map[string]any{"layer": "ingress", "case": c, "replicas": t.ReplicaIDs, "ops": t.Ops, "steps": len(t.Steps), "first_steps": t.Steps[:min(3, len(t.Steps))]})
	}
}
