package main

import (
	"context"
	"fmt"
	"time"

	"github.com/synnaxlabs/aspen/verifx"
	"verif/lib/aspenkit"
	"verif/lib/harness"
)

// Layer `tombstone`: "never notified of an operation that lost to a newer one already
// stored" when the newer one is a DELETE the node learned through start-up recovery.
// Node 1 sets k (the set's gossip form is rebuilt from the version and leaseholder node 1 stores for it), deletes k and
// sets a control key; node 2 joins afterwards with KV gossip practically off (interval
// 1 h), so recovery is the only way it learns anything. Subscribers are attached on node
// 2 and the captured, older set of k (and an older set of the control key) is redelivered
// to it 1-3 times as a gossip message. Nothing may be notified and k must stay deleted.
func layerTombstone(h *harness.H) {
	h.AddRule("tombstone: per case a 1-node cluster writes 1-3 keys (set, optional overwrite, delete) plus a control key; every first set is captured (key, value, version, leaseholder); a second node joins by start-up recovery only (KV gossip interval 1 h); 3 subscribers on it (OnChange, NewObservable, IgnoreHostLeaseholder); the captured older sets are redelivered 1-3 times; oracle: no notification at all, stored state unchanged")
	n := h.N(12, 400)
	for c := 0; c < n; c++ {
		if h.Skip("tombstone", c) {
			continue
		}
		h.Eval()
		if msg := tombstoneCase(h, c); msg != "" {
			h.Inconclusive("tombstone:" + msg)
		}
	}
}

func tombstoneCase(h *harness.H, c int) string {
	ctx := context.Background()
	r := h.Rand("tombstone", c)
	cl, err := aspenkit.OpenCluster(ctx, r, aspenkit.ClusterParams{Nodes: 1, KVInterval: time.Hour})
	if err != nil {
		return "open"
	}
	defer func() { _ = cl.Close() }()
	hist := aspenkit.History{}
	nk := r.Range(1, 3)
	var stale []verifx.Operation
	var keys []string
	// the operation a peer would gossip for the value node 1 stores for key right now
	capture := func(key string) bool {
		st, err := cl.State(ctx, []string{key})
		if err != nil {
			return false
		}
		ks := st[0][key]
		if !ks.HasDigest || !ks.Present {
			return false
		}
		stale = append(stale, aspenkit.SetOperation(key, ks.Value, ks.Version, ks.Lease))
		return true
	}
	for i := 0; i < nk; i++ {
		ks := aspenkit.KeySpec{Name: fmt.Sprintf("k%d", i), Writer: 0, Leader: 0}
		keys = append(keys, ks.Name)
		if w := cl.DoWrite(ctx, hist, ks, false, 0); !w.OK {
			return "write"
		}
		if !capture(ks.Name) {
			return "capture"
		}
		if r.Bool() {
			if w := cl.DoWrite(ctx, hist, ks, false, 0); !w.OK {
				return "write"
			}
		}
		if w := cl.DoWrite(ctx, hist, ks, true, 0); !w.OK {
			return "delete"
		}
	}
	keep := aspenkit.KeySpec{Name: "keep", Writer: 0, Leader: 0}
	keys = append(keys, keep.Name)
	if w := cl.DoWrite(ctx, hist, keep, false, 0); !w.OK || !capture(keep.Name) {
		return "write-control"
	}
	if w := cl.DoWrite(ctx, hist, keep, false, 0); !w.OK {
		return "write-control"
	}
	// node 2 joins: start-up recovery is its only source
	n2, err := cl.AddNode(ctx, 1)
	if err != nil {
		return "add-node"
	}
	cl.Attach(n2)
	if !cl.WaitMembership(20 * time.Second) {
		return "membership"
	}
	before, err := cl.State(ctx, keys)
	if err != nil {
		return "state"
	}
	subs := []*aspenkit.SubLog{
		cl.Subscribe(1, "OnChange", false, "after-recovery"),
		cl.Subscribe(1, "NewObservable()", false, "after-recovery"),
		cl.Subscribe(1, "IgnoreHostLeaseholder", true, "after-recovery"),
	}
	for i, k := 0, r.Range(1, 3); i < k; i++ {
		if err := cl.Net.Inject(ctx, n2.Addr, verifx.TxRequest{Sender: verifx.NodeKey(cl.Nodes[0].Key), Operations: append([]verifx.Operation{}, stale...)}); err != nil {
			return "inject"
		}
	}
	// the pipeline is asynchronous behind the transport handler: a later empty exchange is
	// answered only after the earlier messages were taken in; the observers get a moment
	for i := 0; i < 3; i++ {
		if _, err := cl.Infected(ctx, 1); err != nil {
			return "probe"
		}
		time.Sleep(5 * time.Millisecond)
	}
	after, err := cl.State(ctx, keys)
	if err != nil {
		return "state"
	}
	h.Count("tombstone_stale_operations_redelivered", len(stale))
	for _, k := range keys {
		if fmt.Sprint(before[1][k]) != fmt.Sprint(after[1][k]) {
			h.Violation("tombstone", c, "c13:tombstone:stale-operation-stored-after-recovered-newer",
				fmt.Sprintf("node 2 learned %s by start-up recovery (%v); a redelivered older set changed its stored state to %v", k, before[1][k], after[1][k]),
				map[string]any{"key": k, "before": before[1][k], "after": after[1][k]})
		}
	}
	for _, s := range subs {
		if ev := s.Events(); len(ev) > 0 {
			h.Violation("tombstone", c, "c13:tombstone:stale-operation-notified-after-recovered-newer",
				fmt.Sprintf("node 2 holds the newer state of every key (learned by start-up recovery); subscriber %s was notified of %d redelivered older operations, first %s del=%v %q", s.Name, len(ev), ev[0].Key, ev[0].Del, ev[0].Value),
				map[string]any{"subscriber": s.Name, "notifications": renderLog(ev)})
		}
	}
	h.Distinct(fmt.Sprintf("tombstone|%d|%d", nk, len(stale)))
	return ""
}
