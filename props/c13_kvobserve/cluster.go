package main

// Layer "cluster": the randomised cluster workload of C06 (3-4 real aspen.DBs, fault-
// injecting transport, one writer per key with unique values, rounds separated by observed
// quiescence, optional stop/restart). On every node: a DB.OnChange subscriber and a
// NewObservable(IgnoreHostLeaseholder) subscriber attached before traffic, another pair
// attached while round 1 is running, and a fresh pair after a restart. Handlers only
// append to a mutex-guarded log. Each round issues < 64 transactions (the smallest buffer
// between the pipeline and a handler), so a subscriber that only appends "keeps up" and a
// missing notification cannot be a legitimate drop.
//
// Offline oracle per subscriber log (unique values identify the originating Set; the
// single writer's issue order is the version order of a key):
//   once      no Set value is notified twice; per key the notifications map to strictly
//             increasing positions of the issue order (a Delete to the next unmatched
//             Delete of the issue order) — also "never stale";
//   filter    the filtered subscriber's log equals the unfiltered log minus the keys led
//             by the host, exactly;
//   complete  (a) at every quiescent checkpoint, for every key whose stored value on the
//             node differs from the previous checkpoint, the last notification for the
//             key is the stored value (and without notifications the stored value did not
//             change); (b) the leaseholder's subscriber saw every acknowledged write of
//             its keys, in order.

import (
	"context"
	"fmt"
	"runtime"
	"strconv"
	"strings"
	"sync"
	"sync/atomic"

	"verif/lib/aspenkit"
	"verif/lib/harness"
)

type subDump struct {
	Node     int                     `json:"node"`
	Name     string                  `json:"name"`
	Filtered bool                    `json:"filtered"`
	Epoch    int                     `json:"epoch"`
	Phase    string                  `json:"phase"`
	Events   []aspenkit.Notification `json:"events"`
}

type clusterWitness struct {
	Why   string                 `json:"why"`
	Node  int                    `json:"node"`
	Key   string                 `json:"key"`
	Subs  []subDump              `json:"subscriber_logs"`
	Trace *aspenkit.ClusterTrace `json:"trace"`
}

type c13Checker struct {
	h        *harness.H
	c        int
	nLogs    int
	nEvents  int
	nFilter  int
	nStateCk int
	nLeaseCk int
}

func dump(s *aspenkit.SubLog, ev []aspenkit.Notification) subDump {
	return subDump{Node: s.Node, Name: s.Name, Filtered: s.Filtered, Epoch: s.Epoch, Phase: s.Phase, Events: ev}
}

func sameChange(a, b aspenkit.Notification) bool {
	return a.Key == b.Key && a.Del == b.Del && a.Value == b.Value
}

func matchesState(n aspenkit.Notification, ks aspenkit.KeyState) bool {
	if n.Del {
		return !ks.Present
	}
	return ks.Present && ks.Value == n.Value
}

func (k *c13Checker) check(t *aspenkit.ClusterTrace, cp *aspenkit.Checkpoint, report bool) bool {
	ok := true
	cl := t.Cluster
	leader := map[string]int{}
	for _, ks := range t.Spec.Keys {
		leader[ks.Name] = ks.Leader
	}
	viol := func(node int, key, sig, why string, subs ...subDump) {
		ok = false
		if report {
			k.h.Violation("cluster", k.c, sig, why, clusterWitness{Why: why, Node: node, Key: key, Subs: subs, Trace: t})
		}
	}
	var prev *aspenkit.Checkpoint
	if len(t.Checkpoints) > 0 {
		prev = t.Checkpoints[len(t.Checkpoints)-1]
	}
	k.nLogs, k.nEvents, k.nFilter, k.nStateCk, k.nLeaseCk = 0, 0, 0, 0, 0
	for i, n := range cl.Nodes {
		// ---- once / never stale, per log ----
		for _, s := range n.Subs {
			ev := cp.Subs[s]
			k.nLogs++
			k.nEvents += len(ev)
			last := map[string]int{}
			seen := map[string]bool{}
			for _, e := range ev {
				hist := t.Hist[e.Key]
				l, has := last[e.Key]
				if !has {
					l = -1
				}
				if !e.Del {
					seq := -1
					if j := strings.LastIndexByte(e.Value, '#'); j >= 0 {
						seq, _ = strconv.Atoi(e.Value[j+1:])
					}
					if seq < 0 || seq >= len(hist) || hist[seq].Del || hist[seq].Value != e.Value {
						viol(i, e.Key, "c13:cluster:unknown-change-notified", fmt.Sprintf("node %d subscriber %s was notified of %s=%q which no client wrote", i+1, s.Name, e.Key, e.Value), dump(s, ev))
						continue
					}
					if seen[e.Value] {
						viol(i, e.Key, "c13:cluster:change-notified-twice", fmt.Sprintf("node %d subscriber %s (%s, epoch %d) was notified twice of %s=%q", i+1, s.Name, s.Phase, s.Epoch, e.Key, e.Value), dump(s, ev))
						continue
					}
					seen[e.Value] = true
					if seq < l {
						viol(i, e.Key, "c13:cluster:stale-change-notified", fmt.Sprintf("node %d subscriber %s was notified of %s=%q (write #%d) after a notification of write #%d of the key", i+1, s.Name, e.Key, e.Value, seq, l), dump(s, ev))
						continue
					}
					last[e.Key] = seq
					continue
				}
				d := -1
				for j := l + 1; j < len(hist); j++ {
					if hist[j].Del {
						d = j
						break
					}
				}
				if d < 0 {
					viol(i, e.Key, "c13:cluster:delete-notified-twice-or-stale", fmt.Sprintf("node %d subscriber %s was notified of a delete of %s after write #%d, but the client issued no delete after that write", i+1, s.Name, e.Key, l), dump(s, ev))
					continue
				}
				last[e.Key] = d
			}
		}
		// ---- filter exactness, per pair attached together ----
		for _, u := range n.Subs {
			if u.Filtered {
				continue
			}
			for _, f := range n.Subs {
				if !f.Filtered || f.Epoch != u.Epoch || f.Phase != u.Phase {
					continue
				}
				k.nFilter++
				ue, fe := cp.Subs[u], cp.Subs[f]
				var ur []aspenkit.Notification
				for _, e := range ue {
					if leader[e.Key] != i {
						ur = append(ur, e)
					}
				}
				bad := false
				for _, e := range fe {
					if leader[e.Key] == i {
						viol(i, e.Key, "c13:cluster:filter-passed-host-led-change", fmt.Sprintf("node %d: IgnoreHostLeaseholder subscriber was notified of %s (%q del=%v), a key led by this node", i+1, e.Key, e.Value, e.Del), dump(u, ue), dump(f, fe))
						bad = true
						break
					}
				}
				if bad || cp.NotQuiescent {
					continue // log equality needs both handlers to have drained
				}
				if u.Phase == "mid" {
					// attached one after the other while traffic flowed: one log may miss
					// a prefix of the other
					a, b := ur, fe
					if len(a) < len(b) {
						a, b = b, a
					}
					a = a[len(a)-len(b):]
					for j := range b {
						if !sameChange(a[j], b[j]) {
							viol(i, b[j].Key, "c13:cluster:filtered-view-differs-from-unfiltered", fmt.Sprintf("node %d (attached mid-traffic): filtered and unfiltered logs disagree at the %d-th remote-led change from the end", i+1, len(b)-j), dump(u, ue), dump(f, fe))
							break
						}
					}
					continue
				}
				for j := 0; j < len(ur) || j < len(fe); j++ {
					if j >= len(fe) {
						viol(i, ur[j].Key, "c13:cluster:filter-hid-remote-led-change", fmt.Sprintf("node %d: unfiltered subscriber saw %s (%q del=%v), led by node %d, but the IgnoreHostLeaseholder subscriber did not", i+1, ur[j].Key, ur[j].Value, ur[j].Del, leader[ur[j].Key]+1), dump(u, ue), dump(f, fe))
						break
					}
					if j >= len(ur) || !sameChange(ur[j], fe[j]) {
						viol(i, fe[j].Key, "c13:cluster:filtered-view-differs-from-unfiltered", fmt.Sprintf("node %d: filtered and unfiltered logs disagree at remote-led change %d", i+1, j), dump(u, ue), dump(f, fe))
						break
					}
				}
			}
		}
		if !cp.Up[i] || cp.NotQuiescent {
			continue // completeness is only decidable at a quiescent point
		}
		// ---- completeness (a): stored state vs last notification ----
		for _, s := range n.Subs {
			if s.Filtered || s.Phase == "mid" || s.Epoch != cp.Epochs[i] {
				continue
			}
			ev := cp.Subs[s]
			from := 0
			var base map[string]aspenkit.KeyState
			switch {
			case prev != nil && prev.Up[i] && prev.Epochs[i] == cp.Epochs[i]:
				base = prev.State[i]
				from = len(prev.Subs[s])
			case cp.Epochs[i] > 0:
				base = t.RestartBaseline[i]
			}
			lastN := map[string]*aspenkit.Notification{}
			for j := from; j < len(ev); j++ {
				e := ev[j]
				lastN[e.Key] = &e
			}
			for _, ks := range t.Spec.Keys {
				k.nStateCk++
				now := cp.State[i][ks.Name]
				was := base[ks.Name]
				if e := lastN[ks.Name]; e != nil {
					if !matchesState(*e, now) {
						viol(i, ks.Name, "c13:cluster:last-notification-is-not-the-stored-value", fmt.Sprintf("%s: node %d stores %s for %s but the last change its subscriber was told is (%q del=%v)", cp.Phase, i+1, now, ks.Name, e.Value, e.Del), dump(s, ev))
					}
				} else if now.Present != was.Present || now.Value != was.Value {
					viol(i, ks.Name, "c13:cluster:state-changed-without-notification", fmt.Sprintf("%s: node %d's stored value of %s changed from %s to %s but its subscriber (attached since %s) was told nothing", cp.Phase, i+1, ks.Name, was, now, s.Phase), dump(s, ev))
				}
			}
		}
		// ---- completeness (b): the leaseholder's subscriber saw every acknowledged write
		for _, ks := range t.Spec.Keys {
			if ks.Leader != i {
				continue
			}
			var notes []aspenkit.Notification
			var dumps []subDump
			for _, s := range n.Subs {
				if s.Filtered || s.Phase == "mid" {
					continue
				}
				dumps = append(dumps, dump(s, cp.Subs[s]))
				for _, e := range cp.Subs[s] {
					if e.Key == ks.Name {
						notes = append(notes, e)
					}
				}
			}
			k.nLeaseCk++
			hist := t.Hist[ks.Name][:cp.HistLen[ks.Name]]
			if miss := explain(hist, notes); miss >= 0 {
				w := hist[miss]
				viol(i, ks.Name, "c13:cluster:leaseholder-write-not-notified", fmt.Sprintf("%s: node %d leads %s and acknowledged write #%d (%q del=%v), but no choice of which unacknowledged writes were applied makes its subscriber's %d notifications for the key contain it in order", cp.Phase, i+1, ks.Name, w.Seq, w.Value, w.Del, len(notes)), dumps...)
			}
		}
	}
	return ok
}

// explain decides whether notes (the notifications for one key at its leaseholder) can be
// the issue order with every acknowledged write present and each unacknowledged write
// either present or absent (it may or may not have been applied). It returns -1 if so,
// else the index of the first acknowledged write that cannot be placed.
func explain(hist []aspenkit.Write, notes []aspenkit.Notification) int {
	type st struct{ i, p int }
	memo := map[st]bool{}
	deepest := -1
	var rec func(i, p int) bool
	rec = func(i, p int) bool {
		if i == len(hist) {
			return true // surplus notifications are the once/stale checks' business
		}
		key := st{i, p}
		if v, ok := memo[key]; ok {
			return v
		}
		w := hist[i]
		res := false
		if p < len(notes) && notes[p].Del == w.Del && notes[p].Value == w.Value && rec(i+1, p+1) {
			res = true
		}
		if !res && !w.OK && rec(i+1, p) {
			res = true
		}
		if !res && w.OK && i > deepest {
			deepest = i
		}
		memo[key] = res
		return res
	}
	if rec(0, 0) {
		return -1
	}
	if deepest < 0 {
		deepest = 0
	}
	return deepest
}

func layerCluster(h *harness.H) {
	h.AddRule("cluster: case = cluster spec of C06 (nodes, keys with writer/leaseholder, fault profile, optional restart), 2-3 rounds; 4 subscribers per node (+2 after a restart); distinct = hash of spec + per-key issue history; non-trivial = >= 2 quiescent checkpoints, >= 100 notifications recorded and >= 1 filtered/unfiltered pair compared on a node that leads some key and replicates another")
	n := h.N(100, 3000)
	par := runtime.GOMAXPROCS(0) / 2
	if par < 1 {
		par = 1
	}
	if par > 8 {
		par = 8
	}
	var wg sync.WaitGroup
	cases := make(chan int)
	for w := 0; w < par; w++ {
		wg.Add(1)
		go func() {
			defer wg.Done()
			for c := range cases {
				clusterCase(h, c)
			}
		}()
	}
	for c := 0; c < n; c++ {
		if h.Skip("cluster", c) {
			continue
		}
		cases <- c
	}
	close(cases)
	wg.Wait()
}

// noQuiesce counts cases whose gossip never quiesced. When that keeps happening the code
// under test gossips forever (e.g. it re-accepts what it already has); the remaining cases
// would each only burn the watchdog, so they are skipped and counted as inconclusive.
var noQuiesce atomic.Int64

func clusterCase(h *harness.H, c int) {
	if noQuiesce.Load() >= 6 {
		h.Inconclusive("cluster:skipped-after-repeated-no-quiescence")
		return
	}
	ctx := context.Background()
	r := h.Rand("cluster", c)
	h.Eval()
	spec := aspenkit.GenClusterSpec(r)
	ck := &c13Checker{h: h, c: c}
	t, err := aspenkit.RunClusterCase(ctx, r, spec, ck.check)
	if err != nil {
		h.Inconclusive("cluster-open-error")
		fmt.Printf("NOTE: cluster case %d: %v\n", c, err)
		return
	}
	if t.Inconclusive != "" {
		if strings.HasPrefix(t.Inconclusive, "no-quiescence") {
			noQuiesce.Add(1)
		}
		h.Inconclusive("cluster:" + strings.SplitN(t.Inconclusive, ":", 2)[0])
		fmt.Printf("NOTE: cluster case %d inconclusive: %s\n", c, t.Inconclusive)
	}
	// counters of the last checkpoint evaluated
	h.Count("cluster_subscriber_logs", ck.nLogs)
	h.Count("cluster_notifications", ck.nEvents)
	h.Count("cluster_filter_pairs_compared", ck.nFilter)
	h.Count("cluster_state_vs_notification_checks", ck.nStateCk)
	h.Count("cluster_leaseholder_completeness_checks", ck.nLeaseCk)
	h.Count("cluster_quiescent_checkpoints", len(t.Checkpoints))
	h.Count("cluster_multi_op_transactions", t.MultiOpTxs)
	writes := 0
	for _, hs := range t.Hist {
		writes += len(hs)
	}
	h.Count("cluster_client_writes", writes)
	if spec.Restart {
		h.Count("cluster_runs_with_restart", 1)
	}
	h.Seen("fault_profiles", spec.Profile)
	_, delivered, _, inj := t.Cluster.Net.Counters()
	h.Count("cluster_op_msgs_delivered", int(delivered[aspenkit.ChTx]))
	h.Count("cluster_op_msgs_duplicated", int(inj["dup/tx"]))
	mixed := false
	for i := 0; i < spec.Nodes; i++ {
		leads, replicates := false, false
		for _, ks := range spec.Keys {
			if ks.Leader == i {
				leads = true
			} else {
				replicates = true
			}
		}
		if leads && replicates {
			mixed = true
		}
	}
	if len(t.Checkpoints) >= 2 && ck.nEvents >= 100 && mixed {
		var sb strings.Builder
		fmt.Fprintf(&sb, "%+v|", spec)
		for _, ks := range spec.Keys {
			for _, w := range t.Hist[ks.Name] {
				fmt.Fprintf(&sb, "%s:%v:%v,", ks.Name, w.Del, w.OK)
			}
		}
		h.Distinct(sb.String())
	}
	if c < 2 {
		var ev []aspenkit.Notification
		if len(t.Checkpoints) > 0 {
			cp := t.Checkpoints[len(t.Checkpoints)-1]
			ev = cp.Subs[t.Cluster.Nodes[0].Subs[0]]
			if len(ev) > 12 {
				ev = ev[:12]
			}
		}
		h.Sample(map[string]any{"layer": "cluster", "case": c, "spec": spec, "node1_unfiltered_log_head": ev})
	}
}
