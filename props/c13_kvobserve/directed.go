package main

// Layer "directed": the observer-side view of the stale-lease race, for transactions of
// 1-4 operations and EVERY split of the transaction into operations that lose and
// operations that win at commit.
//
// Node A adds m new keys k0..k(m-1) to an open transaction (the lease allocator finds no
// digest and makes A the leaseholder of each). For the keys in the "lose" set node B
// creates the key too (B's version counter is ahead of A's) and B's write reaches A through
// gossip while B keeps offering it (feedback to B is delayed, so B's SIR state stays
// "infected"). A commits. Subscribers on A — DB.OnChange, NewObservable() and
// NewObservable(IgnoreHostLeaseholder) — are observed until B has offered each of its
// operations to A at least three more times and gossip has then quiesced.
//
// Oracle (statement):
//   never stale   no subscriber is told of A's operation on a key of the lose set (it lost
//                 to a newer one already stored and was never written to storage);
//   once          B's operation on such a key is told exactly once however often it is
//                 redelivered;
//   complete      the unfiltered subscribers are told, once, of A's operation on every key
//                 of the win set (it changed A's stored state);
//   filter        the IgnoreHostLeaseholder log equals the unfiltered log minus the changes
//                 led by A, exactly (so it contains none of A's operations).

import (
	"context"
	"fmt"
	"runtime"
	"sync"
	"time"

	"verif/lib/aspenkit"
	"verif/lib/harness"
)

const wd = 30 * time.Second

type split struct {
	m    int
	lose uint // bit i set: key i is also created by B before A commits
}

func allSplits() []split {
	var out []split
	for m := 1; m <= 4; m++ {
		for mask := uint(0); mask < 1<<m; mask++ {
			out = append(out, split{m, mask})
		}
	}
	return out // 2+4+8+16 = 30
}

func layerDirected(h *harness.H) {
	h.AddRule("directed: case = (transaction size 1-4, lose-set bitmask: all 30 splits per pass, 3-4 nodes, A, B, number of prior writes of B 4-8, set-or-delete per op of A); distinct = split + parameters; non-trivial = schedule fully established (B's op on every lose key reached A before A's commit and was offered to A >= 3 times afterwards, gossip quiesced)")
	splits := allSplits()
	n := h.N(len(splits), 5*len(splits))
	par := runtime.GOMAXPROCS(0) / 2
	if par < 1 {
		par = 1
	}
	if par > 6 {
		par = 6
	}
	var wg sync.WaitGroup
	cases := make(chan int)
	for w := 0; w < par; w++ {
		wg.Add(1)
		go func() {
			defer wg.Done()
			for c := range cases {
				h.Eval()
				if inc := staleLeaseCase(h, c, splits[c%len(splits)]); inc != "" {
					h.Inconclusive("directed:" + inc)
					fmt.Printf("NOTE: directed case %d inconclusive: %s\n", c, inc)
				}
			}
		}()
	}
	for c := 0; c < n; c++ {
		if h.Skip("directed", c) {
			continue
		}
		cases <- c
	}
	close(cases)
	wg.Wait()
}

type dirWitness struct {
	Why      string              `json:"why"`
	A        int                 `json:"A"`
	B        int                 `json:"B"`
	TxOps    []string            `json:"tx_ops_of_A"`
	LoseKeys []string            `json:"keys_also_created_by_B"`
	Before   map[string]string   `json:"A_held_before_commit"`
	After    map[string]string   `json:"A_holds_after_commit"`
	Logs     map[string][]string `json:"A_subscriber_logs"`
	History  aspenkit.History    `json:"history_of_B"`
}

func renderLog(ev []aspenkit.Notification) []string {
	var out []string
	for _, e := range ev {
		if e.Del {
			out = append(out, fmt.Sprintf("tx%d %s DEL", e.Tx, e.Key))
		} else {
			out = append(out, fmt.Sprintf("tx%d %s=%s", e.Tx, e.Key, e.Value))
		}
	}
	return out
}

func staleLeaseCase(h *harness.H, c int, sp split) string {
	ctx := context.Background()
	r := h.Rand("directed", c)
	nodes := r.Range(3, 4)
	A := r.Intn(nodes)
	B := (A + 1 + r.Intn(nodes-1)) % nodes
	p := r.Range(4, 8) // B's counter is ahead of anything A's transaction (versions 1..4) can get
	cl, err := aspenkit.OpenCluster(ctx, r, aspenkit.ClusterParams{Nodes: nodes})
	if err != nil {
		return "open:" + err.Error()
	}
	defer func() { _ = cl.Close() }()
	hist := aspenkit.History{}
	subs := map[string]*aspenkit.SubLog{
		"OnChange":              cl.Subscribe(A, "OnChange", false, "start"),
		"NewObservable()":       cl.Subscribe(A, "NewObservable()", false, "start"),
		"IgnoreHostLeaseholder": cl.Subscribe(A, "IgnoreHostLeaseholder", true, "start"),
	}
	kb := aspenkit.KeySpec{Name: "kb", Writer: B, Leader: B}
	for i := 0; i < p; i++ {
		if w := cl.DoWrite(ctx, hist, kb, false, 0); !w.OK {
			return "write:" + w.Err
		}
	}
	if err := cl.WaitQuiesced(ctx, 8, wd); err != nil {
		return "no-quiescence-0"
	}
	// A's transaction: m new keys; ops on lose keys are Sets (a Delete of an unknown key
	// also claims the lease, but keep B's and A's values distinguishable), ops on win keys
	// may be deletes of a key nobody has (still an operation that changes A's state: a
	// tombstone digest is stored).
	tx := cl.Nodes[A].DB.OpenTx()
	defer func() { _ = tx.Close() }()
	var keys, txOps, loseKeys []string
	aVal := map[string]string{}
	aDel := map[string]bool{}
	for i := 0; i < sp.m; i++ {
		k := fmt.Sprintf("k%d", i)
		keys = append(keys, k)
		lose := sp.lose&(1<<uint(i)) != 0
		if lose {
			loseKeys = append(loseKeys, k)
		}
		if !lose && r.Chance(1, 4) {
			aDel[k] = true
			txOps = append(txOps, k+" DEL")
			if err := tx.Delete(ctx, []byte(k)); err != nil {
				return "tx-delete:" + err.Error()
			}
			continue
		}
		aVal[k] = "from-A-" + k
		txOps = append(txOps, k+"="+aVal[k])
		if err := tx.Set(ctx, []byte(k), []byte(aVal[k])); err != nil {
			return "tx-set:" + err.Error()
		}
	}
	cl.Net.HoldFeedbackTo(cl.Nodes[B].Addr) // B never learns that the others have its ops
	bVal := map[string]string{}
	before := map[string]aspenkit.KeyState{}
	for _, k := range loseKeys {
		wb := cl.DoWrite(ctx, hist, aspenkit.KeySpec{Name: k, Writer: B, Leader: B}, false, 0)
		if !wb.OK {
			return "write:" + wb.Err
		}
		bVal[k] = wb.Value
	}
	for _, k := range loseKeys {
		ks, ok := cl.WaitKey(ctx, A, k, wd, func(s aspenkit.KeyState) bool { return s.HasDigest && s.Present && s.Value == bVal[k] })
		if !ok {
			return "B's-write-did-not-reach-A"
		}
		before[k] = ks
	}
	recvBase := map[string]int{}
	for _, k := range loseKeys {
		recvBase[k] = cl.Net.Received(cl.Nodes[A].Addr, k, before[k].Version)
	}
	if err := tx.Commit(ctx); err != nil {
		return "tx-commit:" + err.Error()
	}
	after := map[string]aspenkit.KeyState{}
	for _, k := range keys {
		after[k], _ = aspenkit.ReadKey(ctx, cl.Nodes[A].Eng, k)
	}
	deadline := time.Now().Add(wd)
	for _, k := range loseKeys {
		for cl.Net.Received(cl.Nodes[A].Addr, k, before[k].Version) < recvBase[k]+3 {
			if time.Now().After(deadline) {
				inf, _ := cl.Infected(ctx, B)
				var is []string
				for _, op := range inf {
					is = append(is, fmt.Sprintf("%s@v%d", op.Key, int64(op.Version)))
				}
				fmt.Printf("NOTE: directed case %d: key %s v%d received-by-A %d (base %d); B infected %v; B offered it %d times; feedback held for B %d\n", c, k, before[k].Version,
					cl.Net.Received(cl.Nodes[A].Addr, k, before[k].Version), recvBase[k], is, cl.Net.Gossiped(cl.Nodes[B].Addr, k, before[k].Version), cl.Net.HeldFeedbackCount(cl.Nodes[B].Addr, k, before[k].Version))
				return "B's-op-not-offered-again"
			}
			time.Sleep(cl.P.KVInterval)
		}
	}
	cl.Net.ReleaseFeedbackTo(cl.Nodes[B].Addr)
	w := dirWitness{A: A + 1, B: B + 1, TxOps: txOps, LoseKeys: loseKeys, Before: map[string]string{}, After: map[string]string{}, History: hist}
	for k, v := range before {
		w.Before[k] = v.String()
	}
	for k, v := range after {
		w.After[k] = v.String()
	}
	isLose := map[string]bool{}
	for _, k := range loseKeys {
		isLose[k] = true
	}
	// The sanity of the schedule itself: on a lose key B's op must be the newer one.
	for _, k := range loseKeys {
		if !before[k].HasDigest || before[k].Lease == cl.Nodes[A].Key {
			return "lose-key-not-led-by-B"
		}
	}
	evaluate := func(report bool) bool {
		ok := true
		logs := map[string][]aspenkit.Notification{}
		w.Logs = map[string][]string{}
		for name, s := range subs {
			logs[name] = s.Events()
			w.Logs[name] = renderLog(logs[name])
		}
		viol := func(sig, why string) {
			ok = false
			if report {
				w.Why = why
				h.Violation("directed", c, sig, why, w)
			}
		}
		for name, ev := range logs {
			count := map[string]int{}
			for _, e := range ev {
				if e.Del {
					count[e.Key+" DEL"]++
				} else {
					count[e.Key+"="+e.Value]++
				}
			}
			for _, k := range keys {
				aOp := k + "=" + aVal[k]
				if aDel[k] {
					aOp = k + " DEL"
				}
				if isLose[k] {
					if count[aOp] > 0 {
						viol("c13:stale-lease-commit:notified-op-that-lost-to-stored-newer",
							fmt.Sprintf("tx of %d ops, %d of them losing: node %d held %s for %s when its transaction committed, its own op (%s) lost and was never stored, yet subscriber %s was told of it", sp.m, len(loseKeys), A+1, before[k], k, aOp, name))
					}
					bOp := k + "=" + bVal[k]
					if count[bOp] > 1 {
						viol("c13:stale-lease-commit:operation-notified-twice",
							fmt.Sprintf("node %d subscriber %s was told %d times of %s (version %d led by node %d)", A+1, name, count[bOp], bOp, before[k].Version, before[k].Lease))
					}
					if count[bOp] == 0 {
						viol("c13:stale-lease-commit:stored-remote-op-not-notified",
							fmt.Sprintf("node %d stores %s (led by node %d) but subscriber %s was never told", A+1, bOp, before[k].Lease, name))
					}
					continue
				}
				// win key: led by A -> unfiltered exactly once, filtered never
				want := 1
				if name == "IgnoreHostLeaseholder" {
					want = 0
				}
				if count[aOp] != want {
					sig := "c13:stale-lease-commit:winning-op-not-notified"
					switch {
					case want == 0:
						sig = "c13:stale-lease-commit:filter-passed-host-led-change"
					case count[aOp] > 1:
						sig = "c13:stale-lease-commit:winning-op-notified-twice"
					}
					viol(sig, fmt.Sprintf("tx of %d ops, %d of them losing: node %d's own op %s won at commit (node stores %s); subscriber %s was told %d times, expected %d", sp.m, len(loseKeys), A+1, aOp, after[k], name, count[aOp], want))
				}
			}
		}
		// filter exactness: filtered == unfiltered minus the changes led by A. A leads
		// exactly the win keys here (kb and the lose keys are led by B).
		var ur []aspenkit.Notification
		for _, e := range logs["OnChange"] {
			if (e.Key == "kb" || isLose[e.Key]) && (e.Del || e.Value != aVal[e.Key]) {
				ur = append(ur, e) // (A's own value on a lose key would belong to A's host-led tx)
			}
		}
		fe := logs["IgnoreHostLeaseholder"]
		same := len(ur) == len(fe)
		for i := 0; same && i < len(ur); i++ {
			same = sameChange(ur[i], fe[i])
		}
		if !same {
			viol("c13:stale-lease-commit:filtered-view-differs-from-unfiltered",
				fmt.Sprintf("node %d: the IgnoreHostLeaseholder log (%d changes) is not the OnChange log minus the changes led by the host (%d changes)", A+1, len(fe), len(ur)))
		}
		// the two unfiltered observables must agree
		u1, u2 := logs["OnChange"], logs["NewObservable()"]
		same = len(u1) == len(u2)
		for i := 0; same && i < len(u1); i++ {
			same = sameChange(u1[i], u2[i])
		}
		if !same {
			viol("c13:stale-lease-commit:unfiltered-observables-differ", fmt.Sprintf("node %d: OnChange saw %d changes, NewObservable() %d, or in a different order", A+1, len(u1), len(u2)))
		}
		return ok
	}
	if err := cl.WaitQuiesced(ctx, 8, wd); err != nil {
		return "no-quiescence-final"
	}
	if !evaluate(false) {
		// handlers may lag behind the pipeline: look again after a much longer quiet period
		if err := cl.WaitQuiesced(ctx, 50, wd); err != nil {
			return "no-quiescence-extended"
		}
		evaluate(true)
	}
	n := 0
	for _, s := range subs {
		n += len(s.Events())
	}
	h.Count("directed_notifications", n)
	h.Count(fmt.Sprintf("directed_runs_tx%d", sp.m), 1)
	if len(loseKeys) > 0 && len(loseKeys) < sp.m {
		h.Count("directed_runs_with_winner_and_loser", 1)
	}
	h.Distinct(fmt.Sprintf("m%d lose%b n%d A%d B%d p%d del%v", sp.m, sp.lose, nodes, A, B, p, aDel))
	return ""
}
