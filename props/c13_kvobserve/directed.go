package main

// Layer "directed": one schedule, the observer-side view of a race that C06 also aims at.
// Node A adds the new key k to an open transaction (the lease allocator finds no digest
// and makes A the leaseholder); before A commits, node B creates k too (B's version
// counter is ahead of A's) and that write reaches A through gossip while B is still
// offering it (feedback to B is delayed so B's SIR state stays "infected"). A commits.
// Subscribers on A are then observed until B's operation has been offered to A at least
// three more times.
//
// Oracle (statement): a subscriber is never notified of an operation that lost to a newer
// one already stored (A's own operation has the lower version), and is notified of each
// (key, version) at most once no matter how often gossip redelivers it (B's operation).

import (
	"context"
	"fmt"
	"time"

	"verif/lib/aspenkit"
	"verif/lib/harness"
)

const wd = 30 * time.Second

func layerDirected(h *harness.H) {
	h.AddRule("directed: case = (3-4 nodes, A, B, number of prior writes of B 1-5); non-trivial = schedule fully established (B's op reached A before A's commit and was offered to A >= 3 times afterwards)")
	n := h.N(6, 150)
	for c := 0; c < n; c++ {
		if h.Skip("directed", c) {
			continue
		}
		h.Eval()
		if inc := staleLeaseCase(h, c); inc != "" {
			h.Inconclusive("directed:" + inc)
			fmt.Printf("NOTE: directed case %d inconclusive: %s\n", c, inc)
		}
	}
}

func staleLeaseCase(h *harness.H, c int) string {
	ctx := context.Background()
	r := h.Rand("directed", c)
	nodes := r.Range(3, 4)
	A := r.Intn(nodes)
	B := (A + 1 + r.Intn(nodes-1)) % nodes
	p := r.Range(1, 5)
	cl, err := aspenkit.OpenCluster(ctx, r, aspenkit.ClusterParams{Nodes: nodes})
	if err != nil {
		return "open:" + err.Error()
	}
	defer func() { _ = cl.Close() }()
	kb := aspenkit.KeySpec{Name: "kb", Writer: B, Leader: B}
	k := aspenkit.KeySpec{Name: "k", Writer: B, Leader: B}
	hist := aspenkit.History{}
	sub := cl.Subscribe(A, "all", false, "start")
	for i := 0; i < p; i++ {
		if w := cl.DoWrite(ctx, hist, kb, false, 0); !w.OK {
			return "write:" + w.Err
		}
	}
	if err := cl.WaitQuiesced(ctx, 8, wd); err != nil {
		return "no-quiescence"
	}
	tx := cl.Nodes[A].DB.OpenTx()
	defer func() { _ = tx.Close() }()
	if err := tx.Set(ctx, []byte("k"), []byte("from-A")); err != nil {
		return "tx-set:" + err.Error()
	}
	cl.Net.HoldFeedbackTo(cl.Nodes[B].Addr) // B never learns that the others have its op
	wb := cl.DoWrite(ctx, hist, k, false, 0)
	if !wb.OK {
		return "write:" + wb.Err
	}
	before, ok := cl.WaitKey(ctx, A, "k", wd, func(s aspenkit.KeyState) bool { return s.Present && s.Value == wb.Value })
	if !ok {
		return "B's-write-did-not-reach-A"
	}
	if err := tx.Commit(ctx); err != nil {
		return "tx-commit:" + err.Error()
	}
	after, _ := aspenkit.ReadKey(ctx, cl.Nodes[A].Eng, "k")
	base := cl.Net.Received(cl.Nodes[A].Addr, "k", before.Version)
	deadline := time.Now().Add(wd)
	for cl.Net.Received(cl.Nodes[A].Addr, "k", before.Version) < base+3 {
		if time.Now().After(deadline) {
			return "B's-op-not-offered-again"
		}
		time.Sleep(cl.P.KVInterval)
	}
	time.Sleep(10 * cl.P.KVInterval) // let A's pipeline and handlers drain; not deciding: fewer notifications can only hide a violation
	cl.Net.ReleaseFeedbackTo(cl.Nodes[B].Addr)
	ev := sub.Events()
	var kEv []aspenkit.Notification
	for _, e := range ev {
		if e.Key == "k" {
			kEv = append(kEv, e)
		}
	}
	w := map[string]any{"A": A + 1, "B": B + 1, "A_held_before_commit": before, "A_holds_after_commit": after, "A_subscriber_log_for_k": kEv, "history": hist}
	nB, sawBFirst := 0, false
	for _, e := range kEv {
		if e.Value == wb.Value {
			nB++
			sawBFirst = true
		}
		if e.Value == "from-A" && sawBFirst && after.HasDigest && before.HasDigest &&
			aspenkit.Newer(before.Version, before.Lease, after.Version, after.Lease) {
			why := fmt.Sprintf("node %d stored %s for k (and told its subscriber) and then notified the subscriber of its own older operation %s when the open transaction committed", A+1, before, after)
			h.Violation("directed", c, "c13:stale-lease-commit:notified-op-that-lost-to-stored-newer", why, w)
		}
	}
	if nB > 1 {
		why := fmt.Sprintf("node %d's subscriber was notified %d times of k=%q (version %d led by node %d): gossip redelivered it after the node's own older commit had replaced it", A+1, nB, wb.Value, before.Version, before.Lease)
		h.Violation("directed", c, "c13:stale-lease-commit:operation-notified-twice", why, w)
	}
	h.Count("directed_notifications_for_k", len(kEv))
	h.Distinct(fmt.Sprintf("n%d A%d B%d p%d", nodes, A, B, p))
	return ""
}
