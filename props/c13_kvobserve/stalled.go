package main

import (
	"context"
	"fmt"
	"runtime"
	"time"

	"verif/lib/aspenkit"
	"verif/lib/harness"
)

// Layer `stalled`: one subscriber of a node stops returning from its handler; the others
// keep up. The statement promises every subscriber that keeps up every applied change,
// whatever its neighbours do. Several fast subscribers (unfiltered and filtered) and one
// stalled subscriber are attached to the same node; 100-260 sequential writes follow, far
// more than the 64 notifications a subscriber's buffer holds. The client is paced on the
// fast subscribers' own logs (it never runs more than 24 notifications ahead of the
// slowest of them), so a notification dropped for a fast subscriber cannot be legitimate.
// Verdicts are state based: the run ends with sentinel writes; once a subscriber has
// logged a sentinel, everything applied before it has either been logged (per-subscriber
// delivery is first-in first-out) or was lost.
func layerStalled(h *harness.H) {
	h.AddRule("stalled: per case one 1-3 node cluster; on node A 2-4 unfiltered subscribers, 1 IgnoreHostLeaseholder subscriber and 1-2 subscribers whose handler never returns (attached in a PRNG order); 100-260 sequential Set/Delete through A on 3-6 keys led by A, paced so that no fast subscriber is ever more than 24 notifications behind; then sentinel writes until every fast subscriber logged one; oracle: each fast unfiltered log = the applied writes in issue order, once; the filtered log stays empty; non-trivial = the stalled subscriber's buffer overflowed (> 65 changes applied)")
	n := h.N(16, 600)
	for c := 0; c < n; c++ {
		if h.Skip("stalled", c) {
			continue
		}
		h.Eval()
		if msg := stalledCase(h, c); msg != "" {
			h.Inconclusive("stalled:" + msg)
		}
	}
}

func stalledCase(h *harness.H, c int) string {
	ctx := context.Background()
	r := h.Rand("stalled", c)
	nodes := r.Range(1, 3)
	A := r.Intn(nodes)
	cl, err := aspenkit.OpenCluster(ctx, r, aspenkit.ClusterParams{Nodes: nodes})
	if err != nil {
		return "open"
	}
	release := make(chan struct{})
	defer func() {
		close(release)
		_ = cl.Close()
	}()
	// subscribers, attached in a random order (the fan-out visits them in map order)
	type sub struct {
		log      *aspenkit.SubLog
		filtered bool
	}
	var fast []sub
	kinds := []string{"u", "u", "f", "s"}
	for i, extra := 0, r.Range(0, 2); i < extra; i++ {
		kinds = append(kinds, "u")
	}
	if r.Chance(1, 3) {
		kinds = append(kinds, "s")
	}
	for i := len(kinds) - 1; i > 0; i-- {
		j := r.Intn(i + 1)
		kinds[i], kinds[j] = kinds[j], kinds[i]
	}
	for i, k := range kinds {
		switch k {
		case "u":
			fast = append(fast, sub{cl.Subscribe(A, fmt.Sprintf("fast%d", i), false, "start"), false})
		case "f":
			fast = append(fast, sub{cl.Subscribe(A, fmt.Sprintf("filtered%d", i), true, "start"), true})
		default:
			cl.SubscribeStalled(A, fmt.Sprintf("stalled%d", i), r.Chance(1, 4), "start", release)
		}
	}
	// keys: written through A; led by A or (multi-node) by another node
	nk := r.Range(3, 6)
	var keys []aspenkit.KeySpec
	for i := 0; i < nk; i++ {
		// every key is written through A and led by A: such a write is applied on A inside
		// the commit, so A's notifications follow the client's issue order exactly (a key led
		// elsewhere reaches A by gossip, later and batched, which the cluster layer covers)
		keys = append(keys, aspenkit.KeySpec{Name: fmt.Sprintf("k%d", i), Writer: A, Leader: A})
	}
	hist := aspenkit.History{}
	type applied struct {
		key, val string
		del      bool
		hostLed  bool
	}
	var want []applied
	total := r.Range(100, 260)
	wantFast := func(filtered bool) int {
		n := 0
		for _, a := range want {
			if !filtered || !a.hostLed {
				n++
			}
		}
		return n
	}
	paced := func() bool {
		deadline := time.Now().Add(20 * time.Second) // watchdog: inconclusive, never a verdict
		for {
			ok := true
			for _, s := range fast {
				if wantFast(s.filtered)-s.log.Len() > 24 {
					ok = false
				}
			}
			if ok {
				return true
			}
			if time.Now().After(deadline) {
				return false
			}
			runtime.Gosched()
			time.Sleep(20 * time.Microsecond)
		}
	}
	lagging := false
	for i := 0; i < total; i++ {
		ks := keys[r.Intn(len(keys))]
		del := len(hist[ks.Name]) > 0 && !hist[ks.Name][len(hist[ks.Name])-1].Del && r.Chance(1, 8)
		w := cl.DoWrite(ctx, hist, ks, del, 0)
		if !w.OK {
			return "write-failed"
		}
		want = append(want, applied{ks.Name, w.Value, del, ks.Leader == A})
		if !paced() {
			// a fast subscriber stopped advancing: either it is losing notifications (the
			// sentinel phase decides) or the machine is stalled (inconclusive there)
			lagging = true
			break
		}
	}
	h.Count("stalled_writes_applied", len(want))
	sk := aspenkit.KeySpec{Name: "sentinel", Writer: A, Leader: A}
	seen := func(s sub) bool {
		for _, e := range s.log.Events() {
			if e.Key == "sentinel" {
				return true
			}
		}
		return false
	}
	for try := 0; try < 400; try++ {
		if w := cl.DoWrite(ctx, hist, sk, false, 0); !w.OK {
			return "sentinel-write-failed"
		}
		all := true
		for _, s := range fast {
			if s.filtered && sk.Leader == A {
				continue
			}
			if !seen(s) {
				all = false
			}
		}
		if all {
			break
		}
		time.Sleep(2 * time.Millisecond)
	}
	viol := 0
	for _, s := range fast {
		if s.filtered {
			// every key of this layer is led by the host: the filtered subscriber is owed
			// nothing (and no sentinel can reach it)
			h.Count("stalled_filtered_logs_checked", 1)
			if n := s.log.Len(); n > 0 {
				viol++
				h.Violation("stalled", c, "c13:stalled:filter-passed-host-led-change",
					fmt.Sprintf("node %d: IgnoreHostLeaseholder subscriber %s logged %d changes although every key written is led by the host", A+1, s.log.Name, n), map[string]any{"nodes": nodes, "A": A})
			}
			continue
		}
		if !seen(s) {
			return "no-sentinel-observed"
		}
		var got []aspenkit.Notification
		for _, e := range s.log.Events() {
			if e.Key == "sentinel" {
				break
			}
			got = append(got, e)
		}
		var exp []applied
		for _, a := range want {
			if !s.filtered || !a.hostLed {
				exp = append(exp, a)
			}
		}
		h.Count("stalled_fast_logs_compared", 1)
		i, j := 0, 0
		missing, extra := 0, 0
		for i < len(exp) && j < len(got) {
			if exp[i].key == got[j].Key && exp[i].del == got[j].Del && (exp[i].del || exp[i].val == got[j].Value) {
				i++
				j++
				continue
			}
			// resynchronise: is got[j] a later expected entry (then exp[i] is missing)?
			found := false
			for k := i + 1; k < len(exp) && k < i+300; k++ {
				if exp[k].key == got[j].Key && exp[k].del == got[j].Del && (exp[k].del || exp[k].val == got[j].Value) {
					missing += k - i
					i = k
					found = true
					break
				}
			}
			if !found {
				extra++
				j++
			}
		}
		missing += len(exp) - i
		extra += len(got) - j
		if missing > 0 || extra > 0 {
			viol++
			kind := "fast-subscriber-missed-changes-while-a-neighbour-is-stalled"
			if missing == 0 {
				kind = "fast-subscriber-got-unexpected-notifications-while-a-neighbour-is-stalled"
			}
			if s.filtered {
				kind += ":filtered"
			}
			h.Violation("stalled", c, "c13:stalled:"+kind,
				fmt.Sprintf("node %d: subscriber %s kept up (never more than 24 behind) and logged a sentinel written after %d applied changes, but its log lacks %d of the %d changes it is owed (%d unexpected) while another subscriber of the node is stalled", A+1, s.log.Name, len(want), missing, len(exp), extra),
				map[string]any{"nodes": nodes, "A": A, "subscriber_order": kinds, "applied": len(want), "expected": len(exp), "logged": len(got), "missing": missing, "unexpected": extra, "pacing_gave_up": lagging})
		}
	}
	if lagging && viol == 0 {
		return "pacing-watchdog"
	}
	if len(want) > 65 {
		h.Distinct(fmt.Sprintf("stalled|n%d|A%d|%v|%d", nodes, A, kinds, len(want)/20))
	}
	return ""
}
