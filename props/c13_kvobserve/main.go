// C13 — Key-value observers see each applied change once, never a stale one.
package main

import "verif/lib/harness"

func main() {
	harness.Main("C13", "exploration",
		harness.Layer{Name: "ingress", Run: layerIngress},
		harness.Layer{Name: "directed", Run: layerDirected},
		harness.Layer{Name: "cluster", Run: layerCluster},
	)
}
