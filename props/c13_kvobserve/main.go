// C13 — Key-value observers see each applied change once, never a stale one.
package main

import "verif/lib/harness"

func assumptions(h *harness.H) {
	h.Assume("'while it keeps up': handlers only append to a mutex-guarded slice and every burst between two observed quiescent points issues < 64 transactions (the per-handler channel of observe.NewAsync holds 64, the persist splitter's relay 500), so a dropped notification cannot be legitimate; behaviour of slow subscribers is not asserted")
	h.Assume("cluster level: handlers receive xkv.Change without versions; unique values identify the Set, the single writer's issue order is the version order of a key, a Delete notification is matched to the next unmatched Delete of the issue order; unacknowledged writes (injected loss of the acknowledgement) may or may not have been applied")
	h.Assume("state changes made by start-up recovery inside aspen.Open cannot have a subscriber and are excluded (baseline = engine state read right after subscribers were attached to the reopened DB)")
	h.Assume("quiescence is observed as in C06 (probe of every node's infected set), watchdog 45 s -> inconclusive; at a non-quiescent checkpoint only the at-most-once / never-stale / filter-passed checks run")
}

func main() {
	harness.Main("C13", "exploration",
		harness.Layer{Name: "assumptions", Run: assumptions},
		harness.Layer{Name: "ingress", Run: layerIngress},
		harness.Layer{Name: "directed", Run: layerDirected},
		harness.Layer{Name: "stalled", Run: layerStalled},
		harness.Layer{Name: "tombstone", Run: layerTombstone},
		harness.Layer{Name: "cluster", Run: layerCluster},
	)
}
