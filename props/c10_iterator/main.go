// C10 — iterator steps return exactly the samples inside the reported view.
//
// Runtime monitor: stored layouts are built through the public cesium API (several
// writer sessions in arbitrary order, file rollover through tiny file-size caps, gaps,
// adjacent domains, writer starts that are not samples, data written later against a
// stored index, DeleteTimeRange cut points, GC, reopen) while a reference model
// timestamp -> value is kept per channel. On every layout the REAL unary.Iterator
// (obtained with DB.VerifUnary(key).OpenIterator, the only iterator that reports its
// View()) is driven with random mixed command sequences and with full traversals, and
// the same sequences are run through the public cesium.Iterator. After every step the
// oracle compares Value() with the model's samples inside View().
package main

import (
	"encoding/json"
	"fmt"
	"os"
	"runtime"
	"strings"
	"sync"

	"github.com/synnaxlabs/cesium"
	"github.com/synnaxlabs/x/telem"

	"verif/lib/harness"
	"verif/lib/prng"
)

func main() {
	if v := os.Getenv(childEnv); v != "" {
		var sc crashScenario
		if err := json.Unmarshal([]byte(v), &sc); err != nil {
			fmt.Println("CHILD-SKIP bad scenario")
			os.Exit(0)
		}
		os.Exit(crashChild(sc))
	}
	harness.Main("C10", "exploration",
		harness.Layer{Name: "unary", Run: layerUnary},
		harness.Layer{Name: "stream", Run: layerStream},
		harness.Layer{Name: "crash", Run: layerCrash},
	)
}

func parallel(h *harness.H, layer string, n int, f func(c int)) {
	workers := runtime.GOMAXPROCS(0)
	if workers > 16 {
		workers = 16
	}
	ch := make(chan int)
	var wg sync.WaitGroup
	for i := 0; i < workers; i++ {
		wg.Add(1)
		go func() {
			defer wg.Done()
			for c := range ch {
				f(c)
			}
		}()
	}
	for c := 0; c < n; c++ {
		if h.Skip(layer, c) {
			continue
		}
		ch <- c
	}
	close(ch)
	wg.Wait()
}

func layoutFeatures(h *harness.H, l *layout) string {
	nd := 0
	nonSampleStart, adjacent, gaps := 0, 0, 0
	ds, err := rawDomains(l.db, keyIdx)
	if err == nil {
		nd = len(ds)
		for i, d := range ds {
			if len(l.in(keyIdx, d.S, d.S+1)) == 0 {
				nonSampleStart++
			}
			if i > 0 {
				if ds[i-1].E == d.S {
					adjacent++
				} else {
					gaps++
				}
			}
		}
	}
	h.Count("layout_index_domains", nd)
	h.Count("layout_domain_starts_not_samples", nonSampleStart)
	h.Count("layout_adjacent_domain_pairs", adjacent)
	h.Count("layout_gaps", gaps)
	h.Count("layout_deletes", l.feat["deletes"])
	h.Count("layout_data_later_sessions", l.feat["data_later"])
	h.Count("layout_gc", l.feat["gc"])
	h.Count("layout_reopen", l.feat["reopen"])
	return fmt.Sprintf("d%d/ns%d/adj%d/gap%d", nd, nonSampleStart, adjacent, gaps)
}

func layerUnary(h *harness.H) {
	h.AddRule("unary: per case one stored layout (1-6 writer sessions in shuffled order over 5 channels idx/i64/f32/str/u8, file cap in {1,40,64,200 B,1 GB}, irregular spacing, writer starts before the first sample, data written later against a stored index, 0-3 DeleteTimeRange, gc, reopen) x every channel x (6 [thorough 12] random sequences of 8-30 commands SeekFirst/SeekLast/SeekLE/SeekGE/Next(span)/Prev(span)/Next(auto)/Prev(auto)/SetBounds with random bounds and auto chunk in {1,2,3,7,20,1e5}; every 2nd sequence fixed spans only, every 3rd seeks before each step; spans 1ns..whole range..TimeSpanMax, 1/4 aimed at a domain edge) + forward/backward traversals with spans {1,3,random,whole,max} and auto chunks {1,2,3,7,1e5}; distinct+non-trivial = distinct (layout log, channel, command trace) whose steps returned stored samples at least once")
	h.Assume("commands are issued as the API documents: a seek first, steps only after a seek that found a domain, a seek after every SetBounds and after a step that left an error")
	h.Assume("an accumulated Error() is not by itself a refutation; it is one when the reported view holds stored samples that Value() lacks (or Value() holds samples outside the view)")
	h.Assume("layouts whose raw stored bytes (read through domain.DB, not through the iterator) differ from the reference model, whose data domains are not positionally aligned with / covered by the index, or whose pointer list is out of order after a DeleteTimeRange are not used (C04/C03 matters); they are counted as layouts_unusable")
	h.Assume("Next/Prev(AutoSpan) issued from a view lying exactly 1 ns outside the bounds is only executed in a child process (layer crash): it kills the process")
	seqPerChan := h.N(6, 12)
	parallel(h, "unary", h.N(300, 8000), func(c int) {
		r := h.Rand("unary", c)
		h.Eval()
		l, reason := buildLayout(r)
		if reason != "" {
			h.Count("layouts_unusable", 1)
			h.Seen("layouts_unusable_reasons", reason)
			if reason == "domain-enumeration-inconsistent" {
				h.Violation("unary", c, "c10:domain-iterator:forward-and-backward-enumeration-differ",
					"SeekFirst;Next* and SeekLast;Prev* over a channel's domain.DB list different domains", map[string]any{"layout": l.log})
				return
			}
			if reason == "delete-failed" && l != nil {
				h.Seen("layout_delete_errors", errShape(l.delErr))
			}
			if reason != "stored-bytes-differ-from-model" && reason != "model-sample-outside-domains" && reason != "delete-failed" && reason != "data-domain-misaligned-with-index" && reason != "data-domain-not-covered-by-index" && reason != "stored-domains-out-of-order" {
				h.Inconclusive("layout:" + reason)
			}
			return
		}
		defer func() { _ = l.db.Close() }()
		h.Count("layouts", 1)
		feat := layoutFeatures(h, l)
		h.Seen("layout_shapes", feat)
		h.Sample(map[string]any{"case": c, "layout": l.log, "shape": feat})
		lkey := strings.Join(l.log, ";")
		for _, k := range allKeys {
			if len(l.model[k]) == 0 {
				continue
			}
			for s := 0; s < seqPerChan; s++ {
				// every second sequence uses fixed spans only, so that the fixed-span logic is
				// explored in depth whatever the auto-span steps do
				// and every third one seeks before each step (no cursor history)
				w := walkRandom(h, "unary", c, l, k, r, s%2 == 1, s%3 == 2)
				h.Count("sequences", 1)
				if !w.dead && w.nonTrivial > 0 {
					h.Distinct(lkey + "|" + chName(k) + "|" + strings.Join(w.trace, ";"))
				}
			}
			// traversals over finite bounds
			a, b := l.lo-2, l.hi+2
			if r.Chance(1, 2) {
				g := gen{r, l, k}
				a, b = g.bounds()
				if a == int64(telem.TimeStampMin) {
					a, b = l.lo-2, l.hi+2
				}
			}
			spans := []int64{1, 3, int64(r.Range(2, 40)), l.hi - l.lo + 10, int64(telem.TimeSpanMax)}
			for _, sp := range spans {
				for _, fwd := range []bool{true, false} {
					w := traverse(h, "unary", c, l, k, fwd, sp, 0, a, b)
					if !w.dead && w.nonTrivial > 0 {
						h.Distinct(lkey + "|" + chName(k) + fmt.Sprintf("|trav%v/%d/%d-%d", fwd, sp, a, b))
					}
				}
			}
			for _, ck := range []int64{1, 2, 3, 7, 100000} {
				for _, fwd := range []bool{true, false} {
					w := traverse(h, "unary", c, l, k, fwd, -1, ck, a, b)
					if !w.dead && w.nonTrivial > 0 {
						h.Distinct(lkey + "|" + chName(k) + fmt.Sprintf("|auto%v/%d/%d-%d", fwd, ck, a, b))
					}
				}
			}
		}
	})
}

// layerStream: the same kind of sequences through the public cesium.Iterator over
// several channels, with one shadow unary iterator per channel that reports the view.
func layerStream(h *harness.H) {
	h.AddRule("stream: per case one layout x 4 random sequences through cesium.Iterator over 2-5 channels, each step compared per channel with the model's samples inside the view a shadow unary iterator reports for the same command; every returned series also checked against its own TimeRange")
	parallel(h, "stream", h.N(150, 4000), func(c int) {
		r := h.Rand("stream", c)
		h.Eval()
		l, reason := buildLayout(r)
		if reason != "" {
			h.Count("layouts_unusable", 1)
			h.Seen("layouts_unusable_reasons", reason)
			return
		}
		defer func() { _ = l.db.Close() }()
		for s := 0; s < 4; s++ {
			if !streamSequence(h, c, l, r) {
				return
			}
		}
	})
}

func pickChannels(r *prng.R) []cesium.ChannelKey {
	ks := append([]cesium.ChannelKey(nil), allKeys...)
	prng.Shuffle(r, ks)
	return ks[:r.Range(2, len(ks))]
}

// errShape strips numbers and timestamps from an error text so that it can be counted.
func errShape(s string) string {
	var sb strings.Builder
	for _, r := range s {
		if r >= '0' && r <= '9' {
			continue
		}
		sb.WriteRune(r)
	}
	out := sb.String()
	if len(out) > 160 {
		out = out[:160]
	}
	return out
}
