package main

import (
	"bytes"
	"fmt"
	"strings"
	"sync/atomic"
	"time"

	"github.com/synnaxlabs/cesium"
	"github.com/synnaxlabs/cesium/verifx"
	"github.com/synnaxlabs/x/telem"

	"verif/lib/harness"
	"verif/lib/prng"
)

func runStream(it *cesium.Iterator, c cmd) (bool, cesium.Frame) {
	var ok bool
	switch c.Op {
	case "first":
		ok = it.SeekFirst()
	case "last":
		ok = it.SeekLast()
	case "le":
		ok = it.SeekLE(telem.TimeStamp(c.TS))
	case "ge":
		ok = it.SeekGE(telem.TimeStamp(c.TS))
	case "next":
		ok = it.Next(telem.TimeSpan(c.Span))
	case "prev":
		ok = it.Prev(telem.TimeSpan(c.Span))
	case "bounds":
		it.SetBounds(telem.TimeRange{Start: telem.TimeStamp(c.A), End: telem.TimeStamp(c.B)})
		ok = true
	}
	return ok, it.Value()
}

func streamSequence(h *harness.H, c int, l *layout, r *prng.R) bool {
	keys := pickChannels(r)
	g := gen{r, l, keyIdx}
	a, b := g.bounds()
	chunk := prng.Pick(r, chunkSizes())
	bounds := telem.TimeRange{Start: telem.TimeStamp(a), End: telem.TimeStamp(b)}
	top, err := l.db.OpenIterator(cesium.IteratorConfig{Channels: keys, Bounds: bounds, AutoChunkSize: chunk})
	if err != nil {
		h.Inconclusive("open-stream-iterator-failed")
		return true
	}
	defer func() {
		if top != nil {
			_ = top.Close()
		}
	}()
	shadows := make([]*verifx.UnaryIterator, len(keys))
	lastViews := make([]telem.TimeRange, len(keys))
	for i, k := range keys {
		u, _ := l.db.VerifUnary(k)
		it, err := u.OpenIterator(verifx.UnaryIteratorConfig{Bounds: bounds, AutoChunkSize: chunk})
		if err != nil {
			h.Inconclusive("open-iterator-failed")
			return true
		}
		defer func() { _ = it.Close() }()
		shadows[i] = it
	}
	var trace []string
	violate := func(sig, what string) {
		h.Violation("stream", c, sig, what, map[string]any{"channels": keys, "bounds": []string{tsStr(a), tsStr(b)}, "auto_chunk": chunk, "commands": trace, "layout": l.log})
	}
	n := r.Range(8, 25)
	seeked := false
	nonTrivial := false
	for i := 0; i < n; i++ {
		var cm cmd
		p := r.Intn(100)
		switch {
		case !seeked || p < 18:
			cm = g.seek()
		case p < 22:
			na, nb := g.bounds()
			cm = cmd{Op: "bounds", A: na, B: nb}
		case p < 52:
			cm = cmd{Op: "next", Span: g.span()}
		case p < 78:
			cm = cmd{Op: "prev", Span: g.span()}
		case p < 89:
			cm = cmd{Op: "next", Span: -1}
		default:
			cm = cmd{Op: "prev", Span: -1}
		}
		guarded := false
		for j := range keys {
			if isStep(cm) && crashGuard(cm, lastViews[j], [2]int64{a, b}) {
				guarded = true
			}
		}
		if guarded {
			h.Count("auto_steps_skipped_by_crash_guard", 1)
			continue
		}
		// The shadow unary iterators run first: a panic inside the iterator would leave
		// the public Iterator call blocked forever (its goroutine ends without an ack).
		sress := make([]stepResult, len(keys))
		anyOK, allOK := false, true
		for j := range keys {
			sress[j] = runUnary(shadows[j], cm)
			if sress[j].Panic != "" {
				h.Count("stream_sequences_cut_by_unary_panic", 1)
				// Observation (not a verdict, it rests on a wall-clock watchdog): what does
				// the public iterator do for the command that panics inside a unary
				// iterator? Tried once per run.
				if hangProbe.CompareAndSwap(false, true) {
					if _, _, hung := runStreamWatchdog(top, cm, 10*time.Second); hung {
						h.Count("stream_call_hung_after_internal_panic", 1)
						h.Inconclusive("cesium.Iterator call did not return within 10s after a panic inside a unary iterator")
						top = nil
					}
				}
				return true
			}
			lastViews[j] = sress[j].View
			if sress[j].OK {
				anyOK = true
			} else {
				allOK = false
			}
		}
		ok, fr, hung := runStreamWatchdog(top, cm, 20*time.Second)
		if hung {
			// a wall-clock watchdog never decides: counted, not a verdict
			h.Inconclusive("stream-call-did-not-return-within-20s-watchdog")
			top = nil
			return true
		}
		trace = append(trace, fmt.Sprintf("%s -> ok=%v", cm, ok))
		for j, k := range keys {
			sres := sress[j]
			if !isStep(cm) {
				continue
			}
			// If the shadow itself disagrees with the model the stream comparison has no
			// reference view to stand on; that defect is reported by the unary layer.
			want := l.in(k, int64(sres.View.Start), int64(sres.View.End))
			if sres.Err != nil || !bytes.Equal(sres.data(), concat(want)) {
				h.Count("stream_sequences_cut_by_unary_defect", 1)
				return true
			}
			var got []byte
			for _, s := range fr.Get(k).Series {
				got = append(got, s.Data...)
				if !bytes.Equal(s.Data, concat(l.in(k, int64(s.TimeRange.Start), int64(s.TimeRange.End)))) {
					violate("c10:stream:series-range-inconsistent:"+cm.Op, fmt.Sprintf("%s: channel %s series %s does not hold exactly the stored samples of that range", cm, chName(k), viewStr(s.TimeRange)))
					return false
				}
			}
			if !bytes.Equal(got, concat(want)) {
				violate("c10:stream:value-differs-from-view:"+cm.Op, fmt.Sprintf("%s: channel %s: the unary view %s holds %d stored bytes, cesium.Iterator returned %d bytes", cm, chName(k), viewStr(sres.View), len(concat(want)), len(got)))
				return false
			}
			if len(want) > 0 {
				nonTrivial = true
			}
			h.Count("stream_channel_steps_checked", 1)
		}
		if ok != anyOK {
			violate("c10:stream:ok-flag-differs:"+cm.Op, fmt.Sprintf("%s: cesium.Iterator returned %v, per-channel unary iterators: any ok = %v", cm, ok, anyOK))
			return false
		}
		switch cm.Op {
		case "bounds":
			seeked = false
			a, b = cm.A, cm.B
		case "first", "last", "le", "ge":
			// step only when every channel found a domain (documented use of each unary iterator)
			seeked = allOK
		}
	}
	h.Count("stream_sequences", 1)
	if nonTrivial {
		h.Distinct("stream|" + strings.Join(l.log, ";") + "|" + fmt.Sprint(keys) + "|" + strings.Join(trace, ";"))
	}
	return true
}

// runStreamWatchdog runs one command on the public iterator; the 20 s watchdog only
// exists so that a call that never returns does not hang the whole check.
var hangProbe atomic.Bool

func runStreamWatchdog(it *cesium.Iterator, c cmd, d time.Duration) (ok bool, fr cesium.Frame, hung bool) {
	type out struct {
		ok bool
		fr cesium.Frame
	}
	ch := make(chan out, 1)
	go func() {
		o, f := runStream(it, c)
		ch <- out{o, f}
	}()
	select {
	case o := <-ch:
		return o.ok, o.fr, false
	case <-time.After(d):
		return false, cesium.Frame{}, true
	}
}
