package main

import (
	"bytes"
	"context"
	"encoding/binary"
	"fmt"
	"math"
	"sort"
	"strings"
	"time"

	"github.com/synnaxlabs/cesium"
	"github.com/synnaxlabs/cesium/verifx"
	xfs "github.com/synnaxlabs/x/io/fs"
	"github.com/synnaxlabs/x/telem"

	"verif/lib/prng"
)

var ctx = context.Background()

const (
	keyIdx cesium.ChannelKey = 1
	keyI64 cesium.ChannelKey = 2
	keyF32 cesium.ChannelKey = 3
	keyStr cesium.ChannelKey = 4
	keyU8  cesium.ChannelKey = 5
)

var allKeys = []cesium.ChannelKey{keyIdx, keyI64, keyF32, keyStr, keyU8}
var dataKeys = []cesium.ChannelKey{keyI64, keyF32, keyStr, keyU8}

func chName(k cesium.ChannelKey) string {
	return map[cesium.ChannelKey]string{keyIdx: "idx", keyI64: "i64", keyF32: "f32", keyStr: "str", keyU8: "u8"}[k]
}

// sample is one stored sample of the reference model: timestamp and the exact bytes
// the channel's series encoding uses for the value.
type sample struct {
	TS  int64
	Val []byte
}

// layout is a cesium.DB built through the public API together with the reference
// model channel -> ordered (timestamp -> value bytes).
type layout struct {
	fs      xfs.FS
	db      *cesium.DB
	fileCap telem.Size
	model   map[cesium.ChannelKey][]sample
	log     []string
	seq     int64
	lo, hi  int64 // extent of all timestamps ever written
	feat    map[string]int
	delErr  string
	edgeTS  []int64
}

func (l *layout) logf(f string, a ...any) { l.log = append(l.log, fmt.Sprintf(f, a...)) }

func openDB(fs xfs.FS, fileCap telem.Size) (*cesium.DB, error) {
	return cesium.Open(ctx, "",
		cesium.WithFS(fs),
		cesium.WithFileSizeCap(fileCap),
		cesium.WithGCConfig(cesium.GCConfig{TryInterval: time.Hour, Threshold: 1e-9}),
	)
}

func (l *layout) encode(k cesium.ChannelKey, ts int64) []byte {
	l.seq++
	switch k {
	case keyIdx:
		b := make([]byte, 8)
		binary.LittleEndian.PutUint64(b, uint64(ts))
		return b
	case keyI64:
		b := make([]byte, 8)
		binary.LittleEndian.PutUint64(b, uint64(l.seq*1000+ts))
		return b
	case keyF32:
		b := make([]byte, 4)
		binary.LittleEndian.PutUint32(b, math.Float32bits(float32(l.seq)+0.5))
		return b
	case keyU8:
		return []byte{byte(l.seq%251) + 1}
	case keyStr:
		n := int(l.seq*7%6) + 0 // lengths 0..5, including the empty string
		s := []byte(fmt.Sprintf("%d.%d", ts, l.seq))
		if n < len(s) {
			s = s[len(s)-n:]
		}
		return telem.MarshalVariableSample(s)
	}
	panic("unknown channel")
}

func dataType(k cesium.ChannelKey) telem.DataType {
	switch k {
	case keyIdx:
		return telem.TimeStampT
	case keyI64:
		return telem.Int64T
	case keyF32:
		return telem.Float32T
	case keyU8:
		return telem.Uint8T
	}
	return telem.StringT
}

func (l *layout) insert(k cesium.ChannelKey, ss []sample) {
	m := append(l.model[k], ss...)
	sort.SliceStable(m, func(i, j int) bool { return m[i].TS < m[j].TS })
	l.model[k] = m
}

func (l *layout) deleteRange(k cesium.ChannelKey, a, b int64) {
	var out []sample
	for _, s := range l.model[k] {
		if s.TS >= a && s.TS < b {
			continue
		}
		out = append(out, s)
	}
	l.model[k] = out
}

// in returns the model's samples of channel k with a <= ts < b.
func (l *layout) in(k cesium.ChannelKey, a, b int64) []sample {
	m := l.model[k]
	i := sort.Search(len(m), func(i int) bool { return m[i].TS >= a })
	j := sort.Search(len(m), func(i int) bool { return m[i].TS >= b })
	if j < i {
		return nil
	}
	return m[i:j]
}

func concat(ss []sample) []byte {
	var b []byte
	for _, s := range ss {
		b = append(b, s.Val...)
	}
	return b
}

type plannedSession struct {
	lo, hi int64 // window [lo,hi] reserved for this session's timestamps
}

// build creates the stored layout. It returns "" on success or a reason why this
// layout cannot serve as a trustworthy stored content (counted, never a C10 verdict).
func buildLayout(r *prng.R) (*layout, string) {
	caps := []telem.Size{1, 40, 64, 200, telem.Gigabyte}
	l := &layout{fs: xfs.NewMem(), fileCap: prng.Pick(r, caps), model: map[cesium.ChannelKey][]sample{}, feat: map[string]int{}, lo: math.MaxInt64}
	var err error
	if l.db, err = openDB(l.fs, l.fileCap); err != nil {
		return nil, "open-failed"
	}
	l.logf("filecap=%d", l.fileCap)
	chs := []cesium.Channel{{Key: keyIdx, Name: "idx", IsIndex: true, DataType: telem.TimeStampT}}
	for _, k := range dataKeys {
		chs = append(chs, cesium.Channel{Key: k, Name: chName(k), Index: keyIdx, DataType: dataType(k)})
	}
	if err = l.db.CreateChannel(ctx, chs...); err != nil {
		_ = l.db.Close()
		return nil, "create-failed"
	}
	// plan disjoint windows, then run them in shuffled order (after / before / between)
	nSess := r.Range(1, 6)
	var plan []plannedSession
	cur := int64(r.Range(10, 30))
	for i := 0; i < nSess; i++ {
		w := int64(r.Range(3, 60))
		plan = append(plan, plannedSession{cur, cur + w})
		gap := int64(r.Range(1, 25))
		if r.Chance(1, 4) {
			gap = 1 // next session starts right after: adjacent domains
		}
		cur += w + gap
	}
	prng.Shuffle(r, plan)
	nDel := 0
	if r.Chance(1, 2) {
		nDel = r.Range(1, 3)
	}
	for i, p := range plan {
		if reason := l.session(r, p); reason != "" {
			_ = l.db.Close()
			return l, reason
		}
		if nDel > 0 && r.Chance(1, 2) && i > 0 {
			nDel--
			if reason := l.delete(r); reason != "" {
				_ = l.db.Close()
				return l, reason
			}
		}
	}
	for ; nDel > 0; nDel-- {
		if reason := l.delete(r); reason != "" {
			_ = l.db.Close()
			return l, reason
		}
	}
	if r.Chance(1, 3) {
		if err := l.db.VerifGarbageCollect(ctx); err != nil {
			_ = l.db.Close()
			return l, "gc-failed"
		}
		l.logf("gc")
		l.feat["gc"]++
	}
	if r.Chance(1, 3) {
		if err := l.db.Close(); err != nil {
			return l, "close-failed"
		}
		if l.db, err = openDB(l.fs, l.fileCap); err != nil {
			return l, "reopen-failed"
		}
		l.logf("reopen")
		l.feat["reopen"]++
	}
	if reason := l.verifyRaw(); reason != "" {
		_ = l.db.Close()
		return l, reason
	}
	return l, ""
}

func makeSeries(k cesium.ChannelKey, ss []sample) telem.Series {
	return telem.Series{DataType: dataType(k), Data: concat(ss)}
}

// session runs one writer session inside window p.
func (l *layout) session(r *prng.R, p plannedSession) string {
	// sample timestamps: irregular spacing 1..7, sometimes a larger jump
	var tss []int64
	t := p.lo
	startOffset := int64(0)
	if r.Chance(1, 4) && p.hi-p.lo > 4 {
		startOffset = int64(r.Range(1, 3)) // writer start before the first sample
		t += startOffset
	}
	for t <= p.hi && len(tss) < 24 {
		tss = append(tss, t)
		step := int64(r.Range(1, 7))
		if r.Chance(1, 8) {
			step = int64(r.Range(8, 20))
		}
		t += step
	}
	if len(tss) == 0 {
		tss = []int64{p.lo}
		startOffset = 0
	}
	dataLater := startOffset == 0 && r.Chance(1, 6)
	tr, fl := true, false
	cfg := cesium.WriterConfig{Start: telem.TimeStamp(p.lo), Sync: &tr}
	autoCommit := r.Chance(1, 3)
	if autoCommit {
		cfg.EnableAutoCommit = &tr
		cfg.AutoIndexPersistInterval = cesium.AlwaysIndexPersistOnAutoCommit
	} else {
		cfg.EnableAutoCommit = &fl
	}
	if startOffset > 0 {
		l.feat["start_not_sample"]++
	}
	passes := [][]cesium.ChannelKey{allKeys}
	if dataLater {
		// index first, the data channels later against the already stored index
		passes = [][]cesium.ChannelKey{{keyIdx}, dataKeys}
		l.feat["data_later"]++
	}
	// chunking of the session into Write calls
	var chunks [][]int64
	for i := 0; i < len(tss); {
		n := r.Range(1, 6)
		if i+n > len(tss) {
			n = len(tss) - i
		}
		chunks = append(chunks, tss[i:i+n])
		i += n
	}
	for pi, keys := range passes {
		cfg.Channels = keys
		w, err := l.db.OpenWriter(ctx, cfg)
		if err != nil {
			l.logf("open(start=%d,%v) -> %v", p.lo, keys, err)
			return "writer-open-failed"
		}
		staged := map[cesium.ChannelKey][]sample{}
		for _, ch := range chunks {
			series := make([]telem.Series, len(keys))
			for ki, k := range keys {
				ss := make([]sample, len(ch))
				for i, ts := range ch {
					ss[i] = sample{ts, l.encode(k, ts)}
				}
				series[ki] = makeSeries(k, ss)
				staged[k] = append(staged[k], ss...)
			}
			if _, err := w.Write(telem.MultiFrame(keys, series)); err != nil {
				l.logf("write -> %v", err)
				_ = w.Close()
				return "write-failed"
			}
			if autoCommit || r.Chance(1, 2) {
				if !autoCommit {
					if _, err := w.Commit(); err != nil {
						l.logf("commit -> %v", err)
						_ = w.Close()
						return "commit-failed"
					}
				}
				for k, ss := range staged {
					l.insert(k, ss)
				}
				staged = map[cesium.ChannelKey][]sample{}
			}
		}
		if !autoCommit {
			if _, err := w.Commit(); err != nil {
				l.logf("commit -> %v", err)
				_ = w.Close()
				return "commit-failed"
			}
			for k, ss := range staged {
				l.insert(k, ss)
			}
		}
		if err := w.Close(); err != nil {
			l.logf("close -> %v", err)
			return "writer-close-failed"
		}
		l.logf("session(start=%d,keys=%v,pass=%d,auto=%v,ts=%v,chunks=%d)", p.lo, keys, pi, autoCommit, tss, len(chunks))
	}
	if p.lo < l.lo {
		l.lo = p.lo
	}
	if tss[len(tss)-1]+1 > l.hi {
		l.hi = tss[len(tss)-1] + 1
	}
	return ""
}

func (l *layout) pickTS(r *prng.R) int64 {
	m := l.model[keyIdx]
	if len(m) > 0 && r.Chance(7, 10) {
		return m[r.Intn(len(m))].TS + int64(r.Intn(3)) - 1
	}
	return l.lo - 3 + r.I64n(l.hi-l.lo+6)
}

func (l *layout) delete(r *prng.R) string {
	if l.hi <= l.lo {
		return ""
	}
	a, b := l.pickTS(r), l.pickTS(r)
	if a > b {
		a, b = b, a
	}
	if a == b {
		b = a + int64(r.Range(1, 10))
	}
	var keys []cesium.ChannelKey
	if r.Chance(1, 3) {
		keys = append(keys, allKeys...) // data and index together
	} else {
		for _, k := range dataKeys {
			if r.Chance(1, 2) {
				keys = append(keys, k)
			}
		}
		if len(keys) == 0 {
			keys = []cesium.ChannelKey{prng.Pick(r, dataKeys)}
		}
	}
	err := l.db.DeleteTimeRange(ctx, keys, telem.TimeRange{Start: telem.TimeStamp(a), End: telem.TimeStamp(b)})
	l.logf("delete(%v,[%d,%d)) -> %v", keys, a, b, err)
	if err != nil {
		l.delErr = err.Error()
		return "delete-failed"
	}
	for _, k := range keys {
		l.deleteRange(k, a, b)
	}
	l.feat["deletes"]++
	// Exactness of deletes is C04's property. A layout whose raw stored bytes no longer
	// equal the model is not used for C10 verdicts.
	return l.verifyRaw()
}

// rawDomains enumerates a channel's domains through its domain.DB (time range + bytes),
// independently of the unary iterator under test.
type rawDomain struct {
	S, E int64
	Data []byte
}

func rawDomains(db *cesium.DB, k cesium.ChannelKey) ([]rawDomain, error) {
	u, ok := db.VerifUnary(k)
	if !ok {
		return nil, fmt.Errorf("no unary db for %d", k)
	}
	return enumerate(u.VerifDomain())
}

var errEnumerationDiffers = fmt.Errorf("forward and backward domain enumeration differ")

type enumDiff struct{ fwd, back string }

func (e enumDiff) Error() string {
	return errEnumerationDiffers.Error() + ": forward " + e.fwd + " backward " + e.back
}

func enumerate(d *verifx.DomainDB) ([]rawDomain, error) {
	it := d.OpenIterator(verifx.DomainIterRange(telem.TimeRangeMax))
	defer func() { _ = it.Close() }()
	var out []rawDomain
	for ok := it.SeekFirst(ctx); ok; ok = it.Next() {
		tr := it.TimeRange()
		rd, err := it.OpenReader(ctx)
		if err != nil {
			return nil, err
		}
		buf := make([]byte, it.Size())
		n, err := rd.ReadAt(buf, 0)
		_ = rd.Close()
		if n != len(buf) {
			return nil, fmt.Errorf("short read of domain %v: %v", tr, err)
		}
		out = append(out, rawDomain{int64(tr.Start), int64(tr.End), buf})
	}
	// The same enumeration backwards (SeekLast/Prev) must list the same domains: the
	// domain iterator's index searches (searchGE / searchLE) are part of C10's anchors.
	var back []telem.TimeRange
	for ok := it.SeekLast(ctx); ok; ok = it.Prev() {
		back = append(back, it.TimeRange())
	}
	fs, bs := "", ""
	for _, o := range out {
		fs += fmt.Sprintf("[%d,%d)", o.S, o.E)
	}
	for i := len(back) - 1; i >= 0; i-- {
		bs += fmt.Sprintf("[%d,%d)", int64(back[i].Start), int64(back[i].End))
	}
	// A stored pointer list that is itself out of order or overlapping (a C03/C04
	// matter: e.g. a DeleteTimeRange that snapped a cut point to timestamp 0) makes the
	// index searches meaningless; that is not the iterator's fault.
	sorted := func(trs []telem.TimeRange) bool {
		for i := 1; i < len(trs); i++ {
			if trs[i].Start < trs[i-1].End {
				return false
			}
		}
		return true
	}
	fwd := make([]telem.TimeRange, len(out))
	for i, o := range out {
		fwd[i] = telem.TimeRange{Start: telem.TimeStamp(o.S), End: telem.TimeStamp(o.E)}
	}
	rev := make([]telem.TimeRange, len(back))
	for i := range back {
		rev[i] = back[len(back)-1-i]
	}
	if !sorted(fwd) || !sorted(rev) {
		return out, fmt.Errorf("stored domains out of order: forward %s backward %s", fs, bs)
	}
	if fs != bs {
		return out, enumDiff{fs, bs}
	}
	return out, nil
}

// verifyRaw: the concatenation of every channel's raw domain bytes must equal the
// model's values in timestamp order, and every model timestamp must lie in a domain.
func (l *layout) verifyRaw() string {
	for _, k := range allKeys {
		ds, err := rawDomains(l.db, k)
		if _, isDiff := err.(enumDiff); isDiff {
			l.logf("raw(%s) -> %v", chName(k), err)
			return "domain-enumeration-inconsistent"
		}
		if err != nil && strings.HasPrefix(err.Error(), "stored domains out of order") {
			l.logf("raw(%s) -> %v", chName(k), err)
			return "stored-domains-out-of-order"
		}
		if err != nil {
			l.logf("raw(%s) -> %v", chName(k), err)
			return "raw-enumeration-failed"
		}
		var raw []byte
		for _, d := range ds {
			raw = append(raw, d.Data...)
		}
		if !bytes.Equal(raw, concat(l.model[k])) {
			l.logf("raw(%s) != model", chName(k))
			return "stored-bytes-differ-from-model"
		}
		for _, s := range l.model[k] {
			ok := false
			for _, d := range ds {
				if d.S <= s.TS && s.TS < d.E {
					ok = true
					break
				}
			}
			if !ok {
				l.logf("raw(%s): model ts %d outside every domain", chName(k), s.TS)
				return "model-sample-outside-domains"
			}
		}
	}
	return l.verifyAlignment()
}

// sampleCount returns the number of values in a raw domain of channel k.
func sampleCount(k cesium.ChannelKey, data []byte) int {
	if dt := dataType(k); !dt.IsVariable() {
		return len(data) / int(dt.Density())
	}
	n := 0
	for len(data) >= 4 {
		ln := int(binary.LittleEndian.Uint32(data))
		if 4+ln > len(data) {
			return -1
		}
		data = data[4+ln:]
		n++
	}
	return n
}

// verifyAlignment checks the storage contract every reader relies on: the k-th value of
// a data-channel domain [S,E) belongs to the k-th index sample >= S. A data domain cut
// by DeleteTimeRange whose start was snapped onto an index sample it no longer holds
// breaks this (a C04 matter); such layouts are not used for C10 verdicts.
func (l *layout) verifyAlignment() string {
	idxDoms, err := rawDomains(l.db, keyIdx)
	if err != nil {
		return "raw-enumeration-failed"
	}
	// covered reports whether [s,e) lies inside one run of contiguous index domains.
	covered := func(s, e int64) bool {
		pos := s
		for _, d := range idxDoms {
			if d.S <= pos && pos < d.E {
				pos = d.E
				if pos >= e {
					return true
				}
			}
		}
		return false
	}
	for _, k := range dataKeys {
		ds, err := rawDomains(l.db, k)
		if err != nil {
			return "raw-enumeration-failed"
		}
		for _, d := range ds {
			n := sampleCount(k, d.Data)
			idx := l.in(keyIdx, d.S, d.E)
			own := l.in(k, d.S, d.E)
			ok := n == len(own) && n <= len(idx)
			for i := 0; ok && i < n; i++ {
				if idx[i].TS != own[i].TS {
					ok = false
				}
			}
			if !ok {
				l.logf("align(%s): domain [%d,%d) holds %d values; index samples there %v; model %v", chName(k), d.S, d.E, n, modelTS(idx), modelTS(own))
				return "data-domain-misaligned-with-index"
			}
			// A data domain whose time range is not covered by contiguous index domains
			// (left behind by a delete that snapped the index and the data channel to
			// different cut points) cannot be resolved against the index at all.
			if !covered(d.S, d.E) {
				l.logf("cover(%s): domain [%d,%d) is not covered by contiguous index domains", chName(k), d.S, d.E)
				return "data-domain-not-covered-by-index"
			}
		}
	}
	return ""
}

// edges returns every domain start and end of every channel (computed once).
func (l *layout) edges() []int64 {
	if l.edgeTS != nil {
		return l.edgeTS
	}
	seen := map[int64]bool{}
	for _, k := range allKeys {
		ds, err := rawDomains(l.db, k)
		if err != nil {
			continue
		}
		for _, d := range ds {
			if !seen[d.S] {
				seen[d.S] = true
				l.edgeTS = append(l.edgeTS, d.S)
			}
			if !seen[d.E] {
				seen[d.E] = true
				l.edgeTS = append(l.edgeTS, d.E)
			}
		}
	}
	sort.Slice(l.edgeTS, func(i, j int) bool { return l.edgeTS[i] < l.edgeTS[j] })
	if l.edgeTS == nil {
		l.edgeTS = []int64{}
	}
	return l.edgeTS
}
