package main

import (
	"bytes"
	"encoding/json"
	"fmt"
	"os"
	"os/exec"
	"path/filepath"
	"strings"
	"time"

	"github.com/synnaxlabs/cesium/verifx"
	"github.com/synnaxlabs/x/telem"

	"verif/lib/harness"
	"verif/lib/prng"
)

// Layer crash: command sequences that can kill the process (unbounded recursion ->
// "fatal error: stack overflow", which recover() cannot catch) run in a child process.
// The scenario is a pure function of (seed, case): the child rebuilds the same layout.
type crashScenario struct {
	Seed int64  `json:"seed"`
	Case int    `json:"case"`
	Dir  string `json:"dir"` // next | prev
}

const childEnv = "VERIF_C10_CHILD"

// crashPlan derives, for a layout, bounds and a seek timestamp one nanosecond outside
// the bounds but inside a stored domain, followed by an auto-span step away from the
// bounds' interior. ok=false when the layout has no domain long enough.
func crashPlan(l *layout, r *prng.R, dir string) (bounds telem.TimeRange, seek cmd, step cmd, ok bool) {
	ds, err := rawDomains(l.db, keyIdx)
	if err != nil {
		return
	}
	var cands []rawDomain
	for _, d := range ds {
		if d.E-d.S >= 4 {
			cands = append(cands, d)
		}
	}
	if len(cands) == 0 {
		return
	}
	d := prng.Pick(r, cands)
	cut := d.S + 1 + r.I64n(d.E-d.S-2) // S < cut < E-1
	if dir == "next" {
		// bounds end at cut; SeekLE(cut+1) lands inside the domain one past the bounds
		bounds = telem.TimeRange{Start: telem.TimeStamp(l.lo - 5), End: telem.TimeStamp(cut)}
		return bounds, cmd{Op: "le", TS: cut + 1}, cmd{Op: "next", Span: -1}, true
	}
	bounds = telem.TimeRange{Start: telem.TimeStamp(cut), End: telem.TimeStamp(l.hi + 5)}
	return bounds, cmd{Op: "ge", TS: cut - 1}, cmd{Op: "prev", Span: -1}, true
}

func crashChild(sc crashScenario) int {
	r := prng.New(sc.Seed, "C10/crash", sc.Case) // == h.Rand("crash", case) of the parent
	l, reason := buildLayout(r)
	if reason != "" {
		fmt.Println("CHILD-SKIP layout " + reason)
		return 0
	}
	bounds, seek, step, ok := crashPlan(l, r, sc.Dir)
	if !ok {
		fmt.Println("CHILD-SKIP no domain long enough")
		return 0
	}
	u, _ := l.db.VerifUnary(keyIdx)
	it, err := u.OpenIterator(verifx.UnaryIteratorConfig{Bounds: bounds, AutoChunkSize: 3})
	if err != nil {
		fmt.Println("CHILD-SKIP open iterator")
		return 0
	}
	r0 := runUnary(it, seek)
	fmt.Printf("CHILD-SEEK %s bounds=%s -> ok=%v view=%s\n", seek, viewStr(bounds), r0.OK, viewStr(r0.View))
	r1 := runUnary(it, step) // may never return: fatal stack overflow
	fmt.Printf("CHILD-OK %s -> ok=%v view=%s panic=%q\n", step, r1.OK, viewStr(r1.View), r1.Panic)
	return 0
}

func layerCrash(h *harness.H) {
	h.AddRule("crash: per case a layout + bounds + SeekLE/SeekGE to a timestamp one ns outside the bounds but inside a stored domain + one auto-span step, executed in a child process; a child that dies is the observation")
	bin := os.Args[0]
	n := h.N(4, 40)
	for c := 0; c < n; c++ {
		if h.Skip("crash", c) {
			continue
		}
		h.Eval()
		dir := "next"
		if c%2 == 1 {
			dir = "prev"
		}
		sc := crashScenario{Seed: h.Seed(), Case: c, Dir: dir}
		b, _ := json.Marshal(sc)
		rdir := filepath.Join(harness.Root(), "replays", "C10")
		if d := os.Getenv("VERIF_REPLAY_DIR"); d != "" {
			rdir = filepath.Join(d, "C10")
		}
		_ = os.MkdirAll(rdir, 0o755)
		inPath := filepath.Join(rdir, fmt.Sprintf("crash-input-s%d-c%d.json", h.Seed(), c))
		_ = os.WriteFile(inPath, b, 0o644) // written BEFORE the child runs
		cmdx := exec.Command(bin)
		cmdx.Env = append(os.Environ(), childEnv+"="+string(b), "VERIF_REPLAY=", "GORACE=halt_on_error=0 exitcode=0")
		var out bytes.Buffer
		cmdx.Stdout, cmdx.Stderr = &out, &out
		done := make(chan error, 1)
		if err := cmdx.Start(); err != nil {
			h.Inconclusive("child-start-failed")
			continue
		}
		go func() { done <- cmdx.Wait() }()
		var werr error
		select {
		case werr = <-done:
		case <-time.After(120 * time.Second):
			_ = cmdx.Process.Kill()
			<-done
			h.Inconclusive("crash-child-watchdog")
			continue
		}
		txt := out.String()
		h.Count("crash_children_run", 1)
		switch {
		case strings.Contains(txt, "CHILD-SKIP"):
			h.Count("crash_children_skipped", 1)
			_ = os.Remove(inPath)
		case strings.Contains(txt, "stack overflow"):
			seekLine := ""
			for _, ln := range strings.Split(txt, "\n") {
				if strings.HasPrefix(ln, "CHILD-SEEK") {
					seekLine = ln
				}
			}
			h.Violation("crash", c, "c10:auto-span:crash-stack-overflow:"+dir+":from-view-one-past-bounds",
				"the process died with 'fatal error: stack overflow' (unbounded Next(AutoSpan)<->autoNext / Prev<->autoPrev recursion): "+seekLine,
				map[string]any{"scenario": sc, "child_output_head": head(txt, 1500)})
			h.Distinct(fmt.Sprintf("crash|%d|%s|died", c, dir))
		case werr != nil:
			h.Violation("crash", c, "c10:auto-span:crash-child-died:"+dir, "child process died: "+werr.Error(), map[string]any{"scenario": sc, "child_output_head": head(txt, 1500)})
		default:
			h.Count("crash_children_survived", 1)
			h.Distinct(fmt.Sprintf("crash|%d|%s|ok", c, dir))
			_ = os.Remove(inPath)
		}
	}
}

func head(s string, n int) string {
	if len(s) > n {
		return s[:n]
	}
	return s
}
