package main

import (
	"bytes"
	"fmt"
	"runtime"
	"strings"

	"github.com/synnaxlabs/cesium"
	"github.com/synnaxlabs/cesium/verifx"
	"github.com/synnaxlabs/x/telem"

	"verif/lib/harness"
	"verif/lib/prng"
)

// cmd is one iterator command.
type cmd struct {
	Op   string // first last le ge next prev bounds
	TS   int64  // le / ge
	Span int64  // next / prev; -1 = auto
	A, B int64  // bounds
}

func (c cmd) String() string {
	switch c.Op {
	case "le", "ge":
		return fmt.Sprintf("%s(%d)", c.Op, c.TS)
	case "next", "prev":
		if c.Span == -1 {
			return c.Op + "(auto)"
		}
		if c.Span == int64(telem.TimeSpanMax) {
			return c.Op + "(max)"
		}
		return fmt.Sprintf("%s(%d)", c.Op, c.Span)
	case "bounds":
		return fmt.Sprintf("bounds[%s,%s)", tsStr(c.A), tsStr(c.B))
	}
	return c.Op
}

func tsStr(t int64) string {
	switch t {
	case int64(telem.TimeStampMax):
		return "max"
	case int64(telem.TimeStampMin):
		return "min"
	}
	return fmt.Sprint(t)
}

func isStep(c cmd) bool { return c.Op == "next" || c.Op == "prev" }

// stepResult is what one command produced, as reported by the iterator itself.
type stepResult struct {
	OK, Valid bool
	Err       error
	View      telem.TimeRange
	Series    []telem.Series
	Panic     string
	PanicAt   string
}

// panicSite returns the innermost /repo frame of the current panic stack as
// "file.go:func" (no line numbers or addresses, so that it can be part of a signature).
func panicSite() string {
	pcs := make([]uintptr, 64)
	n := runtime.Callers(3, pcs)
	frames := runtime.CallersFrames(pcs[:n])
	for {
		f, more := frames.Next()
		if strings.Contains(f.File, "/cesium/") || strings.Contains(f.File, "/x/go/") {
			fn := f.Function
			if i := strings.LastIndex(fn, "/"); i >= 0 {
				fn = fn[i+1:]
			}
			return fn
		}
		if !more {
			return "unknown"
		}
	}
}

func (s stepResult) data() []byte {
	var b []byte
	for _, x := range s.Series {
		b = append(b, x.Data...)
	}
	return b
}

// run executes one command on a real unary iterator and snapshots its observable state.
// A panic inside the iterator is captured (Panic != "") instead of killing the monitor.
func runUnary(it *verifx.UnaryIterator, c cmd) (res stepResult) {
	defer func() {
		if p := recover(); p != nil {
			res = stepResult{Panic: fmt.Sprint(p), PanicAt: panicSite()}
		}
	}()
	var ok bool
	switch c.Op {
	case "first":
		ok = it.SeekFirst(ctx)
	case "last":
		ok = it.SeekLast(ctx)
	case "le":
		ok = it.SeekLE(ctx, telem.TimeStamp(c.TS))
	case "ge":
		ok = it.SeekGE(ctx, telem.TimeStamp(c.TS))
	case "next":
		ok = it.Next(ctx, telem.TimeSpan(c.Span))
	case "prev":
		ok = it.Prev(ctx, telem.TimeSpan(c.Span))
	case "bounds":
		it.SetBounds(telem.TimeRange{Start: telem.TimeStamp(c.A), End: telem.TimeStamp(c.B)})
		ok = true
	}
	res = stepResult{OK: ok, Valid: it.Valid(), Err: it.Error(), View: it.View()}
	fr := it.Value()
	for _, s := range fr.Get(it.Channel.Key).Series {
		res.Series = append(res.Series, s)
	}
	return res
}

// walker checks one command sequence on one channel against the model.
type walker struct {
	h      *harness.H
	layer  string
	c      int
	l      *layout
	key    cesium.ChannelKey
	bounds [2]int64
	chunk  int64
	trace  []string
	dead   bool

	errored    bool   // the iterator accumulated an error: only a seek clears it
	lastStep   string // "next" / "prev" / "" (a seek or SetBounds intervened)
	lastView   telem.TimeRange
	nonTrivial int
	stepsDone  int
}

func (w *walker) violate(sig, what string) {
	w.dead = true
	w.h.Violation(w.layer, w.c, sig, what, map[string]any{
		"channel": chName(w.key), "bounds": []string{tsStr(w.bounds[0]), tsStr(w.bounds[1])}, "auto_chunk": w.chunk,
		"commands": w.trace, "layout": w.l.log, "model_ts": modelTS(w.l.model[w.key]), "domains": domainsStr(w.l, w.key),
		"index_ts": modelTS(w.l.model[keyIdx]), "index_domains": domainsStr(w.l, keyIdx),
	})
}

func modelTS(ss []sample) []int64 {
	out := make([]int64, len(ss))
	for i, s := range ss {
		out[i] = s.TS
	}
	return out
}

func domainsStr(l *layout, k cesium.ChannelKey) string {
	ds, err := rawDomains(l.db, k)
	if err != nil {
		return err.Error()
	}
	var sb strings.Builder
	for _, d := range ds {
		fmt.Fprintf(&sb, "[%d,%d)#%d ", d.S, d.E, len(d.Data))
	}
	return sb.String()
}

func viewStr(v telem.TimeRange) string {
	return fmt.Sprintf("[%s,%s)", tsStr(int64(v.Start)), tsStr(int64(v.End)))
}

// check is the oracle for one command: it compares what the iterator reports after the
// command (View, Value, Valid, Error) with the reference model.
func (w *walker) check(c cmd, r stepResult) {
	if r.Panic != "" {
		w.trace = append(w.trace, fmt.Sprintf("%s -> PANIC %s", c, r.Panic))
		w.violate(sig(c, "panic", r.PanicAt), fmt.Sprintf("%s panicked inside the iterator: %s (at %s)", c, r.Panic, r.PanicAt))
		return
	}
	w.trace = append(w.trace, fmt.Sprintf("%s -> ok=%v view=%s n=%d err=%v", c, r.OK, viewStr(r.View), len(r.data()), r.Err != nil))
	if len(w.trace) > 80 {
		w.trace = append(w.trace[:1], w.trace[len(w.trace)-60:]...)
	}
	if !isStep(c) {
		if c.Op != "bounds" {
			w.errored = false
		}
		w.lastStep = ""
		w.lastView = r.View
		if c.Op == "bounds" {
			w.bounds = [2]int64{c.A, c.B}
		} else if r.OK && (int64(r.View.Start) < w.bounds[0] || int64(r.View.End) > w.bounds[1]) {
			// not a step, so not a verdict under the statement: counted (it is the
			// precondition of auto-span:view-outside-bounds and of the recursion crash)
			w.h.Count("seek_views_outside_bounds", 1)
		}
		return
	}
	w.stepsDone++
	w.h.Count("steps_checked", 1)
	dir := c.Op
	auto := ""
	if c.Span == -1 {
		auto = ":auto"
	}
	v := r.View
	if v.End < v.Start {
		w.violate(sig(c, "inverted-view"), fmt.Sprintf("%s reported view %s", c, viewStr(v)))
		return
	}
	if int64(v.Start) < w.bounds[0] || int64(v.End) > w.bounds[1] {
		w.violate(sig(c, "view-outside-bounds"), fmt.Sprintf("%s reported view %s outside bounds [%s,%s)", c, viewStr(v), tsStr(w.bounds[0]), tsStr(w.bounds[1])))
		return
	}
	want := w.l.in(w.key, int64(v.Start), int64(v.End))
	got := r.data()
	if r.Err != nil {
		// An accumulated error is not by itself a refutation (the statement speaks about
		// what a step returns for the view it reports); it is counted, Valid() must be
		// false, and the traversal layers decide whether it costs samples.
		w.h.Count("step_errors", 1)
		w.h.Seen("step_error_kinds", dir+auto+":"+errKind(r.Err))
		w.errored = true
	}
	if !bytes.Equal(got, concat(want)) {
		kind := "wrong"
		switch {
		case len(got) == 0:
			kind = "missing-all"
		case len(want) == 0:
			kind = "extra"
		case len(got) < len(concat(want)) && bytes.Contains(concat(want), got):
			kind = "missing-some"
		case bytes.Contains(got, concat(want)):
			kind = "extra"
		}
		cls := w.classify(c, w.lastView, v)
		origin := ""
		if c.Span == -1 {
			origin = " (auto step starting " + w.originTag(c, w.lastView) + ")"
		}
		// Signature granularity = root-cause class: the symptom (kind) is part of the
		// signature only for history-independent wrong results, where it separates
		// "view excludes returned samples" from "returns fewer samples than the view".
		detail := ""
		if cls == "wrong-from-fresh-seek" {
			detail = kind
		}
		if r.Err != nil {
			// the step gave up with an error while its reported view holds stored samples
			// (or while Value() still shows samples outside the view)
			cls, detail = "step-error-loses-samples:"+errKind(r.Err), ""
		}
		w.violate(sig(c, cls, detail),
			fmt.Sprintf("%s on %s%s: %s: view %s holds stored samples at %v (%d bytes) but Value() has %d bytes in %d series %s; Error()=%v", c, chName(w.key), origin, kind, viewStr(v), modelTS(want), len(concat(want)), len(got), len(r.Series), seriesStr(r.Series), r.Err))
		return
	}
	// Valid() must be false exactly when the view holds no stored sample (no error here).
	if r.Valid != (len(want) > 0 && r.Err == nil) || r.OK != r.Valid {
		w.violate(sig(c, "valid-flag-wrong"), fmt.Sprintf("%s: ok=%v Valid()=%v but view %s holds %d stored samples", c, r.OK, r.Valid, viewStr(v), len(want)))
		return
	}
	// each series holds exactly the stored samples inside its own time range, and the
	// series are ascending and disjoint inside the view
	var prevEnd telem.TimeStamp
	for i, s := range r.Series {
		tr := s.TimeRange
		if tr.Start < v.Start || tr.End > v.End || tr.End < tr.Start || (i > 0 && tr.Start < prevEnd) {
			w.violate(sig(c, "series-range-inconsistent"), fmt.Sprintf("%s: series %d has time range %s in view %s (previous series ended at %d)", c, i, viewStr(tr), viewStr(v), prevEnd))
			return
		}
		prevEnd = tr.End
		if !bytes.Equal(s.Data, concat(w.l.in(w.key, int64(tr.Start), int64(tr.End)))) {
			w.violate(sig(c, "series-range-inconsistent"), fmt.Sprintf("%s: series %d claims %s but holds other samples than the stored ones in that range", c, i, viewStr(tr)))
			return
		}
	}
	// consecutive steps in one direction: adjacent, non-overlapping views
	if w.lastStep == dir {
		if dir == "next" && v.Start != w.lastView.End {
			w.violate(sig(c, "views-not-adjacent"), fmt.Sprintf("consecutive Next: previous view %s, this view %s", viewStr(w.lastView), viewStr(v)))
			return
		}
		if dir == "prev" && v.End != w.lastView.Start {
			w.violate(sig(c, "views-not-adjacent"), fmt.Sprintf("consecutive Prev: previous view %s, this view %s", viewStr(w.lastView), viewStr(v)))
			return
		}
		w.h.Count("adjacent_pairs_checked", 1)
	}
	if len(want) > 0 {
		w.nonTrivial++
		w.h.Count("steps_with_data", 1)
	}
	w.lastStep = dir
	w.lastView = v
}

func seriesStr(ss []telem.Series) string {
	var sb strings.Builder
	for _, s := range ss {
		fmt.Fprintf(&sb, "{%s %dB}", viewStr(s.TimeRange), len(s.Data))
	}
	return sb.String()
}

func errKind(err error) string {
	s := err.Error()
	for _, k := range []string{"discontinuous", "not found", "EOF", "closed"} {
		if strings.Contains(s, k) {
			return strings.ReplaceAll(k, " ", "-")
		}
	}
	return "other"
}

// ---- command generation ----

type gen struct {
	r *prng.R
	l *layout
	k cesium.ChannelKey
}

func (g gen) ts() int64 {
	m := g.l.model[g.k]
	r := g.r
	if len(m) > 0 && r.Chance(6, 10) {
		return m[r.Intn(len(m))].TS + int64(r.Intn(3)) - 1
	}
	return g.l.lo - 4 + r.I64n(g.l.hi-g.l.lo+8)
}

func (g gen) span() int64 {
	r := g.r
	m := g.l.model[g.k]
	switch r.Intn(10) {
	case 0:
		return 1
	case 1:
		return int64(r.Range(2, 4))
	case 2, 3:
		if len(m) > 1 {
			i := r.Intn(len(m) - 1)
			return m[i+1].TS - m[i].TS + int64(r.Intn(3)) - 1 + 1
		}
		return 3
	case 4:
		return g.l.hi - g.l.lo + int64(r.Intn(5))
	case 5:
		return int64(telem.TimeSpanMax)
	case 6:
		return int64(r.Range(20, 80))
	}
	return int64(r.Range(1, 15))
}

func (g gen) bounds() (int64, int64) {
	r := g.r
	switch r.Intn(6) {
	case 0:
		return int64(telem.TimeStampMin), int64(telem.TimeStampMax)
	case 1:
		return g.l.lo - 5, g.l.hi + 5
	}
	a, b := g.ts(), g.ts()
	if a > b {
		a, b = b, a
	}
	if a == b {
		b = a + int64(r.Range(1, 30))
	}
	return a, b
}

func (g gen) seek() cmd {
	switch g.r.Intn(4) {
	case 0:
		return cmd{Op: "first"}
	case 1:
		return cmd{Op: "last"}
	case 2:
		return cmd{Op: "le", TS: g.ts()}
	}
	return cmd{Op: "ge", TS: g.ts()}
}

func chunkSizes() []int64 { return []int64{1, 2, 3, 7, 20, 100000} }

// walkRandom drives one random mixed sequence on a fresh unary iterator.
func walkRandom(h *harness.H, layer string, c int, l *layout, k cesium.ChannelKey, r *prng.R, fixedOnly, pairMode bool) *walker {
	g := gen{r, l, k}
	a, b := g.bounds()
	chunk := prng.Pick(r, chunkSizes())
	w := &walker{h: h, layer: layer, c: c, l: l, key: k, bounds: [2]int64{a, b}, chunk: chunk}
	u, ok := l.db.VerifUnary(k)
	if !ok {
		h.Inconclusive("no-unary")
		return w
	}
	it, err := u.OpenIterator(verifx.UnaryIteratorConfig{Bounds: telem.TimeRange{Start: telem.TimeStamp(a), End: telem.TimeStamp(b)}, AutoChunkSize: chunk})
	if err != nil {
		h.Inconclusive("open-iterator-failed")
		return w
	}
	defer func() { _ = it.Close() }()
	n := r.Range(8, 30)
	seeked := false
	for i := 0; i < n && !w.dead; i++ {
		var cm cmd
		p := r.Intn(100)
		switch {
		case !seeked || p < 18 || (pairMode && w.lastStep != ""):
			// pairMode: every step is preceded by a seek, so the step starts from a freshly
			// positioned domain cursor (isolates view/offset arithmetic from cursor history)
			cm = g.seek()
			if pairMode && r.Chance(2, 3) {
				cm = prng.Pick(r, []cmd{{Op: "le", TS: g.ts()}, {Op: "ge", TS: g.ts()}})
			}
		case p < 22:
			na, nb := g.bounds()
			cm = cmd{Op: "bounds", A: na, B: nb}
		case p < 52:
			cm = cmd{Op: "next", Span: g.span()}
		case p < 78:
			cm = cmd{Op: "prev", Span: g.span()}
		case p < 89:
			cm = cmd{Op: "next", Span: -1}
		default:
			cm = cmd{Op: "prev", Span: -1}
		}
		if fixedOnly && cm.Span == -1 {
			cm.Span = g.span()
		}
		if isStep(cm) && cm.Span != -1 && r.Chance(1, 4) {
			// aim the far end of the new view exactly at a domain edge of this channel or
			// of the index channel
			if e := l.edges(); len(e) > 0 {
				t := prng.Pick(r, e)
				if cm.Op == "next" && t > int64(w.lastView.End) {
					cm.Span = t - int64(w.lastView.End)
				}
				if cm.Op == "prev" && t < int64(w.lastView.Start) {
					cm.Span = int64(w.lastView.Start) - t
				}
			}
		}
		if isStep(cm) && crashGuard(cm, w.lastView, w.bounds) {
			h.Count("auto_steps_skipped_by_crash_guard", 1)
			continue
		}
		res := runUnary(it, cm)
		if isStep(cm) && res.Err != nil {
			seeked = false // the iterator is dead until the next seek
		}
		switch cm.Op {
		case "bounds":
			seeked = false
		case "first", "last", "le", "ge":
			// steps are only issued after a seek that found a domain
			seeked = res.OK
			h.Count("seeks", 1)
		}
		w.check(cm, res)
	}
	return w
}

// traverse: SeekFirst; Next(span)* (or SeekLast; Prev(span)*) over explicit finite
// bounds must visit every stored sample in the bounds exactly once, in order.
func traverse(h *harness.H, layer string, c int, l *layout, k cesium.ChannelKey, forward bool, span, chunk int64, a, b int64) *walker {
	w := &walker{h: h, layer: layer, c: c, l: l, key: k, bounds: [2]int64{a, b}, chunk: chunk}
	u, ok := l.db.VerifUnary(k)
	if !ok {
		h.Inconclusive("no-unary")
		return w
	}
	it, err := u.OpenIterator(verifx.UnaryIteratorConfig{Bounds: telem.TimeRange{Start: telem.TimeStamp(a), End: telem.TimeStamp(b)}, AutoChunkSize: chunk})
	if err != nil {
		h.Inconclusive("open-iterator-failed")
		return w
	}
	defer func() { _ = it.Close() }()
	want := l.in(k, a, b)
	seek, step := cmd{Op: "first"}, cmd{Op: "next", Span: span}
	if !forward {
		seek, step = cmd{Op: "last"}, cmd{Op: "prev", Span: span}
	}
	res := runUnary(it, seek)
	w.check(seek, res)
	if !res.OK {
		if len(want) > 0 {
			w.violate(sig(step, "traversal-incomplete", "seek-found-nothing"), fmt.Sprintf("%s returned false although %d stored samples lie in bounds [%d,%d)", seek, len(want), a, b))
		}
		return w
	}
	var got []byte
	limit := int(b-a) + 3*len(want) + 20
	prevView := res.View
	for i := 0; i < limit && !w.dead; i++ {
		res = runUnary(it, step)
		w.check(step, res)
		if w.dead {
			return w
		}
		if forward {
			got = append(got, res.data()...)
		} else {
			got = append(append([]byte(nil), res.data()...), got...)
		}
		atEnd := (forward && int64(res.View.End) >= b) || (!forward && int64(res.View.Start) <= a)
		if atEnd {
			break
		}
		// An empty step is not the end: a data channel may hold no sample where its
		// index does. The walk ends at the end of the bounds, on an accumulated error
		// (the iterator is dead until the next seek) or when the view stops moving.
		if res.Err != nil || res.View == prevView {
			break
		}
		prevView = res.View
	}
	h.Count("traversals", 1)
	if !bytes.Equal(got, concat(want)) {
		kind := "wrong"
		if len(got) < len(concat(want)) {
			kind = "missed-samples"
		} else if len(got) > len(concat(want)) {
			kind = "repeated-samples"
		}
		w.violate(sig(step, "traversal-incomplete", kind), fmt.Sprintf("%s; %s* over bounds [%d,%d) on %s returned %d bytes, stored samples %v are %d bytes", seek, step, a, b, chName(k), len(got), modelTS(want), len(concat(want))))
	}
	return w
}

// classify decides, by running the REAL iterator again, whether a wrong step result
// depends on the iterator's history: a fresh iterator with the same bounds is placed
// with one seek at the point the step starts from and the same step is issued. If that
// fresh iterator reports the same view and returns exactly the stored samples in it,
// the walked iterator's domain cursor was stale ("stale-domain-cursor"); if the fresh
// one is wrong too the defect is in the view/offset arithmetic itself
// ("wrong-from-fresh-seek"). When the start point cannot be reached with a single seek
// the fallback only says whether a fresh one-step read of exactly the reported view
// returns the stored samples ("differs-from-fresh-range-read") or not.
func (w *walker) classify(c cmd, prev, walkedView telem.TimeRange) string {
	u, ok := w.l.db.VerifUnary(w.key)
	if !ok {
		return "value-differs-from-view"
	}
	p := int64(prev.End)
	if c.Op == "prev" {
		p = int64(prev.Start)
	}
	for _, sk := range []cmd{{Op: "ge", TS: p}, {Op: "le", TS: p}} {
		it, err := u.OpenIterator(verifx.UnaryIteratorConfig{Bounds: telem.TimeRange{Start: telem.TimeStamp(w.bounds[0]), End: telem.TimeStamp(w.bounds[1])}, AutoChunkSize: w.chunk})
		if err != nil {
			continue
		}
		r0 := runUnary(it, sk)
		if !r0.OK || int64(r0.View.Start) != p || int64(r0.View.End) != p {
			_ = it.Close()
			continue
		}
		if crashGuard(c, r0.View, w.bounds) {
			_ = it.Close()
			continue
		}
		r := runUnary(it, c)
		_ = it.Close()
		if r.View != walkedView {
			continue
		}
		if r.Err == nil && bytes.Equal(r.data(), concat(w.l.in(w.key, int64(r.View.Start), int64(r.View.End)))) {
			return "stale-domain-cursor"
		}
		return "wrong-from-fresh-seek"
	}
	// The start point cannot be reached with one seek (it lies in a gap, at a domain end
	// or outside the bounds). Fallback: a fresh iterator whose bounds are exactly the
	// reported view reads that range in one step (SeekFirst; Next(max)).
	if walkedView.End > walkedView.Start {
		it, err := u.OpenIterator(verifx.UnaryIteratorConfig{Bounds: walkedView, AutoChunkSize: w.chunk})
		if err == nil {
			defer func() { _ = it.Close() }()
			want := concat(w.l.in(w.key, int64(walkedView.Start), int64(walkedView.End)))
			r0 := runUnary(it, cmd{Op: "first"})
			if r0.Panic == "" && !r0.OK {
				if len(want) == 0 {
					return "differs-from-fresh-range-read"
				}
				return "fresh-range-read-wrong-too"
			}
			r := runUnary(it, cmd{Op: "next", Span: int64(telem.TimeSpanMax)})
			if r.Panic == "" && r.Err == nil && bytes.Equal(r.data(), want) {
				return "differs-from-fresh-range-read"
			}
			return "fresh-range-read-wrong-too"
		}
	}
	return "value-differs-from-view:history-undetermined"
}

// crashGuard reports whether issuing c from view v would hit the unbounded mutual
// recursion Next(AutoSpan)<->autoNext (Prev likewise): autoNext delegates to
// Next(bounds.End - view.End) and that span equals AutoSpan (-1) exactly when the view
// sits one nanosecond past the bounds, which a SeekLE/SeekGE to a timestamp outside the
// bounds but inside a domain produces. The resulting stack overflow is fatal for the
// process, so that scenario is exercised in a child process only (layer crash).
func crashGuard(c cmd, v telem.TimeRange, bounds [2]int64) bool {
	if c.Span != -1 {
		return false
	}
	if c.Op == "next" {
		return int64(v.End) == bounds[1]+1
	}
	if c.Op == "prev" {
		return int64(v.Start) == bounds[0]-1
	}
	return false
}

// originTag describes where an auto-span step starts from (the end of the previous view
// for Next, its start for Prev) relative to the stored layout of the INDEX channel,
// which is what the auto-span arithmetic consults.
func (w *walker) originTag(c cmd, prev telem.TimeRange) string {
	p := int64(prev.End)
	if c.Op == "prev" {
		p = int64(prev.Start)
	}
	if len(w.l.in(keyIdx, p, p+1)) == 1 {
		return "from-sample"
	}
	ds, err := rawDomains(w.l.db, keyIdx)
	if err != nil {
		return "from-unknown"
	}
	for _, d := range ds {
		if p == d.E {
			return "from-domain-end"
		}
		if p >= d.S && p < d.E {
			return "from-between-samples"
		}
	}
	return "from-gap"
}

// sig builds a violation signature: c10:<fixed-span|auto-span>:<class>:<next|prev>[:detail...]
func sig(c cmd, class string, detail ...string) string {
	kind := "fixed-span"
	if c.Span == -1 {
		kind = "auto-span"
	}
	s := "c10:" + kind + ":" + class + ":" + c.Op
	for _, d := range detail {
		if d != "" {
			s += ":" + d
		}
	}
	return s
}
