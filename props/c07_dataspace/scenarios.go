package main

import "github.com/synnaxlabs/x/telem"

// Layer "min": a handful of hand-written two-node cases run through the same executor and
// oracle as the random cases. Each is the smallest script known to exercise one routing /
// synchronisation path, so that whatever it finds comes with a witness of a few lines.

func rowsFrom(start int64, n int) []int64 {
	out := make([]int64, n)
	for i := range out {
		out[i] = start + int64(i+1)*1000
	}
	return out
}

func fullIter(gateway uint16, chans ...chanRef) iterSpec {
	return iterSpec{Gateway: gateway, Chans: chans, Lo: int64(telem.TimeStampMin), Hi: int64(telem.TimeStampMax), Chunk: 3,
		Cmds: []iterCmd{{Op: "seek-first"}, {Op: "next", Arg: windowWidth}}}
}

func minScenarios() []caseSpec {
	grp := func(lease uint16, name string) groupSpec {
		return groupSpec{Lease: lease, CreateVia: 1,
			Index: chanSpec{Name: name + "_idx", DataType: "timestamp"},
			Data:  []chanSpec{{Name: name + "_d0", DataType: "float64"}}}
	}
	const t0 = 10 * windowWidth
	var out []caseSpec

	// 1. peer-only writer, async, a frame that carries nothing for the peer between two
	// that do: is every frame stored exactly once?
	for _, sync := range []bool{false, true} {
		out = append(out, caseSpec{Nodes: 2, Groups: []groupSpec{grp(2, "p")}, UnknownVia: 1,
			Sessions: []sessionSpec{{Gateway: 1, Groups: []int{0}, DataSel: [][]int{{0}}, Start: t0, Sync: sync, FinalCommit: true,
				Frames: []frameSpec{
					{Groups: []int{0}, Rows: [][]int64{rowsFrom(t0, 2)}},
					{},
					{Groups: []int{0}, Rows: [][]int64{rowsFrom(t0+5000, 2)}},
				}}},
			Iters: [][]iterSpec{{fullIter(1, chanRef{0, -1}, chanRef{0, 0}), fullIter(2, chanRef{0, -1}, chanRef{0, 0})}}})
	}

	// 2. gateway + peer writer where the frames alternate between the two leaseholders.
	for _, sync := range []bool{false, true} {
		out = append(out, caseSpec{Nodes: 2, Groups: []groupSpec{grp(1, "g"), grp(2, "p")}, UnknownVia: 2,
			Sessions: []sessionSpec{{Gateway: 1, Groups: []int{0, 1}, DataSel: [][]int{{0}, {0}}, Start: t0, Sync: sync, FinalCommit: true,
				Frames: []frameSpec{
					{Groups: []int{0, 1}, Rows: [][]int64{rowsFrom(t0, 2), rowsFrom(t0, 3)}},
					{Groups: []int{0}, Rows: [][]int64{rowsFrom(t0+5000, 2)}},
					{Groups: []int{1}, Rows: [][]int64{rowsFrom(t0+5000, 1)}},
				}}},
			Iters: [][]iterSpec{{fullIter(1, chanRef{0, 0}, chanRef{1, 0}), fullIter(2, chanRef{0, 0}, chanRef{1, 0})}}})
	}

	// 3. read loop over one channel that has data and one (on the other node) that has none.
	for _, gw := range []uint16{1, 2} {
		out = append(out, caseSpec{Nodes: 2, Groups: []groupSpec{grp(1, "has"), grp(2, "empty")}, UnknownVia: gw,
			Sessions: []sessionSpec{{Gateway: 1, Groups: []int{0}, DataSel: [][]int{{0}}, Start: t0, Sync: true, AutoCommit: true,
				Frames: []frameSpec{{Groups: []int{0}, Rows: [][]int64{rowsFrom(t0, 4)}}}}},
			Iters: [][]iterSpec{{fullIter(gw, chanRef{0, 0}, chanRef{1, 0}), fullIter(gw, chanRef{1, 0}, chanRef{0, 0})}}})
	}

	// 4. one of two leaseholders cannot commit (conflicting rows already in its engine):
	// is Commit still acknowledged? Victim = the gateway's own node, then the peer.
	for _, victim := range []int{0, 1} {
		for _, sync := range []bool{false, true} {
			rows0, rows1 := rowsFrom(t0, 3), rowsFrom(t0, 3)
			at := rows0[2]
			if victim == 1 {
				at = rows1[2]
			}
			out = append(out, caseSpec{Nodes: 2, Groups: []groupSpec{grp(1, "g"), grp(2, "p")}, UnknownVia: 1,
				Sessions: []sessionSpec{{Gateway: 1, Groups: []int{0, 1}, DataSel: [][]int{{0}, {0}}, Start: t0, Sync: sync, FinalCommit: true,
					Frames:   []frameSpec{{Groups: []int{0, 1}, Rows: [][]int64{rows0, rows1}}},
					Sabotage: &sabotage{Group: victim, At: at}}},
				Iters: [][]iterSpec{nil}})
		}
	}

	// 5. narrowed frames through a writer with two kinds of targets: the second frame is
	// built from every key of the writer and narrowed to one target's keys, so the other
	// target's series sit masked in the raw slices. Nothing masked may be stored.
	type combo struct {
		name   string
		groups []groupSpec
		free   bool
		keep   int // index into session groups of the group the second frame is narrowed to (-1: the free channel)
	}
	combos := []combo{
		{"gateway+peer keep gateway", []groupSpec{grp(1, "g"), grp(2, "p")}, false, 0},
		{"gateway+peer keep peer", []groupSpec{grp(1, "g"), grp(2, "p")}, false, 1},
		{"gateway+free keep free", []groupSpec{grp(1, "g")}, true, -1},
		{"peer+free keep free", []groupSpec{grp(2, "p")}, true, -1},
		{"peer+free keep peer", []groupSpec{grp(2, "p")}, true, 0},
	}
	for _, cb := range combos {
		for _, mode := range []string{"keep", "exclude", "masked-append"} {
			// deep copy: every case fills in its own channel keys
			groups := make([]groupSpec, len(cb.groups))
			for i, g := range cb.groups {
				groups[i] = g
				groups[i].Data = append([]chanSpec(nil), g.Data...)
			}
			cs := caseSpec{Nodes: 2, Groups: groups, UnknownVia: 1, FreeVia: 1}
			ss := sessionSpec{Gateway: 1, Start: t0, Sync: true, AutoCommit: true}
			first := frameSpec{}
			for g := range cb.groups {
				ss.Groups = append(ss.Groups, g)
				ss.DataSel = append(ss.DataSel, []int{0})
				first.Groups = append(first.Groups, g)
				first.Rows = append(first.Rows, rowsFrom(t0, 2))
			}
			if cb.free {
				cs.Free = []chanSpec{{Name: "fr", DataType: "float32"}}
				ss.Free = []int{0}
				first.FreeLens = []int{1}
			}
			second := frameSpec{Build: buildSpec{Mode: mode, DecoyRows: 2}}
			for g := range cb.groups {
				if g == cb.keep {
					second.Groups = append(second.Groups, g)
					second.Rows = append(second.Rows, rowsFrom(t0+5000, 2))
				} else {
					second.Build.DecoySessionGroups = append(second.Build.DecoySessionGroups, g)
				}
			}
			if cb.free {
				if cb.keep == -1 {
					second.FreeLens = []int{2}
				} else {
					second.FreeLens = []int{0}
					second.Build.DecoyFree = []int{0}
				}
			}
			ss.Frames = []frameSpec{first, second}
			cs.Sessions = []sessionSpec{ss}
			var refs []chanRef
			for g := range cb.groups {
				refs = append(refs, chanRef{g, -1}, chanRef{g, 0})
			}
			cs.Iters = [][]iterSpec{{fullIter(1, refs...), fullIter(2, refs...)}}
			out = append(out, cs)
		}
	}
	return out
}
