// C07 — A cluster is one data space: write via any node, read via any node.
//
// Workload: in-memory clusters of 1-3 nodes (core/pkg/distribution/mock); index/data
// channel groups placed on PRNG-chosen leaseholders plus free virtual channels; write
// scripts of several sessions at disjoint times (fixed and variable-length types,
// chunking, auto-commit on/off, sync on/off, frames covering any subset of the groups and
// mixing local, remote and free channels), each session through a PRNG-chosen gateway.
//
// Oracle: differential against a single-node cesium DB given the same writes (the
// statement's own yardstick) and against a timestamp->value model:
//   - every iterator command sequence run through every node returns, per channel, the
//     samples the single-node iterator returns for the same commands;
//   - full reads through every node, directly from each leaseholder's engine, and from the
//     single-node store equal the model;
//   - a channel exists only in its leaseholder's engine;
//   - right after Commit returns nil every involved leaseholder's engine already holds the
//     committed samples (also with one leaseholder sabotaged by conflicting data, where
//     Commit must therefore not be acknowledged);
//   - OpenWriter / OpenIterator with an unknown or deleted key fail.
package main

import (
	"context"
	"fmt"
	"runtime"
	"runtime/debug"
	"sync"
	"time"

	"github.com/onsi/gomega"
	"github.com/synnaxlabs/synnax/pkg/distribution/channel"
	"verif/lib/harness"
)

func main() {
	gomega.RegisterFailHandler(func(m string, _ ...int) { panic("gomega: " + m) })
	gomega.SetDefaultEventuallyTimeout(20 * time.Second)
	gomega.SetDefaultEventuallyPollingInterval(2 * time.Millisecond)
	harness.Main("C07", "exploration",
		harness.Layer{Name: "min", Run: layerMin},
		harness.Layer{Name: "diff", Run: layerDiff},
	)
}

func layerDiff(h *harness.H) {
	h.AddRule("diff: one case = (cluster size, placement of 1-3 index/data groups and 0-2 free channels, gateway per writer " +
		"and per iterator, write script of 2-5 sessions); distinct = hash of placement + gateways + script shape; " +
		"non-trivial = at least one committed sample was read back through a node that is not its leaseholder, or (single node) through the node, and compared")
	h.Assume("a case whose channels never become visible on every node (aspen metadata gossip) is inconclusive, not judged")
	h.Assume("calls into the distributed writer/iterator that do not return within the watchdog are inconclusive (no deadlock verdict is attempted here)")
	n := h.N(400, 20000)
	workers := runtime.GOMAXPROCS(0)
	if workers > 12 {
		workers = 12
	}
	if _, rp := h.Replaying(); rp {
		workers = 1
	}
	pool(h, "diff", n, workers, func(c int) {
		h.Eval()
		ctx, cancel := context.WithCancel(context.Background())
		defer cancel()
		newCase(h, c, h.Rand("diff", c)).run(ctx)
	})
}

// layerMin runs the hand-written minimal cases (scenarios.go).
func layerMin(h *harness.H) {
	h.AddRule("min: one case = one hand-written two-node scenario (partial frames through a peer-only / gateway+peer writer, " +
		"read loop over a channel with and one without data, commit with one leaseholder unable to commit); distinct = scenario shape")
	scs := minScenarios()
	workers := len(scs)
	if _, rp := h.Replaying(); rp {
		workers = 1
	}
	pool(h, "min", len(scs), workers, func(c int) {
		h.Eval()
		ctx, cancel := context.WithCancel(context.Background())
		defer cancel()
		k := &kase{h: h, layer: "min", c: c, spec: scs[c], committed: map[channel.Key][]sample{}, polluted: map[channel.Key]bool{}}
		k.run(ctx)
	})
}

func pool(h *harness.H, layer string, n, workers int, f func(c int)) {
	var wg sync.WaitGroup
	cases := make(chan int)
	var mu sync.Mutex
	var failure any
	for w := 0; w < workers; w++ {
		wg.Add(1)
		go func() {
			defer wg.Done()
			for c := range cases {
				func() {
					defer func() {
						if r := recover(); r != nil {
							mu.Lock()
							if failure == nil {
								failure = fmt.Sprintf("%s case %d: %v\n%s", layer, c, r, debug.Stack())
							}
							mu.Unlock()
						}
					}()
					f(c)
				}()
			}
		}()
	}
	for c := 0; c < n; c++ {
		if h.Skip(layer, c) {
			continue
		}
		cases <- c
	}
	close(cases)
	wg.Wait()
	if failure != nil {
		panic(failure)
	}
}
