package main

import (
	"bytes"
	"context"
	"fmt"
	"os"
	"runtime/pprof"
	"sort"
	"strings"
	"time"

	"github.com/synnaxlabs/cesium"
	"github.com/synnaxlabs/synnax/pkg/distribution"
	"github.com/synnaxlabs/synnax/pkg/distribution/channel"
	"github.com/synnaxlabs/synnax/pkg/distribution/framer/frame"
	"github.com/synnaxlabs/synnax/pkg/distribution/framer/iterator"
	"github.com/synnaxlabs/synnax/pkg/distribution/framer/writer"
	"github.com/synnaxlabs/synnax/pkg/distribution/mock"
	"github.com/synnaxlabs/synnax/pkg/distribution/node"
	xfs "github.com/synnaxlabs/x/io/fs"
	"github.com/synnaxlabs/x/telem"
	xtypes "github.com/synnaxlabs/x/types"
	"verif/lib/harness"
	"verif/lib/prng"
)

const (
	visibilityWatchdog = 10 * time.Second
	callWatchdog       = 15 * time.Second
)

type sample struct {
	ts  int64
	val []byte
}

// kase is one running case: the cluster, the single-node reference and the model.
type kase struct {
	h     *harness.H
	layer string
	c     int
	spec  caseSpec

	cluster *mock.Cluster
	ref     *cesium.DB

	committed map[channel.Key][]sample // the model: committed samples per channel
	polluted  map[channel.Key]bool     // channels already reported on: later comparisons of them say nothing new
	nontriv   bool
	aborted   bool
	doing     string // what the current guarded call is doing (for NOTE lines)
}

func newCase(h *harness.H, c int, r *prng.R) *kase {
	return &kase{h: h, layer: "diff", c: c, spec: genCase(r, c), committed: map[channel.Key][]sample{}, polluted: map[channel.Key]bool{}}
}

func noLimit(xtypes.Uint20) error { return nil }

func (k *kase) violate(sig, what string) {
	k.h.Violation(k.layer, k.c, sig, what, k.spec)
}

// guard runs f under the call watchdog. It returns false (and marks the case aborted) if f
// did not return in time; the cluster is then abandoned, not closed.
func (k *kase) guard(what string, f func()) bool {
	done := make(chan struct{})
	var pv any
	go func() {
		defer close(done)
		defer func() { pv = recover() }()
		f()
	}()
	select {
	case <-done:
		if pv != nil {
			panic(pv)
		}
		return true
	case <-time.After(callWatchdog):
		k.aborted = true
		k.h.Inconclusive("call-did-not-return:" + what)
		fmt.Printf("NOTE: C07 case %d: %s did not return within %s (%s); case abandoned\n", k.c, what, callWatchdog, k.doing)
		if d := os.Getenv("VERIF_C07_DUMP"); d != "" {
			if f, err := os.Create(fmt.Sprintf("%s/c%d.goroutines", d, k.c)); err == nil {
				_ = pprof.Lookup("goroutine").WriteTo(f, 2)
				_ = f.Close()
			}
		}
		return false
	}
}

// pollute marks a channel, and every channel sharing its index, as already reported on:
// what an index holds decides how its data channels are chunked and bounded, so a residual
// in one member of a group shows up in reads of the others.
func (k *kase) pollute(key channel.Key) {
	for _, gs := range k.spec.Groups {
		member := channel.Key(gs.Index.Key) == key
		for _, d := range gs.Data {
			member = member || channel.Key(d.Key) == key
		}
		if !member {
			continue
		}
		k.polluted[channel.Key(gs.Index.Key)] = true
		for _, d := range gs.Data {
			k.polluted[channel.Key(d.Key)] = true
		}
	}
	k.polluted[key] = true
}

func (k *kase) node(n uint16) mock.Node { return k.cluster.Nodes[node.Key(n)] }

func (k *kase) key(ref chanRef) channel.Key {
	g := k.spec.Groups[ref.Group]
	if ref.Data < 0 {
		return channel.Key(g.Index.Key)
	}
	return channel.Key(g.Data[ref.Data].Key)
}

func (k *kase) run(parent context.Context) {
	ctx, cancel := context.WithCancel(parent)
	defer cancel()
	k.cluster = mock.ProvisionCluster(parent, k.spec.Nodes, distribution.LayerConfig{TestingIntOverflowCheck: noLimit})
	k.ref = must(cesium.Open(parent, "", cesium.WithFS(xfs.NewMem())))
	defer func() {
		if k.aborted {
			// A call of this case never returned. Its cluster would keep gossiping (and its
			// mock network recording every message) for the rest of the run: cancel the
			// context every writer and iterator of the case was opened under, then close the
			// cluster from a goroutine that may itself be left behind.
			cancel()
			done := make(chan struct{})
			go func() {
				defer close(done)
				defer func() { _ = recover() }()
				_ = k.ref.Close()
				_ = k.cluster.Close()
			}()
			select {
			case <-done:
				k.h.Count("abandoned_cases_torn_down", 1)
			case <-time.After(callWatchdog):
				k.h.Count("abandoned_cases_left_running", 1)
			}
			return
		}
		if err := k.ref.Close(); err != nil {
			k.h.Count("reference_close_errors", 1)
		}
		if err := k.cluster.Close(); err != nil {
			k.h.Count("cluster_close_errors", 1)
		}
	}()
	if !k.createChannels(ctx) {
		return
	}
	for s := range k.spec.Sessions {
		if !k.runSession(ctx, s) || k.aborted {
			return
		}
		for _, it := range k.spec.Iters[s] {
			if !k.runIter(ctx, it) || k.aborted {
				return
			}
		}
		if k.spec.Sessions[s].Sabotage != nil {
			break
		}
	}
	if k.aborted {
		return
	}
	k.checkPlacement(ctx)
	k.checkUnknownKeys(ctx)
	if k.nontriv {
		k.h.Distinct(k.spec.shape())
	}
	k.h.Sample(k.spec)
}

func must[T any](v T, err error) T {
	if err != nil {
		panic(err)
	}
	return v
}

// ---------------------------------------------------------------------------------
// channels

func (k *kase) createChannels(ctx context.Context) bool {
	var all channel.Keys
	for g := range k.spec.Groups {
		gs := &k.spec.Groups[g]
		svc := k.node(gs.CreateVia).Channel
		idx := channel.Channel{Name: gs.Index.Name, DataType: telem.TimeStampT, IsIndex: true, Leaseholder: node.Key(gs.Lease)}
		if err := svc.Create(ctx, &idx); err != nil {
			k.h.Inconclusive("channel-create-failed")
			fmt.Printf("NOTE: C07 case %d: creating index channel failed: %v\n", k.c, err)
			return false
		}
		gs.Index.Key = uint32(idx.Key())
		all = append(all, idx.Key())
		data := make([]channel.Channel, len(gs.Data))
		for d, ds := range gs.Data {
			data[d] = channel.Channel{Name: ds.Name, DataType: telem.DataType(ds.DataType), Leaseholder: node.Key(gs.Lease), LocalIndex: idx.LocalKey}
		}
		if err := svc.CreateMany(ctx, &data); err != nil {
			k.h.Inconclusive("channel-create-failed")
			fmt.Printf("NOTE: C07 case %d: creating data channels failed: %v\n", k.c, err)
			return false
		}
		for _, ch := range data {
			for d := range gs.Data {
				if gs.Data[d].Name == ch.Name {
					gs.Data[d].Key = uint32(ch.Key())
				}
			}
			all = append(all, ch.Key())
		}
		// the same channels, same keys, in the single-node reference
		must(0, k.ref.CreateChannel(ctx, cesium.Channel{Key: uint32(idx.Key()), Name: idx.Name, DataType: telem.TimeStampT, IsIndex: true}))
		for _, ch := range data {
			must(0, k.ref.CreateChannel(ctx, cesium.Channel{Key: uint32(ch.Key()), Name: ch.Name, DataType: ch.DataType, Index: uint32(idx.Key())}))
		}
		if idx.Key().Leaseholder() != node.Key(gs.Lease) {
			k.violate("c07:channel-not-leased-where-requested", fmt.Sprintf("index %q requested on node %d got key %d", idx.Name, gs.Lease, idx.Key()))
		}
	}
	for f := range k.spec.Free {
		fs := &k.spec.Free[f]
		ch := channel.Channel{Name: fs.Name, DataType: telem.DataType(fs.DataType), Virtual: true, Leaseholder: node.KeyFree}
		if err := k.node(k.spec.FreeVia).Channel.Create(ctx, &ch); err != nil {
			k.h.Inconclusive("channel-create-failed")
			return false
		}
		fs.Key = uint32(ch.Key())
		all = append(all, ch.Key())
	}
	// every node must know every channel before writers/iterators are opened through it
	deadline := time.Now().Add(visibilityWatchdog)
	for {
		ok := true
		for n := 1; n <= k.spec.Nodes; n++ {
			var got []channel.Channel
			err := k.node(uint16(n)).Channel.NewRetrieve().Where(channel.MatchKeys(all...)).Entries(&got).Exec(ctx, nil)
			if err != nil || len(got) != len(all) {
				ok = false
				break
			}
		}
		if ok {
			return true
		}
		if time.Now().After(deadline) {
			k.h.Inconclusive("channels-never-visible-on-every-node")
			return false
		}
		time.Sleep(2 * time.Millisecond)
	}
}

// ---------------------------------------------------------------------------------
// writing

type pendingRow struct {
	key channel.Key
	s   sample
}

func (k *kase) sessionKeys(ss sessionSpec) (leased channel.Keys, free channel.Keys) {
	for i, g := range ss.Groups {
		gs := k.spec.Groups[g]
		leased = append(leased, channel.Key(gs.Index.Key))
		for _, d := range ss.DataSel[i] {
			leased = append(leased, channel.Key(gs.Data[d].Key))
		}
	}
	for _, f := range ss.Free {
		free = append(free, channel.Key(k.spec.Free[f].Key))
	}
	return
}

// ent is one key/series pair destined for a frame; decoy entries must end up excluded.
type ent struct {
	key   channel.Key
	s     telem.Series
	decoy bool
}

// buildFrames returns, for one frame of a session, the distributed frame (leased + free),
// the reference frame (leased only, assembled and narrowed by the very same operations)
// and the rows it adds to the model when committed. lastTS is the last index timestamp
// each group (index into spec.Groups) has really written in this session.
func (k *kase) buildFrames(ss sessionSpec, fs frameSpec, lastTS map[int]int64) (frame.Frame, cesium.Frame, []pendingRow) {
	var (
		intended []ent
		decoys   []ent
		rows     []pendingRow
	)
	for i, gi := range fs.Groups {
		g := ss.Groups[gi]
		gs := k.spec.Groups[g]
		ts := fs.Rows[i]
		idxSamples := make([][]byte, len(ts))
		for j, t := range ts {
			idxSamples[j] = tsBytes(t)
			rows = append(rows, pendingRow{channel.Key(gs.Index.Key), sample{t, idxSamples[j]}})
		}
		intended = append(intended, ent{key: channel.Key(gs.Index.Key), s: seriesOf(telem.TimeStampT, idxSamples)})
		for _, d := range ss.DataSel[gi] {
			dt := telem.DataType(gs.Data[d].DataType)
			vals := make([][]byte, len(ts))
			for j, t := range ts {
				vals[j] = valueOf(dt, g, d, t)
				rows = append(rows, pendingRow{channel.Key(gs.Data[d].Key), sample{t, vals[j]}})
			}
			intended = append(intended, ent{key: channel.Key(gs.Data[d].Key), s: seriesOf(dt, vals)})
		}
	}
	for i, n := range fs.FreeLens {
		if n == 0 {
			continue
		}
		f := k.spec.Free[ss.Free[i]]
		dt := telem.DataType(f.DataType)
		vals := make([][]byte, n)
		for j := range vals {
			vals[j] = valueOf(dt, 99, i, int64(j))
		}
		intended = append(intended, ent{key: channel.Key(f.Key), s: seriesOf(dt, vals)})
	}
	// decoys: whole groups with rows the session never writes, in the gap after the
	// group's last real row (real rows are >= minIncr apart)
	decoyGroup := func(g int, sel []int) {
		gs := k.spec.Groups[g]
		base, ok := lastTS[g]
		if !ok {
			base = ss.Start
		}
		n := fs.Build.DecoyRows
		if n < 1 {
			n = 1
		}
		idxSamples := make([][]byte, n)
		for j := range idxSamples {
			idxSamples[j] = tsBytes(base + 1 + int64(j))
		}
		decoys = append(decoys, ent{key: channel.Key(gs.Index.Key), s: seriesOf(telem.TimeStampT, idxSamples), decoy: true})
		for _, d := range sel {
			dt := telem.DataType(gs.Data[d].DataType)
			vals := make([][]byte, n)
			for j := range vals {
				vals[j] = valueOf(dt, g+70, d, base+1+int64(j))
			}
			decoys = append(decoys, ent{key: channel.Key(gs.Data[d].Key), s: seriesOf(dt, vals), decoy: true})
		}
	}
	for _, gi := range fs.Build.DecoySessionGroups {
		decoyGroup(ss.Groups[gi], ss.DataSel[gi])
	}
	for _, g := range fs.Build.DecoyOtherGroups {
		var all []int
		for d := range k.spec.Groups[g].Data {
			all = append(all, d)
		}
		decoyGroup(g, all)
	}
	for _, fi := range fs.Build.DecoyFree {
		f := k.spec.Free[fi]
		dt := telem.DataType(f.DataType)
		decoys = append(decoys, ent{key: channel.Key(f.Key), s: seriesOf(dt, [][]byte{valueOf(dt, 98, fi, 1), valueOf(dt, 98, fi, 2)}), decoy: true})
	}
	mode := fs.Build.Mode
	if mode == "" {
		mode = "plain"
	}
	if mode == "masked-append" {
		// a decoy occurrence of every intended leased key, to be masked before the real
		// series are appended (repeated keys in the raw slices)
		for _, e := range intended {
			if e.key.Free() {
				continue
			}
			d := e
			d.decoy = true
			d.s = garble(e.s)
			decoys = append(decoys, d)
		}
	}
	k.h.Seen("frame_build_modes", mode)
	df := frame.Frame{Frame: assemble(fs.Build, intended, decoys, func(key channel.Key) (channel.Key, bool) { return key, true })}
	rf := assemble(fs.Build, intended, decoys, func(key channel.Key) (uint32, bool) { return uint32(key), !key.Free() })
	if df.Count() != len(intended) {
		panic(fmt.Sprintf("frame assembly (%s): %d visible series, %d intended", mode, df.Count(), len(intended)))
	}
	if excl := len(df.RawKeys()) - df.Count(); excl > 0 {
		k.h.Count("frames_with_masked_series", 1)
		k.h.Count("masked_series", excl)
	}
	return df, rf, rows
}

// garble returns a series of the same type and length with different sample values.
func garble(s telem.Series) telem.Series {
	var samples [][]byte
	for b := range s.Samples() {
		c := append([]byte(nil), b...)
		for i := range c {
			c[i] ^= 0x15
		}
		if s.DataType.IsVariable() {
			c = append([]byte("decoy:"), b...)
		}
		samples = append(samples, c)
	}
	return seriesOf(s.DataType, samples)
}

// assemble builds the frame object according to the build spec. conv maps a channel key
// to the key type of the target frame and says whether the channel exists for that target
// (free channels do not exist in the single-node reference); everything else - the order
// of the entries, the narrowing calls and their key lists - is identical for both targets.
func assemble[K xtypes.SizedNumeric](b buildSpec, intended, decoys []ent, conv func(channel.Key) (K, bool)) telem.Frame[K] {
	keysOf := func(es []ent) []K {
		var out []K
		for _, e := range es {
			if kk, ok := conv(e.key); ok {
				out = append(out, kk)
			}
		}
		return out
	}
	build := func(parts ...[]ent) telem.Frame[K] {
		var f telem.Frame[K]
		for _, p := range parts {
			for _, e := range p {
				if kk, ok := conv(e.key); ok {
					f = f.Append(kk, e.s)
				}
			}
		}
		return f
	}
	wide := func(in, dec []ent) telem.Frame[K] {
		if b.DecoyFirst {
			return build(dec, in)
		}
		// interleave: decoys between the intended entries
		var mixed []ent
		for i := 0; i < len(in) || i < len(dec); i++ {
			if i < len(in) {
				mixed = append(mixed, in[i])
			}
			if i < len(dec) {
				mixed = append(mixed, dec[i])
			}
		}
		return build(mixed)
	}
	half := len(decoys) / 2
	switch b.Mode {
	case "keep":
		return wide(intended, decoys).KeepKeys(keysOf(intended))
	case "exclude":
		return wide(intended, decoys).ExcludeKeys(keysOf(decoys))
	case "exclude-keep":
		return wide(intended, decoys).ExcludeKeys(keysOf(decoys[:half])).KeepKeys(keysOf(intended))
	case "keep-exclude":
		return wide(intended, decoys).KeepKeys(append(keysOf(intended), keysOf(decoys[:half])...)).ExcludeKeys(keysOf(decoys[:half]))
	case "masked-append":
		f := build(decoys).KeepKeys(nil)
		for _, e := range intended {
			if kk, ok := conv(e.key); ok {
				f = f.Append(kk, e.s)
			}
		}
		return f
	case "extend":
		hi := len(intended) / 2
		first := wide(intended[:hi], decoys[:half]).KeepKeys(keysOf(intended[:hi]))
		second := wide(intended[hi:], decoys[half:]).ExcludeKeys(keysOf(decoys[half:]))
		return first.Extend(second)
	case "huge":
		var many []ent
		for len(many)+len(intended) < 130 {
			many = append(many, decoys...)
		}
		return wide(intended, many).KeepKeys(keysOf(intended))
	default:
		return build(intended)
	}
}

func (k *kase) commitRows(rows []pendingRow) {
	for _, r := range rows {
		k.committed[r.key] = append(k.committed[r.key], r.s)
	}
	for _, r := range rows {
		s := k.committed[r.key]
		sort.SliceStable(s, func(i, j int) bool { return s[i].ts < s[j].ts })
	}
}

// runSession drives one write session through the distributed writer and the same
// session through the single-node reference, and checks the leaseholders' engines at
// every acknowledged commit. Returns false if the case must stop.
func (k *kase) runSession(ctx context.Context, si int) bool {
	ss := k.spec.Sessions[si]
	leased, free := k.sessionKeys(ss)
	keys := append(append(channel.Keys{}, leased...), free...)
	k.h.Count("sessions", 1)
	k.h.Seen("session_routes", k.routeClass(ss.Gateway, leased, len(free) > 0))

	if ss.Sabotage != nil {
		if !k.sabotage(ctx, ss) {
			return false
		}
	}

	// distributed side
	var (
		w       *writer.Writer
		err     error
		errs    []string
		pending []pendingRow
	)
	ac, sy := ss.AutoCommit, ss.Sync
	if !k.guard("OpenWriter", func() {
		w, err = k.node(ss.Gateway).Framer.OpenWriter(ctx, writer.Config{
			Keys: keys, Start: telem.TimeStamp(ss.Start), EnableAutoCommit: &ac, Sync: &sy,
		})
	}) {
		return false
	}
	if err != nil {
		k.h.Inconclusive("dist-open-writer-failed")
		fmt.Printf("NOTE: C07 case %d session %d: OpenWriter on existing channels failed: %v\n", k.c, si, err)
		return false
	}
	// reference side
	var rw *cesium.Writer
	rSync := true
	if rw, err = k.ref.OpenWriter(ctx, cesium.WriterConfig{
		Channels: leased.Storage(), Start: telem.TimeStamp(ss.Start), EnableAutoCommit: &ac, Sync: &rSync,
	}); err != nil {
		panic(fmt.Sprintf("reference rejected OpenWriter: %v", err))
	}
	refFailed := ""
	involved := leased.UniqueLeaseholders()
	lastTS := map[int]int64{}
	for fi, fs := range ss.Frames {
		df, rf, rows := k.buildFrames(ss, fs, lastTS)
		for i, gi := range fs.Groups {
			if n := len(fs.Rows[i]); n > 0 {
				lastTS[ss.Groups[gi]] = fs.Rows[i][n-1]
			}
		}
		pending = append(pending, rows...)
		var auth bool
		covered := map[node.Key]bool{}
		for _, key := range df.KeysSlice() {
			covered[key.Leaseholder()] = true
		}
		var missingPeers []node.Key
		for _, l := range involved {
			if !covered[l] && l != node.Key(ss.Gateway) {
				missingPeers = append(missingPeers, l)
			}
		}
		k.doing = fmt.Sprintf("session %d frame %d via gateway %d sync=%v auto_commit=%v; session leaseholders %v, peers with no series in this frame %v",
			si, fi, ss.Gateway, ss.Sync, ss.AutoCommit, involved, missingPeers)
		if ss.Sync && len(missingPeers) > 0 {
			k.h.Count("sync_writes_omitting_a_peer", 1)
		}
		if !k.guard("Writer.Write", func() { auth, err = w.Write(df) }) {
			if ss.Sync && len(missingPeers) > 0 {
				k.h.Count("sync_writes_omitting_a_peer_hung", 1)
			}
			return false
		}
		k.h.Count("frames_written", 1)
		if err != nil {
			errs = append(errs, fmt.Sprintf("write[%d]: %v", fi, err))
		} else if !auth {
			errs = append(errs, fmt.Sprintf("write[%d]: unauthorized", fi))
		}
		if rf.Count() > 0 && refFailed == "" {
			if _, rerr := rw.Write(rf); rerr != nil {
				refFailed = fmt.Sprintf("write[%d]: %v", fi, rerr)
			}
		}
		if ss.AutoCommit && len(errs) == 0 {
			// In sync mode an acknowledged write under auto-commit has been committed by
			// every leaseholder; in async mode that is only known at the next commit/close.
			if ss.Sync && ss.Sabotage == nil {
				k.commitRows(pending)
				pending = nil
				k.checkEngines(ctx, ss, involved, leased, "after-acked-autocommit-write")
			}
		}
		if fs.CommitAfter {
			if !k.commit(ctx, w, rw, ss, &pending, &errs, &refFailed, involved, leased, fmt.Sprintf("commit[%d]", fi)) {
				return false
			}
		}
	}
	if ss.FinalCommit || ss.AutoCommit {
		if !k.commit(ctx, w, rw, ss, &pending, &errs, &refFailed, involved, leased, "final-commit") {
			return false
		}
	}
	var cerr error
	if !k.guard("Writer.Close", func() { cerr = w.Close() }) {
		return false
	}
	if cerr != nil {
		errs = append(errs, fmt.Sprintf("close: %v", cerr))
	}
	if rerr := rw.Close(); rerr != nil && refFailed == "" {
		refFailed = fmt.Sprintf("close: %v", rerr)
	}
	if ss.Sabotage != nil {
		// The victim cannot have committed. The session must have reported an error
		// somewhere; if it did not, checkEngines inside commit() has already compared the
		// engines with what was acknowledged.
		k.h.Count("sabotaged_sessions", 1)
		if len(errs) > 0 {
			k.h.Count("sabotaged_sessions_reported_error", 1)
		}
		return true
	}
	if refFailed != "" {
		panic(fmt.Sprintf("case %d session %d: the single-node reference rejected a generated script (%s): generator bug", k.c, si, refFailed))
	}
	if len(errs) > 0 {
		// The statement is about frames that were written; a session that reports an error
		// the single-node store does not is not judged further, but it is worth a note.
		// "Frames written through a writer opened on any node, to channels leased to any mix
		// of nodes, are stored ..." and read back like a single-node store given the same
		// writes: a session the single-node store accepts in full and the cluster refuses
		// (no fault is injected anywhere) leaves the two apart. Never seen on the unchanged
		// tree in 20 000-case runs; seeded change C07-4 produces it for every writer over
		// {local, free} or {remote, free} channels.
		route := k.routeClass(ss.Gateway, leased, len(free) > 0)
		k.violate("c07:legal-session-refused:"+route,
			fmt.Sprintf("session %d (gateway %d, route %s): the distributed writer reported %v while the single-node store accepted the same script", si, ss.Gateway, route, errs))
		return false
	}
	// uncommitted tail (no final commit) is discarded on both sides
	k.checkEngines(ctx, ss, involved, leased, "after-close")
	return true
}

func (k *kase) commit(ctx context.Context, w *writer.Writer, rw *cesium.Writer, ss sessionSpec, pending *[]pendingRow,
	errs *[]string, refFailed *string, involved []node.Key, leased channel.Keys, what string) bool {
	var err error
	if !k.guard("Writer.Commit", func() { _, err = w.Commit() }) {
		return false
	}
	k.h.Count("commits", 1)
	if err != nil {
		*errs = append(*errs, fmt.Sprintf("%s: %v", what, err))
	}
	if *refFailed == "" {
		if _, rerr := rw.Commit(); rerr != nil {
			*refFailed = fmt.Sprintf("%s: %v", what, rerr)
		}
	}
	if len(*errs) == 0 {
		// Commit acknowledged: every involved leaseholder must already hold the samples.
		k.commitRows(*pending)
		*pending = nil
		k.checkEngines(ctx, ss, involved, leased, "after-acked-commit")
	}
	return true
}

// sabotage writes one conflicting row for the victim group directly into the victim
// leaseholder's engine (and nowhere else), inside the session's window.
func (k *kase) sabotage(ctx context.Context, ss sessionSpec) bool {
	g := ss.Groups[ss.Sabotage.Group]
	gs := k.spec.Groups[g]
	db := k.node(gs.Lease).Storage.TS
	keys := []cesium.ChannelKey{gs.Index.Key}
	fr := cesium.Frame{}.Append(gs.Index.Key, seriesOf(telem.TimeStampT, [][]byte{tsBytes(ss.Sabotage.At)}))
	k.committed[channel.Key(gs.Index.Key)] = append(k.committed[channel.Key(gs.Index.Key)], sample{ss.Sabotage.At, tsBytes(ss.Sabotage.At)})
	for d, ds := range gs.Data {
		dt := telem.DataType(ds.DataType)
		v := append([]byte("S"), valueOf(dt, g, d, ss.Sabotage.At)...)
		if !dt.IsVariable() {
			v = valueOf(dt, g+50, d, ss.Sabotage.At)
		}
		keys = append(keys, ds.Key)
		fr = fr.Append(ds.Key, seriesOf(dt, [][]byte{v}))
		k.committed[channel.Key(ds.Key)] = append(k.committed[channel.Key(ds.Key)], sample{ss.Sabotage.At, v})
	}
	if err := db.Write(ctx, telem.TimeStamp(ss.Sabotage.At), fr); err != nil {
		k.h.Inconclusive("sabotage-write-failed")
		fmt.Printf("NOTE: C07 case %d: sabotage write failed: %v\n", k.c, err)
		return false
	}
	for key := range k.committed {
		s := k.committed[key]
		sort.SliceStable(s, func(i, j int) bool { return s[i].ts < s[j].ts })
	}
	return true
}

func (k *kase) routeClass(gateway uint16, keys channel.Keys, free bool) string {
	local, remote := 0, map[node.Key]bool{}
	for _, key := range keys {
		if key.Leaseholder() == node.Key(gateway) {
			local++
		} else {
			remote[key.Leaseholder()] = true
		}
	}
	c := ""
	if local > 0 {
		c += "gateway"
	}
	if len(remote) > 0 {
		if c != "" {
			c += "+"
		}
		c += fmt.Sprintf("%dpeer", len(remote))
	}
	if free {
		c += "+free"
	}
	return c
}

// ---------------------------------------------------------------------------------
// reading and comparing

func collect(keys []channel.Key, get func(channel.Key) telem.MultiSeries) map[channel.Key][][]byte {
	out := map[channel.Key][][]byte{}
	for _, key := range keys {
		for _, s := range get(key).Series {
			for b := range s.Samples() {
				out[key] = append(out[key], append([]byte(nil), b...))
			}
		}
	}
	return out
}

func sameSamples(a, b [][]byte) bool {
	if len(a) != len(b) {
		return false
	}
	for i := range a {
		if !bytes.Equal(a[i], b[i]) {
			return false
		}
	}
	return true
}

// stripReplays removes from got every block that immediately repeats the block before it
// at a position where got departs from want; it reports whether that turns got into want
// (i.e. got is want plus frames that were stored a second time).
func stripReplays(got, want [][]byte) bool {
	g := append([][]byte(nil), got...)
	for len(g) > len(want) {
		d := firstDiff(g, want)
		removed := false
		for l := 1; l <= len(g)-len(want) && l <= d; l++ {
			if sameSamples(g[d:d+l], g[d-l:d]) {
				g = append(g[:d:d], g[d+l:]...)
				removed = true
				break
			}
		}
		if !removed {
			return false
		}
	}
	return sameSamples(g, want)
}

func classify(got, want [][]byte) string {
	if len(got) > len(want) && stripReplays(got, want) {
		return "replayed-frame"
	}
	switch {
	case len(got) < len(want) && sameSamples(got, want[:len(got)]):
		return "missing-tail"
	case len(got) < len(want):
		return "missing"
	case len(got) > len(want):
		return "extra"
	default:
		return "different"
	}
}

func describe(got, want [][]byte) string {
	d := firstDiff(got, want)
	show := func(x [][]byte) string {
		var b strings.Builder
		for i := d - 1; i < d+4 && i < len(x); i++ {
			if i < 0 {
				continue
			}
			fmt.Fprintf(&b, " [%d]=%x", i, x[i])
		}
		return b.String()
	}
	return fmt.Sprintf("got %d samples, want %d (first difference at %d; got%s; want%s)", len(got), len(want), d, show(got), show(want))
}

func firstDiff(a, b [][]byte) int {
	for i := 0; i < len(a) && i < len(b); i++ {
		if !bytes.Equal(a[i], b[i]) {
			return i
		}
	}
	if len(a) < len(b) {
		return len(a)
	}
	return len(b)
}

func (k *kase) modelValues(key channel.Key, lo, hi int64) [][]byte {
	var out [][]byte
	for _, s := range k.committed[key] {
		if s.ts >= lo && s.ts < hi {
			out = append(out, s.val)
		}
	}
	return out
}

// checkEngines reads every session channel directly from its leaseholder's engine and
// compares with the model (no waiting: the acknowledgement has already been returned).
func (k *kase) checkEngines(ctx context.Context, ss sessionSpec, involved []node.Key, leased channel.Keys, when string) {
	for _, l := range involved {
		var keys []channel.Key
		for _, key := range leased {
			if key.Leaseholder() == l {
				keys = append(keys, key)
			}
		}
		fr, err := k.cluster.Nodes[l].Storage.TS.Read(ctx, telem.TimeRangeMax, channel.Keys(keys).Storage()...)
		if err != nil {
			k.violate("c07:"+when+":leaseholder-engine-read-failed", fmt.Sprintf("reading %v from node %d's engine: %v", keys, l, err))
			continue
		}
		got := collect(keys, func(key channel.Key) telem.MultiSeries { return fr.Get(uint32(key)) })
		where := "peer"
		if l == node.Key(ss.Gateway) {
			where = "gateway"
		}
		for _, key := range keys {
			want := k.modelValues(key, 0, int64(telem.TimeStampMax))
			if k.polluted[key] {
				continue
			}
			k.h.Count("engine_reads_compared", 1)
			if !sameSamples(got[key], want) {
				k.pollute(key)
				cl := classify(got[key], want)
				sig := fmt.Sprintf("c07:%s:leaseholder-engine-%s:%s", when, cl, where)
				if cl == "replayed-frame" {
					sig = "c07:leaseholder-engine-holds-replayed-frame:" + where
				} else if strings.HasPrefix(cl, "missing") && when == "after-acked-commit" {
					// with or without sabotage: Commit returned nil and this leaseholder does
					// not hold the committed rows
					sig = "c07:commit-acked-but-leaseholder-did-not-commit:" + where
				} else if strings.HasPrefix(cl, "missing") && when == "after-acked-autocommit-write" {
					sig = "c07:autocommit-write-acked-but-leaseholder-did-not-commit:" + where
				}
				k.violate(sig, fmt.Sprintf("%s: channel %d on its leaseholder node %d (%s of the writer, gateway %d, sync=%v auto_commit=%v sabotaged=%v): %s",
					when, key, l, where, ss.Gateway, ss.Sync, ss.AutoCommit, ss.Sabotage != nil, describe(got[key], want)))
			}
		}
	}
}

func (k *kase) runIter(ctx context.Context, it iterSpec) bool {
	keys := make(channel.Keys, len(it.Chans))
	for i, ref := range it.Chans {
		keys[i] = k.key(ref)
	}
	route := k.routeClass(it.Gateway, keys, false)
	k.h.Seen("iterator_routes", route)
	k.h.Count("iterators", 1)
	bounds := telem.TimeRange{Start: telem.TimeStamp(it.Lo), End: telem.TimeStamp(it.Hi)}
	var (
		di  *iterator.Iterator
		err error
	)
	if !k.guard("OpenIterator", func() {
		di, err = k.node(it.Gateway).Framer.OpenIterator(ctx, iterator.Config{Keys: keys, Bounds: bounds, ChunkSize: it.Chunk})
	}) {
		return false
	}
	ri, rerr := k.ref.OpenIterator(cesium.IteratorConfig{Channels: keys.Storage(), Bounds: bounds, AutoChunkSize: it.Chunk})
	if rerr != nil {
		panic(fmt.Sprintf("reference rejected OpenIterator: %v", rerr))
	}
	defer func() {
		if !k.aborted {
			_ = ri.Close()
		}
	}()
	if err != nil {
		k.h.Inconclusive("dist-open-iterator-failed")
		fmt.Printf("NOTE: C07 case %d: OpenIterator through node %d on existing channels %v failed: %v\n", k.c, it.Gateway, keys, err)
		return false
	}
	closed := false
	closeIt := func() bool {
		if closed || k.aborted {
			return true
		}
		closed = true
		return k.guard("Iterator.Close", func() { _ = di.Close() })
	}
	defer closeIt()

	for ci, cmd := range it.Cmds {
		var dOK, rOK bool
		hasData := false
		// The single-node reference first: if *it* does not return, the question is about
		// cesium's iterator, not about the cluster.
		refReturned := make(chan struct{})
		go func() {
			defer close(refReturned)
			switch cmd.Op {
			case "seek-first":
				rOK = ri.SeekFirst()
			case "seek-last":
				rOK = ri.SeekLast()
			case "seek-ge":
				rOK = ri.SeekGE(telem.TimeStamp(cmd.Arg))
			case "seek-le":
				rOK = ri.SeekLE(telem.TimeStamp(cmd.Arg))
			case "next":
				rOK = ri.Next(telem.TimeSpan(cmd.Arg))
			case "prev":
				rOK = ri.Prev(telem.TimeSpan(cmd.Arg))
			case "next-auto":
				rOK = ri.Next(cesium.AutoSpan)
			case "prev-auto":
				rOK = ri.Prev(cesium.AutoSpan)
			case "valid":
				rOK = ri.Valid()
			case "set-bounds":
				ri.SetBounds(telem.TimeRange{Start: telem.TimeStamp(cmd.Arg), End: telem.TimeStamp(cmd.Arg2)})
			}
		}()
		select {
		case <-refReturned:
		case <-time.After(callWatchdog):
			k.aborted = true
			k.h.Inconclusive("single-node-reference-iterator-did-not-return:" + cmd.Op)
			fmt.Printf("NOTE: C07 case %d: the single-node cesium iterator itself did not return within %s (%s); case abandoned\n", k.c, callWatchdog, k.doing)
			return false
		}
		if !k.guard("Iterator."+cmd.Op, func() {
			switch cmd.Op {
			case "seek-first":
				dOK = di.SeekFirst()
			case "seek-last":
				dOK = di.SeekLast()
			case "seek-ge":
				dOK = di.SeekGE(telem.TimeStamp(cmd.Arg))
			case "seek-le":
				dOK = di.SeekLE(telem.TimeStamp(cmd.Arg))
			case "next":
				dOK, hasData = di.Next(telem.TimeSpan(cmd.Arg)), true
			case "prev":
				dOK, hasData = di.Prev(telem.TimeSpan(cmd.Arg)), true
			case "next-auto":
				dOK, hasData = di.Next(iterator.AutoSpan), true
			case "prev-auto":
				dOK, hasData = di.Prev(iterator.AutoSpan), true
			case "valid":
				dOK = di.Valid()
			case "set-bounds":
				_ = di.SetBounds(telem.TimeRange{Start: telem.TimeStamp(cmd.Arg), End: telem.TimeStamp(cmd.Arg2)})
				k.h.Count("iterator_set_bounds_commands", 1)
				dOK = rOK
			}
		}) {
			return false
		}
		k.h.Count("iterator_commands_compared", 1)
		if dOK != rOK {
			k.h.Count("iterator_ack_differs_from_single_node", 1)
			k.h.Seen("ack_diff_shapes", fmt.Sprintf("%s route=%s dist=%v", cmd.Op, route, dOK))
		}
		if !hasData {
			continue
		}
		dv, rv := di.Value(), ri.Value()
		dg := collect(keys, func(key channel.Key) telem.MultiSeries { return dv.Get(key) })
		rg := collect(keys, func(key channel.Key) telem.MultiSeries { return rv.Get(uint32(key)) })
		for _, key := range keys {
			if k.polluted[key] {
				continue
			}
			if len(rg[key]) > 0 {
				k.h.Count("iterator_nonempty_results_compared", 1)
				if key.Leaseholder() != node.Key(it.Gateway) || k.spec.Nodes == 1 {
					k.nontriv = true
				}
			}
			if !sameSamples(dg[key], rg[key]) {
				where := "peer"
				if key.Leaseholder() == node.Key(it.Gateway) {
					where = "gateway"
				}
				k.pollute(key)
				k.violate(fmt.Sprintf("c07:iterator-differs-from-single-node:%s:%s:%s-channel", cmd.Op, classify(dg[key], rg[key]), where),
					fmt.Sprintf("iterator through node %d (route %s), command #%d %s(%d), channel %d (leaseholder %d): %s; acks dist=%v single=%v",
						it.Gateway, route, ci, cmd.Op, cmd.Arg, key, key.Leaseholder(), describe(dg[key], rg[key]), dOK, rOK))
				return true
			}
		}
	}
	if !closeIt() {
		return false
	}
	return k.fullRead(ctx, it, keys, bounds, route)
}

// fullRead does the canonical full traversal (SeekFirst, then Next(max) until false)
// through the gateway, on the single-node store, and compares both with the model.
func (k *kase) fullRead(ctx context.Context, it iterSpec, keys channel.Keys, bounds telem.TimeRange, route string) bool {
	var (
		di  *iterator.Iterator
		err error
		acc frame.Frame
	)
	// The same loop cesium.DB.Read runs on a single node. acks records what the loop saw.
	var acks []bool
	k.doing = fmt.Sprintf("full read through node %d route %s", it.Gateway, route)
	ok := k.guard("full-read", func() {
		di, err = k.node(it.Gateway).Framer.OpenIterator(ctx, iterator.Config{Keys: keys, Bounds: bounds})
		if err != nil {
			return
		}
		a := di.SeekFirst()
		acks = append(acks, a)
		if a {
			for {
				a = di.Next(telem.TimeSpanMax)
				acks = append(acks, a)
				if !a {
					break
				}
				acc = frame.Frame{Frame: acc.Frame.Extend(di.Value().Frame)}
			}
		}
		err = di.Close()
	})
	if !ok {
		return false
	}
	if err != nil {
		k.h.Inconclusive("dist-full-read-failed")
		fmt.Printf("NOTE: C07 case %d: full read through node %d failed: %v\n", k.c, it.Gateway, err)
		return false
	}
	rf, rerr := k.ref.Read(ctx, bounds, keys.Storage()...)
	if rerr != nil {
		panic(fmt.Sprintf("reference read failed: %v", rerr))
	}
	dg := collect(keys, func(key channel.Key) telem.MultiSeries { return acc.Get(key) })
	rg := collect(keys, func(key channel.Key) telem.MultiSeries { return rf.Get(uint32(key)) })
	for _, key := range keys {
		if k.polluted[key] {
			continue
		}
		want := k.modelValues(key, int64(bounds.Start), int64(bounds.End))
		k.h.Count("full_reads_compared", 1)
		switch {
		case !sameSamples(dg[key], rg[key]):
			where := "peer"
			if key.Leaseholder() == node.Key(it.Gateway) {
				where = "gateway"
			}
			k.pollute(key)
			if cl := classify(dg[key], rg[key]); strings.HasPrefix(cl, "missing") && len(keys.UniqueLeaseholders()) > 1 {
				// Which step of the read loop ended it? (single node: SeekFirst true, Next true, Next false)
				stage := "next"
				if len(acks) == 1 {
					stage = "seek-first"
				}
				k.violate("c07:ack-driven-read-loop-loses-samples:"+stage+"-returned-false",
					fmt.Sprintf("the SeekFirst/Next(max) read loop through node %d (route %s, bounds [%d,%d)) saw acks %v and so returned %d of the %d samples of channel %d (leaseholder %d, %s of the iterator) that the single-node store returns with the same loop",
						it.Gateway, route, bounds.Start, bounds.End, acks, len(dg[key]), len(rg[key]), key, key.Leaseholder(), where))
				continue
			}
			k.violate(fmt.Sprintf("c07:full-read-differs-from-single-node:%s:%s-channel", classify(dg[key], rg[key]), where),
				fmt.Sprintf("full read of channel %d (leaseholder %d) through node %d (route %s) bounds [%d,%d): %s",
					key, key.Leaseholder(), it.Gateway, route, bounds.Start, bounds.End, describe(dg[key], rg[key])))
		case !sameSamples(rg[key], want):
			// cluster and single-node store agree with each other but not with the model: that
			// is a question about cesium itself (C01), not about location transparency.
			k.h.Inconclusive("single-node-reference-disagrees-with-model")
			fmt.Printf("NOTE: C07 case %d: channel %d bounds [%d,%d): cluster and single-node store agree (%d samples) but the model expects %d\n",
				k.c, key, bounds.Start, bounds.End, len(rg[key]), len(want))
		default:
			if len(want) > 0 && (key.Leaseholder() != node.Key(it.Gateway) || k.spec.Nodes == 1) {
				k.nontriv = true
			}
		}
	}
	return true
}

// checkPlacement: every channel lives in its leaseholder's engine and in no other.
func (k *kase) checkPlacement(ctx context.Context) {
	for _, gs := range k.spec.Groups {
		chans := append([]chanSpec{gs.Index}, gs.Data...)
		for _, cs := range chans {
			key := channel.Key(cs.Key)
			for n := 1; n <= k.spec.Nodes; n++ {
				_, err := k.node(uint16(n)).Storage.TS.RetrieveChannel(ctx, cs.Key)
				k.h.Count("placement_probes", 1)
				if node.Key(n) == key.Leaseholder() && err != nil {
					k.violate("c07:channel-missing-in-leaseholder-engine", fmt.Sprintf("channel %d not in node %d's engine: %v", key, n, err))
				}
				if node.Key(n) != key.Leaseholder() && err == nil {
					k.violate("c07:channel-in-foreign-engine", fmt.Sprintf("channel %d (leaseholder %d) also exists in node %d's engine", key, key.Leaseholder(), n))
				}
			}
		}
	}
	for _, fs := range k.spec.Free {
		for n := 1; n <= k.spec.Nodes; n++ {
			if _, err := k.node(uint16(n)).Storage.TS.RetrieveChannel(ctx, fs.Key); err == nil {
				k.violate("c07:free-channel-in-engine", fmt.Sprintf("free channel %d exists in node %d's engine", fs.Key, n))
			}
		}
	}
}

// checkUnknownKeys: opening a writer or an iterator on a channel that does not exist fails.
func (k *kase) checkUnknownKeys(ctx context.Context) {
	via := k.spec.UnknownVia
	g0 := k.spec.Groups[0]
	valid := channel.Keys{channel.Key(g0.Index.Key), channel.Key(g0.Data[0].Key)}
	// a channel that existed and was deleted
	del := channel.Channel{Name: fmt.Sprintf("c%d_gone", k.c), DataType: telem.TimeStampT, IsIndex: true, Leaseholder: node.Key(g0.Lease)}
	unknown := map[string]channel.Key{
		"never-created-on-leaseholder": channel.NewKey(node.Key(g0.Lease), 70000+channel.LocalKey(k.c%1000)),
		"never-created-on-gateway":     channel.NewKey(node.Key(via), 71000+channel.LocalKey(k.c%1000)),
		"never-created-free":           channel.NewKey(node.KeyFree, 72000+channel.LocalKey(k.c%1000)),
	}
	if err := k.node(via).Channel.Create(ctx, &del); err == nil {
		if err := k.node(via).Channel.Delete(ctx, del.Key(), false); err == nil {
			deadline := time.Now().Add(visibilityWatchdog)
			gone := false
			for !gone && time.Now().Before(deadline) {
				gone = true
				for n := 1; n <= k.spec.Nodes; n++ {
					var got []channel.Channel
					if err := k.node(uint16(n)).Channel.NewRetrieve().Where(channel.MatchKeys(del.Key())).Entries(&got).Exec(ctx, nil); err == nil && len(got) > 0 {
						gone = false
					}
				}
				if !gone {
					time.Sleep(2 * time.Millisecond)
				}
			}
			if gone {
				unknown["deleted"] = del.Key()
			} else {
				k.h.Inconclusive("deleted-channel-still-listed-on-some-node")
			}
		}
	}
	names := make([]string, 0, len(unknown))
	for nm := range unknown {
		names = append(names, nm)
	}
	sort.Strings(names)
	for _, nm := range names {
		bad := unknown[nm]
		for _, mix := range []string{"alone", "with-valid"} {
			keys := channel.Keys{bad}
			if mix == "with-valid" {
				keys = append(append(channel.Keys{}, valid...), bad)
			}
			k.h.Count("unknown_key_opens", 2)
			var (
				w    *writer.Writer
				it   *iterator.Iterator
				werr error
				ierr error
			)
			if !k.guard("OpenWriter(unknown)", func() {
				w, werr = k.node(via).Framer.OpenWriter(ctx, writer.Config{Keys: keys, Start: telem.TimeStamp(900 * windowWidth)})
				if werr == nil {
					_ = w.Close()
				}
			}) {
				return
			}
			listed := func() bool {
				var got []channel.Channel
				err := k.node(via).Channel.NewRetrieve().Where(channel.MatchKeys(bad)).Entries(&got).Exec(ctx, nil)
				return err == nil && len(got) > 0
			}
			if (werr == nil) && listed() {
				// The gateway's metadata lists the channel (again): seen for deleted channels
				// whose tombstone was overtaken by a stale gossip message. Not an open on a
				// channel the gateway knows not to exist.
				k.h.Inconclusive("deleted-channel-metadata-reappeared-on-gateway")
				fmt.Printf("NOTE: C07 case %d: node %d lists channel %d (%s) again after every node had stopped listing it\n", k.c, via, bad, nm)
				return
			}
			if werr == nil && nm == "deleted" {
				// Not listed now, but was the open decided on a transient reappearance of the
				// deleted channel's metadata (stale gossip)? Ask again.
				var w2 *writer.Writer
				var werr2 error
				if !k.guard("OpenWriter(unknown, again)", func() {
					w2, werr2 = k.node(via).Framer.OpenWriter(ctx, writer.Config{Keys: keys, Start: telem.TimeStamp(901 * windowWidth)})
					if werr2 == nil {
						_ = w2.Close()
					}
				}) {
					return
				}
				if werr2 != nil {
					k.h.Inconclusive("deleted-channel-metadata-flickered-on-gateway")
					fmt.Printf("NOTE: C07 case %d: OpenWriter on deleted channel %d through node %d succeeded once and failed when repeated (%v); the node did not list the channel before or after\n", k.c, bad, via, werr2)
					return
				}
			}
			if werr == nil {
				k.violate("c07:open-writer-succeeds-on-missing-channel:"+nm+":"+mix,
					fmt.Sprintf("OpenWriter through node %d with keys %v succeeded although channel %d does not exist (%s)", via, keys, bad, nm))
			}
			if !k.guard("OpenIterator(unknown)", func() {
				it, ierr = k.node(via).Framer.OpenIterator(ctx, iterator.Config{Keys: keys, Bounds: telem.TimeRangeMax})
				if ierr == nil {
					_ = it.Close()
				}
			}) {
				return
			}
			if ierr == nil && listed() {
				k.h.Inconclusive("deleted-channel-metadata-reappeared-on-gateway")
				return
			}
			if ierr == nil && nm == "deleted" {
				var it2 *iterator.Iterator
				var ierr2 error
				if !k.guard("OpenIterator(unknown, again)", func() {
					it2, ierr2 = k.node(via).Framer.OpenIterator(ctx, iterator.Config{Keys: keys, Bounds: telem.TimeRangeMax})
					if ierr2 == nil {
						_ = it2.Close()
					}
				}) {
					return
				}
				if ierr2 != nil {
					k.h.Inconclusive("deleted-channel-metadata-flickered-on-gateway")
					return
				}
			}
			if ierr == nil {
				k.violate("c07:open-iterator-succeeds-on-missing-channel:"+nm+":"+mix,
					fmt.Sprintf("OpenIterator through node %d with keys %v succeeded although channel %d does not exist (%s)", via, keys, bad, nm))
			}
		}
	}
	_ = strings.TrimSpace
}
