package main

import (
	"encoding/binary"
	"fmt"
	"sort"
	"strings"

	"github.com/synnaxlabs/x/telem"
	"verif/lib/prng"
)

// ---- case specification (everything here is a pure function of the PRNG) ------------

type chanSpec struct {
	Name     string `json:"name"`
	DataType string `json:"data_type"`
	Key      uint32 `json:"key,omitempty"` // filled in after creation
}

type groupSpec struct {
	Lease     uint16     `json:"lease"`
	CreateVia uint16     `json:"create_via"`
	Index     chanSpec   `json:"index"`
	Data      []chanSpec `json:"data"`
}

type frameSpec struct {
	Groups      []int     `json:"groups"`              // indices into sessionSpec.Groups
	Rows        [][]int64 `json:"rows"`                // per entry of Groups: the index timestamps written
	FreeLens    []int     `json:"free_lens,omitempty"` // per entry of sessionSpec.Free: series length (0 = absent)
	CommitAfter bool      `json:"commit_after,omitempty"`
	Build       buildSpec `json:"build"`
}

// buildSpec says how the frame object handed to Write is assembled. What the frame MEANS
// (Groups/Rows/FreeLens above) is the same in every mode; the modes differ in what else
// sits in the frame's raw key/series slices behind the exclusion mask.
//
//	plain            only the intended series, appended one by one
//	keep             wide frame (intended + decoys), narrowed with KeepKeys(intended keys)
//	exclude          wide frame, narrowed with ExcludeKeys(decoy keys)
//	exclude-keep     ExcludeKeys(some decoys) then KeepKeys(intended keys)
//	keep-exclude     KeepKeys(intended + some decoys) then ExcludeKeys(those decoys)
//	masked-append    decoy occurrences of the intended keys (and the decoys) all masked out,
//	                 then the intended series appended: repeated keys, first occurrence masked
//	extend           two narrowed frames joined with Extend
//	huge             as keep, but with the decoys repeated to >= 128 raw series (KeepKeys then
//	                 copies instead of masking)
//
// Decoy series carry rows that the session never writes: if a leaseholder stores one, its
// engine holds samples the single-node store given the same frame does not.
type buildSpec struct {
	Mode               string `json:"mode"`
	DecoySessionGroups []int  `json:"decoy_session_groups,omitempty"` // indices into sessionSpec.Groups: in the writer, not in this frame
	DecoyOtherGroups   []int  `json:"decoy_other_groups,omitempty"`   // indices into caseSpec.Groups: not in the writer at all
	DecoyFree          []int  `json:"decoy_free,omitempty"`           // indices into caseSpec.Free
	DecoyRows          int    `json:"decoy_rows,omitempty"`
	DecoyFirst         bool   `json:"decoy_first,omitempty"`
}

type sessionSpec struct {
	Gateway     uint16      `json:"gateway"`
	Groups      []int       `json:"groups"`   // indices into topo.Groups
	DataSel     [][]int     `json:"data_sel"` // per entry of Groups: which data channels take part
	Free        []int       `json:"free,omitempty"`
	Start       int64       `json:"start"`
	AutoCommit  bool        `json:"auto_commit"`
	Sync        bool        `json:"sync"`
	Frames      []frameSpec `json:"frames"`
	FinalCommit bool        `json:"final_commit"`
	Sabotage    *sabotage   `json:"sabotage,omitempty"`
}

// sabotage pre-writes one conflicting row directly into the victim leaseholder's engine
// inside the session's time window, so that this leaseholder cannot commit the session.
type sabotage struct {
	Group int   `json:"group"` // index into sessionSpec.Groups
	At    int64 `json:"at"`
}

type chanRef struct {
	Group int `json:"g"`
	Data  int `json:"d"` // -1 = the group's index channel
}

type iterCmd struct {
	Op  string `json:"op"` // seek-first seek-last seek-ge seek-le next prev next-auto prev-auto valid
	Arg int64  `json:"arg,omitempty"`
	// set-bounds: the new range is [Arg, Arg2)
	Arg2 int64 `json:"arg2,omitempty"`
}

type iterSpec struct {
	Gateway uint16    `json:"gateway"`
	Chans   []chanRef `json:"chans"`
	Lo      int64     `json:"lo"`
	Hi      int64     `json:"hi"`
	Chunk   int64     `json:"chunk"`
	Cmds    []iterCmd `json:"cmds"`
}

type caseSpec struct {
	Nodes      int           `json:"nodes"`
	Groups     []groupSpec   `json:"groups"`
	Free       []chanSpec    `json:"free,omitempty"`
	FreeVia    uint16        `json:"free_via,omitempty"`
	Sessions   []sessionSpec `json:"sessions"`
	Iters      [][]iterSpec  `json:"iters"` // Iters[i] run after session i
	UnknownVia uint16        `json:"unknown_via"`
}

var (
	fixedTypes = []string{"float64", "int64", "float32", "uint8", "int32", "uint16"}
	varTypes   = []string{"string", "json"}
)

const (
	windowWidth = int64(1_000_000_000)
	maxIncr     = 1_000_000
	minIncr     = 10 // rows of a group are at least this far apart; decoy rows sit in the gaps
)



func genCase(r *prng.R, c int) caseSpec {
	cs := caseSpec{}
	switch x := r.Intn(10); {
	case x < 2:
		cs.Nodes = 1
	case x < 5:
		cs.Nodes = 2
	default:
		cs.Nodes = 3
	}
	node := func() uint16 { return uint16(1 + r.Intn(cs.Nodes)) }
	nGroups := r.Range(1, 3)
	for g := 0; g < nGroups; g++ {
		gs := groupSpec{Lease: node(), CreateVia: node(),
			Index: chanSpec{Name: fmt.Sprintf("c%d_g%d_idx", c, g), DataType: "timestamp"}}
		for d := 0; d < r.Range(1, 3); d++ {
			dt := prng.Pick(r, fixedTypes)
			if r.Chance(1, 4) {
				dt = prng.Pick(r, varTypes)
			}
			gs.Data = append(gs.Data, chanSpec{Name: fmt.Sprintf("c%d_g%d_d%d", c, g, d), DataType: dt})
		}
		cs.Groups = append(cs.Groups, gs)
	}
	for f := 0; f < r.Intn(3); f++ {
		cs.Free = append(cs.Free, chanSpec{Name: fmt.Sprintf("c%d_free%d", c, f), DataType: prng.Pick(r, fixedTypes)})
	}
	cs.FreeVia = node()
	cs.UnknownVia = node()

	nSessions := r.Range(2, 5)
	windows := make([]int, nSessions)
	for i := range windows {
		windows[i] = i + 1
	}
	prng.Shuffle(r, windows) // sessions are not issued in time order
	for s := 0; s < nSessions; s++ {
		ss := genSession(r, cs, windows[s])
		cs.Sessions = append(cs.Sessions, ss)
	}
	// an optional final sabotaged session in its own window
	if r.Chance(1, 2) {
		ss := genSession(r, cs, nSessions+2)
		ss.AutoCommit = r.Chance(1, 3)
		ss.FinalCommit = true
		// every group takes part, every frame covers every group (so that nothing but
		// the sabotage stands between the session and its commit)
		ss.Groups, ss.DataSel = nil, nil
		for g := range cs.Groups {
			ss.Groups = append(ss.Groups, g)
			var sel []int
			for d := range cs.Groups[g].Data {
				sel = append(sel, d)
			}
			ss.DataSel = append(ss.DataSel, sel)
		}
		ss.Frames = nil
		cursor := make([]int64, len(ss.Groups))
		for f := 0; f < r.Range(1, 4); f++ {
			fs := frameSpec{}
			for i := range ss.Groups {
				rows := make([]int64, r.Range(1, 4))
				for j := range rows {
					cursor[i] += int64(r.Range(minIncr, maxIncr))
					rows[j] = ss.Start + cursor[i]
				}
				fs.Groups = append(fs.Groups, i)
				fs.Rows = append(fs.Rows, rows)
			}
			for range ss.Free {
				fs.FreeLens = append(fs.FreeLens, 0)
			}
			ss.Frames = append(ss.Frames, fs)
		}
		victim := r.Intn(len(ss.Groups))
		if r.Bool() {
			// the victim's own node as gateway: its refusal is then the first response
			ss.Gateway = cs.Groups[ss.Groups[victim]].Lease
		}
		var last int64 = -1
		for _, fr := range ss.Frames {
			for i, gi := range fr.Groups {
				if gi == victim && len(fr.Rows[i]) > 0 {
					last = fr.Rows[i][len(fr.Rows[i])-1]
				}
			}
		}
		if last >= 0 {
			ss.Sabotage = &sabotage{Group: victim, At: last}
			cs.Sessions = append(cs.Sessions, ss)
		}
	}
	// iterator scripts after each session (more after the last regular one)
	for s := range cs.Sessions {
		var its []iterSpec
		n := 1
		if s == nSessions-1 {
			n = 4
		}
		if cs.Sessions[s].Sabotage != nil {
			n = 0
		}
		for i := 0; i < n; i++ {
			its = append(its, genIter(r, cs, s))
		}
		cs.Iters = append(cs.Iters, its)
	}
	return cs
}

func genSession(r *prng.R, cs caseSpec, window int) sessionSpec {
	ss := sessionSpec{
		Gateway:     uint16(1 + r.Intn(cs.Nodes)),
		Start:       int64(window) * 10 * windowWidth,
		AutoCommit:  r.Bool(),
		Sync:        r.Chance(2, 3),
		FinalCommit: r.Chance(4, 5),
	}
	// groups taking part: a non-empty subset
	for g := range cs.Groups {
		if r.Chance(2, 3) {
			ss.Groups = append(ss.Groups, g)
		}
	}
	if len(ss.Groups) == 0 {
		ss.Groups = []int{r.Intn(len(cs.Groups))}
	}
	for _, g := range ss.Groups {
		var sel []int
		for d := range cs.Groups[g].Data {
			if r.Chance(3, 4) {
				sel = append(sel, d)
			}
		}
		ss.DataSel = append(ss.DataSel, sel)
	}
	for f := range cs.Free {
		if r.Chance(1, 2) {
			ss.Free = append(ss.Free, f)
		}
	}
	cursor := make([]int64, len(ss.Groups))
	for i := range cursor {
		cursor[i] = ss.Start
		if r.Bool() {
			cursor[i] += int64(r.Range(minIncr, maxIncr))
		}
	}
	nFrames := r.Range(1, 6)
	for f := 0; f < nFrames; f++ {
		fs := frameSpec{}
		// A frame may cover any subset of the session's groups (legal on a single-node store).
		for i := range ss.Groups {
			if !r.Chance(3, 4) {
				continue
			}
			n := r.Range(1, 5)
			rows := make([]int64, n)
			for k := range rows {
				rows[k] = cursor[i]
				cursor[i] += int64(r.Range(minIncr, maxIncr))
			}
			fs.Groups = append(fs.Groups, i)
			fs.Rows = append(fs.Rows, rows)
		}
		for range ss.Free {
			if r.Bool() {
				fs.FreeLens = append(fs.FreeLens, r.Range(1, 4))
			} else {
				fs.FreeLens = append(fs.FreeLens, 0)
			}
		}
		if !ss.AutoCommit && r.Chance(1, 3) {
			fs.CommitAfter = true
		}
		fs.Build = genBuild(r, cs, ss, fs)
		ss.Frames = append(ss.Frames, fs)
	}
	return ss
}

// genBuild picks how the frame object is assembled (see buildSpec).
func genBuild(r *prng.R, cs caseSpec, ss sessionSpec, fs frameSpec) buildSpec {
	b := buildSpec{Mode: "plain", DecoyRows: r.Range(1, 3), DecoyFirst: r.Bool()}
	if r.Chance(2, 5) {
		return b
	}
	inFrame := map[int]bool{}
	for _, gi := range fs.Groups {
		inFrame[gi] = true
	}
	inSession := map[int]bool{}
	for i, g := range ss.Groups {
		inSession[g] = true
		// a whole group of the writer that this frame leaves out (often a whole leaseholder)
		if !inFrame[i] && r.Chance(3, 4) {
			b.DecoySessionGroups = append(b.DecoySessionGroups, i)
		}
	}
	for g := range cs.Groups {
		if !inSession[g] && r.Chance(1, 2) {
			b.DecoyOtherGroups = append(b.DecoyOtherGroups, g)
		}
	}
	intendedFree := map[int]bool{}
	for i, n := range fs.FreeLens {
		if n > 0 {
			intendedFree[ss.Free[i]] = true
		}
	}
	for f := range cs.Free {
		if !intendedFree[f] && r.Chance(1, 2) {
			b.DecoyFree = append(b.DecoyFree, f)
		}
	}
	hasDecoys := len(b.DecoySessionGroups)+len(b.DecoyOtherGroups)+len(b.DecoyFree) > 0
	modes := []string{"masked-append"}
	if hasDecoys {
		modes = []string{"keep", "keep", "exclude", "exclude", "exclude-keep", "keep-exclude", "masked-append", "extend", "extend"}
		if r.Chance(1, 25) {
			modes = []string{"huge"}
		}
	}
	b.Mode = prng.Pick(r, modes)
	return b
}

// timestampsUpTo lists every index timestamp the regular sessions 0..upTo write (used to
// aim seeks and bounds at interesting places).
func timestampsUpTo(cs caseSpec, upTo int) []int64 {
	var ts []int64
	for s := 0; s <= upTo && s < len(cs.Sessions); s++ {
		for _, fr := range cs.Sessions[s].Frames {
			for _, rows := range fr.Rows {
				ts = append(ts, rows...)
			}
		}
	}
	sort.Slice(ts, func(i, j int) bool { return ts[i] < ts[j] })
	return ts
}

func genIter(r *prng.R, cs caseSpec, after int) iterSpec {
	it := iterSpec{Gateway: uint16(1 + r.Intn(cs.Nodes)), Chunk: int64(r.Range(1, 7))}
	for g, gs := range cs.Groups {
		if r.Chance(1, 2) {
			it.Chans = append(it.Chans, chanRef{g, -1})
		}
		for d := range gs.Data {
			if r.Chance(1, 2) {
				it.Chans = append(it.Chans, chanRef{g, d})
			}
		}
	}
	if len(it.Chans) == 0 {
		g := r.Intn(len(cs.Groups))
		it.Chans = []chanRef{{g, r.Range(-1, len(cs.Groups[g].Data)-1)}}
	}
	ts := timestampsUpTo(cs, after)
	pickT := func() int64 {
		if len(ts) == 0 || r.Chance(1, 6) {
			return int64(r.Range(0, 80)) * windowWidth
		}
		return prng.Pick(r, ts) + int64(r.Range(-1, 1))
	}
	if r.Chance(1, 2) {
		it.Lo, it.Hi = int64(telem.TimeStampMin), int64(telem.TimeStampMax)
	} else {
		a, b := pickT(), pickT()
		if a > b {
			a, b = b, a
		}
		it.Lo, it.Hi = a, b+1
	}
	spans := []int64{1, 1000, maxIncr, 3 * maxIncr, windowWidth, 20 * windowWidth}
	seeks := []string{"seek-first", "seek-last", "seek-ge", "seek-le"}
	it.Cmds = append(it.Cmds, iterCmd{Op: prng.Pick(r, seeks), Arg: pickT()})
	for i := 0; i < r.Range(5, 18); i++ {
		switch x := r.Intn(100); {
		case x < 5:
			// new bounds on the open iterator, then a seek (as after opening)
			a, b := pickT(), pickT()
			if a > b {
				a, b = b, a
			}
			if r.Chance(1, 4) {
				a, b = int64(telem.TimeStampMin), int64(telem.TimeStampMax)-1
			}
			it.Cmds = append(it.Cmds, iterCmd{Op: "set-bounds", Arg: a, Arg2: b + 1}, iterCmd{Op: prng.Pick(r, seeks), Arg: pickT()})
		case x < 12:
			it.Cmds = append(it.Cmds, iterCmd{Op: prng.Pick(r, seeks), Arg: pickT()})
		case x < 40:
			it.Cmds = append(it.Cmds, iterCmd{Op: "next", Arg: prng.Pick(r, spans)})
		case x < 55:
			it.Cmds = append(it.Cmds, iterCmd{Op: "prev", Arg: prng.Pick(r, spans)})
		case x < 80:
			it.Cmds = append(it.Cmds, iterCmd{Op: "next-auto"})
		case x < 92:
			it.Cmds = append(it.Cmds, iterCmd{Op: "prev-auto"})
		default:
			it.Cmds = append(it.Cmds, iterCmd{Op: "valid"})
		}
	}
	return it
}

// shape is the normalised key of a case for distinct counting.
func (cs caseSpec) shape() string {
	var b strings.Builder
	fmt.Fprintf(&b, "n%d|", cs.Nodes)
	for _, g := range cs.Groups {
		fmt.Fprintf(&b, "g@%d via%d:", g.Lease, g.CreateVia)
		for _, d := range g.Data {
			fmt.Fprintf(&b, "%s,", d.DataType)
		}
		b.WriteString("|")
	}
	fmt.Fprintf(&b, "free%d|", len(cs.Free))
	for _, s := range cs.Sessions {
		fmt.Fprintf(&b, "s@%d g%v d%v f%v ac%v sy%v fc%v sab%v:", s.Gateway, s.Groups, s.DataSel, s.Free, s.AutoCommit, s.Sync, s.FinalCommit, s.Sabotage != nil)
		for _, f := range s.Frames {
			fmt.Fprintf(&b, "%v", f.Groups)
			for _, rows := range f.Rows {
				fmt.Fprintf(&b, "x%d", len(rows))
			}
			fmt.Fprintf(&b, "%v%v %s d%v/%v/%v;", f.FreeLens, f.CommitAfter, f.Build.Mode, f.Build.DecoySessionGroups, f.Build.DecoyOtherGroups, f.Build.DecoyFree)
		}
		b.WriteString("|")
	}
	for _, its := range cs.Iters {
		for _, it := range its {
			fmt.Fprintf(&b, "i@%d %v c%d full%v:", it.Gateway, it.Chans, it.Chunk, it.Lo == int64(telem.TimeStampMin))
			for _, c := range it.Cmds {
				b.WriteString(c.Op + ",")
			}
		}
	}
	return b.String()
}

// ---- sample values ------------------------------------------------------------------

// valueOf is the value written to data channel d of group g at index timestamp ts.
func valueOf(dt telem.DataType, g, d int, ts int64) []byte {
	seed := uint64(ts)*2654435761 + uint64(g)*97 + uint64(d)*13 + 1
	if dt.IsVariable() {
		n := int(seed % 9)
		s := fmt.Sprintf("g%dd%d@%d", g, d, ts)
		if dt == telem.JSONT {
			return []byte(fmt.Sprintf(`{"v":"%s","p":"%s"}`, s, strings.Repeat("x", n)))
		}
		return []byte(s + strings.Repeat("~", n))
	}
	den := int(dt.Density())
	b := make([]byte, 8)
	binary.LittleEndian.PutUint64(b, seed)
	if dt == telem.Float64T || dt == telem.Float32T {
		// keep floats finite so that series stringers used in error messages stay readable
		b[7] &= 0x3f
		b[3] &= 0x3f
	}
	return b[:den]
}

func tsBytes(ts int64) []byte {
	b := make([]byte, 8)
	binary.LittleEndian.PutUint64(b, uint64(ts))
	return b
}

// seriesOf builds a series of the given type from per-sample byte values.
func seriesOf(dt telem.DataType, samples [][]byte) telem.Series {
	var data []byte
	for _, s := range samples {
		if dt.IsVariable() {
			data = append(data, telem.MarshalVariableSample(s)...)
		} else {
			data = append(data, s...)
		}
	}
	if data == nil {
		data = []byte{}
	}
	return telem.Series{DataType: dt, Data: data}
}
