package main

// NOTE: exploration only, not registered in main(); see the comment there.

import (
	"context"
	"fmt"
	"os"
	"runtime"
	"sync"
	"sync/atomic"
	"time"

	"github.com/synnaxlabs/cesium/verifx"
	xfs "github.com/synnaxlabs/x/io/fs"
	"github.com/synnaxlabs/x/telem"
	"verif/lib/harness"
	"verif/lib/recfs"
	"verif/lib/stall"
)

// fdlimit: one domain DB whose file-descriptor budget (MaxDescriptors 2..4) is smaller
// than the number of goroutines that want a file at once: writers on End-bounded disjoint
// regions and readers of committed regions queue for descriptors and are woken by each
// other's releases. Every operation must return (state-based stall verdict), and the
// final content must be every committed region, in memory and after reopen.
func fdlimit(h *harness.H) {
	h.AddRule("fdlimit: per run one domain.DB (via verifx) with MaxDescriptors in {2,3,4} and file size cap in {1B, 64B, 1GiB}; 3-5 goroutines x 3-6 rounds of OpenWriter(End-bounded disjoint region)/Write/Commit/Close interleaved with reads of regions committed earlier; yields injected at filesystem calls; non-trivial = >= 10 writer sessions completed; distinct by completion order")
	n := h.N(150, 6000)
	for c := 0; c < n; c++ {
		if h.Skip("fdlimit", c) {
			continue
		}
		runtime.GOMAXPROCS([]int{2, 4, 16}[c%3])
		if !fdOne(h, c) {
			break
		}
	}
	runtime.GOMAXPROCS(16)
}

func fdOne(h *harness.H, c int) bool {
	r := h.Rand("fdlimit", c)
	h.Eval()
	rfs, log := recfs.New(xfs.NewMem())
	seed := r.U64()
	var inj atomic.Uint64
	log.Inject = func(call, path string) {
		x := inj.Add(1)
		if v := (x*0x9E3779B97F4A7C15 ^ seed) >> 40 % 100; v < 6 {
			runtime.Gosched()
		}
	}
	ctx := context.Background()
	maxFD := r.Range(2, 4)
	fileSize := []int64{1, 64, 1 << 30}[r.Intn(3)]
	open := func() (*verifx.DomainDB, error) {
		return verifx.OpenDomain(verifx.DomainConfig{FS: rfs, MaxDescriptors: maxFD, FileSize: telem.Size(fileSize), GCThreshold: 0.2})
	}
	db, err := open()
	if err != nil {
		h.Inconclusive("fdlimit-open-error")
		return true
	}
	G := r.Range(3, 5)
	rounds := r.Range(3, 6)
	type region struct {
		start, end int64
		data       []byte
	}
	var mu sync.Mutex
	var committed []region
	var order []string
	var errs []string
	var wg sync.WaitGroup
	var sessions atomic.Int64
	for g := 0; g < G; g++ {
		g := g
		gseed := r.U64()
		wg.Add(1)
		go func() {
			defer wg.Done()
			x := gseed
			next := func(n int) int {
				x = x*6364136223846793005 + 1442695040888963407
				return int((x >> 33) % uint64(n))
			}
			for k := 0; k < rounds; k++ {
				start := int64(1000 + (g*rounds+k)*100)
				end := start + 90
				w, err := db.OpenWriter(ctx, verifx.DomainWriterConfig{Start: telem.TimeStamp(start), End: telem.TimeStamp(end)})
				if err != nil {
					mu.Lock()
					errs = append(errs, "OpenWriter: "+err.Error())
					mu.Unlock()
					continue
				}
				data := []byte(fmt.Sprintf("g%02dk%02d-%x;", g, k, x))
				for i := next(3); i > 0; i-- {
					data = append(data, data...)
				}
				_, werr := w.Write(data)
				cerr := w.Commit(ctx, telem.TimeStamp(end))
				clerr := w.Close()
				if werr != nil || cerr != nil || clerr != nil {
					mu.Lock()
					errs = append(errs, fmt.Sprintf("write=%v commit=%v close=%v", werr, cerr, clerr))
					mu.Unlock()
					continue
				}
				sessions.Add(1)
				mu.Lock()
				committed = append(committed, region{start, end, data})
				order = append(order, fmt.Sprintf("w%d.%d", g, k))
				var pick *region
				if len(committed) > 0 && next(2) == 0 {
					p := committed[next(len(committed))]
					pick = &p
				}
				mu.Unlock()
				if pick != nil {
					b, rerr := verifx.DomainRead(ctx, db, telem.TimeRange{Start: telem.TimeStamp(pick.start), End: telem.TimeStamp(pick.end)})
					if rerr != nil {
						mu.Lock()
						errs = append(errs, "read: "+rerr.Error())
						mu.Unlock()
					} else if string(b) != string(pick.data) {
						h.Violation("fdlimit", c, "c09:fdlimit:committed-region-reads-back-differently:live", fmt.Sprintf("region [%d,%d) read back %d bytes %q, %d were committed %q", pick.start, pick.end, len(b), trunc(b), len(pick.data), trunc(pick.data)), map[string]any{"max_descriptors": maxFD, "file_size": fileSize})
					}
					mu.Lock()
					order = append(order, fmt.Sprintf("r%d", g))
					mu.Unlock()
				}
			}
		}()
	}
	done := make(chan struct{})
	go func() { wg.Wait(); close(done) }()
	select {
	case <-done:
	case <-time.After(60 * time.Second):
		v := stall.Judge("synnaxlabs/cesium", 5*time.Second)
		p := writeDump(10000+c, v.Dump)
		if v.Deadlock {
			h.Violation("fdlimit", c, "c09:fdlimit:deadlock:"+deadlockShape(v.Dump), fmt.Sprintf("MaxDescriptors=%d, %d goroutines: operations never returned; %s (dump %s)", maxFD, G, v.Reason, p), map[string]any{"max_descriptors": maxFD, "goroutines": G, "rounds": rounds, "dump": p})
		} else {
			h.Inconclusive("fdlimit-watchdog: " + v.Reason)
		}
		fmt.Printf("NOTE: C09 fdlimit run %d did not finish; remaining fdlimit runs skipped (dump %s)\n", c, p)
		return false
	}
	h.Count("fdlimit_writer_sessions", int(sessions.Load()))
	for _, e := range errs {
		h.Seen("fdlimit_unjudged_errors", cskitLetters(e))
	}
	check := func(phase string, d *verifx.DomainDB) {
		for _, reg := range committed {
			b, err := verifx.DomainRead(ctx, d, telem.TimeRange{Start: telem.TimeStamp(reg.start), End: telem.TimeStamp(reg.end)})
			h.Count("fdlimit_regions_compared", 1)
			if err != nil || string(b) != string(reg.data) {
				h.Violation("fdlimit", c, "c09:fdlimit:not-serializable:"+phase, fmt.Sprintf("committed region [%d,%d): read err=%v, %d bytes, %d were committed", reg.start, reg.end, err, len(b), len(reg.data)), map[string]any{"max_descriptors": maxFD, "file_size": fileSize})
				return
			}
		}
	}
	check("live", db)
	if err := db.Close(); err != nil {
		h.Violation("fdlimit", c, "c09:fdlimit:close-error", "domain DB Close after all operations returned failed: "+err.Error(), nil)
		return true
	}
	if db2, err := open(); err != nil {
		h.Violation("fdlimit", c, "c09:fdlimit:reopen-error", "reopen failed: "+err.Error(), nil)
	} else {
		check("reopened", db2)
		_ = db2.Close()
	}
	if sessions.Load() >= 10 {
		h.Distinct(fmt.Sprint(order))
	}
	if c < 2 {
		h.Sample(map[string]any{"layer": "fdlimit", "run": c, "max_descriptors": maxFD, "file_size": fileSize, "goroutines": G, "rounds": rounds, "sessions": sessions.Load(), "first_completions": first(order, 20)})
	}
	_ = os.Getenv
	return true
}

func cskitLetters(s string) string {
	out := make([]rune, 0, 60)
	for _, r := range s {
		if len(out) >= 60 {
			break
		}
		switch {
		case r >= 'a' && r <= 'z', r >= 'A' && r <= 'Z':
			out = append(out, r)
		case r == ' ' && len(out) > 0 && out[len(out)-1] != '-':
			out = append(out, '-')
		}
	}
	return string(out)
}

func trunc(b []byte) string {
	if len(b) > 120 {
		return string(b[:120])
	}
	return string(b)
}

var _ = fdlimit
