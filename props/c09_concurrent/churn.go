package main

import (
	"context"
	"fmt"
	"os"
	"runtime"
	"sort"
	"strings"
	"sync"
	"sync/atomic"
	"time"

	"github.com/anishathalye/porcupine"
	"github.com/synnaxlabs/cesium"
	xfs "github.com/synnaxlabs/x/io/fs"
	"github.com/synnaxlabs/x/telem"
	"verif/lib/harness"
	"verif/lib/prng"
	"verif/lib/recfs"
	"verif/lib/stall"
)

// churn: channel create / delete / retrieve by several goroutines on the SAME few keys
// (the `stress` layer's admin worker only uses keys of its own). Every create carries a
// unique name, so a retrieve identifies the create it observed. Recorded at the API
// boundary with one logical clock; each key's history must be linearizable against
// "absent | present(definition)" (porcupine), and what is left at the end must be usable
// (write, commit, read back) and identical after close and reopen. Filesystem renames are
// real suspension points: the recording filesystem sleeps there.

type churnIn struct {
	Op  string // create delete retrieve
	Def string // create: kind:name
}

type churnOut struct {
	OK  bool
	Def string // retrieve: kind:name, "" when not found
	Err string
}

var churnModel = porcupine.Model{
	Init: func() any { return "" },
	Step: func(state, input, output any) (bool, any) {
		st, in, out := state.(string), input.(churnIn), output.(churnOut)
		switch in.Op {
		case "create":
			if !out.OK {
				return true, st // a refused create changes nothing
			}
			return st == "", in.Def
		case "delete":
			if !out.OK {
				return true, st
			}
			return true, "" // deleting an absent channel succeeds too
		default:
			return out.Def == st, st
		}
	},
	DescribeOperation: func(input, output any) string {
		in, out := input.(churnIn), output.(churnOut)
		return fmt.Sprintf("%s(%s) -> ok=%v %s %s", in.Op, in.Def, out.OK, out.Def, out.Err)
	},
}

func defOf(ch cesium.Channel) string {
	kind := "virtual"
	if ch.IsIndex {
		kind = "index"
	}
	return kind + ":" + ch.Name
}

func churn(h *harness.H) {
	h.AddRule("churn: per run one DB on a recording MemFS that sleeps 0.2-1.5 ms at 70% of renames and yields at 3% of other filesystem calls; 4-6 goroutines x 24 operations on 3 shared channel keys: CreateChannel (index or virtual definition, unique name), DeleteChannel, RetrieveChannel, short OpenWriter/Close; per-key histories checked for linearizability (porcupine, 30 s per key, timeout = inconclusive); then every surviving index channel is written, committed and read back, and presence, definition and that sample are compared after close + reopen; GOMAXPROCS alternates 2/4/16; non-trivial = >= 20 successful creates+deletes; distinct by the sequence of successful operations")
	n := h.N(60, 2400)
	procs := []int{2, 4, 16}
	for c := 0; c < n; c++ {
		if h.Skip("churn", c) {
			continue
		}
		runtime.GOMAXPROCS(procs[c%len(procs)])
		churnOne(h, c)
	}
	runtime.GOMAXPROCS(16)
}

func churnOne(h *harness.H, c int) {
	const layer = "churn"
	r := h.Rand(layer, c)
	h.Eval()
	rfs, log := recfs.New(xfs.NewMem())
	seed := r.U64()
	var inj atomic.Uint64
	log.Inject = func(call, path string) {
		x := inj.Add(1)
		v := (x*0x9E3779B97F4A7C15 ^ seed) >> 40 % 100
		if call == "rename" {
			if v < 70 {
				time.Sleep(time.Duration(200+v*18) * time.Microsecond)
			}
			return
		}
		if v < 3 {
			runtime.Gosched()
		}
	}
	ctx := context.Background()
	open := func() (*cesium.DB, error) { return cesium.Open(ctx, "db", cesium.WithFS(rfs)) }
	db, err := open()
	if err != nil {
		h.Inconclusive("open-error")
		return
	}
	keys := []uint32{2000, 2001, 2002}
	var (
		clock atomic.Int64
		mu    sync.Mutex
		ops   []porcupine.Operation
		okSeq []string
	)
	record := func(w int, k uint32, in churnIn, call int64, out churnOut) {
		ret := clock.Add(1)
		mu.Lock()
		ops = append(ops, porcupine.Operation{ClientId: w, Input: keyed{k, in}, Output: out, Call: call, Return: ret})
		if out.OK && in.Op != "retrieve" {
			okSeq = append(okSeq, fmt.Sprintf("%s%d", in.Op[:1], k))
		}
		mu.Unlock()
	}
	retrieve := func(w int, k uint32) string {
		call := clock.Add(1)
		ch, err := db.RetrieveChannel(ctx, k)
		out := churnOut{OK: err == nil}
		if err == nil {
			out.Def = defOf(ch)
		} else {
			out.Err = err.Error()
		}
		record(w, k, churnIn{Op: "retrieve"}, call, out)
		return out.Def
	}
	nw := r.Range(4, 6)
	var wg sync.WaitGroup
	finished := make(chan struct{})
	for w := 0; w < nw; w++ {
		wg.Add(1)
		rr := prng.New(int64(seed), "churn-worker", w)
		go func(w int) {
			defer wg.Done()
			for i := 0; i < 24; i++ {
				k := prng.Pick(rr, keys)
				switch x := rr.Intn(100); {
				case x < 38:
					ch := cesium.Channel{Key: k, Name: fmt.Sprintf("w%d-%d", w, i), DataType: telem.Int64T, Virtual: true}
					if rr.Chance(2, 3) {
						ch = cesium.Channel{Key: k, Name: fmt.Sprintf("w%d-%d", w, i), DataType: telem.TimeStampT, IsIndex: true}
					}
					call := clock.Add(1)
					err := db.CreateChannel(ctx, ch)
					out := churnOut{OK: err == nil}
					if err != nil {
						out.Err = err.Error()
					}
					record(w, k, churnIn{Op: "create", Def: defOf(ch)}, call, out)
				case x < 68:
					call := clock.Add(1)
					err := db.DeleteChannel(k)
					out := churnOut{OK: err == nil}
					if err != nil {
						out.Err = err.Error()
					}
					record(w, k, churnIn{Op: "delete"}, call, out)
				case x < 92:
					retrieve(w, k)
				default:
					// an open writer makes a concurrent delete fail (no effect)
					wr, err := db.OpenWriter(ctx, cesium.WriterConfig{Channels: []cesium.ChannelKey{k}, Start: telem.TimeStamp(1 + w*1000 + i)})
					if err == nil {
						runtime.Gosched()
						_ = wr.Close()
					}
				}
			}
		}(w)
	}
	go func() { wg.Wait(); close(finished) }()
	select {
	case <-finished:
	case <-time.After(120 * time.Second):
		v := stall.Judge("synnaxlabs/cesium", 5*time.Second)
		dumpPath := writeDump(c, v.Dump)
		if v.Deadlock {
			h.Violation(layer, c, "c09:churn:deadlock:"+deadlockShape(v.Dump), "channel create/delete goroutines parked in channel/sync waits in two dumps 5 s apart: "+v.Reason+" (dump: "+dumpPath+")", map[string]any{"dump": dumpPath})
		} else {
			h.Inconclusive("churn-watchdog: " + v.Reason)
		}
		fmt.Printf("NOTE: C09 churn run %d did not finish within the watchdog; remaining runs skipped (dump %s)\n", c, dumpPath)
		os.Exit(h.Finish(0))
	}
	// quiescent observation of every key closes the histories
	final := map[uint32]string{}
	for _, k := range keys {
		final[k] = retrieve(99, k)
	}
	byKey := map[uint32][]porcupine.Operation{}
	for _, o := range ops {
		ki := o.Input.(keyed)
		o.Input = ki.in
		byKey[ki.k] = append(byKey[ki.k], o)
	}
	h.Count("churn_operations_recorded", len(ops))
	h.Count("churn_successful_creates_and_deletes", len(okSeq))
	for _, k := range keys {
		res, info := porcupine.CheckOperationsVerbose(churnModel, byKey[k], 30*time.Second)
		switch res {
		case porcupine.Ok:
			h.Count("churn_key_histories_linearizable", 1)
		case porcupine.Unknown:
			h.Inconclusive("churn-linearizability-timeout")
		default:
			hist := append([]porcupine.Operation{}, byKey[k]...)
			sort.Slice(hist, func(i, j int) bool { return hist[i].Call < hist[j].Call })
			var lines []string
			for _, o := range hist {
				lines = append(lines, fmt.Sprintf("[%d,%d] client %d %s", o.Call, o.Return, o.ClientId, churnModel.DescribeOperation(o.Input, o.Output)))
			}
			_ = info
			h.Violation(layer, c, "c09:churn:channel-history-not-linearizable",
				fmt.Sprintf("no serial order of the create/delete/retrieve operations on channel %d explains their results", k),
				map[string]any{"seed": seed, "key": k, "history": lines})
		}
	}
	// what is left must be usable, and the same after close + reopen
	sample := map[uint32]telem.TimeStamp{}
	for _, k := range keys {
		if !strings.HasPrefix(final[k], "index:") {
			continue
		}
		ts := telem.TimeStamp(5_000_000 + int64(k))
		err := func() error {
			wr, err := db.OpenWriter(ctx, cesium.WriterConfig{Channels: []cesium.ChannelKey{k}, Start: ts})
			if err != nil {
				return err
			}
			if _, err = wr.Write(telem.UnaryFrame[cesium.ChannelKey](k, telem.NewSeriesV(ts))); err != nil {
				_ = wr.Close()
				return err
			}
			if _, err = wr.Commit(); err != nil {
				_ = wr.Close()
				return err
			}
			return wr.Close()
		}()
		if err == nil {
			var fr cesium.Frame
			if fr, err = db.Read(ctx, telem.TimeRangeMax, k); err == nil && fr.Get(k).Len() != 1 {
				err = fmt.Errorf("read back %d samples, wrote 1", fr.Get(k).Len())
			}
		}
		if err != nil {
			h.Violation(layer, c, "c09:churn:channel-unusable-after-churn",
				fmt.Sprintf("channel %d (%s) exists after all operations returned but cannot be written and read: %v", k, final[k], err),
				map[string]any{"seed": seed, "key": k})
			continue
		}
		sample[k] = ts
		h.Count("churn_surviving_channels_written_and_read", 1)
	}
	if err := db.Close(); err != nil {
		h.Violation(layer, c, "c09:churn:close-error", "DB.Close after all operations returned failed: "+err.Error(), nil)
	}
	if db, err = open(); err != nil {
		h.Violation(layer, c, "c09:churn:reopen-error", "cesium.Open after close failed: "+err.Error(), map[string]any{"seed": seed})
	} else {
		for _, k := range keys {
			got := ""
			if ch, err := db.RetrieveChannel(ctx, k); err == nil {
				got = defOf(ch)
			}
			h.Count("churn_channels_compared_after_reopen", 1)
			if got != final[k] {
				h.Violation(layer, c, "c09:churn:channel-state-differs-after-reopen",
					fmt.Sprintf("channel %d was %q when the database was closed and is %q after reopen", k, final[k], got),
					map[string]any{"seed": seed, "key": k})
				continue
			}
			if _, ok := sample[k]; ok {
				fr, err := db.Read(ctx, telem.TimeRangeMax, k)
				if err != nil || fr.Get(k).Len() != 1 {
					h.Violation(layer, c, "c09:churn:sample-lost-after-reopen",
						fmt.Sprintf("channel %d: the sample committed before close reads back as %d samples (err %v) after reopen", k, fr.Get(k).Len(), err),
						map[string]any{"seed": seed, "key": k})
				}
			}
		}
		_ = db.Close()
	}
	if len(okSeq) >= 20 {
		h.Distinct("churn:" + strings.Join(okSeq, ","))
	}
	h.Seen("churn_interleavings", fmt.Sprint(hashStrings(okSeq)))
}

type keyed struct {
	k  uint32
	in churnIn
}
