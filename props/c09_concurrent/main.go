// C09 — Concurrent cesium use is race-free and serializable.
//
// One DB under many goroutines: cesium-level writers each on their own index+data group,
// unary-level writers on End-bounded disjoint regions of one shared channel, readers and
// iterators over ranges being written elsewhere, streamers connecting/disconnecting,
// DeleteTimeRange on groups whose writers have returned, synchronous GC passes, channel
// create/rename/delete on scratch channels, Metrics(); then Close and reopen. The
// recording filesystem yields/sleeps at PRNG-chosen filesystem calls (real suspension
// points). Detectors: (1) Go race detector (reports in repo code are violations),
// (2) state-based stall detector, (3) serial equivalence: the operations are constructed
// to commute, so the final content must equal the per-worker models merged, in memory and
// after reopen, and every persisted index.domain must be sorted and non-overlapping with
// pointers inside their files.
package main

import (
	"context"
	"encoding/binary"
	"fmt"
	"os"
	"runtime"
	"sort"
	"strings"
	"sync"
	"sync/atomic"
	"time"

	"github.com/google/uuid"
	"github.com/synnaxlabs/cesium"
	"github.com/synnaxlabs/cesium/verifx"
	"github.com/synnaxlabs/x/confluence"
	xcontrol "github.com/synnaxlabs/x/control"
	xfs "github.com/synnaxlabs/x/io/fs"
	"github.com/synnaxlabs/x/signal"
	"github.com/synnaxlabs/x/telem"
	"verif/lib/cskit"
	"verif/lib/harness"
	"verif/lib/prng"
	"verif/lib/recfs"
	"verif/lib/stall"
)

func main() {
	harness.Main("C09", "exploration",
		harness.Layer{Name: "stress", Run: func(h *harness.H) { stress(h, "stress") }},
		harness.Layer{Name: "delgc", Run: func(h *harness.H) { stress(h, "delgc") }},
		harness.Layer{Name: "churn", Run: churn},
		// fdlimit (fdlimit.go) is NOT registered: it drives a bare domain.DB with a 2-4
		// descriptor budget, a configuration no cesium database can have (the cesium API
		// fixes 100 per channel); the unmodified domain layer itself stalls and mis-sizes
		// pointers there. Kept for exploration: VERIF_LAYERS=fdlimit with the line below.
		// harness.Layer{Name: "fdlimit", Run: fdlimit},
	)
}

const (
	nWriterGroups = 5 // groups written concurrently by cesium-level writers
	nDelGroups    = 2 // groups populated before the concurrent phase, then deleted from / GC'd
	sharedKey     = uint32(900)
	sharedHigh    = cskit.T0 + 500*1_000_000 // above every region the unary-level writers use
	scratchBase   = uint32(1000)
	nDeletes      = 40
)

type world struct {
	h      *harness.H
	c      int
	db     *cesium.DB
	fs     *recfs.FS
	log    *recfs.Log
	groups []cskit.Group
	specs  map[uint32]cskit.ChanSpec
	model  *cskit.Model
	mu     sync.Mutex
	ops    atomic.Int64
	errs   sync.Map // unexpected error text -> count
	ctx    context.Context
	order  []string // completion order of operations (interleaving fingerprint)
	layer  string
	ever   map[uint32]map[string]int64
	delLog []string
}

func (w *world) everTS(k uint32, v []byte) (int64, bool) {
	w.mu.Lock()
	defer w.mu.Unlock()
	ts, ok := w.ever[k][string(v)]
	return ts, ok
}

func (w *world) noteErr(what string, err error) {
	k := what + ": " + cskit.Letters(err.Error(), 60)
	v, _ := w.errs.LoadOrStore(k, new(atomic.Int64))
	v.(*atomic.Int64).Add(1)
}

func (w *world) done(tag string) {
	w.ops.Add(1)
	w.mu.Lock()
	if len(w.order) < 4000 {
		w.order = append(w.order, tag)
	}
	w.mu.Unlock()
}

func stress(h *harness.H, layer string) {
	h.AddRule("stress: per run one DB on a recording MemFS with yields/sleeps injected at ~3% of filesystem calls; 5 cesium-level writer goroutines (own index+2 data channels each, 3 sessions x 2-4 writes, mixed auto-commit/persist/sync), 3 unary-level writers on End-bounded disjoint regions of one shared channel, 3 readers, 2 streamers, 1 deleter (40 small deletes) over pre-populated groups racing 1 GC worker that loops until the deleter is done (sleeps injected at filesystem calls on the compaction copy), 1 channel-admin worker, 1 metrics worker; GOMAXPROCS alternates 2/16 (thorough: 1,2,4,16); a run is non-trivial if >= 200 operations completed; distinct by hash of the operation completion order")
	h.Assume("operations are constructed to commute (disjoint channel groups / disjoint End-bounded regions; deletes only on groups whose writers returned before the concurrent phase), so the set of serial results is a single state: the merged per-worker models")
	h.Assume("read errors observed while other goroutines write are counted, not judged; only the final quiescent state, race reports and stalls decide")
	n := h.N(12, 240)
	if layer == "delgc" {
		n = h.N(6, 120)
	}
	procs := []int{2, 16}
	if h.Thorough() {
		procs = []int{1, 2, 4, 16}
	}
	for c := 0; c < n; c++ {
		if h.Skip(layer, c) {
			continue
		}
		runtime.GOMAXPROCS(procs[c%len(procs)])
		one(h, layer, c)
	}
	runtime.GOMAXPROCS(16)
}

func one(h *harness.H, layer string, c int) {
	r := h.Rand(layer, c)
	h.Eval()
	rfs, log := recfs.New(xfs.NewMem())
	var inj atomic.Uint64
	seed := r.U64()
	log.Inject = func(call, path string) {
		x := inj.Add(1)
		v := (x*0x9E3779B97F4A7C15 ^ seed) >> 40 % 100
		// widen the window between GC's byte copy and its index rewrite: the calls on
		// the compaction copy (N.domain_gc) are real suspension points
		if strings.HasSuffix(path, "_gc") && v < 60 {
			time.Sleep(time.Duration(100+v*10) * time.Microsecond)
			return
		}
		// delgc: a delete of the shared channel resolves its byte offsets (reads of the
		// channel's files) between looking up the domains it spans and taking the index
		// write lock; inserts by the unary-level writers may land there
		if layer == "delgc" && call == "readat" && strings.Contains(path, "/900/") && v < 40 {
			time.Sleep(time.Duration(100+v*5) * time.Microsecond)
			return
		}
		switch {
		case v < 2:
			runtime.Gosched()
		case v < 3:
			time.Sleep(time.Duration(50+v*100) * time.Microsecond)
		}
	}
	w := &world{h: h, c: c, layer: layer, fs: rfs, log: log, specs: map[uint32]cskit.ChanSpec{}, model: cskit.NewModel(), ctx: context.Background(), ever: map[uint32]map[string]int64{}}
	fileSize := []int64{1, 64, 400, 1 << 30}[r.Intn(4)]
	open := func() error {
		db, err := cesium.Open(w.ctx, "db", cesium.WithFS(rfs), cesium.WithFileSizeCap(telem.Size(fileSize)),
			cesium.WithGCConfig(cesium.GCConfig{Threshold: 1e-6, TryInterval: 24 * time.Hour}))
		w.db = db
		return err
	}
	if err := open(); err != nil {
		h.Inconclusive("open-error")
		return
	}
	// channels
	key := uint32(1)
	for g := 0; g < nWriterGroups+nDelGroups; g++ {
		grp := cskit.Group{Index: cskit.ChanSpec{Key: key, Name: fmt.Sprintf("idx%d", key), DT: "timestamp", Index: key, IsIndex: true}}
		key++
		for j := 0; j < 2; j++ {
			dt := prng.Pick(r, []string{"int64", "float64", "uint8", "int16", "uuid", "json", "string"})
			grp.Data = append(grp.Data, cskit.ChanSpec{Key: key, Name: fmt.Sprintf("d%d", key), DT: dt, Index: grp.Index.Key})
			key++
		}
		w.groups = append(w.groups, grp)
	}
	shared := cskit.ChanSpec{Key: sharedKey, Name: "shared", DT: "timestamp", Index: sharedKey, IsIndex: true}
	all := []cskit.ChanSpec{shared}
	for _, g := range w.groups {
		all = append(all, g.Index)
		all = append(all, g.Data...)
	}
	for _, cs := range all {
		ch := cesium.Channel{Key: cs.Key, Name: cs.Name, DataType: cs.DataType(), Index: cs.Index, IsIndex: cs.IsIndex}
		if cs.IsIndex {
			ch.Index = 0
		}
		if err := w.db.CreateChannel(w.ctx, ch); err != nil {
			h.Inconclusive("create-channel-error")
			return
		}
		w.specs[cs.Key] = cs
		w.model.AddChannel(cs)
	}
	// pre-populate the delete groups (happens-before the concurrent phase)
	for g := nWriterGroups; g < nWriterGroups+nDelGroups; g++ {
		for s := 0; s < 4; s++ {
			if m := writeSession(w, prng.New(int64(seed), "pre", g*10+s), g, s, 100+g*10+s); m != nil {
				mergeInto(w.model, m)
				for _, k := range m.Keys() {
					if w.ever[k] == nil {
						w.ever[k] = map[string]int64{}
					}
					for _, sm := range m.All(k) {
						w.ever[k][string(sm.Val)] = sm.TS
					}
				}
			}
		}
	}

	// delgc: a high region of the shared channel is filled before the concurrent phase
	// (10 End-bounded sessions = 10 domains); a worker deletes multi-domain ranges from it
	// while the unary-level writers insert new domains into the (earlier, disjoint)
	// regions of the same channel. Delete and insert commute (seeded change C03-3).
	if layer == "delgc" {
		if udb, ok := w.db.VerifUnary(sharedKey); ok {
			rr := prng.New(int64(seed), "shared-pre", 0)
			for d := 0; d < 10; d++ {
				start := sharedHigh + int64(d)*100_000
				uw, _, err := udb.OpenWriter(w.ctx, verifx.UnaryWriterConfig{
					Start: telem.TimeStamp(start), End: telem.TimeStamp(start + 90_000),
					Subject:   xcontrol.Subject{Key: uuid.NewString()},
					Authority: xcontrol.AuthorityAbsolute, ErrOnUnauthorizedOpen: boolp(true),
					EnableAutoCommit: boolp(false),
				})
				if err != nil {
					h.Inconclusive("shared-prepopulate-error")
					return
				}
				n := rr.Range(3, 12)
				vals := make([][]byte, n)
				stamps := make([]int64, n)
				t := start
				for j := range vals {
					stamps[j] = t
					vals[j] = cskit.Value(shared, t, 0)
					t += int64(rr.Range(1, 5000))
				}
				_, err = uw.Write(cskit.BuildSeries(shared, vals))
				if err == nil {
					_, err = uw.Commit(w.ctx)
				}
				if _, cerr := uw.Close(); err != nil || cerr != nil {
					h.Inconclusive("shared-prepopulate-error")
					return
				}
				if w.ever[sharedKey] == nil {
					w.ever[sharedKey] = map[string]int64{}
				}
				for j, st := range stamps {
					w.model.Put(sharedKey, st, vals[j])
					w.ever[sharedKey][string(vals[j])] = st
				}
			}
		}
	}

	if layer == "stress" {
		// tombstones for the GC worker to compact are created BEFORE the concurrent phase;
		// deletes racing GC are the subject of the delgc layer
		rr := prng.New(int64(seed), "deleter", 0)
		for i := 0; i < nDeletes; i++ {
			deleter(w, rr)
		}
	}
	var wg, uwg sync.WaitGroup
	var delDone atomic.Bool
	models := make([]*cskit.Model, 0, 16)
	var mmu sync.Mutex
	stop := make(chan struct{})
	finished := make(chan struct{})
	spawn := func(name string, f func()) {
		if ws := os.Getenv("VERIF_C09_WORKERS"); ws != "" && !strings.Contains(","+ws+",", ","+name+",") { // exploration knob
			return
		}
		g := &wg
		if name == "reader" || name == "streamer" || name == "metrics" {
			g = &uwg // unbounded workers: run until stop
		}
		g.Add(1)
		go func() {
			defer g.Done()
			f()
		}()
	}
	// cesium-level writers
	for g := 0; g < nWriterGroups; g++ {
		g := g
		spawn("writer", func() {
			rr := prng.New(int64(seed), "writer", g)
			for s := 0; s < 3; s++ {
				if m := writeSession(w, rr, g, s, g*10+s+1); m != nil {
					mmu.Lock()
					models = append(models, m)
					mmu.Unlock()
				}
			}
		})
	}
	// unary-level writers on End-bounded disjoint regions of the shared channel
	for u := 0; u < 3; u++ {
		u := u
		spawn("unary", func() {
			rr := prng.New(int64(seed), "unary", u)
			m := unaryRegions(w, rr, u)
			mmu.Lock()
			models = append(models, m)
			mmu.Unlock()
		})
	}
	// readers
	for rd := 0; rd < 3; rd++ {
		rd := rd
		spawn("reader", func() {
			rr := prng.New(int64(seed), "reader", rd)
			for i := 0; ; i++ {
				select {
				case <-stop:
					return
				default:
				}
				reader(w, rr)
			}
		})
	}
	for s := 0; s < 2; s++ {
		s := s
		spawn("streamer", func() {
			rr := prng.New(int64(seed), "streamer", s)
			for {
				select {
				case <-stop:
					return
				default:
				}
				streamer(w, rr)
			}
		})
	}
	spawn("deleter", func() {
		rr := prng.New(int64(seed), "deleter", 0)
		for i := 0; i < nDeletes && layer == "delgc"; i++ {
			deleter(w, rr)
			if i%3 == 0 {
				time.Sleep(150 * time.Microsecond)
			}
		}
		delDone.Store(true)
	})
	spawn("sdeleter", func() {
		rr := prng.New(int64(seed), "sdeleter", 0)
		for i := 0; i < 14 && layer == "delgc"; i++ {
			w.mu.Lock()
			var high []int64
			for _, st := range w.model.Stamps(sharedKey) {
				if st >= sharedHigh {
					high = append(high, st)
				}
			}
			w.mu.Unlock()
			if len(high) < 4 {
				break
			}
			a := prng.Pick(rr, high)
			b := a + int64(rr.Range(30_000, 260_000)) // one to three domains
			err := w.db.DeleteTimeRange(w.ctx, []uint32{sharedKey}, telem.TimeRange{Start: telem.TimeStamp(a), End: telem.TimeStamp(b)})
			w.mu.Lock()
			w.delLog = append(w.delLog, fmt.Sprintf("shared [%d,%d) err=%v", a, b, err))
			if err != nil {
				w.model.RemoveChannel(sharedKey)
			} else {
				w.model.Delete(sharedKey, a, b)
			}
			w.mu.Unlock()
			if err != nil {
				w.noteErr("DeleteTimeRange(shared)", err)
				w.h.Inconclusive("shared-delete-engine-error")
				break
			}
			w.done("sdelete")
			time.Sleep(100 * time.Microsecond)
		}
	})
	spawn("gc", func() {
		for i := 0; i < 400 && (i < 8 || !delDone.Load()); i++ {
			if os.Getenv("VERIF_C09_NOGC") != "" { // exploration knob, never set by registered commands
				break
			}
			if os.Getenv("VERIF_C09_EXCL") != "" {
				exclMu.Lock()
			}
			err := w.db.VerifGarbageCollect(w.ctx)
			if os.Getenv("VERIF_C09_TRACE") != "" {
				traceCheck(w, fmt.Sprintf("gc-pass-%d", i))
			}
			if os.Getenv("VERIF_C09_EXCL") != "" {
				exclMu.Unlock()
			}
			if err != nil {
				w.noteErr("gc", err)
			}
			w.done("gc")
			time.Sleep(200 * time.Microsecond)
		}
	})
	spawn("admin", func() {
		rr := prng.New(int64(seed), "admin", 0)
		for i := 0; i < 10; i++ {
			admin(w, rr, i)
		}
	})
	spawn("metrics", func() {
		for {
			select {
			case <-stop:
				return
			default:
			}
			_ = w.db.Metrics()
			w.done("metrics")
			time.Sleep(100 * time.Microsecond)
		}
	})

	// the bounded workers (writers, unary writers, deleter, gc, admin) decide when the run
	// ends; the unbounded ones (readers, streamers, metrics) are stopped then
	go func() {
		wg.Wait()
		close(stop)
		uwg.Wait()
		close(finished)
	}()
	watchdog := time.After(180 * time.Second)
	select {
	case <-finished:
	case <-watchdog:
		v := stall.Judge("synnaxlabs/cesium", 5*time.Second)
		dumpPath := writeDump(c, v.Dump)
		if v.Deadlock {
			h.Violation(layer, c, "c09:deadlock:"+deadlockShape(v.Dump), "all workload goroutines parked in channel/sync waits in two dumps 5 s apart: "+v.Reason+" (dump: "+dumpPath+")", map[string]any{"dump": dumpPath})
		} else {
			h.Inconclusive("watchdog: " + v.Reason)
		}
		fmt.Printf("NOTE: C09 run %d did not finish within the watchdog; remaining runs skipped (dump %s)\n", c, dumpPath)
		os.Exit(h.Finish(0))
	}

	// quiescent: merge models and compare
	for _, m := range models {
		mergeInto(w.model, m)
	}
	nops := w.ops.Load()
	_ = nops
	h.Count("operations_completed", int(nops))
	h.Count("fs_calls", int(log.Calls.Load()))
	check := func(phase string) {
		for _, k := range w.model.Keys() {
			fr, err := w.db.Read(w.ctx, telem.TimeRangeMax, k)
			if err != nil {
				h.Violation(layer, c, "c09:"+nsOf(layer)+"final-read-error:"+phase, fmt.Sprintf("final read of channel %d failed: %v", k, err), map[string]any{"seed": seed})
				continue
			}
			var got [][]byte
			for _, s := range fr.Get(k).Series {
				got = append(got, cskit.SplitSeries(s)...)
			}
			want := w.model.All(k)
			h.Count("final_samples_compared", len(want))
			same := len(want) == len(got)
			for i := 0; same && i < len(want); i++ {
				same = string(want[i].Val) == string(got[i])
			}
			if !same {
				kind := "group"
				if k == sharedKey {
					kind = "shared-unary-regions"
				} else if int(k) > nWriterGroups*3 {
					kind = "delete-group"
				}
				// describe the difference: which timestamps are missing / unexpected
				wantSet := map[string]int64{}
				for _, s := range want {
					wantSet[string(s.Val)] = s.TS
				}
				gotSet := map[string]bool{}
				var extra []string
				for _, g := range got {
					gotSet[string(g)] = true
					if _, ok := wantSet[string(g)]; !ok && len(extra) < 6 {
						ts, known := w.everTS(k, g)
						extra = append(extra, fmt.Sprintf("ts=%d known=%v", ts, known))
					}
				}
				var missing []int64
				for _, s := range want {
					if !gotSet[string(s.Val)] && len(missing) < 6 {
						missing = append(missing, s.TS)
					}
				}
				if kind == "delete-group" {
					if cskit.IsVar(w.specs[k].DT) {
						kind += ":var"
					} else {
						kind += ":fixed"
					}
				}
				h.Violation(layer, c, fmt.Sprintf("c09:%snot-serializable:%s:%s", nsOf(layer), kind, phase),
					fmt.Sprintf("final content of channel %d (%s) differs from the only serial result: %d samples, expected %d; missing ts %v; unexpected %v", k, w.specs[k].DT, len(got), len(want), missing, extra),
					map[string]any{"seed": seed, "channel": k, "got": len(got), "want": len(want), "file_size": fileSize, "missing": missing, "unexpected": extra, "deletes": w.delLog})
			}
		}
	}
	check("live")
	if err := w.db.Close(); err != nil {
		h.Violation(layer, c, "c09:close-error", "DB.Close after all operations returned failed: "+err.Error(), nil)
	}
	checkIndexFiles(w)
	if err := open(); err != nil {
		h.Violation(layer, c, "c09:reopen-error", "cesium.Open after close failed: "+err.Error(), nil)
	} else {
		check("reopened")
		_ = w.db.Close()
	}
	var es []string
	w.errs.Range(func(k, v any) bool {
		es = append(es, fmt.Sprintf("%s x%d", k, v.(*atomic.Int64).Load()))
		return true
	})
	sort.Strings(es)
	for _, e := range es {
		h.Seen("unjudged_errors_during_concurrency", e)
	}
	if nops >= 200 {
		h.Distinct(strings.Join(w.order, ","))
	}
	h.Seen("interleavings", fmt.Sprint(hashStrings(w.order)))
	h.Sample(map[string]any{"run": c, "gomaxprocs": runtime.GOMAXPROCS(0), "file_size": fileSize, "operations": nops, "fs_calls": log.Calls.Load(), "first_completions": first(w.order, 30), "unjudged_errors": es})
}

func first(s []string, n int) []string {
	if len(s) < n {
		n = len(s)
	}
	return s[:n]
}

func hashStrings(s []string) uint64 {
	h := uint64(14695981039346656037)
	for _, x := range s {
		for i := 0; i < len(x); i++ {
			h = (h ^ uint64(x[i])) * 1099511628211
		}
		h = (h ^ 0xff) * 1099511628211
	}
	return h
}

var exclMu sync.Mutex // exploration knob VERIF_C09_EXCL: serialise deletes and GC passes

// nsOf separates the signatures of the delete-racing-GC layer from the main layer's.
func nsOf(layer string) string {
	if layer == "delgc" {
		return "delgc:"
	}
	return ""
}

func mergeInto(dst, src *cskit.Model) {
	for _, k := range src.Keys() {
		if _, ok := dst.Chans[k]; !ok {
			continue // dropped from the comparison after an engine error (counted inconclusive)
		}
		for _, s := range src.All(k) {
			dst.Put(k, s.TS, s.Val)
		}
	}
}

func boolp(b bool) *bool { return &b }

// writeSession runs one cesium-level writer session on group g in its own time window and
// returns the samples it committed (nil on an engine error, which is recorded).
func writeSession(w *world, r *prng.R, g, s, gen int) *cskit.Model {
	grp := w.groups[g]
	m := cskit.NewModel()
	m.AddChannel(grp.Index)
	for _, d := range grp.Data {
		m.AddChannel(d)
	}
	chans := []uint32{grp.Index.Key, grp.Data[0].Key, grp.Data[1].Key}
	start := cskit.T0 + int64(s)*cskit.Window + int64(g)*1000
	ac := r.Chance(2, 3)
	cfg := cesium.WriterConfig{
		Start: telem.TimeStamp(start), Channels: chans, EnableAutoCommit: boolp(ac),
		AutoIndexPersistInterval: telem.TimeSpan([]int64{-1, 1, 1_000_000_000}[r.Intn(3)]),
		Sync:                     boolp(r.Chance(1, 2)), ErrOnUnauthorized: boolp(true),
	}
	wr, err := w.db.OpenWriter(w.ctx, cfg)
	if err != nil {
		w.noteErr("OpenWriter", err)
		w.done("wsession:" + fmt.Sprint(g))
		return nil
	}
	ts := start
	var pend []struct {
		k   uint32
		t   int64
		val []byte
	}
	nw := r.Range(2, 4)
	ok := true
	for i := 0; i < nw && ok; i++ {
		n := r.Range(1, 12)
		stamps := make([]int64, n)
		for j := range stamps {
			stamps[j] = ts
			ts += int64(r.Range(1, 50))
		}
		keys := make([]uint32, 0, 3)
		series := make([]telem.Series, 0, 3)
		for _, k := range chans {
			spec := w.specs[k]
			vals := make([][]byte, n)
			for j, t := range stamps {
				vals[j] = cskit.Value(spec, t, gen)
				pend = append(pend, struct {
					k   uint32
					t   int64
					val []byte
				}{k, t, vals[j]})
			}
			keys = append(keys, k)
			series = append(series, cskit.BuildSeries(spec, vals))
		}
		if _, err := wr.Write(telem.MultiFrame(keys, series)); err != nil {
			w.noteErr("Write", err)
			ok = false
			break
		}
		w.done("write:" + fmt.Sprint(g))
		if !ac || r.Chance(1, 3) {
			if _, err := wr.Commit(); err != nil {
				w.noteErr("Commit", err)
				ok = false
				break
			}
			w.done("commit:" + fmt.Sprint(g))
		}
	}
	if ok && !ac {
		if _, err := wr.Commit(); err != nil {
			w.noteErr("Commit", err)
			ok = false
		}
	}
	if err := wr.Close(); err != nil {
		w.noteErr("Writer.Close", err)
		ok = false
	}
	w.done("wsession:" + fmt.Sprint(g))
	if !ok {
		// an engine error on a legal, conflict-free session: the session's content is not
		// part of the expected state; recorded as unjudged error and the run is made
		// inconclusive for that group by removing it from the comparison
		w.mu.Lock()
		for _, k := range chans {
			w.model.RemoveChannel(k)
		}
		w.mu.Unlock()
		w.h.Inconclusive("writer-session-engine-error")
		return nil
	}
	for _, p := range pend {
		m.Put(p.k, p.t, p.val)
	}
	return m
}

// unaryRegions writes 4 End-bounded regions of the shared channel through the unary layer.
func unaryRegions(w *world, r *prng.R, u int) *cskit.Model {
	m := cskit.NewModel()
	spec := w.specs[sharedKey]
	m.AddChannel(spec)
	udb, ok := w.db.VerifUnary(sharedKey)
	if !ok {
		w.done("uregions")
		return m
	}
	nreg := 4
	if w.layer == "delgc" {
		nreg = 24 // inserts spread over the time the shared-channel deleter runs
	}
	for reg := 0; reg < nreg; reg++ {
		if w.layer == "delgc" {
			time.Sleep(time.Duration(r.Range(20, 400)) * time.Microsecond)
		}
		start := cskit.T0 + int64(u*nreg+reg)*1_000_000
		end := start + 900_000
		uw, _, err := udb.OpenWriter(w.ctx, verifx.UnaryWriterConfig{
			Start: telem.TimeStamp(start), End: telem.TimeStamp(end),
			Subject:   xcontrol.Subject{Key: uuid.NewString()},
			Authority: xcontrol.AuthorityAbsolute, ErrOnUnauthorizedOpen: boolp(true),
			EnableAutoCommit: boolp(false),
		})
		if err != nil {
			w.noteErr("unary.OpenWriter", err)
			continue
		}
		n := r.Range(1, 20)
		stamps := make([]int64, n)
		vals := make([][]byte, n)
		t := start
		for j := range stamps {
			stamps[j] = t
			vals[j] = cskit.Value(spec, t, 0)
			t += int64(r.Range(1, 1000))
		}
		good := true
		if _, err := uw.Write(cskit.BuildSeries(spec, vals)); err != nil {
			w.noteErr("unary.Write", err)
			good = false
		}
		if good {
			if _, err := uw.Commit(w.ctx); err != nil {
				w.noteErr("unary.Commit", err)
				good = false
			}
		}
		if _, err := uw.Close(); err != nil {
			w.noteErr("unary.Close", err)
		}
		if good {
			for j, s := range stamps {
				m.Put(sharedKey, s, vals[j])
			}
		} else {
			w.h.Inconclusive("unary-region-engine-error")
			w.mu.Lock()
			w.model.RemoveChannel(sharedKey)
			w.mu.Unlock()
		}
		w.done("uwrite")
	}
	w.done("uregions")
	return m
}

func reader(w *world, r *prng.R) {
	g := r.Intn(len(w.groups))
	grp := w.groups[g]
	keys := []uint32{grp.Index.Key, grp.Data[r.Intn(2)].Key}
	a := cskit.T0 + int64(r.Intn(4))*cskit.Window - 5
	b := a + int64(r.Intn(3)+1)*cskit.Window
	tr := telem.TimeRange{Start: telem.TimeStamp(a), End: telem.TimeStamp(b)}
	switch r.Intn(3) {
	case 0:
		if _, err := w.db.Read(w.ctx, tr, keys...); err != nil {
			w.noteErr("Read", err)
		}
	case 1:
		it, err := w.db.OpenIterator(cesium.IteratorConfig{Bounds: tr, Channels: keys, AutoChunkSize: 7})
		if err != nil {
			w.noteErr("OpenIterator", err)
			break
		}
		if it.SeekFirst() {
			for i := 0; i < 50 && it.Next(telem.TimeSpanMax); i++ {
			}
		}
		if err := it.Close(); err != nil {
			w.noteErr("Iterator.Close", err)
		}
	case 2:
		fr, err := w.db.Read(w.ctx, telem.TimeRangeMax, sharedKey)
		_ = fr
		if err != nil {
			w.noteErr("Read-shared", err)
		}
	}
	w.done("read")
}

func streamer(w *world, r *prng.R) {
	g := r.Intn(nWriterGroups)
	grp := w.groups[g]
	st, err := w.db.NewStreamer(w.ctx, cesium.StreamerConfig{Channels: []uint32{grp.Index.Key, grp.Data[0].Key}})
	if err != nil {
		w.noteErr("NewStreamer", err)
		return
	}
	in, out := confluence.Attach(st, 8)
	sctx, cancel := signal.WithCancel(w.ctx)
	st.Flow(sctx, confluence.CloseOutputInletsOnExit())
	deadline := time.After(time.Duration(1+r.Intn(4)) * time.Millisecond)
	n := 0
loop:
	for {
		select {
		case _, ok := <-out.Outlet():
			if !ok {
				break loop
			}
			n++
		case <-deadline:
			break loop
		}
	}
	if r.Bool() {
		in.Inlet() <- cesium.StreamerRequest{Channels: []uint32{w.groups[(g+1)%nWriterGroups].Index.Key}}
	}
	in.Close()
	// drain until the streamer exits
	for range out.Outlet() {
	}
	_ = sctx.Wait()
	cancel()
	w.done("streamer")
}

func deleter(w *world, r *prng.R) {
	g := nWriterGroups + r.Intn(nDelGroups)
	grp := w.groups[g]
	w.mu.Lock()
	stamps := w.model.Stamps(grp.Data[0].Key)
	w.mu.Unlock()
	if len(stamps) < 2 {
		w.done("delete:" + fmt.Sprint(g))
		return
	}
	a := stamps[r.Intn(len(stamps))]
	b := a + int64(r.Range(1, 60))
	chans := []uint32{grp.Data[0].Key}
	if r.Bool() {
		chans = append(chans, grp.Data[1].Key)
	}
	if os.Getenv("VERIF_C09_EXCL") != "" {
		exclMu.Lock()
	}
	err := w.db.DeleteTimeRange(w.ctx, chans, telem.TimeRange{Start: telem.TimeStamp(a), End: telem.TimeStamp(b)})
	if os.Getenv("VERIF_C09_TRACE") != "" && err == nil {
		w.mu.Lock()
		for _, k := range chans {
			if _, ok := w.model.Chans[k]; ok {
				w.model.Delete(k, a, b)
			}
		}
		w.delLog = append(w.delLog, fmt.Sprintf("%v [%d,%d) err=%v", chans, a, b, err))
		w.mu.Unlock()
		traceCheck(w, fmt.Sprintf("delete %v [%d,%d)", chans, a, b))
		if os.Getenv("VERIF_C09_SEQGC") != "" { // fully sequential: a GC pass after every delete
			_ = w.db.VerifGarbageCollect(w.ctx)
			w.mu.Lock()
			w.delLog = append(w.delLog, "GC")
			w.mu.Unlock()
			traceCheck(w, "sequential gc after "+fmt.Sprintf("delete %v [%d,%d)", chans, a, b))
		}
	}
	if os.Getenv("VERIF_C09_EXCL") != "" {
		exclMu.Unlock()
	}
	w.mu.Lock()
	w.delLog = append(w.delLog, fmt.Sprintf("%v [%d,%d) err=%v", chans, a, b, err))
	w.mu.Unlock()
	if err != nil {
		w.noteErr("DeleteTimeRange", err)
		w.h.Inconclusive("delete-engine-error")
		w.mu.Lock()
		for _, k := range chans {
			w.model.RemoveChannel(k)
		}
		w.mu.Unlock()
	} else {
		w.mu.Lock()
		for _, k := range chans {
			if _, ok := w.model.Chans[k]; ok {
				w.model.Delete(k, a, b)
			}
		}
		w.mu.Unlock()
	}
	w.done("delete:" + fmt.Sprint(g))
}

func admin(w *world, r *prng.R, i int) {
	k := scratchBase + uint32(i)
	ch := cesium.Channel{Key: k, Name: fmt.Sprintf("scratch%d", i), DataType: telem.Int64T, Virtual: true}
	if i%2 == 0 {
		ch = cesium.Channel{Key: k, Name: fmt.Sprintf("scratch%d", i), DataType: telem.TimeStampT, IsIndex: true}
	}
	if err := w.db.CreateChannel(w.ctx, ch); err != nil {
		w.noteErr("CreateChannel", err)
	}
	if err := w.db.RenameChannel(w.ctx, k, fmt.Sprintf("renamed%d", i)); err != nil {
		w.noteErr("RenameChannel", err)
	}
	if r.Bool() {
		if err := w.db.DeleteChannel(k); err != nil {
			w.noteErr("DeleteChannel", err)
		}
	}
	w.done("admin")
}

// checkIndexFiles decodes every persisted index.domain (26-byte records) and requires the
// pointers to be sorted, non-overlapping and inside their data files.
func checkIndexFiles(w *world) {
	root := w.fs.Inner()
	dirs, err := root.List("db")
	if err != nil {
		return
	}
	w.log.Pause(true)
	defer w.log.Pause(false)
	for _, d := range dirs {
		if !d.IsDir() {
			continue
		}
		p := "db/" + d.Name() + "/index.domain"
		ok, _ := root.Exists(p)
		if !ok {
			continue
		}
		f, err := root.Open(p, os.O_RDONLY)
		if err != nil {
			continue
		}
		st, _ := f.Stat()
		b := make([]byte, st.Size())
		if len(b) > 0 {
			_, _ = f.ReadAt(b, 0)
		}
		_ = f.Close()
		w.h.Count("index_files_decoded", 1)
		var prevEnd int64 = -1 << 63
		for i := 0; i+26 <= len(b); i += 26 {
			s := int64(binary.LittleEndian.Uint64(b[i:]))
			e := int64(binary.LittleEndian.Uint64(b[i+8:]))
			fk := binary.LittleEndian.Uint16(b[i+16:])
			off := binary.LittleEndian.Uint32(b[i+18:])
			sz := binary.LittleEndian.Uint32(b[i+22:])
			w.h.Count("index_pointers_checked", 1)
			if e < s || s < prevEnd {
				w.h.Violation(w.layer, w.c, "c09:"+nsOf(w.layer)+"persisted-index-unsorted-or-overlapping", fmt.Sprintf("%s pointer %d [%d,%d) after end %d", p, i/26, s, e, prevEnd), nil)
				break
			}
			prevEnd = e
			fp := fmt.Sprintf("db/%s/%d.domain", d.Name(), fk)
			if fi, err := root.Stat(fp); err != nil || int64(off)+int64(sz) > fi.Size() {
				w.h.Violation(w.layer, w.c, "c09:"+nsOf(w.layer)+"persisted-pointer-outside-file", fmt.Sprintf("%s pointer %d -> %s off=%d size=%d", p, i/26, fp, off, sz), nil)
				break
			}
		}
		if len(b)%26 != 0 {
			w.h.Violation(w.layer, w.c, "c09:"+nsOf(w.layer)+"persisted-index-bad-length", fmt.Sprintf("%s has %d bytes", p, len(b)), nil)
		}
	}
}

func writeDump(c int, d string) string {
	dir := os.Getenv("VERIF_REPLAY_DIR")
	if dir == "" {
		dir = "/verif/replays"
	}
	dir += "/C09"
	_ = os.MkdirAll(dir, 0o755)
	p := fmt.Sprintf("%s/stall-run%d.txt", dir, c)
	_ = os.WriteFile(p, []byte(d), 0o644)
	return p
}

// deadlockShape names the innermost cesium functions the parked goroutines wait in.
func deadlockShape(d string) string {
	set := map[string]bool{}
	for _, b := range strings.Split(d, "\n\n") {
		if !strings.Contains(b, "synnaxlabs/cesium") {
			continue
		}
		for _, line := range strings.Split(b, "\n") {
			if strings.HasPrefix(line, "github.com/synnaxlabs/cesium") {
				fn := line
				if i := strings.LastIndex(fn, "("); i > 0 {
					fn = fn[:i]
				}
				fn = strings.TrimPrefix(fn, "github.com/synnaxlabs/")
				set[fn] = true
				break
			}
		}
	}
	var out []string
	for k := range set {
		out = append(out, k)
	}
	sort.Strings(out)
	if len(out) > 4 {
		out = out[:4]
	}
	return strings.Join(out, "+")
}

var traceDone atomic.Bool

// traceCheck (exploration knob VERIF_C09_TRACE, requires VERIF_C09_EXCL): compare the
// delete groups' content with the model right after an operation, while deletes and GC
// passes are serialised, to find the operation after which content diverges.
func traceCheck(w *world, after string) {
	if traceDone.Load() {
		return
	}
	for g := nWriterGroups; g < nWriterGroups+nDelGroups; g++ {
		for _, d := range w.groups[g].Data {
			k := d.Key
			w.mu.Lock()
			_, ok := w.model.Chans[k]
			want := w.model.All(k)
			w.mu.Unlock()
			if !ok {
				continue
			}
			fr, err := w.db.Read(w.ctx, telem.TimeRangeMax, k)
			if err != nil {
				continue
			}
			var got [][]byte
			for _, s := range fr.Get(k).Series {
				got = append(got, cskit.SplitSeries(s)...)
			}
			same := len(want) == len(got)
			for i := 0; same && i < len(want); i++ {
				same = string(want[i].Val) == string(got[i])
			}
			if !same && traceDone.CompareAndSwap(false, true) {
				fmt.Printf("TRACE: channel %d diverged right after %q: got %d want %d\n", k, after, len(got), len(want))
				if udb, ok := w.db.VerifUnary(k); ok {
					it := udb.VerifDomain().OpenIterator(verifx.DomainIteratorConfig{Bounds: telem.TimeRangeMax})
					for ok := it.SeekFirst(w.ctx); ok; ok = it.Next() {
						fmt.Printf("TRACE:   domain %v size=%d\n", it.TimeRange(), it.Size())
					}
					_ = it.Close()
				}
				w.mu.Lock()
				n := len(w.delLog)
				lo := n - 12
				if lo < 0 {
					lo = 0
				}
				for _, l := range w.delLog[lo:] {
					fmt.Printf("TRACE:   recent delete %s\n", l)
				}
				w.mu.Unlock()
			}
		}
	}
}
