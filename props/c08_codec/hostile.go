package main

import (
	"bufio"
	"bytes"
	"encoding/binary"
	encjson "encoding/json"
	"fmt"
	"os"
	"os/exec"
	"path/filepath"
	"regexp"
	"sort"
	"strings"
	"sync"
	"time"

	fhttp "github.com/synnaxlabs/freighter/http"
	"github.com/synnaxlabs/synnax/pkg/distribution/framer/iterator"
	"github.com/synnaxlabs/synnax/pkg/distribution/framer/writer"
	httpframer "github.com/synnaxlabs/synnax/pkg/transport/http/framer"
	"github.com/synnaxlabs/x/encoding/json"
	"github.com/synnaxlabs/x/telem"

	"verif/lib/harness"
	"verif/lib/prng"
)

const (
	childEnv     = "VERIF_C08_CHILD"      // path of the batch file: selects child mode
	childBinEnv  = "VERIF_C08_CHILD_BIN"  // non-race, CGO_ENABLED=0 build of this package (check.conf)
	childFromEnv = "VERIF_C08_CHILD_FROM" // first input index to run
	// Address-space limit of a decoding child (DESIGN §0: 4 GiB is the smallest round
	// limit under which the Go runtime starts reliably).
	childASLimit = 4 << 30
)

// allocBound is the deciding bound for "memory in proportion to the input": bytes
// allocated (runtime.MemStats.TotalAlloc delta, minimum over up to three repetitions of
// the same decode) must stay below a constant plus a multiple of the input length. The
// multiple covers the decoder's legitimate worst case (a 4-byte wire entry that becomes
// an ~80-byte Series plus slice-growth garbage, JSON decoding overheads).
func allocBound(inputLen int) uint64 { return 1<<20 + 512*uint64(inputLen) }

// hInput is one byte string presented to one decoder in one codec state.
type hInput struct {
	Case    int       `json:"case"`
	Sub     int       `json:"sub"`
	Target  string    `json:"target"`            // static | dynamic | http
	Spec    codecSpec `json:"spec"`              // static: channel set
	Updates [][]int   `json:"updates,omitempty"` // dynamic/http: Update calls before decoding (chanTypes indices)
	Msg     string    `json:"msg,omitempty"`     // http: message type
	Pre     [][]byte  `json:"pre,omitempty"`     // http: valid messages decoded first through the same codec
	Stream  bool      `json:"stream,omitempty"`
	Mut     string    `json:"mut"`
	Data    []byte    `json:"data"`
	// WorldKeys are the channel keys the parent's in-memory cluster assigned; the child
	// refuses to run when its own differ.
	needsWorld bool
}

func (in hInput) kind() string {
	switch in.Target {
	case "static":
		return "static"
	case "dynamic":
		if len(in.Updates) == 0 {
			return "dynamic-fresh"
		}
		return "dynamic-updated"
	default:
		if len(in.Updates) == 0 && len(in.Pre) == 0 {
			return "http-" + in.Msg + "-fresh"
		}
		return "http-" + in.Msg + "-negotiated"
	}
}

// hResult is what the child reports for one input.
type hResult struct {
	Idx     int    `json:"idx"`
	Outcome string `json:"outcome"` // frame | error | panic
	Alloc   uint64 `json:"alloc"`
	Site    string `json:"site,omitempty"`
	Msg     string `json:"msg,omitempty"`
	Series  int    `json:"series,omitempty"`
	Bad     string `json:"bad,omitempty"` // returned frame is not well formed
	Restart bool   `json:"restart,omitempty"`
}

// ---------------------------------------------------------------------------------
// Wire layout of a valid encoding (used only to aim mutations at fields).

type field struct {
	Name string
	Off  int
	Size int
}

func wireLayout(b []byte, spec codecSpec, base int) []field {
	fs, _ := wireLayoutClaim(b, spec, base)
	return fs
}

// wireLayoutClaim also reports the first series whose length field claims more data
// than the message contains ("" if none). The round-trip layers decode in this process:
// they refuse to hand such an encoding to the real decoder, which sizes its buffers from
// those fields (see the hostile layer), and report it as a failed round trip instead.
func wireLayoutClaim(b []byte, spec codecSpec, base int) (fs []field, overclaim string) {
	off := base
	add := func(name string, size int) bool {
		if off+size > len(b) {
			return false
		}
		fs = append(fs, field{name, off, size})
		off += size
		return true
	}
	if !add("flags", 1) {
		return fs, ""
	}
	fl := b[base]
	allPresent, trZero, eqTR, eqLen, eqAl, zeroAl := fl&1 != 0, fl&2 != 0, fl&4 != 0, fl&8 != 0, fl&16 != 0, fl&32 != 0
	if !add("seq", 4) {
		return fs, ""
	}
	var dataLen uint32
	if eqLen {
		if off+4 <= len(b) {
			dataLen = binary.LittleEndian.Uint32(b[off:])
		}
		if !add("len", 4) {
			return fs, ""
		}
	}
	if eqTR && !trZero && !add("tr", 16) {
		return fs, ""
	}
	if eqAl && !zeroAl && !add("align", 8) {
		return fs, ""
	}
	sorted := append([]uint32{}, spec.Keys...)
	sort.Slice(sorted, func(i, j int) bool { return sorted[i] < sorted[j] })
	one := func(k uint32) bool {
		l := dataLen
		if !eqLen {
			if off+4 > len(b) {
				return false
			}
			l = binary.LittleEndian.Uint32(b[off:])
			add("len", 4)
		}
		dt, ok := spec.dtype(k)
		if !ok {
			return false
		}
		size := int(l)
		if !telem.DataType(dt).IsVariable() {
			size = int(l) * densityOf(dt)
		}
		if size < 0 || off+size > len(b) {
			overclaim = fmt.Sprintf("series of key %d at offset %d claims %d data bytes but only %d bytes follow", k, off, size, len(b)-off)
			return false
		}
		add("data", size)
		if !eqTR && !add("tr", 16) {
			return false
		}
		if !eqAl && !add("align", 8) {
			return false
		}
		return true
	}
	if allPresent {
		for _, k := range sorted {
			if !one(k) {
				break
			}
		}
		return fs, overclaim
	}
	for off+4 <= len(b) {
		k := binary.LittleEndian.Uint32(b[off:])
		add("key", 4)
		if !one(k) {
			break
		}
	}
	return fs, overclaim
}

// ---------------------------------------------------------------------------------
// Input generation.

var httpMsgs = []string{"writer-request", "writer-response", "streamer-request", "streamer-response", "iterator-request", "iterator-response"}

var u32Specials = []uint32{0, 1, 2, 0x7fffffff, 0xffffffff, 0x3fffffff, 0x80000000, 1 << 20, 1 << 24, 1 << 28, 0x10000000, 0xfffffffe}

func put32(b []byte, off int, v uint32) []byte {
	c := append([]byte{}, b...)
	binary.LittleEndian.PutUint32(c[off:], v)
	return c
}

type seedEnc struct {
	data   []byte
	spec   codecSpec // layout of the binary frame section, if any
	base   int       // offset of the binary frame section; -1: none (JSON message)
	isJSON bool
}

// mutate produces one mutated input from a valid seed encoding.
func mutate(r *prng.R, s seedEnc) (string, []byte) {
	b := s.data
	var fs []field
	if s.base >= 0 {
		fs = wireLayout(b, s.spec, s.base)
	}
	pickField := func(name string) (field, bool) {
		var c []field
		for _, f := range fs {
			if f.Name == name {
				c = append(c, f)
			}
		}
		if len(c) == 0 {
			return field{}, false
		}
		return prng.Pick(r, c), true
	}
	for try := 0; try < 8; try++ {
		switch m := r.Intn(16); {
		case m < 4:
			if f, ok := pickField("len"); ok {
				cur := binary.LittleEndian.Uint32(b[f.Off:])
				v := prng.Pick(r, u32Specials)
				switch r.Intn(6) {
				case 0:
					v = cur + 1
				case 1:
					v = cur - 1
				case 2:
					v = uint32(r.U64())
				case 3:
					v = cur + uint32(1+r.Intn(64))
				}
				return fmt.Sprintf("len=%#x", v), put32(b, f.Off, v)
			}
		case m < 5:
			if f, ok := pickField("key"); ok {
				v := uint32(r.U64())
				if r.Bool() && len(s.spec.Keys) > 0 {
					v = prng.Pick(r, s.spec.Keys)
				}
				return "key", put32(b, f.Off, v)
			}
		case m < 6:
			if f, ok := pickField("seq"); ok {
				cur := binary.LittleEndian.Uint32(b[f.Off:])
				v := prng.Pick(r, []uint32{0, cur + 1, cur - 1, 0xffffffff, uint32(r.U64())})
				return "seq", put32(b, f.Off, v)
			}
		case m < 8:
			if f, ok := pickField("flags"); ok {
				c := append([]byte{}, b...)
				c[f.Off] = byte(r.Intn(64))
				if r.Chance(1, 8) {
					c[f.Off] |= byte(r.Intn(4)) << 6
				}
				return fmt.Sprintf("flags=%#x", c[f.Off]), c
			}
		case m < 10:
			if len(b) > 0 {
				n := r.Intn(len(b))
				return "truncate", append([]byte{}, b[:n]...)
			}
		case m < 12:
			if len(b) > 0 {
				c := append([]byte{}, b...)
				for k := 1 + r.Intn(3); k > 0; k-- {
					c[r.Intn(len(c))] ^= 1 << r.Intn(8)
				}
				return "bitflip", c
			}
		case m < 13:
			c := append(append([]byte{}, b...), r.Bytes(r.Intn(64))...)
			return "append", c
		case m < 14:
			if len(b) > 1 {
				i := r.Intn(len(b))
				j := i + r.Intn(len(b)-i)
				return "delete", append(append([]byte{}, b[:i]...), b[j:]...)
			}
		case m < 15:
			i := r.Intn(len(b) + 1)
			return "insert", append(append(append([]byte{}, b[:i]...), r.Bytes(1+r.Intn(16))...), b[i:]...)
		default:
			if s.isJSON {
				// numbers in JSON replaced by huge ones, arrays deepened
				re := regexp.MustCompile(`[0-9]+`)
				locs := re.FindAllIndex(b, -1)
				if len(locs) > 0 {
					l := prng.Pick(r, locs)
					rep := prng.Pick(r, []string{"4294967295", "18446744073709551615", "-1", "1e99", "99999999999999999999999", strings.Repeat("[", 200)})
					return "json-number", append(append(append([]byte{}, b[:l[0]]...), rep...), b[l[1]:]...)
				}
			}
		}
	}
	return "valid", b
}

// exhaustive produces the systematic mutations of a seed: truncation at every offset,
// the flag byte through all 64 values, every 32-bit field set to each special value.
func exhaustive(s seedEnc) (names []string, outs [][]byte) {
	b := s.data
	for n := 0; n < len(b) && n < 600; n++ {
		names = append(names, "truncate")
		outs = append(outs, append([]byte{}, b[:n]...))
	}
	if s.base < 0 {
		return
	}
	for v := 0; v < 64; v++ {
		c := append([]byte{}, b...)
		c[s.base] = byte(v)
		names = append(names, fmt.Sprintf("flags=%#x", v))
		outs = append(outs, c)
	}
	nf := 0
	for _, f := range wireLayout(b, s.spec, s.base) {
		if f.Size != 4 {
			continue
		}
		if nf++; nf > 12 {
			break
		}
		for _, v := range []uint32{0, 1, 0x7fffffff, 0xffffffff} {
			names = append(names, fmt.Sprintf("%s=%#x", f.Name, v))
			outs = append(outs, put32(b, f.Off, v))
		}
	}
	return
}

func randomBytes(r *prng.R, validSeq uint32, prefix []byte) []byte {
	n := r.Intn(4097)
	switch r.Intn(4) {
	case 0:
		n = r.Intn(16)
	case 1:
		n = r.Intn(128)
	}
	b := r.Bytes(n)
	// most random strings would stop at the sequence-number check: make it plausible
	if len(b) >= 5 && r.Chance(3, 4) {
		binary.LittleEndian.PutUint32(b[1:], validSeq)
		if r.Bool() {
			b[0] &= 63
		}
	}
	return append(append([]byte{}, prefix...), b...)
}

// genHostileCase derives the inputs of case c: one target, one valid seed, several
// mutations (a systematic sweep for every 16th case) and random byte strings.
func genHostileCase(r *prng.R, c int, w *world) []hInput {
	in := hInput{Case: c, Stream: r.Chance(1, 5)}
	var seed seedEnc
	seed.base = -1
	validSeq := uint32(1)
	var prefix []byte
	switch t := r.Intn(10); {
	case t < 4:
		in.Target = "static"
		in.Spec = genSpec(r)
		f, _ := genFrame(r, in.Spec, false)
		enc := newStatic(in.Spec, r.Chance(1, 5))
		b, err := enc.Encode(bg, buildFrame(r, f, in.Spec, 0))
		if err != nil {
			panic(fmt.Sprintf("hostile seed: static encode failed: %v", err))
		}
		seed = seedEnc{data: b, spec: in.Spec, base: 0}
	case t < 7:
		in.Target, in.needsWorld = "dynamic", true
		if !r.Chance(1, 25) {
			for k := r.Range(1, 6); k > 0; k-- {
				in.Updates = append(in.Updates, genSet(r))
			}
		}
		seed, validSeq = dynSeed(r, w, in.Updates, "")
	default:
		in.Target, in.needsWorld = "http", true
		in.Msg = prng.Pick(r, httpMsgs)
		fresh := r.Chance(1, 4)
		binaryCapable := in.Msg == "writer-request" || in.Msg == "streamer-response" || in.Msg == "iterator-response"
		if !fresh {
			sets := [][]int{}
			for k := r.Range(1, 4); k > 0; k-- {
				sets = append(sets, genSet(r))
			}
			if strings.HasSuffix(in.Msg, "-request") && r.Bool() {
				// negotiate over the wire: the server-side codec learns the keys by decoding
				// the opening request itself
				for _, s := range sets {
					in.Pre = append(in.Pre, negotiation(in.Msg, w, s))
				}
			} else {
				in.Updates = sets
			}
			if binaryCapable && r.Chance(2, 3) {
				seed, validSeq = dynSeed(r, w, sets, in.Msg)
			} else {
				seed = jsonSeed(r, w, in.Msg, sets[len(sets)-1])
			}
		} else if binaryCapable && r.Chance(2, 3) {
			// a data frame before the channel set was negotiated
			seed, _ = dynSeed(r, w, [][]int{genSet(r)}, in.Msg)
		} else {
			seed = jsonSeed(r, w, in.Msg, genSet(r))
		}
		if binaryCapable {
			prefix = []byte{255}
		}
	}
	var out []hInput
	emit := func(mut string, data []byte) {
		x := in
		x.Sub = len(out)
		x.Mut = mut
		x.Data = data
		out = append(out, x)
	}
	emit("valid", seed.data)
	for k := 6; k > 0; k-- {
		m, d := mutate(r, seed)
		emit(m, d)
	}
	for k := 2; k > 0; k-- {
		emit("random", randomBytes(r, validSeq, prefix))
	}
	if c%16 == 0 {
		ns, ds := exhaustive(seed)
		for i := range ns {
			emit(ns[i], ds[i])
		}
	}
	if c == 0 {
		// the smallest messages DESIGN.md section 5 names: flags=0xff, seq=1, len=0x3fffffff /
		// 0xffffffff for a one-channel codec, and a data frame before negotiation
		for _, dt := range []telem.DataType{telem.Uint8T, telem.Float64T, telem.UUIDT} {
			for _, l := range []uint32{0x3fffffff, 0xffffffff} {
				b := []byte{0xff, 1, 0, 0, 0, 0, 0, 0, 0}
				binary.LittleEndian.PutUint32(b[5:], l)
				out = append(out, hInput{Case: c, Sub: len(out), Target: "static", Spec: codecSpec{Keys: []uint32{1}, Types: []string{string(dt)}}, Mut: fmt.Sprintf("handcrafted-len=%#x", l), Data: b})
			}
		}
		out = append(out, hInput{Case: c, Sub: len(out), Target: "http", Msg: "writer-request", Mut: "handcrafted-frame-before-open", Data: []byte{255}, needsWorld: true})
	}
	return out
}

// dynSeed encodes a valid frame with a dynamic encoder that has applied sets; wrap
// selects the WebSocket message envelope.
func dynSeed(r *prng.R, w *world, sets [][]int, wrap string) (seedEnc, uint32) {
	if len(sets) == 0 {
		sets = [][]int{genSet(r)}
	}
	end := newDynEnd(w, wrap != "", false)
	for _, s := range sets {
		if err := end.raw.Update(bg, w.keysOf(s)); err != nil {
			panic(fmt.Sprintf("hostile seed: update failed: %v", err))
		}
	}
	spec := w.specOf(sets[len(sets)-1])
	var series []mSeries
	for tries := 0; ; tries++ {
		series, _ = genFrame(r, spec, false)
		if len(series) > 0 || tries > 8 || wrap == "" {
			break
		}
	}
	fr := buildFrame(r, series, spec, 0)
	var (
		b   []byte
		err error
	)
	switch wrap {
	case "":
		b, err = end.raw.Encode(bg, fr)
	case "writer-request":
		var m fhttp.WSMessage[httpframer.WriterRequest]
		m.Type, m.Payload.Command, m.Payload.Frame = fhttp.WSMessageTypeData, writer.CommandWrite, fr
		b, err = end.http.Encode(bg, m)
	case "streamer-response":
		var m fhttp.WSMessage[httpframer.StreamerResponse]
		m.Type, m.Payload.Frame = fhttp.WSMessageTypeData, fr
		b, err = end.http.Encode(bg, m)
	case "iterator-response":
		var m fhttp.WSMessage[httpframer.IteratorResponse]
		m.Type, m.Payload.Variant, m.Payload.Frame = fhttp.WSMessageTypeData, iterator.ResponseVariantData, fr
		b, err = end.http.Encode(bg, m)
	}
	if err != nil {
		panic(fmt.Sprintf("hostile seed: dynamic encode failed: %v", err))
	}
	s := seedEnc{data: b, spec: spec, base: 0}
	if wrap != "" {
		if len(b) > 0 && b[0] == 255 {
			s.base = 1
		} else {
			s.base, s.isJSON = -1, true
		}
	}
	return s, uint32(len(sets))
}

// negotiation is the valid opening request that makes a server-side codec adopt keys.
func negotiation(msg string, w *world, set []int) []byte {
	hc := &httpframer.Codec{LowerPerfCodec: json.Codec}
	var (
		b   []byte
		err error
	)
	switch msg {
	case "writer-request":
		var m fhttp.WSMessage[httpframer.WriterRequest]
		m.Type, m.Payload.Command = fhttp.WSMessageTypeData, writer.CommandOpen
		m.Payload.Config.Keys = w.keysOf(set)
		b, err = hc.Encode(bg, m)
	case "streamer-request":
		var m fhttp.WSMessage[httpframer.StreamerRequest]
		m.Type = fhttp.WSMessageTypeData
		m.Payload.Keys = w.keysOf(set)
		b, err = hc.Encode(bg, m)
	case "iterator-request":
		var m fhttp.WSMessage[httpframer.IteratorRequest]
		m.Type = fhttp.WSMessageTypeData
		m.Payload.Keys = w.keysOf(set)
		b, err = hc.Encode(bg, m)
	}
	if err != nil {
		panic(fmt.Sprintf("hostile seed: negotiation encode failed: %v", err))
	}
	return b
}

// jsonSeed is a valid low-performance (JSON) message of the given type.
func jsonSeed(r *prng.R, w *world, msg string, set []int) seedEnc {
	hc := &httpframer.Codec{LowerPerfCodec: json.Codec}
	var (
		b   []byte
		err error
	)
	spec := w.specOf(set)
	series, _ := genFrame(r, spec, false)
	fr := buildFrame(r, series, spec, 0)
	switch msg {
	case "writer-request":
		if r.Bool() {
			return seedEnc{data: negotiation(msg, w, set), base: -1, isJSON: true}
		}
		// a write carried on the JSON path
		var m fhttp.WSMessage[httpframer.WriterRequest]
		m.Type, m.Payload.Command, m.Payload.Frame = fhttp.WSMessageTypeData, writer.CommandWrite, fr
		var jb []byte
		jb, err = json.Codec.Encode(bg, m)
		b = append([]byte{254}, jb...)
	case "writer-response":
		var m fhttp.WSMessage[httpframer.WriterResponse]
		m.Type = fhttp.WSMessageTypeData
		m.Payload.Command = writer.CommandWrite
		m.Payload.End = telem.TimeStamp(r.U64() >> 2)
		m.Payload.Authorized = r.Bool()
		b, err = hc.Encode(bg, m)
	case "streamer-request", "iterator-request":
		return seedEnc{data: negotiation(msg, w, set), base: -1, isJSON: true}
	case "streamer-response":
		var m fhttp.WSMessage[httpframer.StreamerResponse]
		m.Type, m.Payload.Frame = fhttp.WSMessageTypeData, fr
		var jb []byte
		jb, err = json.Codec.Encode(bg, m)
		b = append([]byte{254}, jb...)
	case "iterator-response":
		var m fhttp.WSMessage[httpframer.IteratorResponse]
		m.Type = fhttp.WSMessageTypeData
		m.Payload.Variant = iterator.ResponseVariantAck
		m.Payload.Ack = r.Bool()
		m.Payload.SeqNum = r.Intn(100)
		b, err = hc.Encode(bg, m)
	}
	if err != nil {
		panic(fmt.Sprintf("hostile seed: json encode failed: %v", err))
	}
	return seedEnc{data: b, base: -1, isJSON: true}
}

// ---------------------------------------------------------------------------------
// Running inputs in child processes.

type batchHeader struct {
	WorldKeys []uint32 `json:"world_keys"`
	N         int      `json:"n"`
}

// writeBatch writes the header line and one JSON line per input; it returns the byte
// offset of every input line so that a restarted child can seek instead of re-reading.
func writeBatch(path string, w *world, ins []hInput) ([]int64, error) {
	f, err := os.Create(path)
	if err != nil {
		return nil, err
	}
	bw := bufio.NewWriterSize(f, 1<<20)
	hd := batchHeader{N: len(ins)}
	for _, k := range w.keys {
		hd.WorldKeys = append(hd.WorldKeys, uint32(k))
	}
	var off int64
	put := func(v any) error {
		b, err := encjson.Marshal(v)
		if err != nil {
			return err
		}
		b = append(b, '\n')
		off += int64(len(b))
		_, err = bw.Write(b)
		return err
	}
	if err := put(hd); err != nil {
		return nil, err
	}
	offs := make([]int64, len(ins))
	for i := range ins {
		offs[i] = off
		if err := put(&ins[i]); err != nil {
			return nil, err
		}
	}
	if err := bw.Flush(); err != nil {
		return nil, err
	}
	return offs, f.Close()
}

type childRun struct {
	results map[int]hResult
	killed  map[int]string // input index -> what the dying child said
	stalled map[int]bool
	broken  string
}

var fatalRe = regexp.MustCompile(`(?m)^(fatal error: .*|runtime: out of memory.*|panic: .*|SIG[A-Z]+: .*|unexpected fault address.*|checkptr: .*)$`)

func fatalClass(stderr string, exitErr error) (class, line string) {
	m := fatalRe.FindString(stderr)
	switch {
	case strings.Contains(stderr, "out of memory") || strings.Contains(stderr, "cannot allocate memory"):
		return "out-of-memory", m
	case strings.HasPrefix(m, "fatal error: "):
		c := strings.TrimPrefix(m, "fatal error: ")
		c = regexp.MustCompile(`[^a-z]+`).ReplaceAllString(strings.ToLower(c), "-")
		return strings.Trim(c, "-"), m
	case strings.HasPrefix(m, "panic: "):
		return "unrecovered-panic", m
	case m != "":
		return "fault", m
	}
	return "exit", fmt.Sprint(exitErr)
}

// runBatch feeds the batch to child processes, restarting after every death, until every
// input has a result, a death or a stall recorded.
func runBatch(bin, path string, offs []int64, useLimit bool) childRun {
	n := len(offs)
	cr := childRun{results: map[int]hResult{}, killed: map[int]string{}, stalled: map[int]bool{}}
	from := 0
	for spawn := 0; from < n; spawn++ {
		tSpawn := time.Now()
		fromAtSpawn := from
		cmd := exec.Command(bin)
		cmd.Env = append(os.Environ(), childEnv+"="+path, fmt.Sprintf("%s=%d", childFromEnv, from), fmt.Sprintf("VERIF_C08_CHILD_OFFSET=%d", offs[from]), "GOMAXPROCS=2", "GORACE=", "GOTRACEBACK=single")
		if useLimit {
			cmd.Env = append(cmd.Env, fmt.Sprintf("VERIF_C08_AS_LIMIT=%d", uint64(childASLimit)))
		}
		var stderr cappedBuffer
		cmd.Stderr = &stderr
		cmd.Stdout = &stderr
		stdout, pw, err := os.Pipe()
		if err != nil {
			cr.broken = err.Error()
			return cr
		}
		cmd.ExtraFiles = []*os.File{pw} // fd 3 in the child: the result protocol
		if err := cmd.Start(); err != nil {
			cr.broken = err.Error()
			return cr
		}
		_ = pw.Close()
		lines := make(chan string, 1024)
		go func() {
			sc := bufio.NewScanner(stdout)
			sc.Buffer(make([]byte, 1<<20), 16<<20)
			for sc.Scan() {
				lines <- sc.Text()
			}
			close(lines)
		}()
		started, progressed := -1, false
		stalledNow := false
		watchdog := time.NewTimer(90 * time.Second)
	read:
		for {
			select {
			case l, ok := <-lines:
				if !ok {
					break read
				}
				if !watchdog.Stop() {
					select {
					case <-watchdog.C:
					default:
					}
				}
				watchdog.Reset(90 * time.Second)
				switch {
				case strings.HasPrefix(l, "S "):
					fmt.Sscanf(l, "S %d", &started)
				case strings.HasPrefix(l, "R "):
					var res hResult
					if err := encjson.Unmarshal([]byte(l[2:]), &res); err == nil {
						cr.results[res.Idx] = res
						progressed = true
						if res.Idx == started {
							started = -1
							from = res.Idx + 1
						}
					}
				case strings.HasPrefix(l, "BROKEN "):
					cr.broken = l
				}
			case <-watchdog.C:
				stalledNow = true
				_ = cmd.Process.Kill()
				break read
			}
		}
		watchdog.Stop()
		for range lines {
		}
		tRead := time.Since(tSpawn)
		werr := cmd.Wait()
		_ = stdout.Close()
		if os.Getenv("VERIF_C08_DEBUG") != "" {
			fmt.Fprintf(os.Stderr, "c08-debug: %s spawn %d from %d to %d read %v wait %v\n", filepath.Base(path), spawn, fromAtSpawn, from, tRead, time.Since(tSpawn))
		}
		if cr.broken != "" {
			return cr
		}
		if started >= 0 {
			if stalledNow {
				cr.stalled[started] = true
			} else {
				cl, line := fatalClass(stderr.String(), werr)
				cr.killed[started] = cl + "\x00" + line + "\x00" + panicSite(stderr.String())
			}
			from = started + 1
			continue
		}
		if werr != nil && !progressed {
			cr.broken = fmt.Sprintf("child exited without running anything: %v: %s", werr, tail(stderr.String(), 400))
			return cr
		}
		if spawn > n+8 {
			cr.broken = "child restart loop"
			return cr
		}
	}
	return cr
}

// cappedBuffer keeps the first 64 KiB written to it (a dying Go process prints the
// reason first).
type cappedBuffer struct {
	mu sync.Mutex
	b  bytes.Buffer
}

func (c *cappedBuffer) Write(p []byte) (int, error) {
	c.mu.Lock()
	defer c.mu.Unlock()
	if room := 64<<10 - c.b.Len(); room > 0 {
		if len(p) > room {
			c.b.Write(p[:room])
		} else {
			c.b.Write(p)
		}
	}
	return len(p), nil
}

func (c *cappedBuffer) String() string {
	c.mu.Lock()
	defer c.mu.Unlock()
	return c.b.String()
}

func tail(s string, n int) string {
	if len(s) > n {
		return s[len(s)-n:]
	}
	return s
}

// obs is what was observed for one input.
type obs struct {
	res     *hResult
	killed  bool
	class   string // class of the fatal error
	line    string // first line of the fatal error
	site    string // innermost repo function on the dying goroutine's stack
	stalled bool
}

// runInputs decodes ins in child processes (12 in parallel for large sets); the inputs
// are written to the replay directory before any child touches them.
func runInputs(h *harness.H, bin string, useLimit bool, dir, tag string, w *world, ins []hInput) []obs {
	// static targets first (their children need no in-memory cluster), then the rest
	order := make([]int, len(ins))
	for i := range order {
		order[i] = i
	}
	sort.SliceStable(order, func(a, b int) bool { return !ins[order[a]].needsWorld && ins[order[b]].needsWorld })
	workers := 12
	if len(ins) < 16 {
		workers = 1
	}
	type shard struct {
		idx []int
		run childRun
	}
	shards := make([]shard, workers)
	for i, gi := range order {
		shards[i%workers].idx = append(shards[i%workers].idx, gi)
	}
	var wg sync.WaitGroup
	for si := range shards {
		wg.Add(1)
		go func(si int) {
			defer wg.Done()
			sh := &shards[si]
			if len(sh.idx) == 0 {
				return
			}
			sub := make([]hInput, len(sh.idx))
			for i, gi := range sh.idx {
				sub[i] = ins[gi]
			}
			path := filepath.Join(dir, fmt.Sprintf("batch-%s-s%d-%s-%d.jsonl", tag, h.Seed(), h.Tier(), si))
			offs, err := writeBatch(path, w, sub)
			if err != nil {
				sh.run.broken = err.Error()
				return
			}
			sh.run = runBatch(bin, path, offs, useLimit)
			if sh.run.broken == "" && os.Getenv("VERIF_C08_KEEP_BATCH") == "" {
				_ = os.Remove(path)
			}
		}(si)
	}
	wg.Wait()
	out := make([]obs, len(ins))
	for si := range shards {
		sh := &shards[si]
		if sh.run.broken != "" {
			panic("hostile child harness broken: " + sh.run.broken)
		}
		for li, gi := range sh.idx {
			var o obs
			if line, dead := sh.run.killed[li]; dead {
				parts := strings.SplitN(line, "\x00", 3)
				o.killed, o.class, o.line, o.site = true, parts[0], parts[1], parts[2]
			} else if sh.run.stalled[li] {
				o.stalled = true
			} else if res, ok := sh.run.results[li]; ok {
				r := res
				o.res = &r
			}
			out[gi] = o
		}
	}
	return out
}

// judge applies the oracle of the statement's second sentence to one observation.
func judge(in hInput, o obs) (sig, what string) {
	switch {
	case o.killed:
		return "c08:hostile:killed:" + in.kind() + ":" + o.class + ":" + o.site,
			fmt.Sprintf("decoding a %d-byte input (%s; %s) killed the process in %s: %s", len(in.Data), in.Mut, in.kind(), o.site, o.line)
	case o.res == nil:
		return "", ""
	case o.res.Outcome == "panic":
		return "c08:hostile:panic:" + in.kind() + ":" + o.res.Site,
			fmt.Sprintf("decoding a %d-byte input (%s; %s) panicked instead of returning an error: %s", len(in.Data), in.Mut, in.kind(), o.res.Msg)
	case o.res.Alloc > allocBound(len(in.Data)):
		return "c08:hostile:alloc:" + in.kind() + ":" + o.res.Site,
			fmt.Sprintf("decoding a %d-byte input (%s; %s) allocated %d bytes (bound %d), mostly in %s, and returned %s", len(in.Data), in.Mut, in.kind(), o.res.Alloc, allocBound(len(in.Data)), o.res.Site, o.res.Outcome)
	case o.res.Bad != "":
		cls := o.res.Bad
		if i := strings.IndexByte(cls, ':'); i > 0 {
			cls = cls[:i]
		}
		return "c08:hostile:malformed-frame:" + cls + ":" + in.kind(),
			fmt.Sprintf("decoding a %d-byte input (%s; %s) returned neither an error nor a usable frame: %s", len(in.Data), in.Mut, in.kind(), o.res.Bad)
	}
	return "", ""
}

func layerHostile(h *harness.H) {
	h.AddRule("hostile: a case is one decoder target (static codec; dynamic codec never updated / after 1-6 updates; WebSocket framer codec for each of the six message types before / after negotiation) with a valid seed encoding, and its inputs are the seed, 6 structure-aware mutations (length/count/key/sequence fields to boundary values, flag byte, truncation, bit flips, insert/delete/append, JSON numbers), 2 PRNG byte strings of length 0-4096, and for every 16th case truncation at every offset + all 64 flag bytes + every 32-bit field at 4 boundary values; each input is decoded in a child process (4 GiB address-space limit); evaluations count inputs; distinct+non-trivial = distinct (target kind, mutation class, outcome) over non-empty inputs")
	h.Assume("memory is 'in proportion' when TotalAlloc grows by at most 1 MiB + 512 x len(input) during the decode (minimum of up to 3 repetitions)")
	w, err := openWorld()
	if err != nil {
		panic(err)
	}
	nCases := h.N(1500, 50000)
	bin, useLimit := os.Getenv(childBinEnv), true
	if bin == "" {
		// fall back to this (race-instrumented) binary; its shadow memory does not fit
		// under an address-space limit, so only the TotalAlloc oracle and a real OOM apply
		bin, useLimit = os.Args[0], false
		fmt.Println("NOTE: C08 hostile layer: no dedicated child binary (" + childBinEnv + "), re-executing the race build without an address-space limit")
		h.Assume("child binary unavailable: decoding children ran without the 4 GiB address-space limit")
	}
	dir := filepath.Join(os.Getenv("VERIF_REPLAY_DIR"), "C08")
	if os.Getenv("VERIF_REPLAY_DIR") == "" {
		dir = filepath.Join(harness.Root(), "replays", "C08")
	}
	_ = os.MkdirAll(dir, 0o755)

	// cases are generated, decoded and judged in chunks so that the inputs of a thorough run
	// (about 1.5 million byte strings) never sit in memory or on disk all at once
	const chunk = 2000
	minimised := map[string]bool{}
	var batchWall float64
	for start := 0; start < nCases; start += chunk {
		var all []hInput
		for c := start; c < nCases && c < start+chunk; c++ {
			if h.Skip("hostile", c) {
				continue
			}
			r := h.Rand("hostile", c)
			all = append(all, genHostileCase(r, c, w)...)
		}
		if len(all) == 0 {
			continue
		}
		t0 := time.Now()
		observed := runInputs(h, bin, useLimit, dir, "main", w, all)
		batchWall += time.Since(t0).Seconds()
		firstChunk := start == 0
		for gi, in := range all {
			o := observed[gi]
			h.Eval()
			h.Count("hostile_inputs", 1)
			h.Count("hostile_input_bytes", len(in.Data))
			mutClass := in.Mut
			if i := strings.IndexByte(mutClass, '='); i > 0 {
				mutClass = mutClass[:i]
			}
			h.Seen("hostile_targets", in.kind())
			h.Seen("hostile_mutations", mutClass)
			outcome := "none"
			switch {
			case o.killed:
				outcome = "killed"
				h.Count("child_deaths", 1)
			case o.stalled:
				h.Inconclusive("hostile-decode-stalled")
				continue
			case o.res == nil:
				h.Inconclusive("hostile-no-result")
				continue
			default:
				outcome = o.res.Outcome
				if o.res.Alloc > allocBound(len(in.Data)) {
					h.Count("alloc_over_bound", 1)
				}
			}
			h.Count("decode_"+outcome, 1)
			if len(in.Data) > 0 {
				h.Distinct(fmt.Sprint(in.kind(), mutClass, outcome))
			}
			if firstChunk && gi < 3 {
				h.Sample(map[string]any{"layer": "hostile", "kind": in.kind(), "mut": in.Mut, "len": len(in.Data), "outcome": outcome})
			}
			if in.Mut == "valid" && outcome != "ok" && !strings.HasSuffix(in.kind(), "-fresh") {
				h.Count("valid_seed_not_decoded", 1)
			}
			sig, what := judge(in, o)
			if sig == "" {
				continue
			}
			wit := map[string]any{"input": in, "kind": in.kind(), "len": len(in.Data), "result": o.res, "fatal": o.line}
			if !minimised[sig] {
				// first witness of a signature: the shortest prefix of the input that still
				// produces the same signature
				minimised[sig] = true
				if m, ok := minimisePrefix(h, bin, useLimit, dir, w, in, sig); ok {
					wit["minimised_input"] = m
					wit["minimised_hex"] = fmt.Sprintf("%x", m.Data)
					what += fmt.Sprintf(" [shortest prefix with the same signature: %d bytes %x]", len(m.Data), clip(m.Data, 48))
				}
			}
			h.Violation("hostile", in.Case, sig, what, wit)
		}
	}
	h.SetExtra("wall_s_hostile_main_batch", batchWall)
	w.Close()
}

func clip(b []byte, n int) []byte {
	if len(b) > n {
		return b[:n]
	}
	return b
}

func minimisePrefix(h *harness.H, bin string, useLimit bool, dir string, w *world, in hInput, sig string) (hInput, bool) {
	if len(in.Data) <= 1 {
		return in, false
	}
	var cands []hInput
	// every length up to 32, then geometrically spaced ones: most inputs that keep the
	// signature also kill or restart a child, so the candidate list is kept short
	for n := 0; n < len(in.Data); {
		c := in
		c.Data = append([]byte{}, in.Data[:n]...)
		c.Mut = in.Mut + "+prefix"
		cands = append(cands, c)
		if n < 32 {
			n++
		} else {
			n += n / 4
		}
	}
	obsv := runInputs(h, bin, useLimit, dir, "min", w, cands)
	for i, c := range cands {
		if s, _ := judge(c, obsv[i]); s == sig {
			return c, true
		}
	}
	return in, false
}
