// C08 — the frame wire codec round-trips every frame and is safe on any bytes.
//
// Layers:
//
//	static   round trip through codec.NewStatic pairs (reference normal form)
//	dynamic  round trip through codec.NewDynamic pairs a bounded number of updates apart,
//	         bare and wrapped in the WebSocket framer codec
//	hostile  structure-aware mutations and random bytes decoded in child processes under
//	         an address-space limit; oracle: no panic, no death, TotalAlloc in proportion
package main

import (
	"os"

	"verif/lib/harness"
)

func main() {
	if os.Getenv(childEnv) != "" {
		childMain()
		return
	}
	harness.Main("C08", "exploration",
		harness.Layer{Name: "static", Run: layerStatic},
		harness.Layer{Name: "dynamic", Run: layerDynamic},
		harness.Layer{Name: "hostile", Run: layerHostile},
	)
}
