// C08 — the frame wire codec round-trips every frame and is safe on any bytes.
//
// Layers:
//
//	static   round trip through codec.NewStatic pairs (reference normal form)
//	dynamic  round trip through codec.NewDynamic pairs a bounded number of updates apart,
//	         bare and wrapped in the WebSocket framer codec
//	hostile  structure-aware mutations and random bytes decoded in child processes under
//	         an address-space limit; oracle: no panic, no death, TotalAlloc in proportion
package main

import (
	"fmt"
	"os"
	"strconv"
	"strings"
	"time"

	"verif/lib/harness"
)

// memoryValve ends the process (exit 2: broken check, never a verdict) when its resident
// set passes 12 GiB. The round-trip layers decode in this process; on a tree where the
// decoder still sizes buffers from wire fields, a regression that makes it misread a
// length would otherwise let the race runtime touch tens of GiB of shadow memory and
// invite the kernel's OOM killer. /proc is read instead of runtime.MemStats because the
// latter has to stop the world, which waits for the very allocation it should catch.
func memoryValve() {
	const limitPages = (12 << 30) / 4096
	for {
		time.Sleep(20 * time.Millisecond)
		b, err := os.ReadFile("/proc/self/statm")
		if err != nil {
			return
		}
		f := strings.Fields(string(b))
		if len(f) < 2 {
			return
		}
		if rss, _ := strconv.ParseInt(f[1], 10, 64); rss > limitPages {
			fmt.Printf("HARNESS-ERROR: C08 monitor process resident set passed 12 GiB (%d pages): a decode in the round-trip layers allocated out of all proportion; aborting before the OOM killer does\n", rss)
			os.Exit(2)
		}
	}
}

func main() {
	if os.Getenv(childEnv) != "" {
		childMain()
		return
	}
	go memoryValve()
	harness.Main("C08", "exploration",
		harness.Layer{Name: "static", Run: layerStatic},
		harness.Layer{Name: "dynamic", Run: layerDynamic},
		harness.Layer{Name: "hostile", Run: layerHostile},
	)
}
