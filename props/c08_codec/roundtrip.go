package main

import (
	"bytes"
	"context"
	"fmt"
	"io"
	"runtime"
	"runtime/debug"
	"strings"
	"sync"
	"testing/iotest"
	"time"

	fhttp "github.com/synnaxlabs/freighter/http"
	"github.com/synnaxlabs/synnax/pkg/distribution/channel"
	"github.com/synnaxlabs/synnax/pkg/distribution/framer/codec"
	"github.com/synnaxlabs/synnax/pkg/distribution/framer/frame"
	"github.com/synnaxlabs/synnax/pkg/distribution/framer/iterator"
	"github.com/synnaxlabs/synnax/pkg/distribution/framer/writer"
	httpframer "github.com/synnaxlabs/synnax/pkg/transport/http/framer"
	"github.com/synnaxlabs/x/encoding/json"

	"verif/lib/harness"
	"verif/lib/prng"
)

var bg = context.Background()

// parallel runs fn(c) for c in [0,n) on GOMAXPROCS workers. Every case derives its own
// PRNG from (seed, layer, case) so the result does not depend on the schedule.
func parallel(n int, fn func(c int)) {
	w := runtime.GOMAXPROCS(0)
	var wg sync.WaitGroup
	ch := make(chan int, 64)
	for i := 0; i < w; i++ {
		wg.Add(1)
		go func() {
			defer wg.Done()
			for c := range ch {
				fn(c)
			}
		}()
	}
	for c := 0; c < n; c++ {
		ch <- c
	}
	close(ch)
	wg.Wait()
}

// panicSite names the innermost /repo function on a panic's stack.
func panicSite(stack string) string {
	lines := strings.Split(stack, "\n")
	for i := 0; i+1 < len(lines); i++ {
		fn := lines[i]
		loc := strings.TrimSpace(lines[i+1])
		if strings.HasPrefix(fn, "panic(") || strings.HasPrefix(fn, "runtime.") || strings.HasPrefix(fn, "runtime/debug.") {
			continue
		}
		if strings.Contains(fn, "synnaxlabs/") && !strings.HasPrefix(loc, "/verif/") {
			if j := strings.LastIndex(fn, "("); j > 0 {
				fn = fn[:j]
			}
			return shortFunc(fn)
		}
	}
	return "unknown"
}

func shortFunc(fn string) string {
	if j := strings.LastIndex(fn, "/"); j >= 0 {
		fn = fn[j+1:]
	}
	return fn
}

type rtOutcome struct {
	Class string // "" ok
	What  string
	Flags byte
	Bytes int
}

// staticRoundTrip encodes every frame with enc, then decodes every encoding with dec and
// compares in normal form. frames[i] is the model, built[i] the repo frame.
type staticCase struct {
	Spec       codecSpec   `json:"spec"`
	NoCompress bool        `json:"no_compress"`
	SameCodec  bool        `json:"same_codec"`
	Stream     bool        `json:"stream"`
	MaskMode   int         `json:"mask_mode"`
	Frames     [][]mSeries `json:"frames"`
	Shapes     []string    `json:"shapes"`
	MaskSeed   int         `json:"mask_seed"`
}

func newStatic(spec codecSpec, noCompress bool) *codec.Codec {
	var opts []codec.Option
	if noCompress {
		opts = append(opts, codec.DisableAlignmentCompression())
	}
	return codec.NewStatic(spec.channelKeys(), spec.dataTypes(), opts...)
}

func encodeWith(c *codec.Codec, fr frame.Frame, stream bool) ([]byte, error) {
	if stream {
		var buf bytes.Buffer
		if err := c.EncodeStream(bg, &buf, fr); err != nil {
			return nil, err
		}
		return buf.Bytes(), nil
	}
	return c.Encode(bg, fr)
}

func decodeWith(c *codec.Codec, b []byte, stream bool) (frame.Frame, error) {
	if stream {
		return c.DecodeStream(iotest.OneByteReader(bytes.NewReader(b)))
	}
	return c.Decode(b)
}

func (sc staticCase) run(h *harness.H) (out []rtOutcome) {
	defer func() {
		if p := recover(); p != nil {
			out = append(out, rtOutcome{Class: "panic:" + panicSite(string(debug.Stack())), What: fmt.Sprintf("panic: %v", p)})
		}
	}()
	enc := newStatic(sc.Spec, sc.NoCompress)
	dec := enc
	if !sc.SameCodec {
		dec = newStatic(sc.Spec, sc.NoCompress)
	}
	mr := prng.New(int64(sc.MaskSeed), "c08mask", 0)
	encs := make([][]byte, len(sc.Frames))
	for i, f := range sc.Frames {
		fr := buildFrame(mr, f, sc.Spec, sc.MaskMode)
		b, err := encodeWith(enc, fr, sc.Stream)
		if err != nil {
			return append(out, rtOutcome{Class: "encode-error", What: fmt.Sprintf("frame %d: Encode of a valid frame failed: %v", i, err)})
		}
		if len(b) < 5 {
			return append(out, rtOutcome{Class: "short-encoding", What: fmt.Sprintf("frame %d: %d bytes", i, len(b))})
		}
		encs[i] = b
	}
	// all encodings are decoded after the last Encode: the returned slices must not alias
	for i, f := range sc.Frames {
		if _, over := wireLayoutClaim(encs[i], sc.Spec, 0); over != "" {
			return append(out, rtOutcome{Class: "overclaiming-encoding", Flags: encs[i][0], What: fmt.Sprintf("frame %d (flags %s): the encoding is not decodable: %s", i, flagString(encs[i][0]), over)})
		}
		fr, err := decodeWith(dec, encs[i], sc.Stream)
		if err != nil {
			return append(out, rtOutcome{Class: "decode-error", Flags: encs[i][0], What: fmt.Sprintf("frame %d: Decode of a fresh encoding failed: %v", i, err)})
		}
		cl, what := compareFrames(f, fromFrame(fr), sc.Spec)
		if cl != "" {
			what = fmt.Sprintf("frame %d (flags %s): %s", i, flagString(encs[i][0]), what)
		}
		out = append(out, rtOutcome{Class: cl, What: what, Flags: encs[i][0], Bytes: len(encs[i])})
	}
	return out
}

func firstBad(out []rtOutcome) *rtOutcome {
	for i := range out {
		if out[i].Class != "" && out[i].Class != "inconclusive" {
			return &out[i]
		}
	}
	return nil
}

// minimise greedily drops frames, then series, while the same failure class persists.
func (sc staticCase) minimise(h *harness.H, class string) staticCase {
	same := func(c staticCase) bool {
		b := firstBad(c.run(h))
		return b != nil && b.Class == class
	}
	cur := sc
	for i := 0; i < len(cur.Frames) && len(cur.Frames) > 1; {
		c := cur
		c.Frames = append(append([][]mSeries{}, cur.Frames[:i]...), cur.Frames[i+1:]...)
		if same(c) {
			cur = c
		} else {
			i++
		}
	}
	if cur.MaskMode != 0 {
		c := cur
		c.MaskMode = 0
		if same(c) {
			cur = c
		}
	}
	for fi := range cur.Frames {
		for i := 0; i < len(cur.Frames[fi]); {
			c := cur
			c.Frames = append([][]mSeries{}, cur.Frames...)
			c.Frames[fi] = append(append([]mSeries{}, cur.Frames[fi][:i]...), cur.Frames[fi][i+1:]...)
			if same(c) {
				cur = c
			} else {
				i++
			}
		}
	}
	cur.Shapes = nil
	return cur
}

func genStaticCase(r *prng.R) staticCase {
	sc := staticCase{
		Spec:       genSpec(r),
		NoCompress: r.Chance(1, 5),
		SameCodec:  r.Chance(1, 3),
		Stream:     r.Chance(1, 3),
		MaskSeed:   r.Intn(1 << 30),
	}
	if r.Chance(1, 4) {
		sc.MaskMode = 1 + r.Intn(2)
	}
	nf := 1 + r.Intn(3)
	for i := 0; i < nf; i++ {
		f, sh := genFrame(r, sc.Spec, r.Chance(1, 80))
		sc.Frames = append(sc.Frames, f)
		sc.Shapes = append(sc.Shapes, sh.String())
	}
	return sc
}

// hasOrderTies: more than 12 series, and some key has two non-empty series with the same
// alignment - the frames in which only the relative order can tell a permutation apart.
func hasOrderTies(f []mSeries) bool {
	if len(f) <= 12 {
		return false
	}
	seen := map[[2]uint64]bool{}
	for _, s := range f {
		if s.N == 0 {
			continue
		}
		k := [2]uint64{uint64(s.Key), s.Align}
		if seen[k] {
			return true
		}
		seen[k] = true
	}
	return false
}

func nontrivial(f []mSeries) bool {
	for _, s := range f {
		if s.N > 0 {
			return true
		}
	}
	return false
}

func layerStatic(h *harness.H) {
	h.AddRule("static: a case is a channel set (0-8 keys, fixed+variable types, repeated keys) and 1-3 generated frames round-tripped through codec.NewStatic (Encode/Decode or EncodeStream/DecodeStream, with/without alignment compression, masked/unmasked source frame); distinct+non-trivial = distinct (sorted data types, frame shape, flag byte, series count) with at least one non-empty series")
	n := h.N(12000, 600000)
	parallel(n, func(c int) {
		if h.Skip("static", c) {
			return
		}
		r := h.Rand("static", c)
		sc := genStaticCase(r)
		h.Eval()
		out := sc.run(h)
		for i, o := range out {
			if o.Class == "inconclusive" {
				h.Inconclusive("merge-matcher-budget")
			}
			if o.Class != "" {
				continue
			}
			h.Count("frames_roundtripped", 1)
			h.Count("bytes_encoded", o.Bytes)
			if i < len(sc.Frames) && hasOrderTies(sc.Frames[i]) {
				h.Count("frames_with_same_alignment_ties", 1)
			}
			h.Seen("flag_bytes_static", fmt.Sprint(o.Flags&63))
			h.Seen("flag_bytes", fmt.Sprint(o.Flags&63))
			for b := 0; b < 6; b++ {
				h.Seen("flag_values", fmt.Sprintf("%d=%d", b, (o.Flags>>b)&1))
			}
			if i < len(sc.Frames) && nontrivial(sc.Frames[i]) {
				ts := append([]string{}, sc.Spec.Types...)
				sortStrings(ts)
				h.Distinct(fmt.Sprint("static", ts, sc.Shapes[i], o.Flags, len(sc.Frames[i])))
			}
		}
		if c < 2 {
			h.Sample(map[string]any{"layer": "static", "spec": sc.Spec, "shapes": sc.Shapes, "frames": len(sc.Frames), "stream": sc.Stream, "no_compress": sc.NoCompress, "mask_mode": sc.MaskMode})
		}
		if b := firstBad(out); b != nil {
			m := sc.minimise(h, b.Class)
			what := b.What
			if mb := firstBad(m.run(h)); mb != nil {
				what = mb.What
			}
			h.Violation("static", c, "c08:roundtrip:static:"+b.Class, what, m)
		}
	})
	if _, rp := h.Replaying(); !rp {
		floor := 36 // every flag byte the encoder can produce (tr: 3 states, align: 3, len: 2, present: 2)
		if got := h.SeenCount("flag_bytes_static"); got < floor {
			panic(fmt.Sprintf("coverage floor: static round trip saw %d distinct flag bytes, need %d", got, floor))
		}
		if got := h.SeenCount("flag_values"); got < 12 {
			panic(fmt.Sprintf("coverage floor: saw %d of 12 (flag,value) pairs", got))
		}
	}
}

func sortStrings(s []string) {
	for i := 1; i < len(s); i++ {
		for j := i; j > 0 && s[j] < s[j-1]; j-- {
			s[j], s[j-1] = s[j-1], s[j]
		}
	}
}

// ---------------------------------------------------------------------------------
// Dynamic codecs: an encoder and a decoder that apply the same sequence of channel-set
// updates, a bounded number of updates apart, optionally wrapped in the WebSocket framer
// codec (core/pkg/transport/http/framer).

type dynStep struct {
	Op     string    `json:"op"` // "upd-dec" | "upd-enc" | "frame"
	Set    []int     `json:"set,omitempty"`
	Series []mSeries `json:"series,omitempty"`
	Shape  string    `json:"shape,omitempty"`
	Stream bool      `json:"stream,omitempty"`
}

type dynCase struct {
	Wrap       string    `json:"wrap"` // "" | "writer-request" | "streamer-response" | "iterator-response"
	NoCompress bool      `json:"no_compress"`
	Steps      []dynStep `json:"steps"`
}

const (
	maxApart   = 40 // how far the decoder may run ahead of the encoder
	maxPending = 45 // updates queued on one codec between two frames (the queue holds 50)
)

func (w *world) specOf(set []int) codecSpec {
	var s codecSpec
	for _, i := range set {
		s.Keys = append(s.Keys, uint32(w.keys[i]))
		s.Types = append(s.Types, string(chanTypes[i]))
	}
	return s
}

func (w *world) keysOf(set []int) []channel.Key {
	out := make([]channel.Key, len(set))
	for i, j := range set {
		out[i] = w.keys[j]
	}
	return out
}

func genSet(r *prng.R) []int {
	n := r.Range(1, 8)
	perm := make([]int, len(chanTypes))
	for i := range perm {
		perm[i] = i
	}
	prng.Shuffle(r, perm)
	set := perm[:n]
	if r.Chance(1, 10) {
		set = append(set, set[0])
	}
	return append([]int{}, set...)
}

func genDynCase(r *prng.R, w *world) dynCase {
	dc := dynCase{NoCompress: r.Chance(1, 6)}
	switch r.Intn(6) {
	case 0:
		dc.Wrap = "writer-request"
	case 1:
		dc.Wrap = "streamer-response"
	case 2:
		dc.Wrap = "iterator-response"
	}
	var sets [][]int
	e, d := 0, 0
	// both sides start with the same first update
	first := genSet(r)
	sets = append(sets, first)
	dc.Steps = append(dc.Steps, dynStep{Op: "upd-dec", Set: first}, dynStep{Op: "upd-enc", Set: first})
	e, d = 1, 1
	burst := r.Chance(1, 4)
	steps := r.Range(3, 14)
	// Update queues the new state until the next Encode/Decode on that codec; the queue
	// holds 50 and Update blocks beyond that, so the script keeps the number of updates
	// between two frames below it on each side.
	pendE, pendD := 1, 1
	for i := 0; i < steps; i++ {
		switch x := r.Intn(10); {
		case x < 3 && d-e < maxApart && pendD < maxPending: // decoder moves ahead
			k := 1
			if burst {
				k = r.Range(1, min(maxApart-(d-e), maxPending-pendD))
			}
			for ; k > 0; k-- {
				if d == len(sets) {
					sets = append(sets, genSet(r))
				}
				dc.Steps = append(dc.Steps, dynStep{Op: "upd-dec", Set: sets[d]})
				d++
				pendD++
			}
		case x < 5 && e < d && pendE < maxPending: // encoder catches up (by one or fully)
			k := 1
			if r.Bool() {
				k = d - e
			}
			k = min(k, maxPending-pendE)
			for ; k > 0; k-- {
				dc.Steps = append(dc.Steps, dynStep{Op: "upd-enc", Set: sets[e]})
				e++
				pendE++
			}
		case x < 6 && e == d && pendE < maxPending && r.Chance(1, 3): // encoder ahead by one: decoder must refuse, not mis-decode
			sets = append(sets, genSet(r))
			dc.Steps = append(dc.Steps, dynStep{Op: "upd-enc", Set: sets[e]})
			e++
			pendE++
		default:
			spec := w.specOf(sets[e-1])
			f, sh := genFrame(r, spec, false)
			dc.Steps = append(dc.Steps, dynStep{Op: "frame", Series: f, Shape: sh.String(), Stream: r.Chance(1, 3)})
			// the response envelopes carry an empty frame as JSON and never reach the
			// binary codec, which is what drains the update queue
			if len(f) > 0 || dc.Wrap == "" || dc.Wrap == "writer-request" {
				pendE, pendD = 0, 0
			}
		}
	}
	return dc
}

type dynEnd struct {
	raw  *codec.Codec
	http *httpframer.Codec
}

func newDynEnd(w *world, wrap bool, noCompress bool) dynEnd {
	var opts []codec.Option
	if noCompress {
		opts = append(opts, codec.DisableAlignmentCompression())
	}
	c := codec.NewDynamic(w.svc, opts...)
	e := dynEnd{raw: c}
	if wrap {
		e.http = &httpframer.Codec{Codec: c, LowerPerfCodec: json.Codec}
	}
	return e
}

func (dc dynCase) run(w *world) (out []rtOutcome, apartSeen int) {
	defer func() {
		if p := recover(); p != nil {
			out = append(out, rtOutcome{Class: "panic:" + panicSite(string(debug.Stack())), What: fmt.Sprintf("panic: %v", p)})
		}
	}()
	enc := newDynEnd(w, dc.Wrap != "", dc.NoCompress)
	dec := newDynEnd(w, dc.Wrap != "", dc.NoCompress)
	e, d := 0, 0
	var encSet []int
	for si, st := range dc.Steps {
		switch st.Op {
		case "upd-dec":
			if err := dec.raw.Update(bg, w.keysOf(st.Set)); err != nil {
				return append(out, rtOutcome{Class: "update-error", What: err.Error()}), apartSeen
			}
			d++
		case "upd-enc":
			if err := enc.raw.Update(bg, w.keysOf(st.Set)); err != nil {
				return append(out, rtOutcome{Class: "update-error", What: err.Error()}), apartSeen
			}
			e++
			encSet = st.Set
		case "frame":
			spec := w.specOf(encSet)
			fr := buildFrame(prng.New(int64(si), "c08mask", 0), st.Series, spec, 0)
			var (
				b   []byte
				got frame.Frame
				err error
			)
			isEmpty := len(st.Series) == 0
			switch dc.Wrap {
			case "":
				b, err = encodeWith(enc.raw, fr, st.Stream)
			case "writer-request":
				var m fhttp.WSMessage[httpframer.WriterRequest]
				m.Type = fhttp.WSMessageTypeData
				m.Payload.Command = writer.CommandWrite
				m.Payload.Frame = fr
				b, err = enc.http.Encode(bg, m)
			case "streamer-response":
				var m fhttp.WSMessage[httpframer.StreamerResponse]
				m.Type = fhttp.WSMessageTypeData
				m.Payload.Frame = fr
				b, err = enc.http.Encode(bg, m)
			case "iterator-response":
				var m fhttp.WSMessage[httpframer.IteratorResponse]
				m.Type = fhttp.WSMessageTypeData
				m.Payload.Variant = iterator.ResponseVariantData
				m.Payload.Frame = fr
				b, err = enc.http.Encode(bg, m)
			}
			if err != nil {
				return append(out, rtOutcome{Class: "encode-error", What: fmt.Sprintf("step %d: Encode of a valid frame failed: %v", si, err)}), apartSeen
			}
			flags := byte(0)
			binaryPath := true
			if dc.Wrap == "" {
				flags = b[0]
			} else if len(b) > 1 && b[0] == 255 {
				flags = b[1]
			} else {
				binaryPath = false // JSON fallback for empty frames
			}
			if binaryPath {
				base := 0
				if dc.Wrap != "" {
					base = 1
				}
				if _, over := wireLayoutClaim(b, spec, base); over != "" {
					return append(out, rtOutcome{Class: "overclaiming-encoding", Flags: flags, What: fmt.Sprintf("step %d (flags %s): the encoding is not decodable: %s", si, flagString(flags), over)}), apartSeen
				}
			}
			switch dc.Wrap {
			case "":
				got, err = decodeWith(dec.raw, b, st.Stream)
			case "writer-request":
				var m fhttp.WSMessage[httpframer.WriterRequest]
				err = dec.http.Decode(bg, b, &m)
				got = m.Payload.Frame
			case "streamer-response":
				var m fhttp.WSMessage[httpframer.StreamerResponse]
				err = dec.http.Decode(bg, b, &m)
				got = m.Payload.Frame
			case "iterator-response":
				var m fhttp.WSMessage[httpframer.IteratorResponse]
				err = dec.http.Decode(bg, b, &m)
				got = m.Payload.Frame
			}
			if d-e > apartSeen {
				apartSeen = d - e
			}
			if d < e && binaryPath {
				// the decoder has not seen the encoder's channel set yet: it cannot know the
				// layout. Refusing is fine; decoding to something else is not.
				if err != nil {
					out = append(out, rtOutcome{Flags: flags, Bytes: -1})
					continue
				}
			} else if err != nil {
				return append(out, rtOutcome{Class: "decode-error", Flags: flags, What: fmt.Sprintf("step %d (decoder %d updates ahead): Decode failed: %v", si, d-e, err)}), apartSeen
			}
			_ = isEmpty
			cl, what := compareFrames(st.Series, fromFrame(got), spec)
			if cl == "inconclusive" {
				out = append(out, rtOutcome{Class: cl, Flags: flags})
				continue
			}
			if cl != "" {
				what = fmt.Sprintf("step %d (decoder %d updates ahead, flags %s): %s", si, d-e, flagString(flags), what)
				return append(out, rtOutcome{Class: cl, What: what, Flags: flags}), apartSeen
			}
			by := len(b)
			if !binaryPath {
				by = -2
			}
			out = append(out, rtOutcome{Flags: flags, Bytes: by})
		}
	}
	return out, apartSeen
}

// pendingOK reports whether the script keeps the number of updates queued on either codec
// between two frames that reach the binary codec below the queue size (Update blocks
// beyond it).
func (dc dynCase) pendingOK() bool {
	pe, pd := 0, 0
	for _, st := range dc.Steps {
		switch st.Op {
		case "upd-enc":
			pe++
		case "upd-dec":
			pd++
		case "frame":
			if len(st.Series) > 0 || dc.Wrap == "" || dc.Wrap == "writer-request" {
				pe, pd = 0, 0
			}
		}
		if pe > maxPending || pd > maxPending {
			return false
		}
	}
	return true
}

func (dc dynCase) minimise(w *world, class string) dynCase {
	same := func(c dynCase) bool {
		o, _ := c.run(w)
		b := firstBad(o)
		return b != nil && b.Class == class
	}
	cur := dc
	// drop frame steps (updates keep the sequence numbers meaningful)
	for i := 0; i < len(cur.Steps); {
		if cur.Steps[i].Op != "frame" {
			i++
			continue
		}
		c := cur
		c.Steps = append(append([]dynStep{}, cur.Steps[:i]...), cur.Steps[i+1:]...)
		if c.pendingOK() && same(c) {
			cur = c
		} else {
			i++
		}
	}
	for si := range cur.Steps {
		if cur.Steps[si].Op != "frame" {
			continue
		}
		for i := 0; i < len(cur.Steps[si].Series); {
			c := cur
			c.Steps = append([]dynStep{}, cur.Steps...)
			st := c.Steps[si]
			st.Series = append(append([]mSeries{}, st.Series[:i]...), st.Series[i+1:]...)
			c.Steps[si] = st
			if c.pendingOK() && same(c) {
				cur = c
			} else {
				i++
			}
		}
	}
	return cur
}

func layerDynamic(h *harness.H) {
	h.AddRule("dynamic: a case is a script of channel-set updates applied to an encoder/decoder pair of codec.NewDynamic over a real in-memory channel service (decoder 0..40 updates ahead of the encoder, or one behind) interleaved with generated frames, bare or wrapped in the WebSocket framer codec message types; distinct+non-trivial = distinct (wrap, channel-set types, frame shape, flag byte, updates apart) with a non-empty series")
	w, err := openWorld()
	if err != nil {
		panic(err)
	}
	defer w.Close()
	n := h.N(2500, 100000)
	parallel(n, func(c int) {
		if h.Skip("dynamic", c) {
			return
		}
		r := h.Rand("dynamic", c)
		dc := genDynCase(r, w)
		h.Eval()
		var (
			out   []rtOutcome
			apart int
			done  = make(chan struct{})
		)
		go func() {
			defer close(done)
			out, apart = dc.run(w)
		}()
		select {
		case <-done:
		case <-time.After(2 * time.Minute):
			// watchdog only (Codec.Update blocks when 50 updates are queued and nothing
			// encodes or decodes): never a verdict
			h.Inconclusive("dynamic-case-stalled")
			return
		}
		h.Seen("updates_apart", fmt.Sprint(apart))
		fi := 0
		for _, st := range dc.Steps {
			if st.Op != "frame" {
				continue
			}
			if fi >= len(out) {
				break
			}
			o := out[fi]
			fi++
			if o.Class == "inconclusive" {
				h.Inconclusive("merge-matcher-budget")
				continue
			}
			if o.Class != "" {
				break
			}
			switch o.Bytes {
			case -1:
				h.Count("decoder_behind_refused", 1)
				continue
			case -2:
				h.Count("json_fallback_frames", 1)
				continue
			}
			h.Count("frames_roundtripped", 1)
			h.Count("frames_roundtripped_dynamic", 1)
			if hasOrderTies(st.Series) {
				h.Count("frames_with_same_alignment_ties", 1)
			}
			h.Seen("flag_bytes", fmt.Sprint(o.Flags&63))
			h.Seen("wraps", dc.Wrap)
			if nontrivial(st.Series) {
				h.Distinct(fmt.Sprint("dyn", dc.Wrap, st.Shape, o.Flags, len(st.Series), apart))
			}
		}
		if c < 1 {
			h.Sample(map[string]any{"layer": "dynamic", "wrap": dc.Wrap, "steps": len(dc.Steps), "max_updates_apart": apart})
		}
		if b := firstBad(out); b != nil {
			m := dc.minimise(w, b.Class)
			what := b.What
			if o, _ := m.run(w); firstBad(o) != nil {
				what = firstBad(o).What
			}
			h.Violation("dynamic", c, "c08:roundtrip:dynamic:"+b.Class, what, m)
		}
	})
}

var _ = io.EOF
