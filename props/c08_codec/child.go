package main

import (
	"bufio"
	"bytes"
	encjson "encoding/json"
	"fmt"
	"io"
	"os"
	"regexp"
	"runtime"
	"runtime/debug"
	"strconv"
	"strings"
	"syscall"
	"testing/iotest"

	fhttp "github.com/synnaxlabs/freighter/http"
	"github.com/synnaxlabs/synnax/pkg/distribution/framer/codec"
	"github.com/synnaxlabs/synnax/pkg/distribution/framer/frame"
	httpframer "github.com/synnaxlabs/synnax/pkg/transport/http/framer"
	"github.com/synnaxlabs/x/encoding/json"
	"github.com/synnaxlabs/x/telem"
)

// childMain decodes the inputs of a batch file one by one, announcing each on fd 3
// before touching it ("S idx") and reporting the observation afterwards ("R {json}"), so
// that the parent knows which input was being decoded if this process dies.
func childMain() {
	out := os.NewFile(3, "results")
	if out == nil {
		fmt.Fprintln(os.Stderr, "child: fd 3 missing")
		os.Exit(4)
	}
	say := func(format string, a ...any) { fmt.Fprintf(out, format+"\n", a...) }
	if v := os.Getenv("VERIF_C08_AS_LIMIT"); v != "" {
		lim, _ := strconv.ParseUint(v, 10, 64)
		if err := syscall.Setrlimit(syscall.RLIMIT_AS, &syscall.Rlimit{Cur: lim, Max: lim}); err != nil {
			say("BROKEN setrlimit: %v", err)
			os.Exit(4)
		}
	}
	from, _ := strconv.Atoi(os.Getenv(childFromEnv))
	f, err := os.Open(os.Getenv(childEnv))
	if err != nil {
		say("BROKEN open batch: %v", err)
		os.Exit(4)
	}
	br := bufio.NewReaderSize(f, 1<<20)
	dec := encjson.NewDecoder(br)
	var hd batchHeader
	if err := dec.Decode(&hd); err != nil {
		say("BROKEN batch header: %v", err)
		os.Exit(4)
	}
	var w *world
	getWorld := func() *world {
		if w != nil {
			return w
		}
		var err error
		if w, err = openWorld(); err != nil {
			say("BROKEN child world: %v", err)
			os.Exit(4)
		}
		for i, k := range w.keys {
			if i >= len(hd.WorldKeys) || uint32(k) != hd.WorldKeys[i] {
				say("BROKEN child channel keys differ from the parent's: %v vs %v", w.keys, hd.WorldKeys)
				os.Exit(4)
			}
		}
		return w
	}
	if v := os.Getenv("VERIF_C08_CHILD_OFFSET"); v != "" && from > 0 {
		// restarted after a death: continue at the byte offset of input number `from`
		off, _ := strconv.ParseInt(v, 10, 64)
		if _, err := f.Seek(off, io.SeekStart); err != nil {
			say("BROKEN seek: %v", err)
			os.Exit(4)
		}
		dec = encjson.NewDecoder(bufio.NewReaderSize(f, 1<<20))
	} else {
		from = 0
	}
	for idx := from; idx < hd.N; idx++ {
		var in hInput
		if err := dec.Decode(&in); err != nil {
			say("BROKEN batch entry %d: %v", idx, err)
			os.Exit(4)
		}
		var wd *world
		if in.Target != "static" {
			wd = getWorld()
		}
		say("S %d", idx)
		res := runInput(in, wd)
		res.Idx = idx
		if res.Alloc > 256<<20 {
			res.Restart = true
		}
		b, _ := encjson.Marshal(res)
		say("R %s", b)
		if res.Restart {
			// the address space of a huge allocation stays mapped: start afresh so that the
			// next input is judged on its own
			os.Exit(0)
		}
	}
	os.Exit(0)
}

var numRe = regexp.MustCompile(`[0-9]+`)

// runInput prepares the decoder in the requested state, then decodes in.Data observing
// panics and TotalAlloc.
func runInput(in hInput, w *world) (res hResult) {
	var decode func() (frame.Frame, bool, error)
	reader := func() io.Reader {
		if in.Stream {
			return iotest.OneByteReader(bytes.NewReader(in.Data))
		}
		return bytes.NewReader(in.Data)
	}
	setupPanic := func() {
		if p := recover(); p != nil {
			res.Outcome = "panic"
			res.Site = "setup:" + panicSite(string(debug.Stack()))
			res.Msg = fmt.Sprintf("while preparing the codec state: %v", p)
		}
	}
	func() {
		defer setupPanic()
		switch in.Target {
		case "static":
			c := codec.NewStatic(in.Spec.channelKeys(), in.Spec.dataTypes())
			decode = func() (frame.Frame, bool, error) {
				if in.Stream {
					fr, err := c.DecodeStream(reader())
					return fr, true, err
				}
				fr, err := c.Decode(in.Data)
				return fr, true, err
			}
		case "dynamic":
			c := codec.NewDynamic(w.svc)
			for _, u := range in.Updates {
				if err := c.Update(bg, w.keysOf(u)); err != nil {
					panic(fmt.Sprintf("update: %v", err))
				}
			}
			decode = func() (frame.Frame, bool, error) {
				if in.Stream {
					fr, err := c.DecodeStream(reader())
					return fr, true, err
				}
				fr, err := c.Decode(in.Data)
				return fr, true, err
			}
		case "http":
			hc := &httpframer.Codec{Codec: codec.NewDynamic(w.svc), LowerPerfCodec: json.Codec}
			for _, u := range in.Updates {
				if err := hc.Update(bg, w.keysOf(u)); err != nil {
					panic(fmt.Sprintf("update: %v", err))
				}
			}
			dec := func(data []byte, stream bool) (frame.Frame, bool, error) {
				var r io.Reader = bytes.NewReader(data)
				if stream {
					r = iotest.OneByteReader(r)
				}
				switch in.Msg {
				case "writer-request":
					var m fhttp.WSMessage[httpframer.WriterRequest]
					err := hc.DecodeStream(bg, r, &m)
					return m.Payload.Frame, true, err
				case "writer-response":
					var m fhttp.WSMessage[httpframer.WriterResponse]
					return frame.Frame{}, false, hc.DecodeStream(bg, r, &m)
				case "streamer-request":
					var m fhttp.WSMessage[httpframer.StreamerRequest]
					return frame.Frame{}, false, hc.DecodeStream(bg, r, &m)
				case "streamer-response":
					var m fhttp.WSMessage[httpframer.StreamerResponse]
					err := hc.DecodeStream(bg, r, &m)
					return m.Payload.Frame, true, err
				case "iterator-request":
					var m fhttp.WSMessage[httpframer.IteratorRequest]
					return frame.Frame{}, false, hc.DecodeStream(bg, r, &m)
				case "iterator-response":
					var m fhttp.WSMessage[httpframer.IteratorResponse]
					err := hc.DecodeStream(bg, r, &m)
					return m.Payload.Frame, true, err
				}
				panic("unknown message type " + in.Msg)
			}
			for _, p := range in.Pre {
				if _, _, err := dec(p, false); err != nil {
					panic(fmt.Sprintf("valid negotiation message refused: %v", err))
				}
			}
			decode = func() (frame.Frame, bool, error) { return dec(in.Data, in.Stream) }
		}
	}()
	if res.Outcome != "" {
		return res
	}

	var (
		fr       frame.Frame
		hasFrame bool
		err      error
	)
	once := func() (alloc uint64, panicked bool) {
		var m0, m1 runtime.MemStats
		runtime.ReadMemStats(&m0)
		func() {
			defer func() {
				if p := recover(); p != nil {
					panicked = true
					res.Outcome = "panic"
					res.Site = panicSite(string(debug.Stack()))
					res.Msg = numRe.ReplaceAllString(fmt.Sprint(p), "N")
					if len(res.Msg) > 300 {
						res.Msg = res.Msg[:300]
					}
				}
			}()
			fr, hasFrame, err = decode()
		}()
		runtime.ReadMemStats(&m1)
		return m1.TotalAlloc - m0.TotalAlloc, panicked
	}
	alloc, panicked := once()
	// other goroutines of the in-memory cluster allocate too: a disproportionate reading
	// only counts when it repeats
	for rep := 0; rep < 2 && !panicked && alloc > allocBound(len(in.Data)) && alloc < 256<<20; rep++ {
		a, p := once()
		if p {
			panicked = true
			break
		}
		if a < alloc {
			alloc = a
		}
	}
	res.Alloc = alloc
	if panicked {
		return res
	}
	if alloc > allocBound(len(in.Data)) {
		res.Site = biggestAllocSite()
	}
	if err != nil {
		res.Outcome = "error"
		res.Msg = numRe.ReplaceAllString(err.Error(), "N")
		if len(res.Msg) > 200 {
			res.Msg = res.Msg[:200]
		}
		return res
	}
	res.Outcome = "ok"
	if hasFrame {
		binaryPath := in.Target != "http" || (len(in.Data) > 0 && in.Data[0] != 254 && in.Msg != "streamer-request" && in.Msg != "iterator-request")
		res.Series, res.Bad = checkFrame(fr, binaryPath)
	}
	return res
}

// biggestAllocSite names the innermost /repo function of the allocation site that has
// allocated the most bytes below runInput, from the runtime's heap profile (allocations
// above MemProfileRate, 512 KiB, are always recorded). It only labels the signature; the
// verdict comes from TotalAlloc.
func biggestAllocSite() string {
	runtime.GC()
	runtime.GC()
	n, _ := runtime.MemProfile(nil, true)
	recs := make([]runtime.MemProfileRecord, n+64)
	n, ok := runtime.MemProfile(recs, true)
	if !ok {
		return "unknown"
	}
	var (
		best, bestAny           string
		bestBytes, bestAnyBytes int64
	)
	for i := range recs[:n] {
		frames := runtime.CallersFrames(recs[i].Stack())
		site, through := "", false
		for {
			f, more := frames.Next()
			if site == "" && strings.Contains(f.Function, "synnaxlabs/") && !strings.HasPrefix(f.File, "/verif/") {
				site = shortFunc(f.Function)
			}
			if strings.HasPrefix(f.Function, "main.runInput") {
				through = true
			}
			if !more {
				break
			}
		}
		if site == "" {
			continue
		}
		if through && recs[i].AllocBytes > bestBytes {
			best, bestBytes = site, recs[i].AllocBytes
		}
		if recs[i].AllocBytes > bestAnyBytes {
			bestAny, bestAnyBytes = site, recs[i].AllocBytes
		}
	}
	if best != "" {
		return best
	}
	if bestAny != "" {
		return bestAny
	}
	return "unknown"
}

// checkFrame: a frame returned without error must be usable: every series has a data
// type, fixed-size data is a whole number of samples, and Len/Count do not panic.
func checkFrame(fr frame.Frame, binaryPath bool) (n int, bad string) {
	if k, s := len(fr.RawKeys()), len(fr.RawSeries()); k != s {
		return 0, fmt.Sprintf("keys-series-length-mismatch: frame has %d keys and %d series (iterating it panics)", k, s)
	}
	defer func() {
		if p := recover(); p != nil {
			bad = fmt.Sprintf("unusable: walking the returned frame panicked: %v", p)
		}
	}()
	for k, s := range fr.Entries() {
		n++
		if !binaryPath {
			// frames carried as JSON are not the binary codec's: only require that they can
			// be walked
			_ = len(s.Data)
			continue
		}
		if s.DataType == telem.UnknownT {
			return n, fmt.Sprintf("no-data-type: series of key %d has no data type", k)
		}
		if !s.DataType.IsVariable() {
			d := int(s.DataType.Density())
			if d == 0 || len(s.Data)%d != 0 {
				return n, fmt.Sprintf("ragged-data: series of key %d: %d bytes is not a whole number of %s samples", k, len(s.Data), s.DataType)
			}
		}
		_ = s.Len()
	}
	if n != fr.Count() {
		return n, fmt.Sprintf("count-mismatch: Count()=%d but %d entries", fr.Count(), n)
	}
	return n, ""
}
