package main

import (
	"bytes"
	"encoding/binary"
	"fmt"
	"sort"
	"strings"

	"github.com/synnaxlabs/synnax/pkg/distribution/channel"
	"github.com/synnaxlabs/synnax/pkg/distribution/framer/frame"
	"github.com/synnaxlabs/x/telem"

	"verif/lib/prng"
)

// ---------------------------------------------------------------------------------
// Model of a frame, independent of the repo's Frame type.

// mSeries is one series of a generated (or decoded) frame.
type mSeries struct {
	Key   uint32 `json:"key"`
	DT    string `json:"dt"`
	N     int64  `json:"n"` // number of samples
	Data  []byte `json:"data"`
	Start int64  `json:"start"`
	End   int64  `json:"end"`
	Align uint64 `json:"align"`
}

// codecSpec is a channel-set state: keys (possibly with repeats) and their data types.
type codecSpec struct {
	Keys  []uint32 `json:"keys"`
	Types []string `json:"types"`
}

func (s codecSpec) dtype(k uint32) (string, bool) {
	for i, kk := range s.Keys {
		if kk == k {
			return s.Types[i], true
		}
	}
	return "", false
}

func (s codecSpec) hasVariable() bool {
	for _, t := range s.Types {
		if telem.DataType(t).IsVariable() {
			return true
		}
	}
	return false
}

func (s codecSpec) channelKeys() channel.Keys {
	out := make(channel.Keys, len(s.Keys))
	for i, k := range s.Keys {
		out[i] = channel.Key(k)
	}
	return out
}

func (s codecSpec) dataTypes() []telem.DataType {
	out := make([]telem.DataType, len(s.Types))
	for i, t := range s.Types {
		out[i] = telem.DataType(t)
	}
	return out
}

var fixedTypes = []telem.DataType{
	telem.Uint8T, telem.Int8T, telem.Uint16T, telem.Int16T, telem.Uint32T, telem.Int32T,
	telem.Float32T, telem.Uint64T, telem.Int64T, telem.Float64T, telem.TimeStampT, telem.UUIDT,
}
var variableTypes = []telem.DataType{telem.StringT, telem.JSONT, telem.BytesT}

func densityOf(dt string) int {
	switch telem.DataType(dt) {
	case telem.Uint8T, telem.Int8T:
		return 1
	case telem.Uint16T, telem.Int16T:
		return 2
	case telem.Uint32T, telem.Int32T, telem.Float32T:
		return 4
	case telem.Uint64T, telem.Int64T, telem.Float64T, telem.TimeStampT:
		return 8
	case telem.UUIDT:
		return 16
	}
	return 0
}

func isI64Pair(a, b string) bool {
	ok := func(s string) bool { return s == string(telem.Int64T) || s == string(telem.TimeStampT) }
	return ok(a) && ok(b)
}

// genSpec draws a channel set of 1..8 keys (occasionally 0 keys, occasionally a repeated
// key) with fixed and variable data types.
func genSpec(r *prng.R) codecSpec {
	n := r.Range(1, 8)
	if r.Chance(1, 60) {
		n = 0
	}
	withVar := r.Chance(1, 3)
	var s codecSpec
	base := uint32(r.U64())
	if r.Chance(1, 2) {
		base = uint32(r.Intn(64))
	}
	used := map[uint32]bool{}
	for i := 0; i < n; i++ {
		var k uint32
		for {
			switch r.Intn(3) {
			case 0:
				k = base + uint32(i)
			case 1:
				k = base + uint32(r.Intn(32))
			default:
				k = uint32(r.U64())
			}
			if !used[k] {
				break
			}
		}
		used[k] = true
		var dt telem.DataType
		if withVar && r.Chance(1, 3) {
			dt = prng.Pick(r, variableTypes)
		} else {
			dt = prng.Pick(r, fixedTypes)
		}
		s.Keys = append(s.Keys, k)
		s.Types = append(s.Types, string(dt))
	}
	// repeated key in the channel set (same data type)
	if n > 0 && r.Chance(1, 12) {
		i := r.Intn(n)
		s.Keys = append(s.Keys, s.Keys[i])
		s.Types = append(s.Types, s.Types[i])
	}
	// the caller's key order is arbitrary
	perm := make([]int, len(s.Keys))
	for i := range perm {
		perm[i] = i
	}
	prng.Shuffle(r, perm)
	k2, t2 := make([]uint32, len(perm)), make([]string, len(perm))
	for i, p := range perm {
		k2[i], t2[i] = s.Keys[p], s.Types[p]
	}
	s.Keys, s.Types = k2, t2
	return s
}

func genData(r *prng.R, dt string, n int) []byte {
	if telem.DataType(dt).IsVariable() {
		var b []byte
		for i := 0; i < n; i++ {
			l := r.Intn(12)
			if r.Chance(1, 20) {
				l = r.Intn(200)
			}
			var p [4]byte
			binary.LittleEndian.PutUint32(p[:], uint32(l))
			b = append(b, p[:]...)
			switch telem.DataType(dt) {
			case telem.BytesT:
				b = append(b, r.Bytes(l)...)
			default:
				for j := 0; j < l; j++ {
					b = append(b, byte('a'+r.Intn(26)))
				}
			}
		}
		return b
	}
	return r.Bytes(n * densityOf(dt))
}

type frameShape struct {
	Keys, Lens, TRs, Aligns string
}

func (s frameShape) String() string {
	return s.Keys + "/" + s.Lens + "/" + s.TRs + "/" + s.Aligns
}

// genFrame draws the series of a frame over spec. Series data types equal the channel's
// type, except (eqv=true) that int64 and timestamp are interchanged now and then, which
// the encoder documents as equivalent.
func genFrame(r *prng.R, spec codecSpec, big bool) ([]mSeries, frameShape) {
	var shape frameShape
	distinctKeys := []uint32{}
	seen := map[uint32]bool{}
	for _, k := range spec.Keys {
		if !seen[k] {
			seen[k] = true
			distinctKeys = append(distinctKeys, k)
		}
	}
	if !big && len(distinctKeys) > 0 && r.Chance(1, 5) {
		return genInterleaved(r, spec, distinctKeys)
	}
	// which keys, how many series each
	var order []uint32
	switch m := r.Intn(12); {
	case m < 3: // one series per channel-set entry, sorted like the codec state
		shape.Keys = "exact-sorted"
		order = append(order, spec.Keys...)
		sort.Slice(order, func(i, j int) bool { return order[i] < order[j] })
	case m < 5:
		shape.Keys = "exact-shuffled"
		order = append(order, spec.Keys...)
		prng.Shuffle(r, order)
	case m < 7:
		shape.Keys = "subset"
		for _, k := range distinctKeys {
			if r.Bool() {
				order = append(order, k)
			}
		}
		prng.Shuffle(r, order)
	case m < 11:
		shape.Keys = "repeats"
		for _, k := range distinctKeys {
			for c := r.Intn(4); c > 0; c-- {
				order = append(order, k)
			}
		}
		prng.Shuffle(r, order)
	default:
		shape.Keys = "empty"
	}
	if big && len(distinctKeys) > 0 {
		shape.Keys = "many"
		for n := r.Range(128, 300); n > 0; n-- {
			order = append(order, prng.Pick(r, distinctKeys))
		}
	}
	// lengths
	eqLen := r.Intn(40)
	if r.Chance(1, 8) {
		eqLen = r.Intn(2)
	}
	if r.Chance(1, 50) {
		eqLen = r.Range(1000, 6000)
	}
	lenMode := r.Intn(3) // 0 equal, 1 random, 2 mixed with empties
	shape.Lens = []string{"equal", "random", "with-empty"}[lenMode]
	// time ranges
	trMode := r.Intn(4)
	shape.TRs = []string{"zero", "equal", "distinct", "mixed"}[trMode]
	eqStart, eqEnd := int64(r.U64()>>2), int64(r.U64()>>2)
	if r.Chance(1, 10) {
		eqStart = -eqStart
	}
	// boundary ranges: the wire format has a flag for "every range is the zero range";
	// a shared range with zero SPAN, or with only one zero end, must not take it
	switch r.Intn(8) {
	case 0:
		eqEnd = eqStart
		shape.TRs += "/zero-span"
	case 1:
		eqStart = 0
		shape.TRs += "/zero-start"
	case 2:
		eqEnd = 0
		shape.TRs += "/zero-end"
	}
	// alignments
	alMode := r.Intn(5)
	shape.Aligns = []string{"zero", "equal", "chain", "distinct", "mixed"}[alMode]
	domain := func() uint64 {
		if r.Chance(1, 4) {
			return uint64(uint32(r.U64()))
		}
		return uint64(r.Intn(3))
	}
	eqAlign := domain()<<32 | uint64(r.Intn(1<<30))
	if r.Chance(1, 6) {
		eqAlign = uint64(1 + r.Intn(5))
	}
	chainNext := map[uint32]uint64{}
	chainDom := domain()

	out := make([]mSeries, 0, len(order))
	for _, k := range order {
		dt, _ := spec.dtype(k)
		sdt := dt
		if isI64Pair(dt, dt) && r.Chance(1, 10) {
			if dt == string(telem.Int64T) {
				sdt = string(telem.TimeStampT)
			} else {
				sdt = string(telem.Int64T)
			}
		}
		n := eqLen
		switch lenMode {
		case 1:
			n = r.Intn(40)
		case 2:
			if r.Bool() {
				n = 0
			} else {
				n = 1 + r.Intn(6)
			}
		}
		if big && n > 8 {
			n = r.Intn(8)
		}
		s := mSeries{Key: k, DT: sdt, N: int64(n), Data: genData(r, dt, n)}
		tm := trMode
		if tm == 3 {
			tm = r.Intn(3)
		}
		switch tm {
		case 1:
			s.Start, s.End = eqStart, eqEnd
		case 2:
			s.Start = int64(r.U64() >> 2)
			s.End = s.Start + int64(r.Intn(1_000_000))
			if r.Chance(1, 6) {
				s.End = s.Start
			}
		}
		am := alMode
		if am == 4 {
			am = r.Intn(4)
		}
		switch am {
		case 1:
			s.Align = eqAlign
		case 2:
			a, ok := chainNext[k]
			if !ok {
				a = chainDom<<32 | uint64(r.Intn(1<<20))
			}
			s.Align = a
			chainNext[k] = a + uint64(n)
			if r.Chance(1, 6) { // break the chain: gap or overlap
				chainNext[k] += uint64(1 + r.Intn(3))
			}
		case 3:
			s.Align = domain()<<32 | uint64(r.Intn(1<<30))
		}
		out = append(out, s)
	}
	if alMode == 2 && r.Bool() {
		// chains presented out of order
		prng.Shuffle(r, out)
	}
	return out, shape
}

// genInterleaved draws the frames in which the relative order of one channel's series
// matters most: 13-300 series over 1-4 keys, keys interleaved (1,2,1,2,... or random), a
// small pool of alignments used over and over (0 and a few non-zero values, sometimes
// continued contiguously), short series with different data. Series of one key with equal
// alignment are not contiguous (unless empty), so they cannot be merged and have to come
// out in the order they went in.
func genInterleaved(r *prng.R, spec codecSpec, distinctKeys []uint32) ([]mSeries, frameShape) {
	shape := frameShape{Keys: "interleaved"}
	keys := append([]uint32{}, distinctKeys...)
	prng.Shuffle(r, keys)
	keys = keys[:r.Range(1, min(4, len(keys)))]
	n := r.Range(13, 60)
	if r.Chance(1, 4) {
		n = r.Range(61, 300)
	}
	roundRobin := r.Bool()
	alMode := r.Intn(3) // 0: all zero, 1: small pool of repeated values, 2: pool + contiguous continuations
	shape.Aligns = []string{"tie-zero", "tie-pool", "tie-pool+chain"}[alMode]
	pool := []uint64{0}
	for k := r.Range(1, 3); k > 0; k-- {
		pool = append(pool, uint64(r.Intn(3))<<32|uint64(1+r.Intn(50)))
	}
	lenMode := r.Intn(3) // 0: 1..5, 1: equal, 2: with empties
	shape.Lens = []string{"short-random", "short-equal", "short-with-empty"}[lenMode]
	eqLen := 1 + r.Intn(4)
	trMode := r.Intn(3)
	shape.TRs = []string{"zero", "equal", "distinct"}[trMode]
	eqStart := int64(r.U64() >> 2)
	eqEnd := eqStart + int64(r.Intn(1_000_000))
	switch r.Intn(8) {
	case 0:
		eqEnd = eqStart
		shape.TRs += "/zero-span"
	case 1:
		eqStart = 0
		shape.TRs += "/zero-start"
	case 2:
		eqEnd = 0
		shape.TRs += "/zero-end"
	}
	next := map[uint32]uint64{}
	out := make([]mSeries, 0, n)
	for i := 0; i < n; i++ {
		k := keys[i%len(keys)]
		if !roundRobin {
			k = prng.Pick(r, keys)
		}
		dt, _ := spec.dtype(k)
		ln := eqLen
		switch lenMode {
		case 0:
			ln = 1 + r.Intn(5)
		case 2:
			if r.Chance(1, 4) {
				ln = 0
			} else {
				ln = 1 + r.Intn(4)
			}
		}
		s := mSeries{Key: k, DT: dt, N: int64(ln), Data: genData(r, dt, ln)}
		switch alMode {
		case 1:
			s.Align = prng.Pick(r, pool)
		case 2:
			if a, ok := next[k]; ok && r.Chance(1, 3) {
				s.Align = a
			} else {
				s.Align = prng.Pick(r, pool)
			}
		}
		next[k] = s.Align + uint64(ln)
		switch trMode {
		case 1:
			s.Start, s.End = eqStart, eqEnd
		case 2:
			s.Start = int64(r.U64() >> 2)
			s.End = s.Start + int64(r.Intn(1_000_000))
		}
		out = append(out, s)
	}
	return out, shape
}

// buildFrame turns the model into the repo's Frame. With decoys > 0 extra series are
// added and then masked out again through the frame's own ExcludeKeys/KeepKeys, so that
// the encoder sees a frame with an active mask.
func buildFrame(r *prng.R, series []mSeries, spec codecSpec, maskMode int) frame.Frame {
	keys := make([]channel.Key, 0, len(series)+4)
	ss := make([]telem.Series, 0, len(series)+4)
	add := func(s mSeries) {
		keys = append(keys, channel.Key(s.Key))
		ss = append(ss, telem.Series{
			DataType:  telem.DataType(s.DT),
			Data:      s.Data,
			TimeRange: telem.TimeRange{Start: telem.TimeStamp(s.Start), End: telem.TimeStamp(s.End)},
			Alignment: telem.Alignment(s.Align),
		})
	}
	if maskMode == 0 || len(series)+4 >= 128 {
		for _, s := range series {
			add(s)
		}
		return frame.NewMulti(keys, ss)
	}
	// a decoy key that is not in the channel set
	decoy := uint32(0xFFFFFFF0)
	for {
		if _, ok := spec.dtype(decoy); !ok {
			break
		}
		decoy--
	}
	nDecoy := 1 + r.Intn(3)
	pos := map[int]int{}
	for i := 0; i < nDecoy; i++ {
		pos[r.Intn(len(series)+1)]++
	}
	for i := 0; i <= len(series); i++ {
		for c := pos[i]; c > 0; c-- {
			add(mSeries{Key: decoy, DT: string(telem.Uint8T), N: 3, Data: []byte{1, 2, 3}, Align: uint64(r.Intn(100))})
		}
		if i < len(series) {
			add(series[i])
		}
	}
	fr := frame.NewMulti(keys, ss)
	if maskMode == 1 {
		return fr.ExcludeKeys(channel.Keys{channel.Key(decoy)})
	}
	keep := channel.Keys{}
	for _, s := range series {
		keep = append(keep, channel.Key(s.Key))
	}
	if len(keep) == 0 {
		return fr.ExcludeKeys(channel.Keys{channel.Key(decoy)})
	}
	return fr.KeepKeys(keep)
}

// fromFrame reads a decoded frame back into the model.
func fromFrame(fr frame.Frame) []mSeries {
	var out []mSeries
	for k, s := range fr.Entries() {
		out = append(out, mSeries{
			Key: uint32(k), DT: string(s.DataType), N: s.Len(), Data: s.Data,
			Start: int64(s.TimeRange.Start), End: int64(s.TimeRange.End), Align: uint64(s.Alignment),
		})
	}
	return out
}

// ---------------------------------------------------------------------------------
// Normal form: the statement allows key order to change and alignment-contiguous
// series of one channel to be merged. Per key: stable sort by alignment, then merge every
// series into its predecessor when predecessor.alignment + predecessor.samples equals its
// alignment (data concatenated, time range = union, alignment of the first).

func normalise(series []mSeries) map[uint32][]mSeries {
	byKey := map[uint32][]mSeries{}
	for _, s := range series {
		byKey[s.Key] = append(byKey[s.Key], s)
	}
	for k, ss := range byKey {
		sort.SliceStable(ss, func(i, j int) bool { return ss[i].Align < ss[j].Align })
		var out []mSeries
		for _, s := range ss {
			if len(out) > 0 {
				p := &out[len(out)-1]
				if p.Align+uint64(p.N) == s.Align {
					p.Data = append(append([]byte{}, p.Data...), s.Data...)
					p.N += s.N
					if s.Start < p.Start {
						p.Start = s.Start
					}
					if s.End > p.End {
						p.End = s.End
					}
					continue
				}
			}
			c := s
			c.Data = append([]byte{}, s.Data...)
			out = append(out, c)
		}
		byKey[k] = out
	}
	return byKey
}

// mergeable reports whether the decoded series of one key can be obtained from the
// expected series of that key by merging alignment-contiguous runs (each decoded series =
// one chain e1..ek with e1.alignment = its alignment, every next link starting where the
// previous one ends, data concatenated, time range = union), every expected series used
// exactly once. This is exactly the freedom the statement gives the codec; it does not
// depend on how ties between equal alignments are ordered. ok=false,exhausted=true when
// the search budget ran out.
func mergeable(expected, decoded []mSeries, typeOK func(e, d string) bool) (ok, exhausted bool) {
	used := make([]bool, len(expected))
	budget := 200000
	var place func(di int) bool
	var extend func(di int, align uint64, off int, n int64, start, end int64, first bool) bool
	place = func(di int) bool {
		if di == len(decoded) {
			for _, u := range used {
				if !u {
					return false
				}
			}
			return true
		}
		return extend(di, decoded[di].Align, 0, 0, 0, 0, true)
	}
	extend = func(di int, align uint64, off int, n int64, start, end int64, first bool) bool {
		if budget--; budget < 0 {
			return false
		}
		d := decoded[di]
		if !first && n == d.N && off == len(d.Data) && start == d.Start && end == d.End {
			if place(di + 1) {
				return true
			}
		}
		for i, e := range expected {
			if used[i] || e.Align != align || !typeOK(e.DT, d.DT) {
				continue
			}
			if off+len(e.Data) > len(d.Data) || n+e.N > d.N || !bytes.Equal(d.Data[off:off+len(e.Data)], e.Data) {
				continue
			}
			s2, e2 := start, end
			if first {
				s2, e2 = e.Start, e.End
			} else {
				s2, e2 = min(start, e.Start), max(end, e.End)
			}
			used[i] = true
			if extend(di, align+uint64(e.N), off+len(e.Data), n+e.N, s2, e2, false) {
				return true
			}
			used[i] = false
		}
		return false
	}
	ok = place(0)
	return ok, !ok && budget < 0
}

// decomposes reports whether the decoded series of one key, IN DECODED ORDER, are the
// sequence seq cut into consecutive runs, each run merged: a run is alignment-contiguous
// (every next member starts where the previous one ends), its data is the concatenation,
// its time range the union, its alignment that of the first member. The only choice is
// how many empty series a run swallows at its end, so a memo over (decoded index,
// position in seq) decides it without any search budget.
func decomposes(seq, decoded []mSeries, typeOK func(e, d string) bool) bool {
	failed := map[[2]int]bool{}
	var from func(di, i int) bool
	from = func(di, i int) bool {
		if di == len(decoded) {
			return i == len(seq)
		}
		if i >= len(seq) || failed[[2]int{di, i}] {
			return false
		}
		d := decoded[di]
		pos, off, n := d.Align, 0, int64(0)
		var start, end int64
		for j := i; j < len(seq); j++ {
			e := seq[j]
			if e.Align != pos || !typeOK(e.DT, d.DT) || n+e.N > d.N || off+len(e.Data) > len(d.Data) ||
				!bytes.Equal(d.Data[off:off+len(e.Data)], e.Data) {
				break
			}
			if j == i {
				start, end = e.Start, e.End
			} else {
				start, end = min(start, e.Start), max(end, e.End)
			}
			pos, off, n = pos+uint64(e.N), off+len(e.Data), n+e.N
			if n == d.N && off == len(d.Data) && start == d.Start && end == d.End && from(di+1, j+1) {
				return true
			}
		}
		failed[[2]int{di, i}] = true
		return false
	}
	return from(0, 0)
}

func stableByAlign(ss []mSeries) []mSeries {
	out := append([]mSeries{}, ss...)
	sort.SliceStable(out, func(i, j int) bool { return out[i].Align < out[j].Align })
	return out
}

// compareFrames returns "" when decoded equals expected up to key order and merging of
// alignment-contiguous series, else a short class of the difference and a description.
//
// The statement fixes each channel's sample sequence. A channel's series may be presented
// in any order in the source frame, so "the sequence" has two defensible readings and a
// codec is accepted when it honours either one, for every key:
//
//	(a) canonical: the key's series in STABLE order of alignment - series with the same
//	    alignment keep the order they had in the frame (this is what the codec documents:
//	    it sorts by key and alignment);
//	(b) literal: the key's series in the order they had in the frame.
//
// In both readings the decoded series of the key, in decoded order, must be exactly that
// sequence with some runs of alignment-contiguous neighbours merged. Anything else - two
// series of equal alignment swapped, descending order, a merge across a gap - is a
// difference.
func compareFrames(expected, decoded []mSeries, spec codecSpec) (class, what string) {
	be, bd := map[uint32][]mSeries{}, map[uint32][]mSeries{}
	for _, s := range expected {
		be[s.Key] = append(be[s.Key], s)
	}
	for _, s := range decoded {
		bd[s.Key] = append(bd[s.Key], s)
	}
	for k := range bd {
		if _, ok := be[k]; !ok {
			return "extra-key", fmt.Sprintf("decoded frame has key %d that was not encoded", k)
		}
	}
	keys := make([]uint32, 0, len(be))
	for k := range be {
		keys = append(keys, k)
	}
	sort.Slice(keys, func(i, j int) bool { return keys[i] < keys[j] })
	for _, k := range keys {
		es, ds := be[k], bd[k]
		chT, _ := spec.dtype(k)
		typeOK := func(e, d string) bool { return e == d || (isI64Pair(e, chT) && isI64Pair(d, chT)) }
		if decomposes(stableByAlign(es), ds, typeOK) || decomposes(es, ds, typeOK) {
			continue
		}
		// name the difference
		single := func(ss []mSeries) []mSeries {
			out := make([]mSeries, len(ss))
			for i, s := range ss {
				out[i] = s
				out[i].Key = k
			}
			return out
		}
		class, what = compareNormal(single(es), single(ds), spec)
		orderOnly := class == "" || sameUpToOrder(es, ds, typeOK)
		if !orderOnly && len(es) <= 24 {
			if ok, _ := mergeable(es, ds, typeOK); ok {
				orderOnly = true
			}
		}
		if orderOnly {
			sorted := sort.SliceIsSorted(ds, func(i, j int) bool { return ds[i].Align < ds[j].Align })
			if sorted {
				return "same-alignment-order", fmt.Sprintf("key %d: the decoded series are the expected ones, but series with the same alignment changed their relative order: alignments/first bytes in: %s, out: %s", k, brief(stableByAlign(es)), brief(ds))
			}
			return "series-order", fmt.Sprintf("key %d: the decoded series are the expected ones in neither alignment order nor frame order: in: %s, out: %s", k, brief(es), brief(ds))
		}
		return class, what
	}
	return "", ""
}

// sameUpToOrder: do the two lists hold the same series once the order inside each list is
// forgotten (and contiguous runs are merged)? Only used to NAME a difference that the
// order-preserving comparison has already established.
func sameUpToOrder(es, ds []mSeries, typeOK func(e, d string) bool) bool {
	less := func(a, b mSeries) bool {
		if a.Align != b.Align {
			return a.Align < b.Align
		}
		if a.N != b.N {
			return a.N < b.N
		}
		if c := bytes.Compare(a.Data, b.Data); c != 0 {
			return c < 0
		}
		if a.Start != b.Start {
			return a.Start < b.Start
		}
		return a.End < b.End
	}
	canon := func(ss []mSeries) []mSeries {
		c := append([]mSeries{}, ss...)
		for i := range c {
			c[i].Key = 0
		}
		sort.SliceStable(c, func(i, j int) bool { return less(c[i], c[j]) })
		m := normalise(c)[0]
		sort.SliceStable(m, func(i, j int) bool { return less(m[i], m[j]) })
		return m
	}
	ce, cd := canon(es), canon(ds)
	if len(ce) != len(cd) {
		return false
	}
	for i := range ce {
		e, d := ce[i], cd[i]
		if e.Align != d.Align || e.N != d.N || e.Start != d.Start || e.End != d.End || !typeOK(e.DT, d.DT) || !bytes.Equal(e.Data, d.Data) {
			return false
		}
	}
	return true
}

func brief(ss []mSeries) string {
	var sb strings.Builder
	for i, s := range ss {
		if i == 12 {
			fmt.Fprintf(&sb, " ...(%d)", len(ss))
			break
		}
		b := byte(0)
		if len(s.Data) > 0 {
			b = s.Data[len(s.Data)-1]
		}
		fmt.Fprintf(&sb, " %d/%d:%02x", s.Align, s.N, b)
	}
	return "[" + strings.TrimSpace(sb.String()) + "]"
}

func compareNormal(expected, decoded []mSeries, spec codecSpec) (class, what string) {
	ne, nd := normalise(expected), normalise(decoded)
	for k := range nd {
		if _, ok := ne[k]; !ok {
			return "extra-key", fmt.Sprintf("decoded frame has key %d that was not encoded", k)
		}
	}
	for k, es := range ne {
		ds := nd[k]
		if len(ds) != len(es) {
			return "series-count", fmt.Sprintf("key %d: %d series expected after normalisation, %d decoded", k, len(es), len(ds))
		}
		for i := range es {
			e, d := es[i], ds[i]
			if e.Align != d.Align {
				return "alignment", fmt.Sprintf("key %d series %d: alignment %d expected, %d decoded", k, i, e.Align, d.Align)
			}
			if e.Start != d.Start || e.End != d.End {
				return "time-range", fmt.Sprintf("key %d series %d: time range [%d,%d) expected, [%d,%d) decoded", k, i, e.Start, e.End, d.Start, d.End)
			}
			chT, _ := spec.dtype(k)
			if d.DT != e.DT && !(isI64Pair(e.DT, chT) && isI64Pair(d.DT, chT)) {
				return "data-type", fmt.Sprintf("key %d series %d: data type %s expected, %s decoded", k, i, e.DT, d.DT)
			}
			if e.N != d.N {
				return "sample-count", fmt.Sprintf("key %d series %d: %d samples expected, %d decoded", k, i, e.N, d.N)
			}
			if !bytes.Equal(e.Data, d.Data) {
				return "samples", fmt.Sprintf("key %d series %d: sample bytes differ (%d vs %d bytes)", k, i, len(e.Data), len(d.Data))
			}
		}
	}
	return "", ""
}

func flagString(b byte) string {
	names := []string{"allPresent", "trZero", "eqTR", "eqLen", "eqAlign", "zeroAlign"}
	var on []string
	for i, n := range names {
		if b&(1<<i) != 0 {
			on = append(on, n)
		}
	}
	return strings.Join(on, "+")
}
