package main

import (
	"context"
	"fmt"

	"github.com/onsi/gomega"
	"github.com/synnaxlabs/synnax/pkg/distribution/channel"
	"github.com/synnaxlabs/synnax/pkg/distribution/mock"
	"github.com/synnaxlabs/x/telem"
)

// chanTypes is the fixed table of channels created (in this order) in the in-memory
// cluster that backs dynamic codecs. Parent and child create the same table; the child
// verifies that the keys it was assigned equal the parent's.
var chanTypes = []telem.DataType{
	telem.Float64T, telem.Int64T, telem.TimeStampT, telem.Uint8T, telem.Int16T,
	telem.Float32T, telem.Uint32T, telem.UUIDT, telem.StringT, telem.JSONT,
	telem.BytesT, telem.Int8T, telem.Uint16T, telem.Int32T, telem.Uint64T,
	telem.Float64T,
}

type world struct {
	cluster *mock.Cluster
	svc     *channel.Service
	keys    []channel.Key // keys[i] has data type chanTypes[i]
}

func (w *world) dtype(k channel.Key) telem.DataType {
	for i, kk := range w.keys {
		if kk == k {
			return chanTypes[i]
		}
	}
	return telem.UnknownT
}

// openWorld provisions a one-node in-memory distribution layer (the repo's public mock)
// and creates one virtual channel per entry of chanTypes.
func openWorld() (*world, error) {
	// mock.Cluster uses gomega.Eventually internally; outside ginkgo it needs a fail
	// handler.
	gomega.RegisterFailHandler(func(msg string, _ ...int) { panic("gomega: " + msg) })
	ctx := context.Background()
	c := mock.NewCluster()
	n := c.Provision(ctx)
	w := &world{cluster: c, svc: n.Channel}
	wr := n.Channel.NewWriter(nil)
	for i, dt := range chanTypes {
		ch := channel.Channel{Name: fmt.Sprintf("c08_ch_%d", i), DataType: dt, Virtual: true}
		if err := wr.Create(ctx, &ch); err != nil {
			_ = c.Close()
			return nil, fmt.Errorf("create channel %d (%s): %w", i, dt, err)
		}
		w.keys = append(w.keys, ch.Key())
	}
	return w, nil
}

func (w *world) Close() { _ = w.cluster.Close() }
