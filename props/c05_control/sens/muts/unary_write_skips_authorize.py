s = s.replace("""	dw, err := w.control.Authorize()
	if err != nil {
		return 0, w.wrapError(err)
	}
	if w.Channel.IsIndex {""", """	dw := w.control.PeekResource()
	var err error
	if w.Channel.IsIndex {""")
