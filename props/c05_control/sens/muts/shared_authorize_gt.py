s = s.replace("} else if g.authority >= g.region.curr.authority {", "} else if g.authority > g.region.curr.authority || g == g.region.curr {")
