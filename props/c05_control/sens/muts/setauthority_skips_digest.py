s = s.replace("""	if len(u.Transfers) > 0 {
		return w.updateDBControl(ctx, u)
	}
	return nil
}

func (w *streamWriter) maybeSendRes(""", """	return nil
}

func (w *streamWriter) maybeSendRes(""")
