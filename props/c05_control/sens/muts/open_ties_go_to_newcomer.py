s = s.replace("if r.curr == nil || g.authority > r.curr.authority {", "if r.curr == nil || g.authority >= r.curr.authority {")
