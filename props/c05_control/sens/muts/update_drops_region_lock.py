s = s.replace("""func (r *region[R]) update(g *Gate[R], auth control.Authority) (t Transfer) {
	r.Lock()
	defer r.Unlock()
""", """func (r *region[R]) update(g *Gate[R], auth control.Authority) (t Transfer) {
""")
