s = s.replace("""			r.curr = candidate
			transfer.To = candidate.state()
		}
	}""", """			r.curr = candidate
			transfer.To = candidate.state()
			break
		}
	}""")
