s = s.replace("betterPos := candidate.authority == r.curr.authority && candidate.position < r.curr.position", "betterPos := false")
