s = s.replace("		t.From.Authority = prevAuth\n", "		_ = prevAuth\n")
