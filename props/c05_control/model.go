package main

import (
	"fmt"
	"sort"
	"strings"
)

// The reference model of one control region. It encodes the property statement, not the
// implementation: the holder is a pure function of the set of OPEN gates — the one with
// the highest authority, ties broken by earliest open — and a transfer is "the holder
// (subject, authority) before the step" -> "the holder after the step".

type mGate struct {
	Subj string
	Auth uint8
	Pos  int // open order within the region (monotonic counter, never reused)
}

type mState struct {
	Subj string
	Auth uint8
}

func (s *mState) String() string {
	if s == nil {
		return "-"
	}
	return fmt.Sprintf("%s@%d", s.Subj, s.Auth)
}

func stEq(a, b *mState) bool {
	if a == nil || b == nil {
		return a == b
	}
	return *a == *b
}

type mRegion struct {
	Gates   []mGate // open gates, in open order
	Counter int
}

func (r *mRegion) clone() *mRegion {
	c := &mRegion{Counter: r.Counter, Gates: make([]mGate, len(r.Gates))}
	copy(c.Gates, r.Gates)
	return c
}

func (r *mRegion) find(subj string) int {
	for i := range r.Gates {
		if r.Gates[i].Subj == subj {
			return i
		}
	}
	return -1
}

// holder returns the open gate maximal under (authority desc, open order asc).
func (r *mRegion) holder() *mGate {
	var best *mGate
	for i := range r.Gates {
		g := &r.Gates[i]
		if best == nil || g.Auth > best.Auth || (g.Auth == best.Auth && g.Pos < best.Pos) {
			best = g
		}
	}
	return best
}

func (r *mRegion) holderState() *mState {
	if h := r.holder(); h != nil {
		return &mState{Subj: h.Subj, Auth: h.Auth}
	}
	return nil
}

// authorized reports whether the open gate of subj may write: exclusive regions admit
// the holder only; shared regions admit every open gate whose authority equals the
// holder's.
func (r *mRegion) authorized(subj string, shared bool) bool {
	i := r.find(subj)
	h := r.holder()
	if i < 0 || h == nil {
		return false
	}
	if shared {
		return r.Gates[i].Auth == h.Auth
	}
	return h.Subj == subj
}

// mTransfer is the expected transfer of a step: Occurred iff the holder or the holder's
// authority changed.
type mTransfer struct {
	From, To *mState
}

func (t mTransfer) occurred() bool { return !stEq(t.From, t.To) }

func (t mTransfer) String() string {
	if !t.occurred() {
		return "none"
	}
	return t.From.String() + "->" + t.To.String()
}

func (r *mRegion) open(subj string, auth uint8) mTransfer {
	before := r.holderState()
	r.Gates = append(r.Gates, mGate{Subj: subj, Auth: auth, Pos: r.Counter})
	r.Counter++
	return mTransfer{before, r.holderState()}
}

func (r *mRegion) setAuth(subj string, auth uint8) mTransfer {
	before := r.holderState()
	if i := r.find(subj); i >= 0 {
		r.Gates[i].Auth = auth
	}
	return mTransfer{before, r.holderState()}
}

func (r *mRegion) release(subj string) mTransfer {
	before := r.holderState()
	if i := r.find(subj); i >= 0 {
		r.Gates = append(r.Gates[:i:i], r.Gates[i+1:]...)
	}
	return mTransfer{before, r.holderState()}
}

// key is a canonical encoding of the region state (porcupine state, distinct-state sets).
func (r *mRegion) key() string {
	var sb strings.Builder
	fmt.Fprintf(&sb, "%d|", r.Counter)
	gs := make([]mGate, len(r.Gates))
	copy(gs, r.Gates)
	sort.Slice(gs, func(i, j int) bool { return gs[i].Pos < gs[j].Pos })
	for _, g := range gs {
		fmt.Fprintf(&sb, "%s:%d:%d,", g.Subj, g.Auth, g.Pos)
	}
	return sb.String()
}

// shape is the state up to renaming of positions (used for distinct-state coverage).
func (r *mRegion) shape() string {
	var sb strings.Builder
	for _, g := range r.Gates {
		fmt.Fprintf(&sb, "%s:%d,", g.Subj, g.Auth)
	}
	return sb.String()
}
