package main

import (
	"bufio"
	"bytes"
	"encoding/json"
	"fmt"
	"os"
	"os/exec"
	"path/filepath"
	"strconv"
	"strings"
	"sync"
	"time"

	"verif/lib/harness"
)

// The concurrent layers run in child processes, one per batch of cases: a nil-pointer
// panic inside Controller.LeadingState (or any fatal error) must end one batch, not every
// monitor. The child re-executes this binary with VERIF_C05_CHILD=<layer>:<start>:<end>,
// prints one "R <json>" line per finished case and exits 0. The parent writes the batch
// descriptor to $VERIF_REPLAY_DIR/C05/ before starting the child, relays the per-case
// results to the harness, and turns a crash into a violation whose signature is derived
// from the panicking stack.

type childResult struct {
	Case      int            `json:"case"`
	Sig       string         `json:"sig,omitempty"`
	What      string         `json:"what,omitempty"`
	Witness   any            `json:"witness,omitempty"`
	Inconcl   string         `json:"inconclusive,omitempty"`
	Distinct  string         `json:"distinct,omitempty"`
	Counts    map[string]int `json:"counts,omitempty"`
	Seen      [][2]string    `json:"seen,omitempty"`
	Sample    any            `json:"sample,omitempty"`
	Violation []childViol    `json:"violations,omitempty"`
}

type childViol struct {
	Sig     string `json:"sig"`
	What    string `json:"what"`
	Witness any    `json:"witness,omitempty"`
}

var childOut struct {
	sync.Mutex
	w *bufio.Writer
}

func emit(r childResult) {
	b, _ := json.Marshal(r)
	childOut.Lock()
	defer childOut.Unlock()
	childOut.w.WriteString("R ")
	childOut.w.Write(b)
	childOut.w.WriteString("\n")
	childOut.w.Flush()
}

func childMain(spec string) {
	childOut.w = bufio.NewWriter(os.Stdout)
	p := strings.Split(spec, ":")
	if len(p) != 3 {
		fmt.Fprintln(os.Stderr, "bad child spec", spec)
		os.Exit(3)
	}
	start, _ := strconv.Atoi(p[1])
	end, _ := strconv.Atoi(p[2])
	seed := int64(1)
	if v, err := strconv.ParseInt(os.Getenv("VERIF_C05_SEED"), 10, 64); err == nil {
		seed = v
	}
	thorough := os.Getenv("VERIF_C05_TIER") == "thorough"
	for c := start; c < end; c++ {
		switch p[0] {
		case "conc":
			emit(runConcCase(seed, c, thorough))
		case "states":
			emit(runStatesCase(seed, c, thorough))
		case "pubconc":
			emit(runPubConcCase(seed, c, thorough))
		default:
			os.Exit(3)
		}
	}
	os.Exit(0)
}

// crashSig extracts "<innermost repo fn><-<its repo caller>" from a Go panic dump.
func crashSig(stderr string) (kind, frames string) {
	i := strings.Index(stderr, "panic: ")
	j := strings.Index(stderr, "fatal error: ")
	if i < 0 && j < 0 {
		return "", ""
	}
	kind = "panic"
	if i < 0 || (j >= 0 && j < i) {
		i = j
		kind = "fatal"
	}
	dump := stderr[i:]
	if strings.Contains(dump, "nil pointer dereference") {
		kind = "nil-deref"
	}
	var fns []string
	for _, l := range strings.Split(dump, "\n") {
		if strings.HasPrefix(l, "goroutine ") && len(fns) > 0 {
			break
		}
		if k := strings.Index(l, "github.com/synnaxlabs/"); k == 0 {
			f := l[len("github.com/synnaxlabs/"):]
			if m := strings.LastIndex(f, "("); m > 0 {
				f = f[:m]
			}
			if m := strings.LastIndex(f, "/"); m >= 0 {
				f = f[m+1:]
			}
			fns = append(fns, strings.ReplaceAll(f, "[...]", ""))
			if len(fns) == 2 {
				break
			}
		}
	}
	return kind, strings.Join(fns, "<-")
}

type tailBuf struct {
	sync.Mutex
	b bytes.Buffer
}

func (t *tailBuf) Write(p []byte) (int, error) {
	t.Lock()
	defer t.Unlock()
	if t.b.Len() < 1<<20 {
		t.b.Write(p)
	}
	return len(p), nil
}

// runBatches drives layer over cases [0,n) in child processes of batch cases each,
// procs children at a time.
func runBatches(h *harness.H, layer string, n, batch, procs int, watchdog time.Duration) {
	type job struct{ start, end int }
	var jobs []job
	if rs, ok := h.Replaying(); ok && rs.Case >= 0 {
		jobs = []job{{rs.Case, rs.Case + 1}}
	} else {
		for s := 0; s < n; s += batch {
			jobs = append(jobs, job{s, min(s+batch, n)})
		}
	}
	dir := filepath.Join(os.Getenv("VERIF_REPLAY_DIR"), "C05")
	if os.Getenv("VERIF_REPLAY_DIR") == "" {
		dir = filepath.Join(harness.Root(), "replays", "C05")
	}
	_ = os.MkdirAll(dir, 0o755)
	var mu sync.Mutex // serialises harness reporting order only loosely; harness is thread-safe
	sem := make(chan struct{}, procs)
	var wg sync.WaitGroup
	for _, j := range jobs {
		wg.Add(1)
		sem <- struct{}{}
		go func(j job) {
			defer wg.Done()
			defer func() { <-sem }()
			for start := j.start; start < j.end; {
				desc := filepath.Join(dir, fmt.Sprintf("child-%s-s%d-%d-%d.json", layer, h.Seed(), start, j.end))
				db, _ := json.Marshal(map[string]any{"layer": layer, "seed": h.Seed(), "tier": h.Tier(), "start": start, "end": j.end,
					"rerun": fmt.Sprintf("VERIF_C05_CHILD=%s:%d:%d VERIF_C05_SEED=%d VERIF_C05_TIER=%s <binary>", layer, start, j.end, h.Seed(), h.Tier())})
				_ = os.WriteFile(desc, db, 0o644)
				cmd := exec.Command(os.Args[0])
				cmd.Env = append(os.Environ(),
					fmt.Sprintf("VERIF_C05_CHILD=%s:%d:%d", layer, start, j.end),
					fmt.Sprintf("VERIF_C05_SEED=%d", h.Seed()),
					"VERIF_C05_TIER="+h.Tier(),
					"GOTRACEBACK=all")
				stderr := &tailBuf{}
				cmd.Stderr = stderr
				stdout, _ := cmd.StdoutPipe()
				if err := cmd.Start(); err != nil {
					h.Inconclusive(layer + ":child-start-failed")
					return
				}
				timer := time.AfterFunc(watchdog, func() { _ = cmd.Process.Kill() })
				last := start - 1
				sc := bufio.NewScanner(stdout)
				sc.Buffer(make([]byte, 1<<20), 1<<26)
				for sc.Scan() {
					line := sc.Text()
					if !strings.HasPrefix(line, "R ") {
						continue
					}
					var r childResult
					if json.Unmarshal([]byte(line[2:]), &r) != nil {
						continue
					}
					last = r.Case
					mu.Lock()
					relay(h, layer, r)
					mu.Unlock()
				}
				err := cmd.Wait()
				fired := !timer.Stop()
				if err == nil {
					_ = os.Remove(desc)
					break
				}
				crashed := last + 1
				se := stderr.b.String()
				kind, frames := crashSig(se)
				h.Eval()
				switch {
				case kind != "":
					tail := se
					if k := strings.Index(se, "panic: "); k >= 0 {
						tail = se[k:]
					}
					if len(tail) > 3000 {
						tail = tail[:3000]
					}
					h.Violation(layer, crashed, fmt.Sprintf("c05:%s:crash:%s:%s", layer, kind, frames),
						fmt.Sprintf("child process running case %d died: %s", crashed, strings.SplitN(tail, "\n", 2)[0]),
						map[string]any{"batch": desc, "stderr": tail})
					h.Count(layer+"_child_crashes", 1)
				case fired:
					h.Inconclusive(layer + ":child-watchdog")
					_ = os.WriteFile(desc+".stderr", []byte(se), 0o644)
				default:
					h.Inconclusive(layer + ":child-exit-" + err.Error())
					_ = os.WriteFile(desc+".stderr", []byte(se), 0o644)
				}
				_ = os.Remove(desc)
				start = crashed + 1 // skip the case that killed the child, continue the batch
			}
		}(j)
	}
	wg.Wait()
}

func relay(h *harness.H, layer string, r childResult) {
	h.Eval()
	for k, v := range r.Counts {
		h.Count(k, v)
	}
	for _, s := range r.Seen {
		h.Seen(s[0], s[1])
	}
	if r.Inconcl != "" {
		h.Inconclusive(layer + ":" + r.Inconcl)
		return
	}
	if r.Sig != "" {
		h.Violation(layer, r.Case, r.Sig, r.What, r.Witness)
	}
	for _, v := range r.Violation {
		h.Violation(layer, r.Case, v.Sig, v.What, v.Witness)
	}
	if r.Sig != "" || len(r.Violation) > 0 {
		return
	}
	if r.Distinct != "" {
		h.Distinct(r.Distinct)
	}
	if r.Sample != nil {
		h.Sample(r.Sample)
	}
}
