package main

import (
	"context"
	"errors"
	"fmt"
	"runtime/debug"
	"sort"
	"strings"
	"sync/atomic"
	"time"
	"verif/lib/recfs"

	"github.com/synnaxlabs/cesium"
	"github.com/synnaxlabs/x/confluence"
	xcontrol "github.com/synnaxlabs/x/control"
	xfs "github.com/synnaxlabs/x/io/fs"
	"github.com/synnaxlabs/x/signal"
	"github.com/synnaxlabs/x/telem"

	"verif/lib/harness"
	"verif/lib/prng"
)

// ---- layer (b): writer level, public cesium API ------------------------------------------

const (
	chIdxA   cesium.ChannelKey = 1 // exclusive index
	chIdxB   cesium.ChannelKey = 2 // exclusive index of group B
	chDataB  cesium.ChannelKey = 3 // exclusive data, indexed by chIdxB
	chIdxS   cesium.ChannelKey = 4 // unary index with shared concurrency
	chVirt1  cesium.ChannelKey = 5 // virtual (always shared)
	chVirt2  cesium.ChannelKey = 6
	chMarker cesium.ChannelKey = 90 // virtual, barrier writers only
	chDigest cesium.ChannelKey = 99 // control digest channel
)

// groups are the units a writer opens/writes/sets authority on: a writer always takes an
// index together with its data channel and with one authority, so that a frame is never
// half authorized inside one index group (that case is a write-validation matter, not
// part of this property).
var wGroups = [][]cesium.ChannelKey{{chIdxA}, {chIdxB, chDataB}, {chIdxS}, {chVirt1}, {chVirt2}}

var wShared = map[cesium.ChannelKey]bool{chIdxS: true, chVirt1: true, chVirt2: true}
var wVirtual = map[cesium.ChannelKey]bool{chVirt1: true, chVirt2: true}
var wIsIndex = map[cesium.ChannelKey]bool{chIdxA: true, chIdxB: true, chIdxS: true}
var wAllData = []cesium.ChannelKey{chIdxA, chIdxB, chDataB, chIdxS, chVirt1, chVirt2}

type wOp struct {
	Kind   string `json:"k"` // open | write | set | close | read
	W      int    `json:"w"`
	Groups []int  `json:"g,omitempty"`
	Auths  []int  `json:"a,omitempty"` // one per group, or a single broadcast value
	Mode   int    `json:"m,omitempty"` // 1 persist+stream 2 persist only 3 stream only
	ErrUn  bool   `json:"e,omitempty"`
	N      int    `json:"n,omitempty"`
	// Single (set only): the request lists the groups' channels but carries ONE authority,
	// which applies to the listed channels only (third form of SetAuthority)
	Single bool `json:"s,omitempty"`
}

func (o wOp) String() string {
	return fmt.Sprintf("%s(w%d,g%v,a%v,m%d,e%v,n%d)", o.Kind, o.W, o.Groups, o.Auths, o.Mode, o.ErrUn, o.N)
}

type wCase struct {
	NW  int   `json:"nw"`
	Ops []wOp `json:"ops"`
}

func pickGroups(r *prng.R, from []int) []int {
	var out []int
	for _, g := range from {
		if r.Chance(1, 2) {
			out = append(out, g)
		}
	}
	if len(out) == 0 {
		out = []int{prng.Pick(r, from)}
	}
	return out
}

func genWCase(r *prng.R) wCase {
	c := wCase{NW: r.Range(2, 4)}
	n := r.Range(12, 30)
	pal := authorities
	if r.Chance(1, 3) {
		pal = []uint8{1, 2, 255}
	}
	type ws struct {
		open   bool
		groups []int
	}
	w := make([]ws, c.NW)
	all := []int{0, 1, 2, 3, 4}
	// most cases concentrate on few groups so that writers actually contend
	focus := all
	if r.Chance(2, 3) {
		focus = pickGroups(r, all)
	}
	for len(c.Ops) < n {
		i := r.Intn(c.NW)
		x := r.Intn(100)
		switch {
		case !w[i].open:
			if x >= 70 {
				continue
			}
			gs := pickGroups(r, focus)
			op := wOp{Kind: "open", W: i, Groups: gs, Mode: 1, ErrUn: r.Chance(1, 12)}
			switch r.Intn(8) {
			case 0:
				op.Mode = 2
			case 1:
				op.Mode = 3
			}
			if r.Chance(1, 2) || len(gs) == 1 {
				op.Auths = []int{int(prng.Pick(r, pal))}
			} else {
				for range gs {
					op.Auths = append(op.Auths, int(prng.Pick(r, pal)))
				}
			}
			c.Ops = append(c.Ops, op)
			w[i] = ws{open: true, groups: gs}
		case x < 45:
			c.Ops = append(c.Ops, wOp{Kind: "write", W: i, Groups: pickGroups(r, w[i].groups), N: r.Range(1, 3)})
		case x < 72:
			op := wOp{Kind: "set", W: i}
			if r.Chance(1, 2) {
				op.Auths = []int{int(prng.Pick(r, pal))} // broadcast over every channel of the writer
			} else {
				op.Groups = pickGroups(r, w[i].groups)
				for range op.Groups {
					op.Auths = append(op.Auths, int(prng.Pick(r, pal)))
				}
				if r.Chance(1, 3) {
					// a channel list with a single authority
					op.Single = true
					for gi := range op.Auths {
						op.Auths[gi] = op.Auths[0]
					}
				}
			}
			c.Ops = append(c.Ops, op)
		case x < 90:
			c.Ops = append(c.Ops, wOp{Kind: "close", W: i})
			w[i].open = false
		default:
			if r.Chance(1, 3) {
				c.Ops = append(c.Ops, wOp{Kind: "faildelete"})
			} else {
				c.Ops = append(c.Ops, wOp{Kind: "read"})
			}
		}
	}
	if r.Chance(1, 2) {
		// tail: everybody closes, a delete of dataB fails inside the engine, then a single
		// writer opens the group again and writes: it is the only one and must be in control
		for i := range w {
			if w[i].open {
				c.Ops = append(c.Ops, wOp{Kind: "close", W: i})
				w[i].open = false
			}
		}
		c.Ops = append(c.Ops, wOp{Kind: "open", W: 0, Groups: []int{1}, Mode: 1, Auths: []int{int(prng.Pick(r, pal))}},
			wOp{Kind: "write", W: 0, Groups: []int{1}, N: 2}, wOp{Kind: "close", W: 0},
			wOp{Kind: "faildelete"},
			wOp{Kind: "open", W: 1 % c.NW, Groups: []int{1}, Mode: 1, Auths: []int{int(prng.Pick(r, pal))}},
			wOp{Kind: "write", W: 1 % c.NW, Groups: []int{1}, N: 2}, wOp{Kind: "close", W: 1 % c.NW})
	}
	return c
}

type recvItem struct {
	digest []cesium.ControlUpdate
	frame  map[cesium.ChannelKey][]int64
}

type wWriter struct {
	w      *cesium.Writer
	groups []int
	mode   int
	seq    int
}

type wExec struct {
	ctx      context.Context
	db       *cesium.DB
	q        chan cesium.StreamerResponse
	regions  map[cesium.ChannelKey]*mRegion
	writers  []*wWriter
	persist  map[cesium.ChannelKey][]int64 // expected persisted samples, in write order
	ts       int64
	nBarrier int
	// coverage
	handoffs, unauthWrites, authWrites, transfersChecked, framesChecked, readsCompared int
	inconclusive                                                                       string
	// failing deletes: the filesystem refuses index writes of one channel while armed
	failPath    atomic.Value // string: path fragment whose writes fail ("" = none)
	skipRead    map[cesium.ChannelKey]bool
	failDeletes int
}

func keysOf(groups []int) []cesium.ChannelKey {
	var ks []cesium.ChannelKey
	for _, g := range groups {
		ks = append(ks, wGroups[g]...)
	}
	return ks
}

func authFor(op wOp, gi int) uint8 {
	if len(op.Auths) == 1 {
		return uint8(op.Auths[0])
	}
	return uint8(op.Auths[gi])
}

func wSubj(i int) string { return fmt.Sprintf("w%d", i) }

func trKey(res cesium.ChannelKey, from, to *mState) string {
	return fmt.Sprintf("%d:%s->%s", res, from, to)
}

// barrier opens and closes a writer on the marker channel and consumes the streamer until
// that writer's release shows up on the digest channel. Every frame the relay accepted
// before the barrier started has then been delivered (the relay and the digest writer are
// FIFO), so "what arrived before the marker" is exactly what the preceding step produced —
// no clock involved. Returns false when the watchdog fires.
func (ex *wExec) barrier() (digest []string, frames []map[cesium.ChannelKey][]int64, ok bool) {
	ex.nBarrier++
	mk := fmt.Sprintf("mk%d", ex.nBarrier)
	w, err := ex.db.OpenWriter(ex.ctx, cesium.WriterConfig{
		ControlSubject: xcontrol.Subject{Key: mk},
		Channels:       []cesium.ChannelKey{chMarker},
		Start:          telem.TimeStamp(ex.ts),
		Mode:           cesium.WriterModeStreamOnly,
	})
	if err != nil {
		ex.inconclusive = "barrier-open-failed: " + err.Error()
		return nil, nil, false
	}
	if err = w.Close(); err != nil {
		ex.inconclusive = "barrier-close-failed: " + err.Error()
		return nil, nil, false
	}
	wd := time.NewTimer(60 * time.Second)
	defer wd.Stop()
	for {
		select {
		case <-wd.C:
			ex.inconclusive = "barrier-watchdog"
			return nil, nil, false
		case r, open := <-ex.q:
			if !open {
				ex.inconclusive = "streamer-closed"
				return nil, nil, false
			}
			fr := map[cesium.ChannelKey][]int64{}
			for k, s := range r.Frame.Entries() {
				if k == chDigest {
					u, err := cesium.DecodeControlUpdate(s)
					if err != nil {
						ex.inconclusive = "digest-decode: " + err.Error()
						return nil, nil, false
					}
					for _, t := range u.Transfers {
						var res cesium.ChannelKey
						if t.From != nil {
							res = t.From.Resource
						} else if t.To != nil {
							res = t.To.Resource
						}
						if res == chMarker {
							if t.To == nil && t.From != nil && t.From.Subject.Key == mk {
								return digest, frames, true
							}
							continue
						}
						digest = append(digest, trKey(res, stateOf(t.From), stateOf(t.To)))
					}
					continue
				}
				fr[k] = append(fr[k], telem.UnmarshalSeries[int64](s)...)
			}
			if len(fr) > 0 {
				frames = append(frames, fr)
			}
		}
	}
}

func sortedEq(a, b []string) bool {
	a = append([]string{}, a...)
	b = append([]string{}, b...)
	sort.Strings(a)
	sort.Strings(b)
	return strings.Join(a, ";") == strings.Join(b, ";")
}

func (ex *wExec) region(k cesium.ChannelKey) *mRegion {
	if ex.regions[k] == nil {
		ex.regions[k] = &mRegion{}
	}
	return ex.regions[k]
}

func (ex *wExec) noteTransfer(k cesium.ChannelKey, t mTransfer, want *[]string) {
	if t.occurred() {
		*want = append(*want, trKey(k, t.From, t.To))
		if t.From != nil && t.To != nil && t.From.Subj != t.To.Subj {
			ex.handoffs++
		}
	}
}

func fmtFrame(f map[cesium.ChannelKey][]int64) string {
	ks := make([]int, 0, len(f))
	for k := range f {
		ks = append(ks, int(k))
	}
	sort.Ints(ks)
	var sb strings.Builder
	for _, k := range ks {
		fmt.Fprintf(&sb, "%d=%v ", k, f[cesium.ChannelKey(k)])
	}
	return sb.String()
}

func (ex *wExec) step(op wOp) (string, string) {
	var wantDigest []string
	var wantFrames []string
	subj := wSubj(op.W)
	switch op.Kind {
	case "open":
		keys := keysOf(op.Groups)
		var auths []xcontrol.Authority
		if len(op.Auths) == 1 {
			auths = []xcontrol.Authority{xcontrol.Authority(op.Auths[0])}
		} else {
			for gi, g := range op.Groups {
				for range wGroups[g] {
					auths = append(auths, xcontrol.Authority(op.Auths[gi]))
				}
			}
		}
		ex.ts += 10
		syncT, errUn := true, op.ErrUn
		w, err := ex.db.OpenWriter(ex.ctx, cesium.WriterConfig{
			ControlSubject:    xcontrol.Subject{Key: subj, Name: "writer " + subj},
			Channels:          keys,
			Authorities:       auths,
			Start:             telem.TimeStamp(ex.ts),
			Mode:              cesium.WriterMode(op.Mode),
			Sync:              &syncT,
			ErrOnUnauthorized: &errUn,
		})
		// model
		saved := map[cesium.ChannelKey]*mRegion{}
		wouldBeUnauth := false
		var trs []string
		for gi, g := range op.Groups {
			for _, k := range wGroups[g] {
				saved[k] = ex.region(k).clone()
				t := ex.region(k).open(subj, authFor(op, gi))
				if !ex.region(k).authorized(subj, wShared[k]) {
					wouldBeUnauth = true
				}
				ex.noteTransfer(k, t, &trs)
			}
		}
		if err != nil {
			if !(op.ErrUn && wouldBeUnauth) {
				ex.inconclusive = "open-error: " + err.Error()
				return "", ""
			}
			for k, r := range saved { // refused: must have had no effect
				ex.regions[k] = r
			}
		} else {
			if op.ErrUn && wouldBeUnauth {
				return "c05:writer:unauthorized-open-accepted", "OpenWriter with ErrOnUnauthorized succeeded although the writer does not control every channel"
			}
			ex.writers[op.W] = &wWriter{w: w, groups: op.Groups, mode: op.Mode}
			wantDigest = trs
		}
	case "set":
		ww := ex.writers[op.W]
		if ww == nil {
			return "", ""
		}
		cfg := cesium.WriterConfig{}
		groups := op.Groups
		if len(groups) == 0 {
			groups = ww.groups
			cfg.Authorities = []xcontrol.Authority{xcontrol.Authority(op.Auths[0])}
		} else {
			var gs []int
			for _, g := range groups { // the writer may hold fewer groups than generated (refused open)
				for _, h := range ww.groups {
					if g == h {
						gs = append(gs, g)
					}
				}
			}
			groups = gs
			for gi, g := range op.Groups {
				for _, h := range ww.groups {
					if g != h {
						continue
					}
					for _, k := range wGroups[g] {
						cfg.Channels = append(cfg.Channels, k)
						if !op.Single || len(cfg.Authorities) == 0 {
							cfg.Authorities = append(cfg.Authorities, xcontrol.Authority(op.Auths[gi]))
						}
					}
				}
			}
			if len(groups) == 0 {
				return "", ""
			}
		}
		if err := ww.w.SetAuthority(cfg); err != nil {
			ex.inconclusive = "set-authority-error: " + err.Error()
			return "", ""
		}
		for _, g := range groups {
			a := uint8(op.Auths[0])
			if len(op.Groups) > 0 {
				for gi, og := range op.Groups {
					if og == g {
						a = uint8(op.Auths[gi])
					}
				}
			}
			for _, k := range wGroups[g] {
				ex.noteTransfer(k, ex.region(k).setAuth(subj, a), &wantDigest)
			}
		}
	case "close":
		ww := ex.writers[op.W]
		if ww == nil {
			return "", ""
		}
		if err := ww.w.Close(); err != nil {
			ex.inconclusive = "close-error: " + err.Error()
			return "", ""
		}
		for _, k := range keysOf(ww.groups) {
			ex.noteTransfer(k, ex.region(k).release(subj), &wantDigest)
		}
		ex.writers[op.W] = nil
	case "write":
		ww := ex.writers[op.W]
		if ww == nil {
			return "", ""
		}
		var gs []int
		for _, g := range op.Groups {
			for _, h := range ww.groups {
				if g == h {
					gs = append(gs, g)
				}
			}
		}
		if len(gs) == 0 {
			return "", ""
		}
		ww.seq++
		var keys []cesium.ChannelKey
		var series []telem.Series
		stamps := make([]telem.TimeStamp, op.N)
		stampsI := make([]int64, op.N)
		vals := make([]int64, op.N)
		for i := range stamps {
			ex.ts += 10
			stamps[i] = telem.TimeStamp(ex.ts)
			stampsI[i] = ex.ts
			vals[i] = int64(op.W+1)*1_000_000 + int64(ww.seq)*10 + int64(i)
		}
		wantAll := true
		wantFrame := map[cesium.ChannelKey][]int64{}
		for _, k := range keysOf(gs) {
			keys = append(keys, k)
			v := vals
			if wIsIndex[k] {
				series = append(series, telem.NewSeries(stamps))
				v = stampsI
			} else {
				series = append(series, telem.NewSeries(vals))
			}
			if ex.region(k).authorized(subj, wShared[k]) {
				if ww.mode != 3 && !wVirtual[k] {
					ex.persist[k] = append(ex.persist[k], v...)
				}
				if ww.mode != 2 {
					wantFrame[k] = v
				}
			} else {
				wantAll = false
			}
		}
		authorized, err := ww.w.Write(telem.MultiFrame(keys, series))
		if err != nil {
			ex.inconclusive = "write-error: " + err.Error()
			return "", ""
		}
		if authorized != wantAll {
			return "c05:writer:write-authorized-flag", fmt.Sprintf("Write by %s on %v reported authorized=%v, statement says %v", subj, keys, authorized, wantAll)
		}
		if wantAll {
			ex.authWrites++
		} else {
			ex.unauthWrites++
		}
		if len(wantFrame) > 0 {
			wantFrames = append(wantFrames, fmtFrame(wantFrame))
		}
	case "read":
		return ex.checkReads()
	case "faildelete":
		// A time-range delete of dataB that passes its control check (nobody holds the
		// channel) and then fails inside the engine (its index file cannot be written).
		// Control is not supposed to notice: whoever opens next is judged by the same model.
		if len(ex.region(chDataB).Gates) > 0 || len(ex.region(chIdxB).Gates) > 0 || len(ex.persist[chDataB]) == 0 {
			return "", ""
		}
		lo, hi := ex.persist[chDataB][0], ex.persist[chDataB][len(ex.persist[chDataB])-1]
		_ = lo
		ex.failPath.Store(fmt.Sprintf("/%d/index.domain", chDataB))
		err := ex.db.DeleteTimeRange(ex.ctx, []cesium.ChannelKey{chDataB}, telem.TimeRange{Start: 0, End: telem.TimeStamp(hi + 1_000_000_000)})
		ex.failPath.Store("")
		if err == nil {
			ex.persist[chDataB] = nil
			return "", ""
		}
		ex.failDeletes++
		if ex.skipRead == nil {
			ex.skipRead = map[cesium.ChannelKey]bool{}
		}
		ex.skipRead[chDataB] = true // what a half-applied delete left is not this property's business
		return "", ""
	}
	digest, frames, ok := ex.barrier()
	if !ok {
		return "", ""
	}
	if !sortedEq(digest, wantDigest) {
		sig := "c05:writer:digest-transfers-mismatch"
		if len(digest) < len(wantDigest) {
			sig = "c05:writer:digest-transfer-missing"
		} else if len(digest) > len(wantDigest) {
			sig = "c05:writer:digest-transfer-extra"
		}
		return sig, fmt.Sprintf("control digest channel carried %v, statement says %v", digest, wantDigest)
	}
	ex.transfersChecked += len(wantDigest)
	var got []string
	for _, f := range frames {
		got = append(got, fmtFrame(f))
	}
	if strings.Join(got, "|") != strings.Join(wantFrames, "|") {
		sig := "c05:writer:relayed-frame-mismatch"
		for _, f := range frames {
			for k := range f {
				if op.Kind == "write" && !ex.region(k).authorized(subj, wShared[k]) {
					sig = "c05:writer:unauthorized-series-relayed"
				}
			}
		}
		return sig, fmt.Sprintf("relay delivered [%s], statement says [%s]", strings.Join(got, "|"), strings.Join(wantFrames, "|"))
	}
	ex.framesChecked += len(wantFrames)
	return ex.checkStates()
}

// checkStates compares DB.ControlStates() with the model's holders.
func (ex *wExec) checkStates() (string, string) {
	got := map[cesium.ChannelKey]*mState{}
	for _, t := range ex.db.ControlStates().Transfers {
		if t.To == nil || t.To.Resource == chMarker || t.To.Resource == chDigest {
			continue
		}
		if _, dup := got[t.To.Resource]; dup {
			return "c05:writer:control-states-duplicate", fmt.Sprintf("channel %d listed twice", t.To.Resource)
		}
		got[t.To.Resource] = stateOf(t.To)
	}
	for _, k := range wAllData {
		var want *mState
		if r := ex.regions[k]; r != nil {
			want = r.holderState()
		}
		if !stEq(got[k], want) {
			return "c05:writer:control-states-mismatch", fmt.Sprintf("channel %d: ControlStates says %s, statement says %s", k, got[k], want)
		}
	}
	return "", ""
}

func (ex *wExec) checkReads() (string, string) {
	for _, k := range []cesium.ChannelKey{chIdxA, chIdxB, chDataB, chIdxS} {
		if ex.skipRead[k] {
			continue
		}
		fr, err := ex.db.Read(ex.ctx, telem.TimeRangeMax, k)
		if err != nil {
			ex.inconclusive = "read-error: " + err.Error()
			return "", ""
		}
		var got []int64
		for _, s := range fr.Get(k).Series {
			got = append(got, telem.UnmarshalSeries[int64](s)...)
		}
		want := ex.persist[k]
		if fmt.Sprint(got) != fmt.Sprint(want) {
			sig := "c05:writer:persisted-data-mismatch"
			wantSet := map[int64]bool{}
			for _, v := range want {
				wantSet[v] = true
			}
			for _, v := range got {
				if !wantSet[v] {
					sig = "c05:writer:unauthorized-write-persisted"
				}
			}
			return sig, fmt.Sprintf("channel %d reads %v, authorized writes were %v", k, got, want)
		}
		ex.readsCompared++
	}
	return "", ""
}

func runWCase(c wCase) (sig, what string, ex *wExec) {
	ctx := context.Background()
	rfs, flog := recfs.New(xfs.NewMem())
	flog.Pause(true) // no mutation log needed, only the fault hook
	db, err := cesium.Open(ctx, "", cesium.WithFS(rfs),
		cesium.WithStreamingConfig(cesium.DBStreamingConfig{BufferSize: 1000, SlowConsumerTimeout: 120 * time.Second}))
	if err != nil {
		return "", "", &wExec{inconclusive: "open-db: " + err.Error()}
	}
	ex = &wExec{ctx: ctx, db: db, regions: map[cesium.ChannelKey]*mRegion{}, writers: make([]*wWriter, c.NW),
		persist: map[cesium.ChannelKey][]int64{}, ts: 1000, q: make(chan cesium.StreamerResponse, 4096)}
	ex.failPath.Store("")
	flog.Fail = func(call, path string) error {
		if fp := ex.failPath.Load().(string); fp != "" && (call == "writeat" || call == "trunc" || call == "write") && strings.Contains("/"+path, fp) {
			return errors.New("verif: injected write failure")
		}
		return nil
	}
	chans := []cesium.Channel{
		{Key: chIdxA, Name: "idxA", DataType: telem.TimeStampT, IsIndex: true},
		{Key: chIdxB, Name: "idxB", DataType: telem.TimeStampT, IsIndex: true},
		{Key: chDataB, Name: "dataB", DataType: telem.Int64T, Index: chIdxB},
		{Key: chIdxS, Name: "idxS", DataType: telem.TimeStampT, IsIndex: true, Concurrency: xcontrol.ConcurrencyShared},
		{Key: chVirt1, Name: "virt1", DataType: telem.Int64T, Virtual: true},
		{Key: chVirt2, Name: "virt2", DataType: telem.Int64T, Virtual: true},
		{Key: chMarker, Name: "marker", DataType: telem.Int64T, Virtual: true},
	}
	if err = db.CreateChannel(ctx, chans...); err != nil {
		ex.inconclusive = "create-channels: " + err.Error()
		_ = db.Close()
		return
	}
	if err = db.ConfigureControlUpdateChannel(ctx, chDigest, "control"); err != nil {
		ex.inconclusive = "configure-digest: " + err.Error()
		_ = db.Close()
		return
	}
	st, err := db.NewStreamer(ctx, cesium.StreamerConfig{Channels: append(append([]cesium.ChannelKey{}, wAllData...), chDigest)})
	if err != nil {
		ex.inconclusive = "open-streamer: " + err.Error()
		_ = db.Close()
		return
	}
	in, out := confluence.Attach(st, 16)
	sCtx, cancel := signal.Isolated()
	st.Flow(sCtx, confluence.CloseOutputInletsOnExit())
	done := make(chan struct{})
	go func() {
		defer close(done)
		for r := range out.Outlet() {
			ex.q <- r
		}
		close(ex.q)
	}()
	defer func() {
		if r := recover(); r != nil {
			st := debug.Stack()
			sig, what = "c05:writer:panic:"+panicSig(st), fmt.Sprintf("panic: %v\n%s", r, trimStack(st))
		}
		for _, w := range ex.writers {
			if w != nil {
				_ = w.w.Close()
			}
		}
		in.Close()
		go func() { // keep draining so the streamer can exit
			for range ex.q {
			}
		}()
		<-done
		_ = sCtx.Wait()
		cancel()
		_ = db.Close()
	}()
	for i, op := range c.Ops {
		s, w := ex.step(op)
		if s != "" {
			return s, fmt.Sprintf("step %d %s: %s", i, op, w), ex
		}
		if ex.inconclusive != "" {
			return "", "", ex
		}
	}
	// close everything through the model, then the final read-back
	for i := range ex.writers {
		if ex.writers[i] != nil {
			if s, w := ex.step(wOp{Kind: "close", W: i}); s != "" {
				return s, "final close: " + w, ex
			}
		}
	}
	if ex.inconclusive != "" {
		return "", "", ex
	}
	if s, w := ex.checkReads(); s != "" {
		return s, "final read: " + w, ex
	}
	return "", "", ex
}

func layerWriter(h *harness.H) {
	h.AddRule("writer: PRNG histories of 12-30 OpenWriter/Write/SetAuthority/Close ops by 2-4 subjects over exclusive unary, shared unary and virtual channels (Sync mode); distinct = op list; non-trivial = >=1 hand-off between subjects and >=1 unauthorized write")
	n := h.N(250, 12000)
	type out struct {
		c         int
		wc        wCase
		sig, what string
		ex        *wExec
	}
	results := parallel(n, 8, func(c int) any {
		if h.Skip("writer", c) {
			return nil
		}
		wc := genWCase(h.Rand("writer", c))
		sig, what, ex := runWCase(wc)
		return out{c, wc, sig, what, ex}
	})
	for _, r := range results {
		if r == nil {
			continue
		}
		o := r.(out)
		h.Eval()
		if o.sig != "" {
			h.Violation("writer", o.c, o.sig, o.what, minimiseW(o.wc, o.sig))
			continue
		}
		if o.ex.inconclusive != "" {
			h.Inconclusive("writer:" + strings.SplitN(o.ex.inconclusive, ":", 2)[0])
			h.SetExtra("writer_last_inconclusive", o.ex.inconclusive)
			continue
		}
		h.Count("writer_steps", len(o.wc.Ops))
		h.Count("writer_handoffs", o.ex.handoffs)
		h.Count("writer_unauthorized_writes", o.ex.unauthWrites)
		h.Count("writer_authorized_writes", o.ex.authWrites)
		h.Count("writer_digest_transfers_checked", o.ex.transfersChecked)
		h.Count("writer_relayed_frames_checked", o.ex.framesChecked)
		h.Count("writer_reads_compared", o.ex.readsCompared)
		h.Count("writer_deletes_failed_inside_the_engine", o.ex.failDeletes)
		if o.ex.handoffs > 0 && o.ex.unauthWrites > 0 {
			h.Distinct("writer|" + fmt.Sprint(o.wc))
		}
		h.Sample(map[string]any{"layer": "writer", "case": o.c, "ops": fmt.Sprint(o.wc.Ops)})
	}
}

func minimiseW(c wCase, sig string) wCase {
	cur := c
	for changed := true; changed; {
		changed = false
		for i := 0; i < len(cur.Ops); i++ {
			t := cur
			t.Ops = append(append([]wOp{}, cur.Ops[:i]...), cur.Ops[i+1:]...)
			if s, _, _ := runWCase(t); s == sig {
				cur = t
				changed = true
				i--
			}
		}
	}
	return cur
}

// parallel runs f(0..n-1) on k goroutines and returns the results in case order.
func parallel(n, k int, f func(int) any) []any {
	res := make([]any, n)
	ch := make(chan int)
	done := make(chan struct{})
	for g := 0; g < k; g++ {
		go func() {
			for c := range ch {
				res[c] = f(c)
			}
			done <- struct{}{}
		}()
	}
	for c := 0; c < n; c++ {
		ch <- c
	}
	close(ch)
	for g := 0; g < k; g++ {
		<-done
	}
	return res
}
