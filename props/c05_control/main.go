// C05 — exactly one writer controls a channel region; highest authority wins.
//
// Layers:
//
//	gate   (a) control.Controller driven sequentially against a reference model
//	writer (b) public cesium API: writers on exclusive/shared channels, Sync mode; Read,
//	           relay and control-digest channel compared with the model
//	conc   (c) 3-4 goroutines on one region, porcupine linearizability vs. the same model
//	           (child process per batch: a panic in LeadingState must not end the run)
//	pubconc (c) 3-4 goroutines, one writer each, on ONE channel through the public API;
//	           porcupine on the authorized flags of the Writes (child process per batch)
//	states (c) DB.ControlStates() readers concurrent with writers opening/closing
//	           (child process per batch)
package main

import (
	"os"

	"verif/lib/harness"
)

func main() {
	if m := os.Getenv("VERIF_C05_CHILD"); m != "" {
		childMain(m)
		return
	}
	harness.Main("C05", "exploration",
		harness.Layer{Name: "gate", Run: layerGate},
		harness.Layer{Name: "writer", Run: layerWriter},
		harness.Layer{Name: "conc", Run: layerConc},
		harness.Layer{Name: "pubconc", Run: layerPubConc},
		harness.Layer{Name: "states", Run: layerStates},
	)
}
