package main

import (
	"fmt"
	"runtime"
	"sort"
	"strings"
	"sync"
	"sync/atomic"
	"time"

	"github.com/anishathalye/porcupine"
	"github.com/synnaxlabs/cesium/verifx"
	xcontrol "github.com/synnaxlabs/x/control"
	"github.com/synnaxlabs/x/errors"
	"github.com/synnaxlabs/x/telem"

	"verif/lib/harness"
	"verif/lib/prng"
)

// ---- layer (c1): concurrent gate ops on one region, porcupine ------------------------------

type pIn struct {
	Kind string `json:"k"` // open | set | release | auth | lead
	Subj string `json:"s,omitempty"`
	Auth uint8  `json:"a"`
}

type pOut struct {
	Err     string  `json:"err,omitempty"`
	Occ     bool    `json:"occ,omitempty"`
	From    *mState `json:"from,omitempty"`
	To      *mState `json:"to,omitempty"`
	OK      bool    `json:"ok,omitempty"`      // auth: Authorize succeeded
	Created bool    `json:"created,omitempty"` // open: OpenResource was called
	Res     int     `json:"res,omitempty"`     // open(created)/auth(ok)/release(last): resource id
	Lead    *mState `json:"lead,omitempty"`
}

type pState struct {
	reg *mRegion
	cur int // id of the region's live resource, 0 = none
}

func (s pState) key() string { return fmt.Sprintf("%s#%d", s.reg.key(), s.cur) }

type concOpts struct {
	shared      bool
	resources   bool // strict: resource lifecycle is part of the sequential specification
	noTransfers bool // public API histories: open/set/close report no transfer to the caller
}

func concModel(o concOpts) porcupine.Model {
	return porcupine.Model{
		Init: func() any { return pState{reg: &mRegion{}} },
		Equal: func(a, b any) bool {
			return a.(pState).key() == b.(pState).key()
		},
		Step: func(st, in, out any) (bool, any) {
			s, i, u := st.(pState), in.(pIn), out.(pOut)
			n := pState{reg: s.reg.clone(), cur: s.cur}
			trOK := func(t mTransfer) bool {
				if o.noTransfers {
					return true
				}
				if u.Occ != t.occurred() {
					return false
				}
				return !u.Occ || (stEq(u.From, t.From) && stEq(u.To, t.To))
			}
			switch i.Kind {
			case "open":
				if u.Err != "" {
					return false, s // no op of this workload may be refused
				}
				wasEmpty := len(n.reg.Gates) == 0
				t := n.reg.open(i.Subj, i.Auth)
				if !trOK(t) {
					return false, s
				}
				if o.resources {
					if u.Created != wasEmpty {
						return false, s
					}
					if wasEmpty {
						n.cur = u.Res
					}
				}
				return true, n
			case "set":
				return trOK(n.reg.setAuth(i.Subj, i.Auth)), n
			case "release":
				t := n.reg.release(i.Subj)
				if !trOK(t) {
					return false, s
				}
				if o.resources && len(n.reg.Gates) == 0 {
					if u.Res != s.cur {
						return false, s
					}
					n.cur = 0
				}
				return true, n
			case "auth":
				want := s.reg.authorized(i.Subj, o.shared)
				if u.OK != want {
					return false, s
				}
				if o.resources && want && u.Res != s.cur {
					return false, s
				}
				return true, s
			case "lead":
				return stEq(u.Lead, s.reg.holderState()), s
			}
			return false, s
		},
		DescribeOperation: func(in, out any) string { return fmt.Sprintf("%+v -> %+v", in, out) },
	}
}

type concScript struct {
	Shared bool    `json:"shared"`
	Procs  int     `json:"gomaxprocs"`
	G      [][]pIn `json:"goroutines"`
	Yields [][]int `json:"-"`
}

func genConc(r *prng.R, thorough bool) concScript {
	sc := concScript{Shared: r.Chance(1, 3), Procs: []int{1, 2, 4, 16}[r.Intn(4)]}
	ng := r.Range(3, 4)
	budget := r.Range(10, 14)
	if thorough {
		budget = r.Range(12, 18)
	}
	pal := authorities
	if r.Chance(1, 2) {
		pal = []uint8{1, 2}
	}
	sc.G = make([][]pIn, ng)
	sc.Yields = make([][]int, ng)
	open := map[string]bool{}
	for n := 0; n < budget; n++ {
		g := r.Intn(ng)
		subj := fmt.Sprintf("g%d", g)
		if r.Chance(1, 4) {
			subj += "b" // a goroutine owns up to two subjects
		}
		var in pIn
		x := r.Intn(100)
		switch {
		case !open[subj]:
			in = pIn{Kind: "open", Subj: subj, Auth: prng.Pick(r, pal)}
			open[subj] = true
		case x < 25:
			in = pIn{Kind: "set", Subj: subj, Auth: prng.Pick(r, pal)}
		case x < 55:
			in = pIn{Kind: "release", Subj: subj}
			open[subj] = false
		case x < 80:
			in = pIn{Kind: "auth", Subj: subj}
		default:
			in = pIn{Kind: "lead"}
		}
		sc.G[g] = append(sc.G[g], in)
		sc.Yields[g] = append(sc.Yields[g], r.Intn(4))
	}
	return sc
}

const concWindow = telem.TimeStamp(1000)

func runConcCase(seed int64, c int, thorough bool) childResult {
	r := prng.New(seed, "C05/conc", c)
	sc := genConc(r, thorough)
	runtime.GOMAXPROCS(sc.Procs)
	mode := xcontrol.ConcurrencyExclusive
	if sc.Shared {
		mode = xcontrol.ConcurrencyShared
	}
	ctrl, err := verifx.NewController[*res](verifx.ControlConfig{Concurrency: mode})
	if err != nil {
		return childResult{Case: c, Inconcl: "setup"}
	}
	var clock, resIDs atomic.Int64
	hist := make([][]porcupine.Operation, len(sc.G))
	var wg sync.WaitGroup
	startGate := make(chan struct{})
	for g := range sc.G {
		wg.Add(1)
		go func(g int) {
			defer wg.Done()
			gates := map[string]*verifx.Gate[*res]{}
			<-startGate
			for k, in := range sc.G[g] {
				for y := 0; y < sc.Yields[g][k]; y++ {
					runtime.Gosched()
				}
				var out pOut
				call := clock.Add(1)
				switch in.Kind {
				case "open":
					var created *res
					f := false
					gt, t, err := ctrl.OpenGate(verifx.GateConfig[*res]{
						Subject:               xcontrol.Subject{Key: in.Subj},
						TimeRange:             telem.TimeRange{Start: concWindow, End: concWindow + 100},
						Authority:             xcontrol.Authority(in.Auth),
						ErrOnUnauthorizedOpen: &f,
						OpenResource: func() (*res, error) {
							created = &res{key: gateResKey, id: int(resIDs.Add(1))}
							return created, nil
						},
					})
					if err != nil {
						out.Err = err.Error()
					} else {
						gates[in.Subj] = gt
						out.Occ, out.From, out.To = t.Occurred(), stateOf(t.From), stateOf(t.To)
						if created != nil {
							out.Created, out.Res = true, created.id
						}
					}
				case "set":
					t := gates[in.Subj].SetAuthority(xcontrol.Authority(in.Auth))
					out.Occ, out.From, out.To = t.Occurred(), stateOf(t.From), stateOf(t.To)
				case "release":
					rr, t := gates[in.Subj].Release()
					out.Occ, out.From, out.To = t.Occurred(), stateOf(t.From), stateOf(t.To)
					if t.IsRelease() && rr != nil {
						out.Res = rr.id
					}
					delete(gates, in.Subj)
				case "auth":
					rr, err := gates[in.Subj].Authorize()
					if err == nil {
						out.OK = true
						if rr != nil {
							out.Res = rr.id
						}
					} else if !errors.Is(err, xcontrol.ErrUnauthorized) {
						out.Err = err.Error()
					}
				case "lead":
					out.Lead = stateOf(ctrl.LeadingState())
				}
				ret := clock.Add(1)
				if !out.Occ {
					out.From, out.To = nil, nil
				}
				hist[g] = append(hist[g], porcupine.Operation{ClientId: g, Input: in, Output: out, Call: call, Return: ret})
			}
		}(g)
	}
	close(startGate)
	wg.Wait()
	var ops []porcupine.Operation
	for _, hg := range hist {
		ops = append(ops, hg...)
	}
	sort.Slice(ops, func(i, j int) bool { return ops[i].Call < ops[j].Call })
	// how concurrent was this history really: number of operation pairs that overlap
	overlaps := 0
	for i := range ops {
		for j := i + 1; j < len(ops); j++ {
			if ops[j].Call < ops[i].Return && ops[i].ClientId != ops[j].ClientId {
				overlaps++
			}
		}
	}
	res := childResult{Case: c, Counts: map[string]int{"conc_ops": len(ops), "conc_overlapping_pairs": overlaps}}
	strict := concOpts{shared: sc.Shared, resources: true}
	verdict := porcupine.CheckOperationsTimeout(concModel(strict), ops, 60*time.Second)
	if verdict == porcupine.Unknown {
		res.Inconcl = "porcupine-timeout"
		return res
	}
	if verdict == porcupine.Illegal {
		class := "control"
		noLead := make([]porcupine.Operation, 0, len(ops))
		for _, o := range ops {
			if o.Input.(pIn).Kind != "lead" {
				noLead = append(noLead, o)
			}
		}
		if porcupine.CheckOperationsTimeout(concModel(strict), noLead, 60*time.Second) == porcupine.Ok {
			class = "leading-state-read"
		} else if porcupine.CheckOperationsTimeout(concModel(concOpts{shared: sc.Shared}), noLead, 60*time.Second) == porcupine.Ok {
			class = "resource-lifecycle"
		}
		res.Sig = "c05:conc:nonlinearizable:" + class
		res.What = "gate history has no sequential explanation under the statement's model (" + class + ")"
		res.Witness = map[string]any{"script": sc, "history": describeOps(ops)}
		return res
	}
	order := make([]string, len(ops))
	for i, o := range ops {
		order[i] = fmt.Sprintf("%d%s", o.ClientId, o.Input.(pIn).Kind[:1])
	}
	res.Seen = append(res.Seen, [2]string{"conc_call_orders", strings.Join(order, "")})
	if overlaps > 0 {
		res.Distinct = fmt.Sprintf("conc|%v|%v", sc.Shared, sc.G)
	}
	res.Sample = map[string]any{"layer": "conc", "case": c, "shared": sc.Shared, "gomaxprocs": sc.Procs, "history": describeOps(ops)}
	return res
}

func describeOps(ops []porcupine.Operation) []string {
	out := make([]string, len(ops))
	for i, o := range ops {
		in, u := o.Input.(pIn), o.Output.(pOut)
		d := fmt.Sprintf("[%d,%d] g%d %s(%s,%d)", o.Call, o.Return, o.ClientId, in.Kind, in.Subj, in.Auth)
		switch in.Kind {
		case "auth":
			d += fmt.Sprintf(" -> ok=%v res=%d", u.OK, u.Res)
		case "lead":
			d += " -> " + u.Lead.String()
		default:
			d += fmt.Sprintf(" -> %s->%s occ=%v created=%v res=%d %s", u.From, u.To, u.Occ, u.Created, u.Res, u.Err)
		}
		out[i] = d
	}
	return out
}

func layerConc(h *harness.H) {
	h.AddRule("conc: 3-4 goroutines x 10-14 gate ops (open/set/release/Authorize/LeadingState) on one region, GOMAXPROCS in {1,2,4,16}, checked with porcupine against the reference model; distinct = script; non-trivial = >=1 pair of overlapping operations from different goroutines")
	runBatches(h, "conc", h.N(400, 20000), 50, 4, 10*time.Minute)
}
