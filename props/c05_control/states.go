package main

import (
	"context"
	"fmt"
	"runtime"
	"sync"
	"sync/atomic"
	"time"

	"github.com/synnaxlabs/cesium"
	xcontrol "github.com/synnaxlabs/x/control"
	xfs "github.com/synnaxlabs/x/io/fs"
	"github.com/synnaxlabs/x/telem"

	"verif/lib/harness"
	"verif/lib/prng"
)

// ---- layer (c2): DB.ControlStates() readers against writers opening/closing ---------------
//
// Each worker goroutine owns its channels and drives two or three writers over them
// sequentially, so every channel's holder history H_c[0..n] is known exactly from the
// model (H_c[k] = holder after the worker's k-th op on c). Readers call
// DB.ControlStates() concurrently. A call that began when `completed_c` ops were finished
// and returned when `started_c` ops had been started may report for c any
// H_c[completed_c .. started_c] and nothing else — the linearizability condition of a
// single-writer register, decided with logical counters only.

type chanLog struct {
	mu        sync.Mutex
	hist      []*mState // hist[k] = holder after k ops
	started   atomic.Int64
	completed atomic.Int64
}

func (l *chanLog) at(k int64) *mState {
	l.mu.Lock()
	defer l.mu.Unlock()
	return l.hist[k]
}

func runStatesCase(seed int64, c int, thorough bool) (out childResult) {
	r := prng.New(seed, "C05/states", c)
	procs := []int{2, 4, 8, 16}[r.Intn(4)]
	runtime.GOMAXPROCS(procs)
	out = childResult{Case: c, Counts: map[string]int{}}
	ctx := context.Background()
	db, err := cesium.Open(ctx, "", cesium.WithFS(xfs.NewMem()))
	if err != nil {
		out.Inconcl = "open-db"
		return
	}
	defer func() { _ = db.Close() }()
	nWorkers := r.Range(3, 6)
	nReaders := r.Range(2, 4)
	rounds := r.Range(20, 40)
	if thorough {
		rounds = r.Range(60, 120)
	}
	logs := map[cesium.ChannelKey]*chanLog{}
	type workerPlan struct {
		keys  []cesium.ChannelKey
		seeds *prng.R
	}
	plans := make([]workerPlan, nWorkers)
	next := cesium.ChannelKey(1)
	for w := range plans {
		nk := r.Range(1, 2)
		for i := 0; i < nk; i++ {
			ch := cesium.Channel{Key: next, Name: fmt.Sprintf("c%d", next), DataType: telem.Int64T, Virtual: true}
			if r.Chance(1, 2) {
				ch = cesium.Channel{Key: next, Name: fmt.Sprintf("c%d", next), DataType: telem.TimeStampT, IsIndex: true}
				if r.Chance(1, 3) {
					ch.Concurrency = xcontrol.ConcurrencyShared
				}
			}
			if err = db.CreateChannel(ctx, ch); err != nil {
				out.Inconcl = "create-channel"
				return
			}
			plans[w].keys = append(plans[w].keys, next)
			logs[next] = &chanLog{hist: []*mState{nil}}
			next++
		}
		plans[w].seeds = prng.New(seed, fmt.Sprintf("C05/states/w%d", w), c)
	}
	if err = db.ConfigureControlUpdateChannel(ctx, 1000, "control"); err != nil {
		out.Inconcl = "configure-digest"
		return
	}
	var (
		wg, rg   sync.WaitGroup
		stop     atomic.Bool
		vmu      sync.Mutex
		viol     []childViol
		nReads   atomic.Int64
		nChecked atomic.Int64
		nMoving  atomic.Int64 // reads that overlapped at least one op on the channel checked
		nOps     atomic.Int64
		incon    atomic.Value
	)
	report := func(v childViol) {
		vmu.Lock()
		if len(viol) < 3 {
			viol = append(viol, v)
		}
		vmu.Unlock()
	}
	ts := atomic.Int64{}
	ts.Store(1000)
	for w := range plans {
		wg.Add(1)
		go func(w int) {
			defer wg.Done()
			p := plans[w]
			pr := p.seeds
			regions := map[cesium.ChannelKey]*mRegion{}
			for _, k := range p.keys {
				regions[k] = &mRegion{}
			}
			writers := make([]*cesium.Writer, 3)
			// op applies the model change, publishes the next holder of every touched
			// channel, then runs the real call between started++ and completed++.
			op := func(keys []cesium.ChannelKey, apply func(k cesium.ChannelKey), real func() error) bool {
				for _, k := range keys {
					apply(k)
					l := logs[k]
					l.mu.Lock()
					l.hist = append(l.hist, regions[k].holderState())
					l.mu.Unlock()
				}
				for _, k := range keys {
					logs[k].started.Add(1)
				}
				err := real()
				for _, k := range keys {
					logs[k].completed.Add(1)
				}
				nOps.Add(1)
				if err != nil {
					incon.Store("writer-op-error: " + err.Error())
					return false
				}
				return true
			}
			for round := 0; round < rounds*4; round++ {
				i := pr.Intn(3)
				subj := fmt.Sprintf("w%d-%d", w, i)
				for y := pr.Intn(3); y > 0; y-- {
					runtime.Gosched()
				}
				ok := true
				switch {
				case writers[i] == nil:
					a := prng.Pick(pr, authorities)
					ok = op(p.keys, func(k cesium.ChannelKey) { regions[k].open(subj, a) }, func() error {
						var err error
						writers[i], err = db.OpenWriter(ctx, cesium.WriterConfig{
							ControlSubject: xcontrol.Subject{Key: subj},
							Channels:       p.keys,
							Authorities:    []xcontrol.Authority{xcontrol.Authority(a)},
							Start:          telem.TimeStamp(ts.Add(10)),
						})
						return err
					})
				case pr.Chance(2, 5):
					a := prng.Pick(pr, authorities)
					ok = op(p.keys, func(k cesium.ChannelKey) { regions[k].setAuth(subj, a) }, func() error {
						return writers[i].SetAuthority(cesium.WriterConfig{Authorities: []xcontrol.Authority{xcontrol.Authority(a)}})
					})
				default:
					ok = op(p.keys, func(k cesium.ChannelKey) { regions[k].release(subj) }, func() error {
						err := writers[i].Close()
						writers[i] = nil
						return err
					})
				}
				if !ok {
					break
				}
			}
			for i, wr := range writers {
				if wr != nil {
					subj := fmt.Sprintf("w%d-%d", w, i)
					op(p.keys, func(k cesium.ChannelKey) { regions[k].release(subj) }, wr.Close)
				}
			}
		}(w)
	}
	for rd := 0; rd < nReaders; rd++ {
		rg.Add(1)
		go func() {
			defer rg.Done()
			lo := map[cesium.ChannelKey]int64{}
			for !stop.Load() {
				for k, l := range logs {
					lo[k] = l.completed.Load()
				}
				u := db.ControlStates()
				got := map[cesium.ChannelKey]*mState{}
				for _, t := range u.Transfers {
					if t.To != nil {
						got[t.To.Resource] = stateOf(t.To)
					}
				}
				nReads.Add(1)
				for k, l := range logs {
					hi := l.started.Load()
					okState := false
					var admissible []string
					for j := lo[k]; j <= hi; j++ {
						s := l.at(j)
						admissible = append(admissible, s.String())
						if stEq(s, got[k]) {
							okState = true
							break
						}
					}
					nChecked.Add(1)
					if hi > lo[k] {
						nMoving.Add(1)
					}
					if !okState {
						report(childViol{Sig: "c05:states:control-states-not-a-snapshot",
							What:    fmt.Sprintf("ControlStates reported %s for channel %d; holders during the call were %v", got[k], k, admissible),
							Witness: map[string]any{"channel": k, "reported": got[k].String(), "admissible": admissible}})
					}
				}
				runtime.Gosched()
			}
		}()
	}
	done := make(chan struct{})
	go func() { wg.Wait(); close(done) }()
	select {
	case <-done:
	case <-time.After(5 * time.Minute):
		out.Inconcl = "workers-watchdog"
		stop.Store(true)
		return
	}
	stop.Store(true)
	rg.Wait()
	out.Counts["states_control_states_calls"] = int(nReads.Load())
	out.Counts["states_channel_reads_checked"] = int(nChecked.Load())
	out.Counts["states_reads_overlapping_an_op"] = int(nMoving.Load())
	out.Counts["states_writer_ops"] = int(nOps.Load())
	if v := incon.Load(); v != nil {
		out.Inconcl = "writer-op-error"
		out.What = v.(string)
		return
	}
	out.Violation = viol
	if nMoving.Load() > 0 {
		out.Distinct = fmt.Sprintf("states|%d|%d", seed, c)
	}
	out.Sample = map[string]any{"layer": "states", "case": c, "workers": nWorkers, "readers": nReaders, "gomaxprocs": procs,
		"writer_ops": nOps.Load(), "control_states_calls": nReads.Load(), "reads_overlapping_an_op": nMoving.Load()}
	return
}

func layerStates(h *harness.H) {
	h.AddRule("states: 3-6 worker goroutines open/set-authority/close writers on their own channels while 2-4 readers call DB.ControlStates(); each reported state must be a holder the channel had during the call; distinct = (seed,case) with >=1 read overlapping a writer op")
	runBatches(h, "states", h.N(24, 600), 4, 4, 10*time.Minute)
}
