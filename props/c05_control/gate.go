package main

import (
	"fmt"
	"runtime/debug"
	"strings"

	"github.com/synnaxlabs/cesium/verifx"
	xcontrol "github.com/synnaxlabs/x/control"
	"github.com/synnaxlabs/x/errors"
	"github.com/synnaxlabs/x/telem"
	"github.com/synnaxlabs/x/validate"

	"verif/lib/harness"
	"verif/lib/prng"
)

// ---- layer (a): gate level, sequential -------------------------------------------------

// res is the controlled resource of the gate-level layers. Every OpenResource call makes
// a fresh one, so identity tells which region (generation) a gate is bound to.
type res struct {
	key verifx.ChannelKey
	id  int
}

func (r *res) ChannelKey() verifx.ChannelKey { return r.key }

var authorities = []uint8{0, 1, 2, 254, 255}

type gateOp struct {
	Kind string `json:"k"` // open | openErrUnauth | dupOpen | set | release | rerelease
	Subj int    `json:"s"`
	Slot int    `json:"r"`
	Auth uint8  `json:"a"`
	Lo   int    `json:"lo,omitempty"` // time range offsets inside the slot
	Hi   int    `json:"hi,omitempty"`
}

func (o gateOp) String() string {
	return fmt.Sprintf("%s(s%d,r%d,a%d)", o.Kind, o.Subj, o.Slot, o.Auth)
}

type gateCase struct {
	Shared bool     `json:"shared"`
	NSubj  int      `json:"nsubj"`
	NSlot  int      `json:"nslot"`
	Ops    []gateOp `json:"ops"`
}

// slot k covers [1000k+1000, 1000k+1500); every gate range in a slot contains the
// slot's midpoint, so all gates of a slot overlap pairwise (one region per slot) and
// never reach another slot (the multi-region error path is outside the statement).
func slotRange(slot, lo, hi int) telem.TimeRange {
	base := int64(slot+1) * 1000
	return telem.TimeRange{Start: telem.TimeStamp(base + int64(lo)), End: telem.TimeStamp(base + 250 + int64(hi))}
}

func genGateCase(r *prng.R) gateCase {
	c := gateCase{Shared: r.Chance(2, 5), NSubj: r.Range(2, 5), NSlot: r.Range(1, 3)}
	n := r.Range(8, 30)
	// palette: some cases use few authority levels so that ties are the rule
	pal := authorities
	switch r.Intn(4) {
	case 0:
		pal = []uint8{1, 2}
	case 1:
		pal = []uint8{0, 255}
	case 2:
		pal = []uint8{254, 255, 1}
	}
	type slotKey struct{ s, r int }
	open := map[slotKey]bool{}
	released := []slotKey{}
	for len(c.Ops) < n {
		var openKeys, freeKeys []slotKey
		for s := 0; s < c.NSubj; s++ {
			for k := 0; k < c.NSlot; k++ {
				if open[slotKey{s, k}] {
					openKeys = append(openKeys, slotKey{s, k})
				} else {
					freeKeys = append(freeKeys, slotKey{s, k})
				}
			}
		}
		x := r.Intn(100)
		switch {
		case x < 34 && len(freeKeys) > 0:
			k := prng.Pick(r, freeKeys)
			kind := "open"
			if r.Chance(1, 10) {
				kind = "openErrUnauth"
			}
			c.Ops = append(c.Ops, gateOp{Kind: kind, Subj: k.s, Slot: k.r, Auth: prng.Pick(r, pal), Lo: r.Intn(250), Hi: r.Range(1, 250)})
			open[k] = true // provisional: the executor drops it again if the open fails
		case x < 38 && len(openKeys) > 0:
			k := prng.Pick(r, openKeys)
			c.Ops = append(c.Ops, gateOp{Kind: "dupOpen", Subj: k.s, Slot: k.r, Auth: prng.Pick(r, pal), Lo: r.Intn(250), Hi: r.Range(1, 250)})
		case x < 70 && len(openKeys) > 0:
			k := prng.Pick(r, openKeys)
			c.Ops = append(c.Ops, gateOp{Kind: "set", Subj: k.s, Slot: k.r, Auth: prng.Pick(r, pal)})
		case x < 95 && len(openKeys) > 0:
			k := prng.Pick(r, openKeys)
			c.Ops = append(c.Ops, gateOp{Kind: "release", Subj: k.s, Slot: k.r})
			delete(open, k)
			released = append(released, k)
		case len(released) > 0:
			k := prng.Pick(r, released)
			c.Ops = append(c.Ops, gateOp{Kind: "rerelease", Subj: k.s, Slot: k.r})
		}
	}
	return c
}

// stateOf converts a reported *State into the model's representation.
func stateOf(s *verifx.State) *mState {
	if s == nil {
		return nil
	}
	return &mState{Subj: s.Subject.Key, Auth: uint8(s.Authority)}
}

// cmpTransfer compares a reported transfer with the model's. "" = equal.
func cmpTransfer(got verifx.Transfer, want mTransfer, wantRes verifx.ChannelKey) string {
	if got.Occurred() != want.occurred() {
		return fmt.Sprintf("occurred=%v want %v (got %s->%s, want %s)", got.Occurred(), want.occurred(), stateOf(got.From), stateOf(got.To), want)
	}
	if !want.occurred() {
		return ""
	}
	if !stEq(stateOf(got.From), want.From) {
		return fmt.Sprintf("from=%s want %s", stateOf(got.From), want.From)
	}
	if !stEq(stateOf(got.To), want.To) {
		return fmt.Sprintf("to=%s want %s", stateOf(got.To), want.To)
	}
	for _, s := range []*verifx.State{got.From, got.To} {
		if s != nil && s.Resource != wantRes {
			return fmt.Sprintf("resource=%d want %d", s.Resource, wantRes)
		}
	}
	return ""
}

type gateExec struct {
	c        gateCase
	ctrl     *verifx.Controller[*res]
	regions  []*mRegion // per slot; nil = no open gate
	resOf    []*res     // real resource of the slot's current region
	gates    map[[2]int]*verifx.Gate[*res]
	oldGates map[[2]int]*verifx.Gate[*res]
	folded   []*mState // per slot: fold of all transfers reported so far
	nres     int
	handoffs int
	maxOpen  int
	shapes   map[string]struct{}
}

const gateResKey verifx.ChannelKey = 77

func subjKey(s int) string { return fmt.Sprintf("s%d", s) }

func runGateCase(c gateCase) (sig, what string, ex *gateExec) {
	mode := xcontrol.ConcurrencyExclusive
	if c.Shared {
		mode = xcontrol.ConcurrencyShared
	}
	ctrl, err := verifx.NewController[*res](verifx.ControlConfig{Concurrency: mode})
	if err != nil {
		return "c05:gate:setup", err.Error(), nil
	}
	ex = &gateExec{c: c, ctrl: ctrl,
		regions: make([]*mRegion, c.NSlot), resOf: make([]*res, c.NSlot), folded: make([]*mState, c.NSlot),
		gates: map[[2]int]*verifx.Gate[*res]{}, oldGates: map[[2]int]*verifx.Gate[*res]{}, shapes: map[string]struct{}{}}
	defer func() {
		if r := recover(); r != nil {
			st := debug.Stack()
			sig, what = "c05:gate:panic:"+panicSig(st), fmt.Sprintf("panic in control code: %v\n%s", r, trimStack(st))
		}
	}()
	for i, op := range c.Ops {
		if s, w := ex.step(op); s != "" {
			return s, fmt.Sprintf("step %d %s: %s", i, op, w), ex
		}
		if s, w := ex.checkAll(); s != "" {
			return s, fmt.Sprintf("after step %d %s: %s", i, op, w), ex
		}
	}
	return "", "", ex
}

// panicSig names a panic by the innermost repo function on the panicking stack, e.g.
// "virtual.(*Writer).Close" — structural, no addresses.
func panicSig(b []byte) string {
	for _, l := range strings.Split(string(b), "\n") {
		if i := strings.Index(l, "github.com/synnaxlabs/"); i >= 0 && !strings.HasPrefix(l, "\t") {
			f := l[i+len("github.com/synnaxlabs/"):]
			if j := strings.LastIndex(f, "("); j > 0 {
				f = f[:j]
			}
			if j := strings.LastIndex(f, "/"); j >= 0 {
				f = f[j+1:]
			}
			f = strings.ReplaceAll(f, "[...]", "")
			return f
		}
	}
	return "unknown"
}

func trimStack(b []byte) string {
	lines := strings.Split(string(b), "\n")
	var keep []string
	for _, l := range lines {
		if strings.Contains(l, "synnaxlabs") {
			keep = append(keep, strings.TrimSpace(l))
		}
		if len(keep) >= 8 {
			break
		}
	}
	return strings.Join(keep, " | ")
}

func (ex *gateExec) fold(slot int, t verifx.Transfer) (string, string) {
	if !t.Occurred() {
		return "", ""
	}
	if !stEq(stateOf(t.From), ex.folded[slot]) {
		return "c05:gate:transfer-chain-broken", fmt.Sprintf("transfer names previous holder %s but the transfers reported so far reconstruct %s", stateOf(t.From), ex.folded[slot])
	}
	ex.folded[slot] = stateOf(t.To)
	return "", ""
}

func (ex *gateExec) step(op gateOp) (string, string) {
	k := [2]int{op.Subj, op.Slot}
	subj := subjKey(op.Subj)
	switch op.Kind {
	case "open", "openErrUnauth", "dupOpen":
		if op.Kind == "dupOpen" && ex.gates[k] == nil {
			op.Kind = "open" // the earlier open of this subject was refused: this is a plain open
		}
		var created *res
		errOnUnauth := op.Kind == "openErrUnauth"
		g, t, err := ex.ctrl.OpenGate(verifx.GateConfig[*res]{
			Subject:               xcontrol.Subject{Key: subj, Name: "n" + subj},
			TimeRange:             slotRange(op.Slot, op.Lo, op.Hi),
			Authority:             xcontrol.Authority(op.Auth),
			ErrOnUnauthorizedOpen: &errOnUnauth,
			OpenResource: func() (*res, error) {
				ex.nres++
				created = &res{key: gateResKey, id: ex.nres}
				return created, nil
			},
		})
		reg := ex.regions[op.Slot]
		if op.Kind == "dupOpen" {
			// The subject already has an open gate in this region. The statement does not
			// say whether that is refused; it must at least change nothing when refused.
			if err == nil {
				return "c05:gate:dup-open-accepted", "second open gate for a subject already registered in the region was accepted"
			}
			if !errors.Is(err, validate.ErrValidation) {
				return "c05:gate:dup-open-error-class", err.Error()
			}
			if t.Occurred() || g != nil || created != nil {
				return "c05:gate:failed-open-had-effect", fmt.Sprintf("refused open reported transfer %s->%s", stateOf(t.From), stateOf(t.To))
			}
			return "", ""
		}
		wantCreate := reg == nil
		if err != nil {
			if !(errOnUnauth && errors.Is(err, xcontrol.ErrUnauthorized)) {
				return "c05:gate:open-error", err.Error()
			}
			// ErrOnUnauthorizedOpen: refused because the gate would not be authorized.
			// Admissible only if the model agrees it would not be, and it must have no
			// effect (checkAll verifies nothing changed).
			probe := &mRegion{}
			if reg != nil {
				probe = reg.clone()
			}
			probe.open(subj, op.Auth)
			if probe.authorized(subj, ex.c.Shared) {
				return "c05:gate:open-refused-though-it-would-control", fmt.Sprintf("open with ErrOnUnauthorizedOpen refused: %v", err)
			}
			if t.Occurred() || g != nil {
				return "c05:gate:failed-open-had-effect", fmt.Sprintf("refused open reported transfer %s->%s", stateOf(t.From), stateOf(t.To))
			}
			return "", ""
		}
		if wantCreate != (created != nil) {
			return "c05:gate:resource-lifecycle", fmt.Sprintf("OpenResource called=%v, want %v (region had open gates: %v)", created != nil, wantCreate, !wantCreate)
		}
		if reg == nil {
			reg = &mRegion{}
			ex.regions[op.Slot] = reg
			ex.resOf[op.Slot] = created
		}
		want := reg.open(subj, op.Auth)
		if errOnUnauth && !reg.authorized(subj, ex.c.Shared) {
			return "c05:gate:unauthorized-open-accepted", "open with ErrOnUnauthorizedOpen succeeded although the gate is not authorized"
		}
		ex.gates[k] = g
		if d := cmpTransfer(t, want, gateResKey); d != "" {
			return "c05:gate:open-transfer", d
		}
		if want.occurred() && want.From != nil && want.From.Subj != want.To.Subj {
			ex.handoffs++
		}
		return ex.fold(op.Slot, t)
	case "set":
		g := ex.gates[k]
		if g == nil {
			return "", "" // the open of this slot was refused earlier; nothing to do
		}
		t := g.SetAuthority(xcontrol.Authority(op.Auth))
		want := ex.regions[op.Slot].setAuth(subj, op.Auth)
		if d := cmpTransfer(t, want, gateResKey); d != "" {
			return "c05:gate:set-authority-transfer", d
		}
		if want.occurred() && want.From.Subj != want.To.Subj {
			ex.handoffs++
		}
		if uint8(g.Authority()) != op.Auth {
			return "c05:gate:authority-not-updated", fmt.Sprintf("gate authority %d after SetAuthority(%d)", g.Authority(), op.Auth)
		}
		return ex.fold(op.Slot, t)
	case "release":
		g := ex.gates[k]
		if g == nil {
			return "", ""
		}
		r, t := g.Release()
		reg := ex.regions[op.Slot]
		want := reg.release(subj)
		delete(ex.gates, k)
		ex.oldGates[k] = g
		if d := cmpTransfer(t, want, gateResKey); d != "" {
			return "c05:gate:release-transfer", d
		}
		if want.occurred() && want.To != nil {
			ex.handoffs++
		}
		if len(reg.Gates) == 0 {
			if !t.IsRelease() || r != ex.resOf[op.Slot] {
				return "c05:gate:resource-lifecycle", "last release did not hand back the region's resource"
			}
			ex.regions[op.Slot] = nil
			ex.resOf[op.Slot] = nil
		}
		return ex.fold(op.Slot, t)
	case "rerelease":
		g := ex.oldGates[k]
		if g == nil {
			return "", ""
		}
		_, t := g.Release()
		if t.Occurred() {
			return "c05:gate:rerelease-transfer", fmt.Sprintf("releasing an already released gate reported %s->%s", stateOf(t.From), stateOf(t.To))
		}
		return "", ""
	}
	return "", ""
}

// checkAll runs after every step: (ii) Authorize on every OPEN gate equals the model,
// (iii) LeadingState equals the model's holder of the earliest region and the fold of
// that region's transfers.
func (ex *gateExec) checkAll() (string, string) {
	nOpen := 0
	for slot, reg := range ex.regions {
		if reg == nil {
			if ex.folded[slot] != nil {
				return "c05:gate:fold-mismatch", fmt.Sprintf("slot %d has no open gate but transfers reconstruct holder %s", slot, ex.folded[slot])
			}
			continue
		}
		ex.shapes[fmt.Sprintf("%v|%s", ex.c.Shared, reg.shape())] = struct{}{}
		if !stEq(ex.folded[slot], reg.holderState()) {
			return "c05:gate:fold-mismatch", fmt.Sprintf("slot %d: transfers reconstruct %s, holder by the statement is %s", slot, ex.folded[slot], reg.holderState())
		}
		for _, mg := range reg.Gates {
			nOpen++
			var si int
			fmt.Sscanf(mg.Subj, "s%d", &si)
			g := ex.gates[[2]int{si, slot}]
			r, err := g.Authorize()
			want := reg.authorized(mg.Subj, ex.c.Shared)
			if (err == nil) != want {
				return "c05:gate:authorize-mismatch", fmt.Sprintf("slot %d gate %s@%d: Authorize ok=%v, statement says %v (holder %s, shared=%v, gates %s)", slot, mg.Subj, mg.Auth, err == nil, want, reg.holderState(), ex.c.Shared, reg.shape())
			}
			if err != nil && !errors.Is(err, xcontrol.ErrUnauthorized) {
				return "c05:gate:authorize-error-class", err.Error()
			}
			if err == nil && r != ex.resOf[slot] {
				return "c05:gate:authorize-wrong-resource", "Authorize returned a resource that is not the region's"
			}
		}
	}
	if nOpen > ex.maxOpen {
		ex.maxOpen = nOpen
	}
	var wantLead *mState
	for _, reg := range ex.regions { // slots are in time order
		if reg != nil {
			wantLead = reg.holderState()
			break
		}
	}
	if got := stateOf(ex.ctrl.LeadingState()); !stEq(got, wantLead) {
		return "c05:gate:leading-state-mismatch", fmt.Sprintf("LeadingState=%s, statement says %s", got, wantLead)
	}
	return "", ""
}

func layerGate(h *harness.H) {
	h.AddRule("gate: PRNG histories of 8-30 open/set-authority/release ops (2-5 subjects, 1-3 disjoint regions, exclusive+shared); distinct = normalised op list; non-trivial = >=1 hand-off between two different subjects")
	n := h.N(4000, 100000)
	type out struct {
		gc        gateCase
		sig, what string
		ex        *gateExec
	}
	const chunk = 2000
	for base := 0; base < n; base += chunk {
		m := min(chunk, n-base)
		results := parallel(m, 12, func(i int) any {
			c := base + i
			if h.Skip("gate", c) {
				return nil
			}
			gc := genGateCase(h.Rand("gate", c))
			sig, what, ex := runGateCase(gc)
			return out{gc, sig, what, ex}
		})
		for i, r := range results {
			if r == nil {
				continue
			}
			c, o := base+i, r.(out)
			h.Eval()
			if o.sig != "" {
				h.Violation("gate", c, o.sig, o.what, minimiseGate(o.gc, o.sig))
				continue
			}
			h.Count("gate_steps", len(o.gc.Ops))
			h.Count("gate_handoffs", o.ex.handoffs)
			for s := range o.ex.shapes {
				h.Seen("gate_region_states", s)
			}
			if o.ex.handoffs > 0 {
				h.Distinct("gate|" + fmt.Sprint(o.gc))
			}
			h.Sample(map[string]any{"layer": "gate", "case": c, "shared": o.gc.Shared, "ops": fmt.Sprint(o.gc.Ops), "handoffs": o.ex.handoffs})
		}
	}
}

// minimiseGate delta-debugs the op list while the same signature fires.
func minimiseGate(c gateCase, sig string) gateCase {
	cur := c
	for changed := true; changed; {
		changed = false
		for i := 0; i < len(cur.Ops); i++ {
			t := cur
			t.Ops = append(append([]gateOp{}, cur.Ops[:i]...), cur.Ops[i+1:]...)
			if s, _, _ := runGateCase(t); s == sig {
				cur = t
				changed = true
				i--
			}
		}
	}
	return cur
}
