package main

import (
	"context"
	"fmt"
	"runtime"
	"sort"
	"strings"
	"sync"
	"sync/atomic"
	"time"

	"github.com/anishathalye/porcupine"
	"github.com/synnaxlabs/cesium"
	xcontrol "github.com/synnaxlabs/x/control"
	xfs "github.com/synnaxlabs/x/io/fs"
	"github.com/synnaxlabs/x/telem"

	"verif/lib/harness"
	"verif/lib/prng"
)

// ---- layer (c3): concurrent writers on ONE channel through the public cesium API -----------
//
// 3-4 goroutines each own a subject and run OpenWriter / Write (Sync) / SetAuthority /
// Close against the same channel. The authorized flag of every Write is the observation;
// porcupine checks the history against the reference model ("auth" = Write's flag). Writers
// are stream-only, so no sample is ever persisted and every call is legal whatever the
// interleaving: any error other than "unauthorized" is unexpected, and an error saying the
// channel's writer resource is closed while the calling writer is open means a controlling
// writer was handed a resource that another writer's Close disposed of.

func runPubConcCase(seed int64, c int, thorough bool) (out childResult) {
	r := prng.New(seed, "C05/pubconc", c)
	procs := []int{1, 2, 4, 16}[r.Intn(4)]
	runtime.GOMAXPROCS(procs)
	out = childResult{Case: c, Counts: map[string]int{}}
	ctx := context.Background()
	db, err := cesium.Open(ctx, "", cesium.WithFS(xfs.NewMem()))
	if err != nil {
		out.Inconcl = "open-db"
		return
	}
	defer func() { _ = db.Close() }()
	kind := r.Intn(3) // 0 exclusive unary index, 1 shared unary index, 2 virtual
	ch := cesium.Channel{Key: 1, Name: "c", DataType: telem.TimeStampT, IsIndex: true}
	switch kind {
	case 1:
		ch.Concurrency = xcontrol.ConcurrencyShared
	case 2:
		ch = cesium.Channel{Key: 1, Name: "c", DataType: telem.Int64T, Virtual: true}
	}
	shared := kind != 0
	if err = db.CreateChannel(ctx, ch); err != nil {
		out.Inconcl = "create-channel"
		return
	}
	ng := r.Range(3, 4)
	budget := r.Range(10, 14)
	if thorough {
		budget = r.Range(12, 18)
	}
	pal := []uint8{1, 2}
	if r.Chance(1, 2) {
		pal = authorities
	}
	scripts := make([][]pIn, ng)
	yields := make([][]int, ng)
	open := make([]bool, ng)
	for n := 0; n < budget; n++ {
		g := r.Intn(ng)
		subj := fmt.Sprintf("g%d", g)
		var in pIn
		x := r.Intn(100)
		switch {
		case !open[g]:
			in = pIn{Kind: "open", Subj: subj, Auth: prng.Pick(r, pal)}
			open[g] = true
		case x < 45:
			in = pIn{Kind: "auth", Subj: subj} // a Write; its authorized flag is the output
		case x < 65:
			in = pIn{Kind: "set", Subj: subj, Auth: prng.Pick(r, pal)}
		default:
			in = pIn{Kind: "release", Subj: subj}
			open[g] = false
		}
		scripts[g] = append(scripts[g], in)
		yields[g] = append(yields[g], r.Intn(4))
	}
	for g := range scripts { // every writer is closed inside the recorded history
		if open[g] {
			scripts[g] = append(scripts[g], pIn{Kind: "release", Subj: fmt.Sprintf("g%d", g)})
			yields[g] = append(yields[g], 0)
		}
	}
	var clock, tsc atomic.Int64
	tsc.Store(1000)
	hist := make([][]porcupine.Operation, ng)
	type bad struct{ op, err string }
	var (
		mu   sync.Mutex
		bads []bad
		wg   sync.WaitGroup
	)
	start := make(chan struct{})
	for g := 0; g < ng; g++ {
		wg.Add(1)
		go func(g int) {
			defer wg.Done()
			var w *cesium.Writer
			defer func() {
				if w != nil {
					_ = w.Close()
				}
			}()
			<-start
			for k, in := range scripts[g] {
				for y := 0; y < yields[g][k]; y++ {
					runtime.Gosched()
				}
				var o pOut
				var err error
				call := clock.Add(1)
				switch in.Kind {
				case "open":
					syncT := true
					w, err = db.OpenWriter(ctx, cesium.WriterConfig{
						ControlSubject: xcontrol.Subject{Key: in.Subj},
						Channels:       []cesium.ChannelKey{1},
						Authorities:    []xcontrol.Authority{xcontrol.Authority(in.Auth)},
						Start:          1000,
						Mode:           cesium.WriterModeStreamOnly,
						Sync:           &syncT,
					})
				case "auth":
					var s telem.Series
					if kind == 2 {
						s = telem.NewSeriesV[int64](int64(g))
					} else {
						s = telem.NewSeriesV[telem.TimeStamp](telem.TimeStamp(tsc.Add(10)))
					}
					o.OK, err = w.Write(telem.UnaryFrame[cesium.ChannelKey](1, s))
				case "set":
					err = w.SetAuthority(cesium.WriterConfig{Authorities: []xcontrol.Authority{xcontrol.Authority(in.Auth)}})
				case "release":
					err = w.Close()
					w = nil
				}
				ret := clock.Add(1)
				if err != nil {
					mu.Lock()
					bads = append(bads, bad{fmt.Sprintf("g%d %s", g, in.Kind), err.Error()})
					mu.Unlock()
					return // the writer is unusable after an error; stop this goroutine
				}
				hist[g] = append(hist[g], porcupine.Operation{ClientId: g, Input: in, Output: o, Call: call, Return: ret})
			}
		}(g)
	}
	close(start)
	done := make(chan struct{})
	go func() { wg.Wait(); close(done) }()
	select {
	case <-done:
	case <-time.After(3 * time.Minute):
		out.Inconcl = "watchdog"
		return
	}
	var ops []porcupine.Operation
	for _, hg := range hist {
		ops = append(ops, hg...)
	}
	sort.Slice(ops, func(i, j int) bool { return ops[i].Call < ops[j].Call })
	out.Counts["pubconc_ops"] = len(ops)
	if len(bads) > 0 {
		b := bads[0]
		if strings.Contains(b.err, "closed") && kind != 2 {
			out.Sig = "c05:pubconc:controlling-writer-hit-closed-resource"
			out.What = fmt.Sprintf("%s by an open writer failed with %q: the region's writer resource was closed by another writer's Close while this writer was joining the region", b.op, b.err)
			out.Witness = map[string]any{"scripts": scripts, "gomaxprocs": procs, "channel_kind": kind, "errors": bads, "history": describeOps(ops)}
			return
		}
		out.Inconcl = "unexpected-error"
		out.What = b.op + ": " + b.err
		return
	}
	overlaps := 0
	for i := range ops {
		for j := i + 1; j < len(ops); j++ {
			if ops[j].Call < ops[i].Return && ops[i].ClientId != ops[j].ClientId {
				overlaps++
			}
		}
	}
	out.Counts["pubconc_overlapping_pairs"] = overlaps
	switch porcupine.CheckOperationsTimeout(concModel(concOpts{shared: shared, noTransfers: true}), ops, 60*time.Second) {
	case porcupine.Unknown:
		out.Inconcl = "porcupine-timeout"
		return
	case porcupine.Illegal:
		out.Sig = "c05:pubconc:nonlinearizable:write-authorized-flags"
		out.What = "no sequential order of OpenWriter/SetAuthority/Close explains the authorized flags the Writes reported"
		out.Witness = map[string]any{"scripts": scripts, "gomaxprocs": procs, "channel_kind": kind, "history": describeOps(ops)}
		return
	}
	if overlaps > 0 {
		out.Distinct = fmt.Sprintf("pubconc|%d|%v", kind, scripts)
	}
	out.Sample = map[string]any{"layer": "pubconc", "case": c, "channel_kind": kind, "gomaxprocs": procs, "history": describeOps(ops)}
	return
}

func layerPubConc(h *harness.H) {
	h.AddRule("pubconc: 3-4 goroutines x 10-14 OpenWriter/Write/SetAuthority/Close on one channel (exclusive unary, shared unary, virtual), porcupine on the authorized flags; distinct = scripts; non-trivial = >=1 overlapping pair")
	runBatches(h, "pubconc", h.N(200, 10000), 25, 4, 10*time.Minute)
}
