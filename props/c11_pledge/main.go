// C11 — Node keys are unique under concurrent joins and juror failures.
//
// Layer "pkg": the real pledge package (Pledge / Arbitrate via aspen/verifx) on freighter's
// in-memory unary network. Every cluster is GROWN from a bootstrapper by real pledges, so
// every juror's remembered approvals were produced by real requests. Membership views (the
// Candidates callback) come from a view model that is a sound abstraction of SI gossip
// under message loss: a member's view contains itself, only grows, and grows only through
// explicit pairwise exchange steps. A fault-injecting client decorator taps and perturbs
// every request (fail, time out, response lost, delivered late, delayed).
//
// Layer "real": real cluster.Open nodes (pledge + gossip + store) on mock networks, joins
// issued concurrently through different peers, gossip of some joiners blacked out for a
// while. Oracle: host keys pairwise distinct, one cluster key.
//
// Oracle = the statement: admitted keys pairwise distinct (for ever, bootstrapper
// included); the response carries the cluster's key; a response (R,K) is only sent after
// every juror request R made for K in that pledge returned approval, to at least
// floor(|view_R|/2)+1 distinct jurors, all of them members R knows.
package main

import (
	"verif/lib/harness"
)

func main() {
	harness.Main("C11", "fault_enumeration",
		harness.Layer{Name: "pkg", Run: layerPkg},
		harness.Layer{Name: "real", Run: layerReal},
		harness.Layer{Name: "leave", Run: layerLeave},
	)
}
