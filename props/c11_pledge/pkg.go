package main

import (
	"context"
	"errors"
	"fmt"
	"hash/fnv"
	"runtime"
	"sort"
	"strings"
	"sync"
	"time"

	"github.com/google/uuid"
	"github.com/synnaxlabs/alamos"
	"github.com/synnaxlabs/aspen/verifx"
	"github.com/synnaxlabs/freighter"
	fmock "github.com/synnaxlabs/freighter/mock"
	"github.com/synnaxlabs/x/address"

	"verif/lib/harness"
	"verif/lib/prng"
)

type preq = verifx.PledgeRequest

var errInjected = errors.New("verif: injected transport failure")

type attKey struct{}

// member is one process: the bootstrapper or a pledger (a member once admitted).
type member struct {
	id     int
	addr   address.Address
	server *fmock.UnaryServer[preq, preq]
	client *faultClient
	sc     *scen
	// guarded by sc.mu
	key  verifx.NodeKey
	view map[verifx.NodeKey]struct{}
}

type jurorReq struct {
	sender     *member
	target     address.Address
	key        verifx.NodeKey
	startSeq   int
	endSeq     int // 0 while in flight
	fault      string
	approved   bool // the juror's handler returned nil (whenever that happened)
	reportedOK bool // the coordinator was told "approved"
	jurorKnew  bool // the juror's view already contained `key` as a member when asked
}

type attempt struct {
	id          int
	pledger     *member
	responsible *member
	viewAtStart []verifx.NodeKey
	viewAtEnd   []verifx.NodeKey
	startSeq    int
	endSeq      int
	jurors      []*jurorReq
	resKey      verifx.NodeKey
	admitted    bool
}

type scen struct {
	h       *harness.H
	layer   string
	c       int
	salt    uint64
	profile int // 0 fresh views, 1 mildly stale, 2 hostile stale
	faults  int // 0 none, 1 light, 2 heavy
	net     *fmock.Network[preq, preq]
	cluster uuid.UUID

	mu        sync.Mutex
	seq       int
	members   []*member
	byAddr    map[address.Address]*member
	addrOf    map[verifx.NodeKey]address.Address
	admitted  map[verifx.NodeKey]*attempt // nil attempt = bootstrapper
	attempts  []*attempt
	nth       map[string]int
	unhealthy map[verifx.NodeKey]bool
	log       []string
	failed    bool
	faultCnt  map[string]int
	rejected  int
	maxInFl   int
	inFlight  int
	lateWG    sync.WaitGroup
	orphan    int
}

func (sc *scen) logf(f string, a ...any) { // sc.mu held
	sc.log = append(sc.log, fmt.Sprintf("%04d ", sc.seq)+fmt.Sprintf(f, a...))
}

// decide is a pure function of the scenario salt and the identity of an event.
func (sc *scen) decide(parts ...any) uint64 {
	hs := fnv.New64a()
	fmt.Fprint(hs, sc.salt)
	for _, p := range parts {
		fmt.Fprint(hs, "|", p)
	}
	x := hs.Sum64()
	x ^= x >> 33
	x *= 0xff51afd7ed558ccd
	x ^= x >> 33
	return x
}

func keysOf(v map[verifx.NodeKey]struct{}) []verifx.NodeKey {
	out := make([]verifx.NodeKey, 0, len(v))
	for k := range v {
		out = append(out, k)
	}
	sort.Slice(out, func(i, j int) bool { return out[i] < out[j] })
	return out
}

// candidates is the Candidates callback of member m: its current view.
func (m *member) candidates() verifx.NodeGroup {
	sc := m.sc
	sc.mu.Lock()
	defer sc.mu.Unlock()
	g := verifx.NodeGroup{}
	if m.key == 0 {
		return g // as cluster.Open before SetHost: an empty store
	}
	for k := range m.view {
		st := verifx.NodeStateHealthy
		if sc.unhealthy[k] && k != m.key {
			st = verifx.NodeStateSuspect
		}
		g[k] = verifx.Node{Key: k, Address: sc.addrOf[k], State: st}
	}
	return g
}

func (sc *scen) newMember() *member {
	srv := sc.net.UnaryServer("")
	m := &member{id: len(sc.members), addr: srv.Address, server: srv, sc: sc, view: map[verifx.NodeKey]struct{}{}}
	m.client = &faultClient{inner: sc.net.UnaryClient(), owner: m}
	sc.members = append(sc.members, m)
	sc.byAddr[m.addr] = m
	return m
}

// ---- fault-injecting, recording client -------------------------------------------------

type faultClient struct {
	inner *fmock.UnaryClient[preq, preq]
	owner *member
	// pledger-side knobs (set before Pledge is called, from the pledger's goroutine)
	early   bool    // the member's state is up as soon as the response arrives
	inherit bool    // the initial gossip with the coordinating peer succeeds
	via     *member // the coordinator that admitted this member (sc.mu)
}

var _ freighter.UnaryClient[preq, preq] = (*faultClient)(nil)

func (c *faultClient) Report() alamos.Report         { return c.inner.Report() }
func (c *faultClient) Use(m ...freighter.Middleware) { c.inner.Use(m...) }

func (c *faultClient) Send(ctx context.Context, target address.Address, req preq) (preq, error) {
	if req.Key == 0 {
		return c.sendPledge(ctx, target, req)
	}
	return c.sendProposal(ctx, target, req)
}

func (sc *scen) pickFault(juror bool, parts ...any) string {
	if sc.faults == 0 {
		return "ok"
	}
	x := int(sc.decide(parts...) % 1000)
	if !juror {
		lim := 40 * sc.faults
		switch {
		case x < lim:
			return "fail"
		case x < 2*lim:
			return "resp-lost"
		}
		return "ok"
	}
	w := []struct {
		k string
		p int
	}{{"fail", 35}, {"resp-lost", 30}, {"late", 30}, {"timeout", 6}, {"delay", 40}}
	acc := 0
	for _, e := range w {
		acc += e.p * sc.faults
		if x < acc {
			return e.k
		}
	}
	return "ok"
}

func (c *faultClient) sendPledge(ctx context.Context, target address.Address, req preq) (preq, error) {
	sc := c.owner.sc
	sc.mu.Lock()
	sc.seq++
	att := &attempt{id: len(sc.attempts), pledger: c.owner, responsible: sc.byAddr[target], startSeq: sc.seq}
	if r := att.responsible; r != nil && r.key != 0 {
		att.viewAtStart = keysOf(r.view)
	}
	sc.attempts = append(sc.attempts, att)
	n := sc.nth[fmt.Sprint("p", c.owner.id, target)]
	sc.nth[fmt.Sprint("p", c.owner.id, target)]++
	fault := sc.pickFault(false, "pledge", c.owner.id, target, n)
	sc.faultCnt["pledge-"+fault]++
	sc.inFlight++
	if sc.inFlight > sc.maxInFl {
		sc.maxInFl = sc.inFlight
	}
	sc.logf("pledge#%d m%d -> %s view%v fault=%s", att.id, c.owner.id, target, att.viewAtStart, fault)
	sc.mu.Unlock()
	defer func() { sc.mu.Lock(); sc.inFlight--; sc.mu.Unlock() }()
	if fault == "fail" {
		return preq{}, errInjected
	}
	res, err := c.inner.Send(context.WithValue(ctx, attKey{}, att), target, req)
	sc.mu.Lock()
	defer sc.mu.Unlock()
	sc.seq++
	att.endSeq = sc.seq
	att.resKey = res.Key
	if err != nil {
		sc.logf("pledge#%d failed: %v", att.id, err)
		return res, err
	}
	if fault == "resp-lost" {
		sc.logf("pledge#%d got key %d from the coordinator but the response is lost", att.id, res.Key)
		return preq{}, errInjected
	}
	sc.admit(att, res)
	c.via = att.responsible
	if c.early {
		sc.bringUp(c.owner, res.Key)
	}
	return res, nil
}

func (c *faultClient) sendProposal(ctx context.Context, target address.Address, req preq) (preq, error) {
	sc := c.owner.sc
	att, _ := ctx.Value(attKey{}).(*attempt)
	sc.mu.Lock()
	sc.seq++
	jr := &jurorReq{sender: c.owner, target: target, key: req.Key, startSeq: sc.seq}
	if att != nil {
		att.jurors = append(att.jurors, jr)
	} else {
		sc.orphan++
	}
	nk := fmt.Sprint("j", c.owner.id, target, req.Key)
	n := sc.nth[nk]
	sc.nth[nk]++
	jr.fault = sc.pickFault(true, "juror", c.owner.id, target, req.Key, n)
	sc.faultCnt["juror-"+jr.fault]++
	if j := sc.byAddr[target]; j != nil {
		_, jr.jurorKnew = j.view[req.Key]
	}
	doExchange := sc.profile > 0 && sc.decide("xchg", c.owner.id, target, req.Key, n)%6 == 0
	if doExchange {
		sc.exchangeStep(sc.decide("xchg2", c.owner.id, target, req.Key, n))
	}
	sc.mu.Unlock()
	finish := func(approved, reported bool, err error) {
		sc.mu.Lock()
		sc.seq++
		jr.endSeq = sc.seq
		jr.approved = jr.approved || approved
		jr.reportedOK = reported
		if err != nil && jr.fault == "ok" {
			sc.rejected++
		}
		aid := -1
		if att != nil {
			aid = att.id
		}
		sc.logf("  proposal pledge#%d m%d -> %s key=%d fault=%s approved=%v told-ok=%v", aid, c.owner.id, target, req.Key, jr.fault, approved, reported)
		sc.mu.Unlock()
	}
	if sc.decide("yield", c.owner.id, target, req.Key, n)%3 == 0 {
		runtime.Gosched()
	}
	switch jr.fault {
	case "fail":
		finish(false, false, errInjected)
		return preq{}, errInjected
	case "timeout":
		select {
		case <-ctx.Done():
		case <-time.After(200 * time.Millisecond):
		}
		err := ctx.Err()
		if err == nil {
			err = context.DeadlineExceeded
		}
		finish(false, false, err)
		return preq{}, err
	case "late":
		sc.lateWG.Add(1)
		d := time.Duration(20+sc.decide("late", c.owner.id, target, req.Key, n)%600) * time.Microsecond
		go func() {
			defer sc.lateWG.Done()
			time.Sleep(d)
			_, err := c.inner.Send(context.Background(), target, req)
			sc.mu.Lock()
			sc.seq++
			jr.approved = jr.approved || err == nil
			sc.logf("  LATE delivery m%d -> %s key=%d approved=%v", c.owner.id, target, req.Key, err == nil)
			sc.mu.Unlock()
		}()
		finish(false, false, errInjected)
		return preq{}, errInjected
	case "resp-lost":
		_, err := c.inner.Send(ctx, target, req)
		finish(err == nil, false, errInjected)
		return preq{}, errInjected
	case "delay":
		time.Sleep(time.Duration(10+sc.decide("delay", c.owner.id, target, req.Key, n)%300) * time.Microsecond)
	}
	res, err := c.inner.Send(ctx, target, req)
	finish(err == nil, err == nil, err)
	return res, err
}

// ---- view model ------------------------------------------------------------------------

// exchangeStep: one pairwise gossip exchange in the model (sc.mu held). One-way exchanges
// model a lost ack2 (the initiator learns, the peer does not).
func (sc *scen) exchangeStep(x uint64) {
	var ms []*member
	for _, m := range sc.members {
		if m.key != 0 {
			ms = append(ms, m)
		}
	}
	if len(ms) < 2 {
		return
	}
	a := ms[int(x%uint64(len(ms)))]
	b := ms[int((x>>16)%uint64(len(ms)))]
	if a == b {
		return
	}
	for k := range b.view {
		a.view[k] = struct{}{}
	}
	both := (x>>40)%2 == 0
	if both {
		for k := range a.view {
			b.view[k] = struct{}{}
		}
	}
	sc.logf("view exchange m%d(k%d) <- m%d(k%d) both=%v: %v / %v", a.id, a.key, b.id, b.key, both, keysOf(a.view), keysOf(b.view))
}

func (sc *scen) syncAllViews() { // sc.mu held
	all := map[verifx.NodeKey]struct{}{}
	for _, m := range sc.members {
		if m.key != 0 {
			all[m.key] = struct{}{}
		}
	}
	for _, m := range sc.members {
		if m.key != 0 {
			for k := range all {
				m.view[k] = struct{}{}
			}
		}
	}
	sc.logf("all views synchronised: %v", keysOf(all))
}

// ---- oracle ----------------------------------------------------------------------------

func (sc *scen) violate(sig, what string) { // sc.mu held
	if sc.failed {
		return
	}
	sc.failed = true
	sc.logf("!! %s: %s", sig, what)
	sc.h.Count(fmt.Sprintf("violating_scenarios_view_profile_%d", sc.profile), 1)
	sc.h.Violation(sc.layer, sc.c, sig, what, map[string]any{
		"profile": sc.profile, "faults": sc.faults, "log": append([]string(nil), sc.log...),
	})
}

func targetsOf(att *attempt, key verifx.NodeKey) (map[address.Address]bool, []*jurorReq) {
	t := map[address.Address]bool{}
	var js []*jurorReq
	for _, j := range att.jurors {
		if j.key == key {
			t[j.target] = true
			js = append(js, j)
		}
	}
	return t, js
}

// admit applies the oracle to a response that reached the pledger (sc.mu held).
func (sc *scen) admit(att *attempt, res preq) {
	att.admitted = true
	K := res.Key
	R := att.responsible
	att.viewAtEnd = keysOf(R.view)
	sc.logf("ADMITTED pledge#%d m%d key=%d by m%d (coordinator view at start %v)", att.id, att.pledger.id, K, R.id, att.viewAtStart)
	if res.ClusterKey != sc.cluster {
		sc.violate("c11:response-carries-wrong-cluster-key",
			fmt.Sprintf("pledge response for key %d carries cluster key %s, the cluster's key is %s", K, res.ClusterKey, sc.cluster))
	}
	targets, js := targetsOf(att, K)
	for _, j := range js {
		if !j.reportedOK || j.endSeq == 0 {
			sc.violate("c11:admitted-although-a-juror-of-the-final-round-did-not-approve",
				fmt.Sprintf("key %d was handed out by m%d although its proposal to juror %s (fault=%s, in flight=%v) did not return approval",
					K, R.id, j.target, j.fault, j.endSeq == 0))
		}
	}
	need := len(att.viewAtStart)/2 + 1
	if len(targets) < need {
		sc.violate("c11:admitted-with-fewer-approvals-than-a-majority-of-the-coordinator-view",
			fmt.Sprintf("key %d was handed out by m%d after %d juror approvals; it knew %d members when the pledge arrived, a majority is %d",
				K, R.id, len(targets), len(att.viewAtStart), need))
	}
	for t := range targets {
		j := sc.byAddr[t]
		known := false
		if j != nil && j.key != 0 {
			_, known = R.view[j.key]
		}
		if !known {
			sc.violate("c11:juror-is-not-a-member-known-to-the-coordinator",
				fmt.Sprintf("key %d: juror %s is not in coordinator m%d's view %v", K, t, R.id, keysOf(R.view)))
		}
	}
	if prev, dup := sc.admitted[K]; dup {
		if prev != nil {
			a, b := len(prev.viewAtStart), len(att.viewAtStart)
			if a > b {
				a, b = b, a
			}
			sc.h.Seen("duplicate_coordinator_view_sizes", fmt.Sprintf("%d/%d", a, b))
			if a >= 2 {
				sc.h.Count("duplicates_with_both_coordinator_views_of_2_or_more", 1)
			}
		}
		sc.violate(sc.classifyDup(K, prev, att), sc.describeDup(K, prev, att))
	} else {
		sc.admitted[K] = att
		sc.addrOf[K] = att.pledger.addr
	}
}

func (sc *scen) classifyDup(K verifx.NodeKey, a, b *attempt) string {
	if a == nil {
		return "c11:duplicate-key:bootstrapper-key-handed-out-again"
	}
	ta, ja := targetsOf(a, K)
	tb, jb := targetsOf(b, K)
	for t := range ta {
		if tb[t] {
			return "c11:duplicate-key:a-juror-approved-the-same-key-for-two-pledges"
		}
	}
	for _, j := range append(ja, jb...) {
		if j.jurorKnew {
			return "c11:duplicate-key:juror-approved-the-key-of-a-member-it-already-knew"
		}
	}
	// the view a coordinator used in its final round lies between its view when the
	// pledge arrived and its view when it answered (views only grow)
	if v := fmt.Sprint(a.viewAtStart); v == fmt.Sprint(b.viewAtStart) && v == fmt.Sprint(a.viewAtEnd) && v == fmt.Sprint(b.viewAtEnd) {
		return "c11:duplicate-key:disjoint-juries-from-the-same-coordinator-view"
	}
	return "c11:duplicate-key:disjoint-juries-from-different-coordinator-views"
}

func (sc *scen) describeDup(K verifx.NodeKey, a, b *attempt) string {
	d := func(x *attempt) string {
		if x == nil {
			return "the bootstrapper"
		}
		t, _ := targetsOf(x, K)
		var js []string
		for ad := range t {
			if m := sc.byAddr[ad]; m != nil {
				js = append(js, fmt.Sprintf("k%d", m.key))
			}
		}
		sort.Strings(js)
		return fmt.Sprintf("pledge#%d via coordinator k%d (view %v..%v, jury %v)", x.id, x.responsible.key, x.viewAtStart, x.viewAtEnd, js)
	}
	return fmt.Sprintf("node key %d was handed to two pledges: %s and %s", K, d(a), d(b))
}

// ---- scenario --------------------------------------------------------------------------

func (sc *scen) pledgeCfg(m *member, r *prng.R) verifx.PledgeConfig {
	return verifx.PledgeConfig{
		TransportClient: m.client,
		TransportServer: m.server,
		Candidates:      m.candidates,
		// per member: the same value bounds this member's wait as a pledger and, once it has
		// joined, each of its jury rounds as a coordinator. Unequal values put a round that
		// timed out inside a pledge request that is still alive (seeded C11-2).
		RequestTimeout: []time.Duration{4, 25, 25, 70}[r.Intn(4)] * time.Millisecond,
		RetryInterval:  2 * time.Microsecond,
		RetryScale:     1.2,
		MaxProposals:   r.Range(2, 10),
	}
}

func runPkg(h *harness.H, layer string, c int) (violated bool) {
	r := h.Rand(layer, c)
	sc := &scen{h: h, layer: layer, c: c, salt: r.U64(), net: fmock.NewNetwork[preq, preq](),
		byAddr: map[address.Address]*member{}, addrOf: map[verifx.NodeKey]address.Address{},
		admitted: map[verifx.NodeKey]*attempt{}, nth: map[string]int{}, unhealthy: map[verifx.NodeKey]bool{},
		faultCnt: map[string]int{}}
	copy(sc.cluster[:], r.Bytes(16))
	sc.profile = []int{0, 0, 0, 1, 1, 1, 1, 2, 2, 2}[r.Intn(10)]
	sc.faults = []int{0, 1, 1, 2, 2}[r.Intn(5)]
	h.Eval()

	boot := sc.newMember()
	boot.key = 1
	boot.view[1] = struct{}{}
	sc.addrOf[1] = boot.addr
	sc.admitted[1] = nil
	cfg := sc.pledgeCfg(boot, r)
	cfg.ClusterKey = sc.cluster
	if err := verifx.Arbitrate(verifx.PledgeBlazingFastConfig, cfg); err != nil {
		panic(err)
	}
	phases := r.Range(2, 4)
	if h.Thorough() && r.Chance(1, 3) {
		phases = r.Range(4, 7) // larger clusters, more juries per key
	}
	var shape strings.Builder
	fmt.Fprintf(&shape, "p%df%d|", sc.profile, sc.faults)
	total, gaveUp := 0, 0
	for ph := 0; ph < phases; ph++ {
		sc.mu.Lock()
		if sc.failed {
			sc.mu.Unlock()
			break
		}
		var peersPool []address.Address
		for _, m := range sc.members {
			if m.key != 0 {
				peersPool = append(peersPool, m.addr)
			}
		}
		// occasionally some member is seen as suspect by everybody else during this phase
		sc.unhealthy = map[verifx.NodeKey]bool{}
		if r.Chance(1, 5) && len(peersPool) >= 3 {
			sc.unhealthy[sc.byAddr[prng.Pick(r, peersPool)].key] = true
		}
		sc.logf("== phase %d unhealthy=%v", ph, sc.unhealthy)
		sc.mu.Unlock()
		k := r.Range(1, 4)
		if ph == 0 {
			k = r.Range(1, 3)
		}
		fmt.Fprintf(&shape, "k%d", k)
		type job struct {
			m            *member
			cfg          verifx.PledgeConfig
			early, inher bool
		}
		var jobs []job
		for i := 0; i < k; i++ {
			m := sc.newMember()
			peers := append([]address.Address(nil), peersPool...)
			prng.Shuffle(r, peers)
			if len(peers) > 1 {
				peers = peers[:r.Range(1, min(3, len(peers)))]
			}
			cfg := sc.pledgeCfg(m, r)
			cfg.Peers = peers
			inher := true
			switch sc.profile {
			case 1:
				inher = !r.Chance(1, 4)
			case 2:
				inher = r.Chance(1, 3)
			}
			jobs = append(jobs, job{m, cfg, r.Bool(), inher})
		}
		var wg sync.WaitGroup
		for _, j := range jobs {
			wg.Add(1)
			total++
			go func(j job) {
				defer wg.Done()
				ctx, cancel := context.WithTimeout(context.Background(), 400*time.Millisecond)
				defer cancel()
				// the client decorator runs the oracle when the response arrives;
				// here only the member's own state is brought up, as cluster.Open does
				// after Pledge returns (SetHost, then the initial gossip with a peer).
				j.m.client.early, j.m.client.inherit = j.early, j.inher
				res, err := verifx.Pledge(ctx, verifx.PledgeBlazingFastConfig, j.cfg)
				sc.mu.Lock()
				defer sc.mu.Unlock()
				if err != nil {
					gaveUp++
					sc.logf("m%d gave up: %v", j.m.id, err)
					return
				}
				sc.bringUp(j.m, res.Key)
			}(j)
		}
		wg.Wait()
		sc.lateWG.Wait()
		sc.mu.Lock()
		switch sc.profile {
		case 0:
			sc.syncAllViews()
		case 1:
			for i, n := 0, r.Range(1, 6); i < n; i++ {
				sc.exchangeStep(r.U64())
			}
		case 2:
			for i, n := 0, r.Range(0, 2); i < n; i++ {
				sc.exchangeStep(r.U64())
			}
		}
		sc.mu.Unlock()
	}
	sc.mu.Lock()
	defer sc.mu.Unlock()
	admittedN := 0
	rounds := 0
	for _, a := range sc.attempts {
		if a.admitted {
			admittedN++
		}
		rounds += len(a.jurors)
	}
	h.Count("pledges", total)
	h.Count("pledges_admitted", admittedN)
	h.Count("pledges_gave_up", gaveUp)
	h.Count("pledge_attempts", len(sc.attempts))
	h.Count("juror_requests", rounds)
	h.Count("juror_rejections_or_ctx_errors", sc.rejected)
	h.Count("transport_events", sc.seq)
	for k, v := range sc.faultCnt {
		if !strings.HasSuffix(k, "-ok") {
			h.Count("fault_"+k, v)
		}
	}
	if sc.orphan > 0 {
		h.Inconclusive("juror-request-without-pledge-context")
	}
	h.Seen("view_profile_x_fault_level", fmt.Sprintf("%d/%d", sc.profile, sc.faults))
	// distinct + non-trivial: at least two pledges admitted, at least two requests of
	// different pledges overlapped in time or one proposal was refused/faulted.
	if admittedN >= 2 && (sc.maxInFl >= 2 || sc.rejected > 0) {
		var ks []int
		for k := range sc.admitted {
			ks = append(ks, int(k))
		}
		sort.Ints(ks)
		fmt.Fprintf(&shape, "|%v|a%d|r%d", ks, len(sc.attempts), rounds)
		h.Distinct(shape.String())
	}
	if sc.maxInFl >= 2 {
		h.Count("scenarios_with_overlapping_pledges", 1)
	}
	h.Sample(map[string]any{"case": c, "profile": sc.profile, "faults": sc.faults, "log": sc.log})
	return sc.failed
}

// bringUp: the pledger learns its key (sc.mu held); idempotent.
func (sc *scen) bringUp(m *member, key verifx.NodeKey) {
	if m.key != 0 {
		return
	}
	m.key = key
	m.view[key] = struct{}{}
	if m.client.inherit && m.client.via != nil {
		// initial gossip with the peer succeeded: the joiner learns the peer's view (the
		// peer does NOT learn the joiner from this exchange: its heartbeat is (0,0)).
		for k := range m.client.via.view {
			m.view[k] = struct{}{}
		}
	}
	sc.logf("m%d is up as k%d with view %v", m.id, key, keysOf(m.view))
}

func layerPkg(h *harness.H) {
	h.AddRule("pkg: one scenario = a cluster grown from a bootstrapper by 2-4 phases of 1-4 concurrent real Pledge calls through PRNG-chosen members; view profile {fresh, mildly stale, hostile stale} x fault level {none, light, heavy} on pledge and proposal requests (fail, response lost, late delivery, timeout, delay); distinct key = profile/fault/phase sizes/admitted keys/#attempts/#proposals; non-trivial = >=2 admissions and (overlapping pledges or a refused/faulted proposal)")
	h.Assume("views handed to Candidates are a sound abstraction of SI gossip under message loss: contain self, only grow, grow by pairwise exchange steps")
	h.Assume("juror restarts (loss of in-memory approvals) are outside the stated quantifier and are not injected")
	n := h.N(2000, 60000)
	if _, rep := h.Replaying(); rep {
		for c := 0; c < n; c++ {
			if h.Skip("pkg", c) {
				continue
			}
			for i := 0; i < 20; i++ { // concurrent layer: replay = re-run the same case
				if runPkg(h, "pkg", c) {
					break
				}
			}
		}
		return
	}
	workers := 16
	var wg sync.WaitGroup
	ch := make(chan int, 64)
	for w := 0; w < workers; w++ {
		wg.Add(1)
		go func() {
			defer wg.Done()
			for c := range ch {
				runPkg(h, "pkg", c)
			}
		}()
	}
	for c := 0; c < n; c++ {
		ch <- c
	}
	close(ch)
	wg.Wait()
}
