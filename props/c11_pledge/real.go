package main

import (
	"context"
	"fmt"
	"sort"
	"sync"
	"sync/atomic"
	"time"

	"github.com/google/uuid"
	"github.com/synnaxlabs/alamos"
	"github.com/synnaxlabs/aspen/verifx"
	"github.com/synnaxlabs/freighter"
	fmock "github.com/synnaxlabs/freighter/mock"
	"github.com/synnaxlabs/x/address"

	"verif/lib/harness"
	"verif/lib/prng"
)

type gmsg = verifx.GossipMessage

// gossipGate drops every outgoing gossip message of one node while closed (a node whose
// gossip cannot reach its peers: exactly what message loss does to a fresh joiner).
type gossipGate struct {
	inner  *fmock.UnaryClient[gmsg, gmsg]
	closed atomic.Bool
	drops  atomic.Int64
}

func (g *gossipGate) Report() alamos.Report         { return g.inner.Report() }
func (g *gossipGate) Use(m ...freighter.Middleware) { g.inner.Use(m...) }
func (g *gossipGate) Send(ctx context.Context, t address.Address, m gmsg) (gmsg, error) {
	if g.closed.Load() {
		g.drops.Add(1)
		time.Sleep(200 * time.Microsecond) // gossipInitialState retries without a pause
		return gmsg{}, errInjected
	}
	return g.inner.Send(ctx, t, m)
}

type rnode struct {
	idx   int
	addr  address.Address
	gate  *gossipGate
	pcli  *pledgeTap
	cfg   verifx.ClusterConfig
	cl    *verifx.Cluster
	err   error
	done  chan struct{}
	wave  int
	peers []address.Address
}

type radmission struct {
	node        int
	key         verifx.NodeKey
	clusterKey  uuid.UUID
	coordinator address.Address
	coordGated  bool
	jury        []string
}

type rscen struct {
	mu         sync.Mutex
	nodes      []*rnode
	byAddr     map[address.Address]*rnode
	admissions []radmission
	log        []string
	noQuorum   []string
}

// pledgeTap records the response every pledger receives (observe_at: Response.Key /
// ClusterKey crossing the pledge transport).
type pledgeTap struct {
	inner *fmock.UnaryClient[preq, preq]
	sc    *rscen
	owner *rnode
}

func (p *pledgeTap) Report() alamos.Report         { return p.inner.Report() }
func (p *pledgeTap) Use(m ...freighter.Middleware) { p.inner.Use(m...) }

type rattempt struct {
	mu     sync.Mutex
	jurors []string // "addr:key:ok"
	final  map[verifx.NodeKey][]string
	bad    map[verifx.NodeKey]bool
}

func (p *pledgeTap) Send(ctx context.Context, t address.Address, r preq) (preq, error) {
	if r.Key != 0 {
		res, err := p.inner.Send(ctx, t, r)
		if att, _ := ctx.Value(attKey{}).(*rattempt); att != nil {
			att.mu.Lock()
			att.final[r.Key] = append(att.final[r.Key], string(t))
			if err != nil {
				att.bad[r.Key] = true
			}
			att.mu.Unlock()
		}
		return res, err
	}
	att := &rattempt{final: map[verifx.NodeKey][]string{}, bad: map[verifx.NodeKey]bool{}}
	res, err := p.inner.Send(context.WithValue(ctx, attKey{}, att), t, r)
	if err == nil {
		sc := p.sc
		att.mu.Lock()
		jury := append([]string(nil), att.final[res.Key]...)
		bad := att.bad[res.Key]
		att.mu.Unlock()
		sort.Strings(jury)
		sc.mu.Lock()
		if bad || len(jury) == 0 {
			sc.noQuorum = append(sc.noQuorum, fmt.Sprintf("node#%d key %d by %s: jury %v, a juror refused or failed: %v", p.owner.idx, res.Key, t, jury, bad))
		}
		sc.log = append(sc.log, fmt.Sprintf("  jury for key %d: %v", res.Key, jury))
		co := sc.byAddr[t]
		a := radmission{node: p.owner.idx, key: res.Key, clusterKey: res.ClusterKey, coordinator: t, jury: jury}
		if co != nil {
			a.coordGated = co.gate.closed.Load()
		}
		sc.admissions = append(sc.admissions, a)
		sc.log = append(sc.log, fmt.Sprintf("node#%d admitted with key %d by coordinator %s (coordinator's gossip blacked out: %v)", p.owner.idx, res.Key, t, a.coordGated))
		sc.mu.Unlock()
	}
	return res, err
}

func layerReal(h *harness.H) {
	h.AddRule("real: one scenario = a bootstrapper plus 2-3 waves of 2-3 concurrent cluster.Open joins through PRNG-chosen peers (possibly peers that are themselves still joining), half of the joiners with their outgoing gossip blacked out until all pledges of the scenario are answered; distinct key = wave sizes/blackout pattern/peer choice; non-trivial = >=3 nodes admitted")
	n := h.N(300, 6000)
	_, replaying := h.Replaying()
	workers := 4
	var wg sync.WaitGroup
	ch := make(chan int)
	for w := 0; w < workers; w++ {
		wg.Add(1)
		go func() {
			defer wg.Done()
			for c := range ch {
				reps := 1
				if replaying {
					reps = 20
				}
				for i := 0; i < reps; i++ {
					if runReal(h, c) {
						break
					}
				}
			}
		}()
	}
	for c := 0; c < n; c++ {
		if h.Skip("real", c) {
			continue
		}
		ch <- c
	}
	close(ch)
	wg.Wait()
}

func runReal(h *harness.H, c int) (violated bool) {
	r := h.Rand("real", c)
	h.Eval()
	gnet := fmock.NewNetwork[gmsg, gmsg]()
	pnet := fmock.NewNetwork[preq, preq]()
	sc := &rscen{byAddr: map[address.Address]*rnode{}}
	interval := time.Duration(r.Range(5, 40)) * time.Millisecond
	newNode := func(wave int) *rnode {
		gs := gnet.UnaryServer("")
		ps := pnet.UnaryServer(gs.Address)
		n := &rnode{idx: len(sc.nodes), addr: gs.Address, done: make(chan struct{}), wave: wave}
		n.gate = &gossipGate{inner: gnet.UnaryClient()}
		n.pcli = &pledgeTap{inner: pnet.UnaryClient(), sc: sc, owner: n}
		n.cfg = verifx.ClusterConfig{
			HostAddress: gs.Address,
			Gossip:      verifx.GossipConfig{TransportClient: n.gate, TransportServer: gs, Interval: interval},
			Pledge: verifx.PledgeConfig{
				TransportClient: n.pcli, TransportServer: ps,
				RequestTimeout: 25 * time.Millisecond, RetryInterval: 2 * time.Microsecond, RetryScale: 1.2,
			},
		}
		sc.mu.Lock()
		sc.nodes = append(sc.nodes, n)
		sc.byAddr[n.addr] = n
		sc.mu.Unlock()
		return n
	}
	ctx, cancel := context.WithTimeout(context.Background(), 4*time.Second)
	defer cancel()
	open := func(n *rnode) {
		defer close(n.done)
		cfg := n.cfg
		cfg.Pledge.Peers = n.peers
		n.cl, n.err = verifx.OpenCluster(ctx, cfg)
	}
	boot := newNode(0)
	open(boot)
	if boot.err != nil {
		h.Inconclusive("real-bootstrap-failed")
		return false
	}
	shape := fmt.Sprintf("i%d", interval/time.Millisecond)
	waves := r.Range(2, 3)
	blackouts := !r.Chance(1, 3) // a third of the scenarios inject nothing at all
	shape += fmt.Sprintf("|blackouts=%v", blackouts)
	started := []*rnode{boot}
	expected := 0
	for w := 1; w <= waves; w++ {
		k := r.Range(2, 3)
		var wave []*rnode
		for i := 0; i < k; i++ {
			n := newNode(w)
			pool := append([]*rnode(nil), started...)
			prng.Shuffle(r, pool)
			// prefer the most recent joiners as peers half of the time
			if r.Bool() {
				sort.SliceStable(pool, func(a, b int) bool { return pool[a].wave > pool[b].wave })
			}
			np := r.Range(1, min(2, len(pool)))
			for _, p := range pool[:np] {
				n.peers = append(n.peers, p.addr)
			}
			black := blackouts && r.Bool()
			n.gate.closed.Store(black)
			shape += fmt.Sprintf("|w%d:b%v:p%v", w, black, n.peers)
			wave = append(wave, n)
		}
		for _, n := range wave {
			expected++
			go open(n)
		}
		started = append(started, wave...)
		// next wave starts once this wave's pledges are answered (or a little later)
		deadline := time.Now().Add(300 * time.Millisecond)
		for time.Now().Before(deadline) {
			sc.mu.Lock()
			got := len(sc.admissions)
			sc.mu.Unlock()
			if got >= expected {
				break
			}
			time.Sleep(500 * time.Microsecond)
		}
	}
	for _, n := range sc.nodes {
		n.gate.closed.Store(false)
	}
	for _, n := range sc.nodes {
		<-n.done
	}
	// oracle
	sc.mu.Lock()
	defer sc.mu.Unlock()
	ck := boot.cl.Key()
	seen := map[verifx.NodeKey]radmission{1: {node: 0, key: 1, clusterKey: ck}}
	for _, a := range sc.admissions {
		if a.clusterKey != ck {
			violated = true
			h.Violation("real", c, "c11:real-cluster:response-carries-wrong-cluster-key",
				fmt.Sprintf("node#%d was answered with cluster key %s, the cluster's key is %s", a.node, a.clusterKey, ck), sc.log)
		}
		if p, dup := seen[a.key]; dup {
			violated = true
			sig := "c11:real-cluster:duplicate-host-key:disjoint-juries:no-fault-injected"
			if a.coordGated || p.coordGated {
				sig = "c11:real-cluster:duplicate-host-key:disjoint-juries:a-coordinator-had-not-gossiped-yet"
			} else if blackouts {
				sig = "c11:real-cluster:duplicate-host-key:disjoint-juries:gossip-of-other-joiners-blacked-out"
			}
			if p.node == 0 {
				sig = "c11:real-cluster:duplicate-host-key:bootstrapper-key-handed-out-again"
			}
			for _, x := range a.jury {
				for _, y := range p.jury {
					if x == y {
						sig = "c11:real-cluster:duplicate-host-key:a-juror-approved-the-same-key-for-two-pledges"
					}
				}
			}
			h.Violation("real", c, sig,
				fmt.Sprintf("two cluster.Open nodes (#%d via %s, #%d via %s) were both given host key %d; juries %v and %v", p.node, p.coordinator, a.node, a.coordinator, a.key, p.jury, a.jury),
				map[string]any{"log": sc.log, "shape": shape})
		} else {
			seen[a.key] = a
		}
	}
	for _, nq := range sc.noQuorum {
		violated = true
		h.Violation("real", c, "c11:real-cluster:admitted-although-a-juror-of-the-final-round-did-not-approve", nq, sc.log)
	}
	opened := 0
	hostKeys := map[verifx.NodeKey]int{}
	for _, n := range sc.nodes {
		if n.err != nil || n.cl == nil {
			h.Count("real_open_failed", 1)
			continue
		}
		opened++
		hostKeys[n.cl.HostKey()]++
	}
	for k, cnt := range hostKeys {
		if cnt > 1 && !violated {
			violated = true
			h.Violation("real", c, "c11:real-cluster:duplicate-host-key:reported-by-opened-clusters", fmt.Sprintf("%d opened clusters report host key %d", cnt, k), sc.log)
		}
	}
	drops := int64(0)
	for _, n := range sc.nodes {
		drops += n.gate.drops.Load()
		if n.cl != nil {
			_ = n.cl.Close()
		}
	}
	h.Count(fmt.Sprintf("real_scenarios_blackouts_%v", blackouts), 1)
	h.Count("real_nodes_opened", opened)
	h.Count("real_admissions", len(sc.admissions))
	h.Count("real_gossip_messages_dropped", int(drops))
	if len(sc.admissions) >= 2 {
		h.Distinct("real|" + shape)
	}
	h.Sample(map[string]any{"layer": "real", "case": c, "shape": shape, "log": sc.log})
	return violated
}
