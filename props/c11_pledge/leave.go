package main

import (
	"context"
	"fmt"
	xkv "github.com/synnaxlabs/x/kv"
	"sync"
	"time"

	"github.com/synnaxlabs/aspen/verifx"
	fmock "github.com/synnaxlabs/freighter/mock"
	"github.com/synnaxlabs/x/address"
	"github.com/synnaxlabs/x/kv/memkv"
	"verif/lib/harness"
)

// Layer `leave`: "no two nodes are EVER admitted with the same key" across members that
// left and members that restarted. Real cluster.Open on every node (so the wiring between
// the membership store and the pledge's candidate set is the code under test): a
// bootstrapper with persistent state, 1-3 joiners, some of which mark themselves
// StateLeft and stop once the others have seen it; then 0-2 of the remaining members
// restart from their persisted state (losing the approvals jurors only hold in memory);
// then 1-2 new nodes join. Every key ever handed out must be distinct and every join
// must carry the cluster's key.
func layerLeave(h *harness.H) {
	h.AddRule("leave: per scenario a bootstrapper (persistent state), 1-3 joiners of which 1-2 leave (StateLeft, seen by the others, then closed), 0-1 restarts of the bootstrapper from its persisted state, 1-2 further joins; all through cluster.Open over mock transports; oracle: keys handed out over the whole scenario pairwise distinct, cluster key constant; non-trivial = a member left and a later join was admitted")
	n := h.N(24, 600)
	for c := 0; c < n; c++ {
		if h.Skip("leave", c) {
			continue
		}
		h.Eval()
		if msg := leaveCase(h, c); msg != "" {
			h.Inconclusive("leave:" + msg)
		}
	}
}

func leaveCase(h *harness.H, c int) string {
	r := h.Rand("leave", c)
	ctx, cancel := context.WithTimeout(context.Background(), 40*time.Second)
	defer cancel()
	gnet := fmock.NewNetwork[gmsg, gmsg]()
	pnet := fmock.NewNetwork[preq, preq]()
	newCfg := func(peers ...address.Address) verifx.ClusterConfig {
		gs := gnet.UnaryServer("")
		ps := pnet.UnaryServer(gs.Address)
		return verifx.ClusterConfig{
			HostAddress: gs.Address,
			Gossip:      verifx.GossipConfig{TransportClient: gnet.UnaryClient(), TransportServer: gs, Interval: 5 * time.Millisecond},
			Pledge: verifx.PledgeConfig{
				Peers: peers, TransportClient: pnet.UnaryClient(), TransportServer: ps,
				RequestTimeout: 300 * time.Millisecond, RetryInterval: 2 * time.Millisecond, RetryScale: 1.2,
			},
		}
	}
	wait := func(cond func() bool) bool {
		deadline := time.Now().Add(10 * time.Second) // watchdog: inconclusive
		for !cond() {
			if time.Now().After(deadline) {
				return false
			}
			time.Sleep(time.Millisecond)
		}
		return true
	}
	type handed struct {
		step string
		addr address.Address
	}
	keys := map[verifx.NodeKey]handed{}
	var log []string
	violated := false
	admit := func(step string, cl *verifx.Cluster, ck any) {
		k := cl.HostKey()
		log = append(log, fmt.Sprintf("%s: %s admitted with key %d", step, cl.HostAddress, k))
		if p, dup := keys[k]; dup {
			violated = true
			h.Violation("leave", c, "c11:leave:key-of-a-former-member-handed-out-again",
				fmt.Sprintf("node key %d was handed out twice over the life of the cluster: to %s (%s) and to %s (%s)", k, p.addr, p.step, cl.HostAddress, step),
				map[string]any{"log": log})
		}
		keys[k] = handed{step, cl.HostAddress}
		if fmt.Sprint(cl.Key()) != fmt.Sprint(ck) {
			violated = true
			h.Violation("leave", c, "c11:leave:response-carries-wrong-cluster-key",
				fmt.Sprintf("%s joined with cluster key %v, the cluster's key is %v", cl.HostAddress, cl.Key(), ck), map[string]any{"log": log})
		}
	}
	// cluster.Close does not wait for the state flushes it started (kv.Subscriber.Flush
	// spawns untracked goroutines); a flush that lands after the store was closed would
	// panic inside pebble. The guard turns writes after the end of the case into no-ops.
	kv1 := &guardKV{DB: memkv.New()}
	defer kv1.end()
	cfg1 := newCfg()
	cfg1.Storage, cfg1.StorageKey, cfg1.StorageFlushInterval = kv1, []byte("c11-leave-node-1"), -1*time.Second // flush on every change
	c1, err := verifx.OpenCluster(ctx, cfg1)
	if err != nil {
		return "bootstrap"
	}
	defer func() { _ = c1.Close() }()
	ck := c1.Key()
	keys[c1.HostKey()] = handed{"bootstrap", c1.HostAddress}
	addr1 := c1.Host().Address
	// joiners
	var members []*verifx.Cluster
	for i, k := 0, r.Range(1, 3); i < k; i++ {
		cl, err := verifx.OpenCluster(ctx, newCfg(addr1))
		if err != nil {
			return "join"
		}
		admit(fmt.Sprintf("join %d", i+1), cl, ck)
		members = append(members, cl)
		key := cl.HostKey()
		if !wait(func() bool { _, ok := c1.Nodes()[key]; return ok }) {
			return "membership"
		}
	}
	// leavers: the highest-keyed member always (its key is max+0: the next proposal), maybe one more
	nLeave := r.Range(1, min(2, len(members)))
	left := 0
	for i := len(members) - 1; i >= 0 && left < nLeave; i-- {
		cl := members[i]
		hn := cl.Host()
		hn.State = verifx.NodeStateLeft
		cl.SetNode(ctx, hn)
		key := cl.HostKey()
		if !wait(func() bool { return c1.Nodes()[key].State == verifx.NodeStateLeft }) {
			return "leave-not-seen"
		}
		_ = cl.Close()
		log = append(log, fmt.Sprintf("member %d left and stopped", key))
		members = append(members[:i], members[i+1:]...)
		left++
	}
	for _, m := range members {
		defer func(m *verifx.Cluster) { _ = m.Close() }(m)
	}
	// the bootstrapper restarts from its persisted state (its in-memory approvals are gone)
	if r.Chance(3, 4) {
		if err := c1.Close(); err != nil {
			return "close-bootstrapper"
		}
		c1, err = verifx.OpenCluster(ctx, cfg1)
		if err != nil {
			return "restart-bootstrapper"
		}
		log = append(log, "bootstrapper restarted from persisted state")
	}
	// new joins through the bootstrapper
	for i, k := 0, r.Range(1, 2); i < k; i++ {
		cl, err := verifx.OpenCluster(ctx, newCfg(addr1))
		if err != nil {
			return "late-join"
		}
		defer func() { _ = cl.Close() }()
		admit(fmt.Sprintf("late join %d", i+1), cl, ck)
		key := cl.HostKey()
		if !wait(func() bool { _, ok := c1.Nodes()[key]; return ok }) {
			return "membership"
		}
	}
	h.Count("leave_members_left", left)
	h.Count("leave_keys_handed_out", len(keys))
	if !violated {
		h.Distinct(fmt.Sprintf("leave|%d|%d|%d", len(keys), left, len(log)))
	}
	return ""
}

type guardKV struct {
	xkv.DB
	mu   sync.Mutex
	dead bool
}

func (g *guardKV) Set(ctx context.Context, key, value []byte, opts ...any) error {
	g.mu.Lock()
	defer g.mu.Unlock()
	if g.dead {
		return nil
	}
	return g.DB.Set(ctx, key, value, opts...)
}

// end closes the store; later writes of the (closed) cluster are dropped.
func (g *guardKV) end() {
	g.mu.Lock()
	defer g.mu.Unlock()
	if !g.dead {
		g.dead = true
		_ = g.DB.Close()
	}
}
