package main

import (
	"context"
	"fmt"
	"github.com/synnaxlabs/alamos"
	"github.com/synnaxlabs/freighter"
	xkv "github.com/synnaxlabs/x/kv"
	"sync"
	"time"

	"github.com/synnaxlabs/aspen/verifx"
	fmock "github.com/synnaxlabs/freighter/mock"
	"github.com/synnaxlabs/x/address"
	"github.com/synnaxlabs/x/kv/memkv"
	"verif/lib/harness"
)

// Layer `leave`: "no two nodes are EVER admitted with the same key" across members that
// left and members that restarted. Real cluster.Open on every node (so the wiring between
// the membership store and the pledge's candidate set is the code under test): a
// bootstrapper with persistent state, 1-3 joiners, some of which mark themselves
// StateLeft and stop once the others have seen it; then 0-2 of the remaining members
// restart from their persisted state (losing the approvals jurors only hold in memory);
// then 1-2 new nodes join. Every key ever handed out must be distinct and every join
// must carry the cluster's key.
func layerLeave(h *harness.H) {
	h.AddRule("leave: per scenario a bootstrapper (persistent state), 1-3 joiners of which 1-2 leave (StateLeft, seen by the others, then closed), 0-1 restarts of the bootstrapper from its persisted state, 1-2 further joins; all through cluster.Open over mock transports; oracle: keys handed out over the whole scenario pairwise distinct, cluster key constant; non-trivial = a member left and a later join was admitted")
	n := h.N(24, 600)
	for c := 0; c < n; c++ {
		if h.Skip("leave", c) {
			continue
		}
		h.Eval()
		if msg := leaveCase(h, c); msg != "" {
			h.Inconclusive("leave:" + msg)
		}
		h.Eval()
		if msg := gracefulCase(h, c); msg != "" {
			h.Inconclusive("graceful:" + msg)
		}
	}
}

func leaveCase(h *harness.H, c int) string {
	r := h.Rand("leave", c)
	ctx, cancel := context.WithTimeout(context.Background(), 40*time.Second)
	defer cancel()
	gnet := fmock.NewNetwork[gmsg, gmsg]()
	pnet := fmock.NewNetwork[preq, preq]()
	newCfg := func(peers ...address.Address) verifx.ClusterConfig {
		gs := gnet.UnaryServer("")
		ps := pnet.UnaryServer(gs.Address)
		return verifx.ClusterConfig{
			HostAddress: gs.Address,
			Gossip:      verifx.GossipConfig{TransportClient: gnet.UnaryClient(), TransportServer: gs, Interval: 5 * time.Millisecond},
			Pledge: verifx.PledgeConfig{
				Peers: peers, TransportClient: pnet.UnaryClient(), TransportServer: ps,
				RequestTimeout: 300 * time.Millisecond, RetryInterval: 2 * time.Millisecond, RetryScale: 1.2,
			},
		}
	}
	wait := func(cond func() bool) bool {
		deadline := time.Now().Add(10 * time.Second) // watchdog: inconclusive
		for !cond() {
			if time.Now().After(deadline) {
				return false
			}
			time.Sleep(time.Millisecond)
		}
		return true
	}
	type handed struct {
		step string
		addr address.Address
	}
	keys := map[verifx.NodeKey]handed{}
	var log []string
	violated := false
	admit := func(step string, cl *verifx.Cluster, ck any) {
		k := cl.HostKey()
		log = append(log, fmt.Sprintf("%s: %s admitted with key %d", step, cl.HostAddress, k))
		if p, dup := keys[k]; dup {
			violated = true
			h.Violation("leave", c, "c11:leave:key-of-a-former-member-handed-out-again",
				fmt.Sprintf("node key %d was handed out twice over the life of the cluster: to %s (%s) and to %s (%s)", k, p.addr, p.step, cl.HostAddress, step),
				map[string]any{"log": log})
		}
		keys[k] = handed{step, cl.HostAddress}
		if fmt.Sprint(cl.Key()) != fmt.Sprint(ck) {
			violated = true
			h.Violation("leave", c, "c11:leave:response-carries-wrong-cluster-key",
				fmt.Sprintf("%s joined with cluster key %v, the cluster's key is %v", cl.HostAddress, cl.Key(), ck), map[string]any{"log": log})
		}
	}
	// cluster.Close does not wait for the state flushes it started (kv.Subscriber.Flush
	// spawns untracked goroutines); a flush that lands after the store was closed would
	// panic inside pebble. The guard turns writes after the end of the case into no-ops.
	kv1 := &guardKV{DB: memkv.New()}
	defer kv1.end()
	cfg1 := newCfg()
	cfg1.Storage, cfg1.StorageKey, cfg1.StorageFlushInterval = kv1, []byte("c11-leave-node-1"), -1*time.Second // flush on every change
	c1, err := verifx.OpenCluster(ctx, cfg1)
	if err != nil {
		return "bootstrap"
	}
	defer func() { _ = c1.Close() }()
	ck := c1.Key()
	keys[c1.HostKey()] = handed{"bootstrap", c1.HostAddress}
	addr1 := c1.Host().Address
	// joiners
	var members []*verifx.Cluster
	for i, k := 0, r.Range(1, 3); i < k; i++ {
		cl, err := verifx.OpenCluster(ctx, newCfg(addr1))
		if err != nil {
			return "join"
		}
		admit(fmt.Sprintf("join %d", i+1), cl, ck)
		members = append(members, cl)
		key := cl.HostKey()
		if !wait(func() bool { _, ok := c1.Nodes()[key]; return ok }) {
			return "membership"
		}
	}
	// leavers: the highest-keyed member always (its key is max+0: the next proposal), maybe one more
	nLeave := r.Range(1, min(2, len(members)))
	left := 0
	for i := len(members) - 1; i >= 0 && left < nLeave; i-- {
		cl := members[i]
		hn := cl.Host()
		hn.State = verifx.NodeStateLeft
		cl.SetNode(ctx, hn)
		key := cl.HostKey()
		if !wait(func() bool { return c1.Nodes()[key].State == verifx.NodeStateLeft }) {
			return "leave-not-seen"
		}
		_ = cl.Close()
		log = append(log, fmt.Sprintf("member %d left and stopped", key))
		members = append(members[:i], members[i+1:]...)
		left++
	}
	for _, m := range members {
		defer func(m *verifx.Cluster) { _ = m.Close() }(m)
	}
	// the bootstrapper restarts from its persisted state (its in-memory approvals are gone)
	if r.Chance(3, 4) {
		if err := c1.Close(); err != nil {
			return "close-bootstrapper"
		}
		c1, err = verifx.OpenCluster(ctx, cfg1)
		if err != nil {
			return "restart-bootstrapper"
		}
		log = append(log, "bootstrapper restarted from persisted state")
	}
	// new joins through the bootstrapper
	for i, k := 0, r.Range(1, 2); i < k; i++ {
		cl, err := verifx.OpenCluster(ctx, newCfg(addr1))
		if err != nil {
			return "late-join"
		}
		defer func() { _ = cl.Close() }()
		admit(fmt.Sprintf("late join %d", i+1), cl, ck)
		key := cl.HostKey()
		if !wait(func() bool { _, ok := c1.Nodes()[key]; return ok }) {
			return "membership"
		}
	}
	h.Count("leave_members_left", left)
	h.Count("leave_keys_handed_out", len(keys))
	if !violated {
		h.Distinct(fmt.Sprintf("leave|%d|%d|%d", len(keys), left, len(log)))
	}
	return ""
}

type guardKV struct {
	xkv.DB
	mu   sync.Mutex
	dead bool
}

func (g *guardKV) Set(ctx context.Context, key, value []byte, opts ...any) error {
	g.mu.Lock()
	defer g.mu.Unlock()
	if g.dead {
		return nil
	}
	return g.DB.Set(ctx, key, value, opts...)
}

// end closes the store; later writes of the (closed) cluster are dropped.
func (g *guardKV) end() {
	g.mu.Lock()
	defer g.mu.Unlock()
	if !g.dead {
		g.dead = true
		_ = g.DB.Close()
	}
}

// gracefulCase: members with THROTTLED persistence (the default: membership changes that
// arrive within one flush interval of the previous flush are written by the next flush, at
// the latest by the final flush of cluster.Close) are closed gracefully and reopened; a
// later pledge must not be given the key of a member they had admitted. A bootstraps, B
// joins, B is then cut off from gossip (it keeps the view {A,B}), C joins through A, and
// as soon as A has C in its view A and B are closed and reopened from their stores; D
// pledges through A. A correct A comes back knowing C and proposes a fresh key.
func gracefulCase(h *harness.H, c int) string {
	ctx, cancel := context.WithTimeout(context.Background(), 40*time.Second)
	defer cancel()
	gnet := fmock.NewNetwork[gmsg, gmsg]()
	pnet := fmock.NewNetwork[preq, preq]()
	var blockMu sync.Mutex
	blocked := map[address.Address]bool{}
	type member struct {
		cfg verifx.ClusterConfig
		kv  *guardKV
		cl  *verifx.Cluster
	}
	newMember := func(persist bool, peers ...address.Address) *member {
		gs := gnet.UnaryServer("")
		ps := pnet.UnaryServer(gs.Address)
		gate := &cutClient{inner: gnet.UnaryClient(), self: gs.Address, mu: &blockMu, blocked: blocked}
		m := &member{cfg: verifx.ClusterConfig{
			HostAddress: gs.Address,
			Gossip:      verifx.GossipConfig{TransportClient: gate, TransportServer: gs, Interval: 5 * time.Millisecond},
			Pledge: verifx.PledgeConfig{
				Peers: peers, TransportClient: pnet.UnaryClient(), TransportServer: ps,
				RequestTimeout: 300 * time.Millisecond, RetryInterval: 2 * time.Millisecond, RetryScale: 1.2,
			},
		}}
		if persist {
			m.kv = &guardKV{DB: memkv.New()}
			m.cfg.Storage, m.cfg.StorageKey = m.kv, []byte(fmt.Sprintf("c11-graceful-%s", gs.Address))
			// StorageFlushInterval left at its default: throttled (1 s)
		}
		return m
	}
	var all []*member
	defer func() {
		for _, m := range all {
			if m.cl != nil {
				_ = m.cl.Close()
			}
			if m.kv != nil {
				m.kv.end()
			}
		}
	}()
	wait := func(cond func() bool) bool {
		deadline := time.Now().Add(10 * time.Second) // watchdog: inconclusive
		for !cond() {
			if time.Now().After(deadline) {
				return false
			}
			time.Sleep(200 * time.Microsecond)
		}
		return true
	}
	keys := map[verifx.NodeKey]string{}
	var log []string
	admit := func(step string, m *member) bool {
		k := m.cl.HostKey()
		log = append(log, fmt.Sprintf("%s: %s has key %d", step, m.cfg.HostAddress, k))
		if p, dup := keys[k]; dup {
			h.Violation("leave", c, "c11:graceful-restart:key-of-a-live-member-handed-out-again",
				fmt.Sprintf("node key %d was handed out twice: %s and %s; in between, the members that had admitted the first holder were closed gracefully and reopened from their stores", k, p, step),
				map[string]any{"log": log})
			return false
		}
		keys[k] = step
		return true
	}
	var err error
	a := newMember(true)
	all = append(all, a)
	if a.cl, err = verifx.OpenCluster(ctx, a.cfg); err != nil {
		return "bootstrap"
	}
	keys[a.cl.HostKey()] = "bootstrap"
	addrA := a.cl.Host().Address
	b := newMember(true, addrA)
	all = append(all, b)
	if b.cl, err = verifx.OpenCluster(ctx, b.cfg); err != nil {
		return "join"
	}
	if !admit("join of B through A", b) {
		return ""
	}
	kb := b.cl.HostKey()
	if !wait(func() bool { _, ok := a.cl.Nodes()[kb]; return ok }) {
		return "a-never-learned-b"
	}
	// B hears and says nothing from now on
	blockMu.Lock()
	blocked[b.cfg.HostAddress] = true
	blockMu.Unlock()
	cm := newMember(false, addrA)
	all = append(all, cm)
	if cm.cl, err = verifx.OpenCluster(ctx, cm.cfg); err != nil {
		return "join"
	}
	if !admit("join of C through A", cm) {
		return ""
	}
	kc := cm.cl.HostKey()
	if !wait(func() bool { _, ok := a.cl.Nodes()[kc]; return ok }) {
		return "a-never-learned-c"
	}
	if _, bKnows := b.cl.Nodes()[kc]; bKnows {
		return "b-learned-c-before-the-cut"
	}
	known := len(a.cl.Nodes())
	for _, m := range []*member{a, b} {
		if err := m.cl.Close(); err != nil {
			return "close"
		}
		m.cl = nil
	}
	for _, m := range []*member{a, b} {
		cfg := m.cfg
		if m == b {
			cfg.Pledge.Peers = []address.Address{addrA}
		}
		if m.cl, err = verifx.OpenCluster(ctx, cfg); err != nil {
			return "reopen"
		}
		log = append(log, fmt.Sprintf("%s closed gracefully and reopened with key %d, knowing %d members", m.cfg.HostAddress, m.cl.HostKey(), len(m.cl.Nodes())))
	}
	h.Count("graceful_members_known_at_close", known)
	d := newMember(false, addrA)
	all = append(all, d)
	if d.cl, err = verifx.OpenCluster(ctx, d.cfg); err != nil {
		return "late-join"
	}
	if !admit("join of D through the reopened A", d) {
		return ""
	}
	h.Count("graceful_restarts", 2)
	h.Distinct(fmt.Sprintf("graceful|%d", known))
	return ""
}

// cutClient drops every gossip message to or from a cut-off member.
type cutClient struct {
	inner   *fmock.UnaryClient[gmsg, gmsg]
	self    address.Address
	mu      *sync.Mutex
	blocked map[address.Address]bool
}

func (c *cutClient) Report() alamos.Report         { return c.inner.Report() }
func (c *cutClient) Use(m ...freighter.Middleware) { c.inner.Use(m...) }
func (c *cutClient) Send(ctx context.Context, t address.Address, m gmsg) (gmsg, error) {
	c.mu.Lock()
	cut := c.blocked[t] || c.blocked[c.self]
	c.mu.Unlock()
	if cut {
		return gmsg{}, errInjected
	}
	return c.inner.Send(ctx, t, m)
}
