// C18 — access is granted exactly when a role's policy covers every object.
//
// Runtime monitor: the REAL rbac.Service (over ontology, group, search, auth and user
// services on gorp + in-memory pebble, wired as the rbac suite wires them) is driven through
// generated histories of create/delete role, create/delete policy, attach policy to role,
// assign/unassign role, inside one transaction at a time (committed or aborted) or directly.
// After EVERY operation a batch of requests (subject x action x 1-4 objects mixing covered
// and uncovered ones, unknown subject, subject without roles) is decided by
// NewEnforcer(tx).Enforce inside the open transaction and by Service.Enforce in the
// committed view, and compared with a set-based reference that encodes the statement;
// RetrievePoliciesForSubject is compared with the reference's policy set.
package main

import (
	"context"
	"fmt"
	"runtime"
	"sort"
	"strings"
	"sync"
	"sync/atomic"

	"github.com/cockroachdb/pebble/v2"
	"github.com/cockroachdb/pebble/v2/vfs"
	"github.com/google/uuid"
	"github.com/synnaxlabs/synnax/pkg/distribution/group"
	"github.com/synnaxlabs/synnax/pkg/distribution/ontology"
	"github.com/synnaxlabs/synnax/pkg/distribution/search"
	"github.com/synnaxlabs/synnax/pkg/service/access"
	"github.com/synnaxlabs/synnax/pkg/service/access/rbac"
	"github.com/synnaxlabs/synnax/pkg/service/access/rbac/policy"
	"github.com/synnaxlabs/synnax/pkg/service/access/rbac/role"
	"github.com/synnaxlabs/synnax/pkg/service/auth"
	"github.com/synnaxlabs/synnax/pkg/service/user"
	"github.com/synnaxlabs/x/gorp"
	"github.com/synnaxlabs/x/kv"
	"github.com/synnaxlabs/x/kv/pebblekv"

	"verif/lib/harness"
	"verif/lib/prng"
)

func main() {
	harness.Main("C18", "exploration",
		harness.Layer{Name: "seq", Run: layerSeq},
	)
}

// ---------------------------------------------------------------------------------------
// the real service stack

func newMemKV() kv.DB {
	cache := pebble.NewCache(1 << 20)
	defer cache.Unref()
	pdb, err := pebble.Open("", &pebble.Options{
		FS:           vfs.NewMem(),
		Logger:       pebblekv.NewNoopLogger(),
		MemTableSize: 1 << 20,
		Cache:        cache,
	})
	if err != nil {
		panic(err)
	}
	return pebblekv.Wrap(pdb)
}

type stack struct {
	ctx    context.Context
	db     *gorp.DB
	otg    *ontology.Ontology
	search *search.Index
	group  *group.Service
	auth   *auth.Service
	user   *user.Service
	rbac   *rbac.Service
}

// openMu serialises service start-up: rbac/builtin.provisionRole writes the generated keys
// into package-level policy values, so two stacks starting at once in one process race on
// them (an artefact of running many independent service stacks in one process, not part of
// the statement).
var openMu sync.Mutex

func openStack() (s *stack, err error) {
	openMu.Lock()
	defer openMu.Unlock()
	s = &stack{ctx: context.Background()}
	defer func() {
		if err != nil {
			s.close()
		}
	}()
	s.db = gorp.Wrap(newMemKV())
	if s.otg, err = ontology.Open(s.ctx, ontology.Config{DB: s.db}); err != nil {
		return
	}
	if s.search, err = search.Open(); err != nil {
		return
	}
	if s.group, err = group.OpenService(s.ctx, group.ServiceConfig{DB: s.db, Ontology: s.otg, Search: s.search}); err != nil {
		return
	}
	if s.auth, err = auth.OpenService(s.ctx, auth.ServiceConfig{DB: s.db}); err != nil {
		return
	}
	if s.user, err = user.OpenService(s.ctx, user.ServiceConfig{
		DB: s.db, Ontology: s.otg, Group: s.group, Search: s.search, Auth: s.auth,
		RootCredentials: auth.Credentials{Username: "verif-root", Password: "p"},
	}); err != nil {
		return
	}
	s.rbac, err = rbac.OpenService(s.ctx, rbac.ServiceConfig{DB: s.db, Ontology: s.otg, Group: s.group, Search: s.search, User: s.user})
	return
}

func (s *stack) close() {
	if s.rbac != nil {
		_ = s.rbac.Close()
	}
	if s.user != nil {
		_ = s.user.Close()
	}
	if s.auth != nil {
		_ = s.auth.Close()
	}
	if s.group != nil {
		_ = s.group.Close()
	}
	if s.search != nil {
		_ = s.search.Close()
	}
	if s.otg != nil {
		_ = s.otg.Close()
	}
	if s.db != nil {
		_ = s.db.Close()
	}
}

// ---------------------------------------------------------------------------------------
// script

type obj struct {
	T string `json:"t"`
	K string `json:"k"` // "" = the whole type
}

func (o obj) id() ontology.ID { return ontology.ID{Type: ontology.ResourceType(o.T), Key: o.K} }
func (o obj) String() string {
	if o.K == "" {
		return o.T + ":*"
	}
	return o.T + ":" + o.K
}

var (
	objTypes = []string{"channel", "range", "range-alias"}
	objKeys  = []string{"1", "2", "10"}
	actions  = []string{"create", "retrieve", "update", "delete"}
)

type op struct {
	K       string   `json:"k"` // begin commit abort mkrole rmrole mkpolicy rmpolicy attach assign unassign
	Role    int      `json:"role,omitempty"`
	Policy  int      `json:"policy,omitempty"`
	Subject int      `json:"subject,omitempty"`
	Objects []obj    `json:"objects,omitempty"`
	Actions []string `json:"actions,omitempty"`
	RS      uint64   `json:"request_seed"` // seeds the request batch decided after this op
}

func (o op) String() string {
	switch o.K {
	case "mkrole", "rmrole":
		return fmt.Sprintf("%s(r%d)", o.K, o.Role)
	case "mkpolicy":
		return fmt.Sprintf("mkpolicy(p%d on r%d: %v x %v)", o.Policy, o.Role, o.Actions, o.Objects)
	case "rmpolicy":
		return fmt.Sprintf("rmpolicy(p%d)", o.Policy)
	case "attach":
		return fmt.Sprintf("attach(p%d -> r%d)", o.Policy, o.Role)
	case "assign", "unassign":
		return fmt.Sprintf("%s(r%d, s%d)", o.K, o.Role, o.Subject)
	case "groupfile":
		return fmt.Sprintf("groupfile(s%d + p%d under a new group)", o.Subject, o.Policy)
	}
	return o.K
}

type script struct {
	NSubjects int  `json:"subjects"` // s0 .. s(n-1) are registered; s(n) never is
	Ops       []op `json:"ops"`
}

// ---------------------------------------------------------------------------------------
// reference model (the statement)

type mpolicy struct {
	actions map[string]bool
	objects []obj
}

type model struct {
	roles    map[int]bool    // roles that currently exist
	policies map[int]mpolicy // policies that currently exist
	attach   map[[2]int]bool // (role, policy): attached (edge survives deletion of either end in the model too; only existing ends count)
	assign   map[[2]int]bool // (role, subject)
	everRole map[int]bool    // roles ever created (their identifiers are known to the system)
	everPol  map[int]bool
}

func newModel() *model {
	return &model{roles: map[int]bool{}, policies: map[int]mpolicy{}, attach: map[[2]int]bool{}, assign: map[[2]int]bool{}, everRole: map[int]bool{}, everPol: map[int]bool{}}
}

func (m *model) clone() *model {
	c := newModel()
	for k, v := range m.roles {
		c.roles[k] = v
	}
	for k, v := range m.policies {
		c.policies[k] = v
	}
	for k, v := range m.attach {
		c.attach[k] = v
	}
	for k, v := range m.assign {
		c.assign[k] = v
	}
	for k, v := range m.everRole {
		c.everRole[k] = v
	}
	for k, v := range m.everPol {
		c.everPol[k] = v
	}
	return c
}

// policiesFor: policies attached to a role currently assigned to the subject. relax
// switches let the classifier ask "would it be allowed if deleted roles still counted".
func (m *model) policiesFor(sub int, deletedRolesCount bool) []int {
	set := map[int]bool{}
	for rs := range m.assign {
		if rs[1] != sub {
			continue
		}
		if !m.roles[rs[0]] && !deletedRolesCount {
			continue
		}
		for rp := range m.attach {
			if rp[0] == rs[0] {
				if _, ok := m.policies[rp[1]]; ok {
					set[rp[1]] = true
				}
			}
		}
	}
	out := make([]int, 0, len(set))
	for p := range set {
		out = append(out, p)
	}
	sort.Ints(out)
	return out
}

func covers(p mpolicy, action string, o obj) bool {
	if !p.actions[action] {
		return false
	}
	for _, po := range p.objects {
		if po.T != o.T {
			continue
		}
		if po.K == "" || po.K == o.K {
			return true
		}
	}
	return false
}

func (m *model) allowed(sub int, registered bool, action string, objs []obj, deletedRolesCount bool) bool {
	if !registered {
		return false
	}
	pols := m.policiesFor(sub, deletedRolesCount)
	for _, o := range objs {
		found := false
		for _, p := range pols {
			if covers(m.policies[p], action, o) {
				found = true
				break
			}
		}
		if !found {
			return false
		}
	}
	return true
}

// ---------------------------------------------------------------------------------------
// executor

type finding struct {
	Sig  string
	What string
	At   int
}

type stats struct {
	Ops, Decisions, Allowed, Denied, InTx, Commits, Aborts, PolicySets, MixedRequests int
	GroupFilings                                                                      int
}

type world struct {
	s        *stack
	tx       gorp.Tx
	com, txm *model
	roleKeys map[int]uuid.UUID
	polKeys  map[int]uuid.UUID
	subjects []ontology.ID // index n = never registered
	nReg     int
	st       *stats
	out      []finding
	at       int
	stop     bool
}

func (w *world) view() *model {
	if w.txm != nil {
		return w.txm
	}
	return w.com
}

func (w *world) report(sig, what string) { w.out = append(w.out, finding{sig, what, w.at}) }

func detUUID(tag string, i int, salt uint64) uuid.UUID {
	r := prng.New(int64(salt), tag, i)
	var u uuid.UUID
	copy(u[:], r.Bytes(16))
	u[6] = (u[6] & 0x0f) | 0x40
	u[8] = (u[8] & 0x3f) | 0x80
	return u
}

// runSalt makes the identifiers of every run unique: a worker reuses one service stack for
// many histories (start-up dominates otherwise), and histories must not see each other's
// roles, policies or subjects. Identifier VALUES carry no meaning for the property.
var runSalt atomic.Uint64

// stackPool hands each worker goroutine its own stack, re-opened every 150 runs.
type stackHolder struct {
	s    *stack
	runs int
}

func (h *stackHolder) get() (*stack, error) {
	if h.s != nil && h.runs < 150 {
		h.runs++
		return h.s, nil
	}
	if h.s != nil {
		h.s.close()
		h.s = nil
	}
	s, err := openStack()
	if err != nil {
		return nil, err
	}
	h.s, h.runs = s, 1
	return s, nil
}

func (h *stackHolder) close() {
	if h.s != nil {
		h.s.close()
		h.s = nil
	}
}

func runScript(sh *stackHolder, sc script, st *stats) (out []finding) {
	if st == nil {
		st = &stats{}
	}
	s, err := sh.get()
	if err != nil {
		return []finding{{Sig: "c18:harness:open-failed", What: err.Error()}}
	}
	salt := runSalt.Add(1)
	w := &world{s: s, com: newModel(), roleKeys: map[int]uuid.UUID{}, polKeys: map[int]uuid.UUID{}, st: st, nReg: sc.NSubjects}
	defer func() {
		if w.tx != nil {
			_ = w.tx.Close()
		}
	}()
	defer func() {
		if r := recover(); r != nil {
			w.report("c18:panic", fmt.Sprintf("real code panicked at op %d: %v", w.at, r))
			out = w.out
		}
	}()
	for i := 0; i <= sc.NSubjects; i++ {
		id := ontology.ID{Type: ontology.ResourceTypeUser, Key: detUUID("subject", i, salt).String()}
		w.subjects = append(w.subjects, id)
		if i < sc.NSubjects {
			if err := s.otg.NewWriter(nil).DefineResource(s.ctx, id); err != nil {
				return []finding{{Sig: "c18:harness:subject-setup-failed", What: err.Error()}}
			}
		}
	}
	for i := 0; i < 8; i++ {
		w.roleKeys[i] = detUUID("role", i, salt)
		w.polKeys[i] = detUUID("policy", i, salt)
	}
	for i, o := range sc.Ops {
		w.at = i
		w.apply(o)
		if w.stop {
			break
		}
		w.decide(o.RS)
		if w.stop {
			break
		}
	}
	return w.out
}

func (w *world) apply(o op) {
	w.st.Ops++
	ctx := w.s.ctx
	m := w.view()
	fail := func(err error) {
		w.report("c18:op-error", fmt.Sprintf("%s: %v", o, err))
		w.stop = true
	}
	switch o.K {
	case "begin":
		if w.tx == nil {
			w.tx = w.s.db.OpenTx()
			w.txm = w.com.clone()
		}
	case "commit":
		if w.tx != nil {
			err := w.tx.Commit(ctx)
			_ = w.tx.Close()
			w.tx = nil
			if err != nil {
				fail(err)
				return
			}
			w.com, w.txm = w.txm, nil
			w.st.Commits++
		}
	case "abort":
		if w.tx != nil {
			_ = w.tx.Close()
			w.tx, w.txm = nil, nil
			w.st.Aborts++
		}
	case "mkrole":
		if m.everRole[o.Role] {
			return // never re-create an identifier
		}
		r := role.Role{Key: w.roleKeys[o.Role], Name: fmt.Sprintf("r%d", o.Role)}
		if err := w.s.rbac.Role.NewWriter(w.tx, false).Create(ctx, &r); err != nil {
			fail(err)
			return
		}
		m.roles[o.Role], m.everRole[o.Role] = true, true
	case "rmrole":
		if !m.roles[o.Role] {
			return
		}
		if err := w.s.rbac.Role.NewWriter(w.tx, false).Delete(ctx, w.roleKeys[o.Role]); err != nil {
			fail(err)
			return
		}
		delete(m.roles, o.Role)
	case "mkpolicy":
		if m.everPol[o.Policy] || !m.roles[o.Role] {
			return
		}
		p := policy.Policy{Key: w.polKeys[o.Policy], Name: fmt.Sprintf("p%d", o.Policy)}
		mp := mpolicy{actions: map[string]bool{}, objects: o.Objects}
		for _, ob := range o.Objects {
			p.Objects = append(p.Objects, ob.id())
		}
		for _, a := range o.Actions {
			p.Actions = append(p.Actions, access.Action(a))
			mp.actions[a] = true
		}
		pw := w.s.rbac.Policy.NewWriter(w.tx, false)
		if err := pw.Create(ctx, &p); err != nil {
			fail(err)
			return
		}
		if err := pw.SetOnRole(ctx, w.roleKeys[o.Role], p.Key); err != nil {
			fail(err)
			return
		}
		m.policies[o.Policy], m.everPol[o.Policy] = mp, true
		m.attach[[2]int{o.Role, o.Policy}] = true
	case "rmpolicy":
		if _, ok := m.policies[o.Policy]; !ok {
			return
		}
		if err := w.s.rbac.Policy.NewWriter(w.tx, false).Delete(ctx, w.polKeys[o.Policy]); err != nil {
			fail(err)
			return
		}
		delete(m.policies, o.Policy)
	case "attach":
		if !m.everRole[o.Role] || !m.everPol[o.Policy] {
			return
		}
		err := w.s.rbac.Policy.NewWriter(w.tx, false).SetOnRole(ctx, w.roleKeys[o.Role], w.polKeys[o.Policy])
		_, pOK := m.policies[o.Policy]
		if err != nil {
			if m.roles[o.Role] && pOK {
				fail(err)
			}
			return // attaching to/with something deleted may be refused: no effect
		}
		m.attach[[2]int{o.Role, o.Policy}] = true
	case "assign":
		if !m.everRole[o.Role] || o.Subject >= w.nReg {
			return
		}
		err := w.s.rbac.Role.NewWriter(w.tx, false).AssignRole(ctx, w.subjects[o.Subject], w.roleKeys[o.Role])
		if err != nil {
			if m.roles[o.Role] {
				fail(err)
			}
			return
		}
		m.assign[[2]int{o.Role, o.Subject}] = true
	case "groupfile":
		if _, ok := m.policies[o.Policy]; !ok || o.Subject >= w.nReg {
			return
		}
		g, err := w.s.group.NewWriter(w.tx).Create(ctx, fmt.Sprintf("g%d", w.at), ontology.RootID)
		if err != nil {
			fail(err)
			return
		}
		ow := w.s.otg.NewWriter(w.tx)
		gid := group.OntologyID(g.Key)
		if err := ow.DefineRelationship(ctx, gid, ontology.RelationshipTypeParentOf, w.subjects[o.Subject]); err != nil {
			fail(err)
			return
		}
		if err := ow.DefineRelationship(ctx, gid, ontology.RelationshipTypeParentOf, policy.OntologyID(w.polKeys[o.Policy])); err != nil {
			fail(err)
			return
		}
		w.st.GroupFilings++
	case "unassign":
		if !m.everRole[o.Role] || o.Subject >= w.nReg {
			return
		}
		if err := w.s.rbac.Role.NewWriter(w.tx, false).UnassignRole(ctx, w.subjects[o.Subject], w.roleKeys[o.Role]); err != nil {
			fail(err)
			return
		}
		delete(m.assign, [2]int{o.Role, o.Subject})
	}
}

type request struct {
	sub    int
	action string
	objs   []obj
}

func (rq request) String() string {
	parts := make([]string, len(rq.objs))
	for i, o := range rq.objs {
		parts[i] = o.String()
	}
	return fmt.Sprintf("s%d %s [%s]", rq.sub, rq.action, strings.Join(parts, " "))
}

// genRequests builds 30 requests from the seed and the model of the view they will be
// asked in: roughly half are built from objects the subject is covered for (so that allow
// verdicts are exercised), the rest mix in uncovered objects or are fully random.
func (w *world) genRequests(seed uint64, m *model) []request {
	r := prng.New(int64(seed), "c18/requests", w.at)
	var out []request
	universe := []obj{}
	for _, t := range objTypes {
		for _, k := range objKeys {
			universe = append(universe, obj{t, k})
		}
		universe = append(universe, obj{t, ""})
	}
	for len(out) < 30 {
		rq := request{sub: r.Intn(w.nReg + 1), action: prng.Pick(r, actions)}
		if r.Chance(2, 3) {
			// prefer subjects that currently hold (or held) some role, and actions their policies mention
			var cands []int
			for rs := range m.assign {
				cands = append(cands, rs[1])
			}
			sort.Ints(cands)
			if len(cands) > 0 {
				rq.sub = prng.Pick(r, cands)
				if ps := m.policiesFor(rq.sub, true); len(ps) > 0 {
					var as []string
					for a := range m.policies[prng.Pick(r, ps)].actions {
						as = append(as, a)
					}
					sort.Strings(as)
					if len(as) > 0 {
						rq.action = prng.Pick(r, as)
					}
				}
			}
		}
		var covered, uncovered []obj
		pols := m.policiesFor(rq.sub, false)
		for _, o := range universe {
			c := false
			for _, p := range pols {
				if covers(m.policies[p], rq.action, o) {
					c = true
				}
			}
			if c && rq.sub < w.nReg {
				covered = append(covered, o)
			} else {
				uncovered = append(uncovered, o)
			}
		}
		n := r.Range(1, 4)
		mode := r.Intn(4)
		for i := 0; i < n; i++ {
			switch {
			case mode <= 1 && len(covered) > 0: // all covered
				rq.objs = append(rq.objs, prng.Pick(r, covered))
			case mode == 2 && len(covered) > 0 && len(uncovered) > 0: // covered with one uncovered slipped in
				if i == n-1 {
					rq.objs = append(rq.objs, prng.Pick(r, uncovered))
				} else {
					rq.objs = append(rq.objs, prng.Pick(r, covered))
				}
			default:
				rq.objs = append(rq.objs, prng.Pick(r, universe))
			}
		}
		if mode == 2 && n > 1 {
			prng.Shuffle(r, rq.objs)
			w.st.MixedRequests++
		}
		out = append(out, rq)
	}
	return out
}

func (w *world) decide(seed uint64) {
	if w.txm != nil {
		w.decideIn(seed, w.tx, w.txm, "in-tx")
	}
	w.decideIn(seed^0x5bd1e995, nil, w.com, "committed")
}

func (w *world) decideIn(seed uint64, tx gorp.Tx, m *model, view string) {
	ctx := w.s.ctx
	type verdict struct {
		rq        request
		got, want bool
		err       error
	}
	var vs []verdict
	// hypothesis used ONLY to name a violation: "roles that were deleted still count". It
	// is accepted as the explanation only if it predicts every decision of the batch.
	hypothesisExplainsAll := true
	for _, rq := range w.genRequests(seed, m) {
		ids := make([]ontology.ID, len(rq.objs))
		for i, o := range rq.objs {
			ids[i] = o.id()
		}
		areq := access.Request{Subject: w.subjects[rq.sub], Action: access.Action(rq.action), Objects: ids}
		var err error
		if tx != nil {
			err = w.s.rbac.NewEnforcer(tx).Enforce(ctx, areq)
			w.st.InTx++
		} else {
			err = w.s.rbac.Enforce(ctx, areq)
		}
		registered := rq.sub < w.nReg
		v := verdict{rq: rq, got: err == nil, want: m.allowed(rq.sub, registered, rq.action, rq.objs, false), err: err}
		if v.got != m.allowed(rq.sub, registered, rq.action, rq.objs, true) {
			hypothesisExplainsAll = false
		}
		vs = append(vs, v)
		w.st.Decisions++
		if v.want {
			w.st.Allowed++
		} else {
			w.st.Denied++
		}
	}
	for _, v := range vs {
		if v.got == v.want {
			continue
		}
		rq := v.rq
		if v.got && !v.want {
			reason := "uncovered-object"
			if rq.sub >= w.nReg {
				reason = "unknown-subject"
			}
			sig := "c18:over-permissive:" + reason + ":" + view
			if hypothesisExplainsAll {
				sig = "c18:over-permissive:deleted-role-still-grants"
			}
			w.report(sig, fmt.Sprintf("[%s] %s was PERMITTED; the reference says denied (policies of the subject: %v)", view, rq, w.describePolicies(m, rq.sub)))
		} else {
			w.report("c18:over-restrictive:"+view, fmt.Sprintf("[%s] %s was DENIED with %q; the reference says permitted (policies of the subject: %v)", view, rq, v.err, w.describePolicies(m, rq.sub)))
		}
	}
	// RetrievePoliciesForSubject must be exactly the reference's policy set
	for sub := 0; sub < w.nReg; sub++ {
		w.st.PolicySets++
		pols, err := w.s.rbac.RetrievePoliciesForSubject(ctx, w.subjects[sub], tx)
		if err != nil {
			w.report("c18:policy-set:error:"+view, fmt.Sprintf("[%s] RetrievePoliciesForSubject(s%d): %v", view, sub, err))
			continue
		}
		got := map[uuid.UUID]bool{}
		for _, p := range pols {
			got[p.Key] = true
		}
		want := map[uuid.UUID]bool{}
		for _, p := range m.policiesFor(sub, false) {
			want[w.polKeys[p]] = true
		}
		extra, missing := 0, 0
		for k := range got {
			if !want[k] {
				extra++
			}
		}
		for k := range want {
			if !got[k] {
				missing++
			}
		}
		if extra+missing > 0 {
			kind := "missing-policy"
			if extra > 0 {
				kind = "extra-policy"
				relaxed := map[uuid.UUID]bool{}
				for _, p := range m.policiesFor(sub, true) {
					relaxed[w.polKeys[p]] = true
				}
				all := true
				for k := range got {
					if !relaxed[k] {
						all = false
					}
				}
				if all && missing == 0 {
					kind = "extra-policy-from-deleted-role"
				}
			}
			sig := "c18:policy-set:" + kind + ":" + view
			if kind == "extra-policy-from-deleted-role" {
				sig = "c18:policy-set:extra-policy-from-deleted-role"
			}
			w.report(sig, fmt.Sprintf("[%s] RetrievePoliciesForSubject(s%d) returned %d policies (%d not in the reference set, %d of the reference set missing); reference: %v", view, sub, len(got), extra, missing, w.describePolicies(m, sub)))
		}
	}
}

func (w *world) describePolicies(m *model, sub int) string {
	var parts []string
	for _, p := range m.policiesFor(sub, false) {
		mp := m.policies[p]
		var as []string
		for a := range mp.actions {
			as = append(as, a)
		}
		sort.Strings(as)
		parts = append(parts, fmt.Sprintf("p%d{%v on %v}", p, as, mp.objects))
	}
	return "[" + strings.Join(parts, " ") + "]"
}

// ---------------------------------------------------------------------------------------
// generation

func genScript(r *prng.R) script {
	sc := script{NSubjects: r.Range(1, 4)}
	nRoles := r.Range(1, 4)
	nPol := r.Range(1, 6)
	inTx := false
	genObjs := func() []obj {
		if r.Chance(1, 10) {
			return nil // a policy that covers no object (stored with a nil list)
		}
		n := r.Range(1, 3)
		var out []obj
		for i := 0; i < n; i++ {
			o := obj{T: prng.Pick(r, objTypes)}
			if r.Chance(3, 5) {
				o.K = prng.Pick(r, objKeys)
			}
			out = append(out, o)
		}
		return out
	}
	genActs := func() []string {
		if r.Chance(1, 8) {
			return nil // a policy that grants no action (stored with a nil list)
		}
		var out []string
		for _, a := range actions {
			if r.Chance(1, 2) {
				out = append(out, a)
			}
		}
		if len(out) == 0 {
			out = []string{prng.Pick(r, actions)}
		}
		return out
	}
	add := func(o op) {
		o.RS = r.U64()
		sc.Ops = append(sc.Ops, o)
	}
	nextRole, nextPol := 0, 0
	// most histories start from a working grant so that permit verdicts are exercised
	if r.Chance(4, 5) {
		add(op{K: "mkrole", Role: 0})
		nextRole = 1
		add(op{K: "mkpolicy", Policy: 0, Role: 0, Objects: genObjs(), Actions: genActs()})
		nextPol = 1
		add(op{K: "assign", Role: 0, Subject: r.Intn(sc.NSubjects)})
	}
	n := r.Range(10, 22)
	for len(sc.Ops) < n {
		x := r.Intn(100)
		switch {
		case x < 12 && nextRole < nRoles:
			add(op{K: "mkrole", Role: nextRole})
			nextRole++
		case x < 30 && nextPol < nPol && nextRole > 0:
			add(op{K: "mkpolicy", Policy: nextPol, Role: r.Intn(nextRole), Objects: genObjs(), Actions: genActs()})
			nextPol++
		case x < 50 && nextRole > 0:
			add(op{K: "assign", Role: r.Intn(nextRole), Subject: r.Intn(sc.NSubjects + 1)})
		case x < 60 && nextRole > 0:
			add(op{K: "unassign", Role: r.Intn(nextRole), Subject: r.Intn(sc.NSubjects)})
		case x < 68 && nextRole > 0 && nextPol > 0:
			add(op{K: "attach", Role: r.Intn(nextRole), Policy: r.Intn(nextPol)})
		case x < 76 && nextPol > 0:
			add(op{K: "rmpolicy", Policy: r.Intn(nextPol)})
		case x < 83 && nextRole > 0:
			add(op{K: "rmrole", Role: r.Intn(nextRole)})
		case x < 88 && nextPol > 0:
			// a group (a non-role parent) that holds a subject and a policy: filing things
			// under a group grants nothing
			add(op{K: "groupfile", Subject: r.Intn(sc.NSubjects), Policy: r.Intn(nextPol)})
		case x < 100:
			if x < 92 {
				continue
			}
			if !inTx {
				add(op{K: "begin"})
				inTx = true
			} else {
				if r.Chance(2, 3) {
					add(op{K: "commit"})
				} else {
					add(op{K: "abort"})
				}
				inTx = false
			}
		}
	}
	if inTx {
		if r.Bool() {
			add(op{K: "commit"})
		} else {
			add(op{K: "abort"})
		}
	}
	return sc
}

// ---------------------------------------------------------------------------------------
// minimisation + layer

func hasSig(fs []finding, sig string) bool {
	for _, f := range fs {
		if f.Sig == sig {
			return true
		}
	}
	return false
}

func minimise(sh *stackHolder, sc script, sig string) script {
	test := func(ops []op) bool {
		return hasSig(runScript(sh, script{NSubjects: sc.NSubjects, Ops: ops}, nil), sig)
	}
	ops := sc.Ops
	for _, f := range runScript(sh, sc, nil) {
		if f.Sig == sig && f.At+1 < len(ops) {
			if test(ops[:f.At+1]) {
				ops = ops[:f.At+1]
			}
			break
		}
	}
	n := 2
	for len(ops) >= 2 {
		chunk := (len(ops) + n - 1) / n
		reduced := false
		for i := 0; i < len(ops); i += chunk {
			j := min(i+chunk, len(ops))
			cand := append(append([]op{}, ops[:i]...), ops[j:]...)
			if len(cand) > 0 && test(cand) {
				ops = cand
				if n > 2 {
					n--
				}
				reduced = true
				break
			}
		}
		if !reduced {
			if chunk == 1 {
				break
			}
			n = min(n*2, len(ops))
		}
	}
	return script{NSubjects: sc.NSubjects, Ops: ops}
}

type sigCounter struct {
	mu sync.Mutex
	n  map[string]int
}

func (s *sigCounter) first(sig string, k int) bool {
	s.mu.Lock()
	defer s.mu.Unlock()
	if s.n == nil {
		s.n = map[string]int{}
	}
	s.n[sig]++
	return s.n[sig] <= k
}

var sigs sigCounter

type witness struct {
	Original  int      `json:"original_ops"`
	Minimised []string `json:"minimised_script,omitempty"`
	Script    script   `json:"script"`
}

type deferredViolation struct {
	c         int
	sig, what string
	wit       witness
}

func layerSeq(h *harness.H) {
	h.AddRule("seq: one case = one PRNG-generated history (10-22 ops: create/delete role, create+attach/delete policy with 1-3 type-level or instance-level objects over 3 object types and an action subset, attach, assign/unassign, begin/commit/abort) over 1-4 registered subjects plus one never-registered subject, on a fresh service stack; after every op 30 requests in the transaction's view (if open) and 30 in the committed view; distinct = distinct script; non-trivial = the reference produced both permitted and denied verdicts")
	h.Assume("requests with an empty object list are not generated (the statement's clauses disagree on them for unknown subjects)")
	h.Assume("any non-nil error from Enforce counts as denied")
	h.Assume("subjects are ontology resources of type user defined directly in the ontology (as the role suite does); one subject per history is never defined")
	h.Assume("one transaction open at a time; role/policy identifiers are never re-created after deletion; a worker reuses one service stack for up to 150 histories with fresh identifiers per run")
	n := h.N(1500, 60000)
	var mu sync.Mutex
	var deferred []deferredViolation
	workers := runtime.GOMAXPROCS(0)
	if _, rep := h.Replaying(); rep {
		workers = 1
	}
	var wg sync.WaitGroup
	ch := make(chan int, 64)
	for i := 0; i < workers; i++ {
		wg.Add(1)
		go func() {
			defer wg.Done()
			sh := &stackHolder{}
			defer sh.close()
			for c := range ch {
				r := h.Rand("seq", c)
				sc := genScript(r)
				st := &stats{}
				h.Eval()
				fs := runScript(sh, sc, st)
				h.Count("ops", st.Ops)
				h.Count("decisions_compared", st.Decisions)
				h.Count("decisions_reference_permit", st.Allowed)
				h.Count("decisions_reference_deny", st.Denied)
				h.Count("decisions_inside_open_tx", st.InTx)
				h.Count("requests_mixing_covered_and_uncovered", st.MixedRequests)
				h.Count("policy_sets_compared", st.PolicySets)
				h.Count("tx_commits", st.Commits)
				h.Count("tx_aborts", st.Aborts)
				h.Count("group_filings_of_subject_and_policy", st.GroupFilings)
				if st.Allowed > 0 && st.Denied > 0 {
					var sb strings.Builder
					for _, o := range sc.Ops {
						sb.WriteString(o.String())
					}
					h.Distinct(sb.String())
				}
				if c < 3 {
					var lines []string
					for _, o := range sc.Ops {
						lines = append(lines, o.String())
					}
					h.Sample(map[string]any{"case": c, "registered_subjects": sc.NSubjects, "script": lines})
				}
				seen := map[string]bool{}
				for _, f := range fs {
					if seen[f.Sig] {
						continue
					}
					seen[f.Sig] = true
					if sigs.first(f.Sig, 3) {
						ms := minimise(sh, sc, f.Sig)
						wit := witness{Original: len(sc.Ops), Script: ms}
						for _, o := range ms.Ops {
							wit.Minimised = append(wit.Minimised, o.String())
						}
						what := f.What
						for _, mf := range runScript(sh, ms, nil) {
							if mf.Sig == f.Sig {
								what = mf.What + " | minimal history: " + strings.Join(wit.Minimised, "; ")
								break
							}
						}
						h.Violation("seq", c, f.Sig, what, wit)
						continue
					}
					mu.Lock()
					deferred = append(deferred, deferredViolation{c, f.Sig, f.What, witness{Original: len(sc.Ops), Script: sc}})
					mu.Unlock()
				}
			}
		}()
	}
	for c := 0; c < n; c++ {
		if h.Skip("seq", c) {
			continue
		}
		ch <- c
	}
	close(ch)
	wg.Wait()
	sort.SliceStable(deferred, func(i, j int) bool { return deferred[i].c < deferred[j].c })
	for _, v := range deferred {
		h.Violation("seq", v.c, v.sig, v.what, v.wit)
	}
}
