package main

// Triage helper (not part of the check): C02_DUMP=<replay.json> [C02_K=<prefix>] [C02_TORN=<n>]
// re-records the witness script, rebuilds the crash image and prints the recorded
// mutations around the crash point, the decoded index.domain of every channel, the
// data-file sizes and the verdicts of the recovery oracle.

import (
	"context"
	"encoding/binary"
	"encoding/json"
	"fmt"
	"github.com/synnaxlabs/cesium"
	"github.com/synnaxlabs/x/telem"
	"os"
	"path/filepath"
	"sort"
	"strconv"
	"strings"
	"sync"

	xfs "github.com/synnaxlabs/x/io/fs"
	"verif/lib/cskit"
	"verif/lib/harness"
	"verif/lib/recfs"
)

func dumpMain(p string) {
	b, err := os.ReadFile(p)
	if err != nil {
		panic(err)
	}
	var rs struct {
		Signature string  `json:"signature"`
		What      string  `json:"what"`
		Witness   witness `json:"witness"`
	}
	if err := json.Unmarshal(b, &rs); err != nil {
		panic(err)
	}
	s := rs.Witness.Script
	k, torn := rs.Witness.Prefix, rs.Witness.Torn
	if v := os.Getenv("C02_K"); v != "" {
		k, _ = strconv.Atoi(v)
	}
	if v := os.Getenv("C02_TORN"); v != "" {
		torn, _ = strconv.Atoi(v)
	}
	fmt.Println("signature:", rs.Signature)
	fmt.Println("what:", rs.What)
	rec := record(s)
	if rec == nil {
		fmt.Println("script does not record (setup error / engine error)")
		return
	}
	if os.Getenv("C02_FIND") != "" {
		// garbage collection visits channels in map order, so the recorded log of a
		// script with gc ops differs between runs: look for a crash point of this
		// recording that shows the witness's signature
		kk, tt, _, _, found := findSig(rec, rs.Signature)
		if found {
			k, torn = kk, tt
		}
		fmt.Println("find:", found)
	}
	fmt.Printf("groups: %+v\nfile_size=%d gc=%g\n", s.Groups, s.FileSize, s.GCThreshold)
	for i, o := range s.Ops {
		ob, _ := json.Marshal(o)
		fmt.Printf("  op %d: %s\n", i, ob)
	}
	lo := k - 40
	if v := os.Getenv("C02_CTX"); v != "" {
		n, _ := strconv.Atoi(v)
		lo = k - n
	}
	if lo < 0 {
		lo = 0
	}
	hi := k + 12
	if hi > len(rec.muts) {
		hi = len(rec.muts)
	}
	for i := lo; i < hi; i++ {
		m := rec.muts[i]
		mark := "  "
		if i == k-1 {
			mark = "=>"
		}
		d := ""
		if m.Kind == recfs.WriteAt {
			d = fmt.Sprintf("off=%d len=%d", m.Off, len(m.Data))
			if strings.HasSuffix(m.Path, "index.domain") {
				d += " " + decodePtrs(m.Data)
			}
		}
		if m.Kind == recfs.Trunc {
			d = fmt.Sprintf("size=%d", m.Size)
		}
		if m.Kind == recfs.Marker {
			d = fmt.Sprintf("#%d %s", m.Idx, m.Note)
		}
		fmt.Printf("%s %4d %-8s %-28s %s %s\n", mark, i+1, m.Kind, m.Path, m.To, d)
	}
	img, err := recfs.Image(rec.muts, k, torn)
	fmt.Println("image err:", err, " k=", k, " torn=", torn)
	dumpTree(img, "db", "")
	if os.Getenv("C02_READ") != "" {
		if db, err := cesium.Open(context.Background(), "db", cesium.WithFS(img), cesium.WithFileSizeCap(telem.Size(s.FileSize))); err != nil {
			fmt.Println("open:", err)
		} else {
			for _, g := range s.Groups {
				for _, cs := range append([]cskit.ChanSpec{g.Index}, g.Data...) {
					fr, err := db.Read(context.Background(), telem.TimeRangeMax, cs.Key)
					fmt.Printf("read chan %d: err=%v\n", cs.Key, err)
					for _, ser := range fr.Get(cs.Key).Series {
						fmt.Printf("   series tr=[%d,%d) len=%d align=%v\n", int64(ser.TimeRange.Start), int64(ser.TimeRange.End), ser.Len(), ser.Alignment)
					}
				}
			}
			_ = db.Close()
		}
		img, _ = recfs.Image(rec.muts, k, torn)
	}
	v := evaluate(rec, k, torn)
	for _, f := range v.fails {
		fmt.Printf("FAIL %s chan=%d state=%s :: %s\n", f.class, f.key, f.state, f.detail)
	}
	fmt.Println("nonTrivial:", v.nonTrivial)
}

func decodePtrs(b []byte) string {
	var out []string
	for i := 0; i+26 <= len(b); i += 26 {
		out = append(out, fmt.Sprintf("[%d,%d) f%d@%d+%d",
			int64(binary.LittleEndian.Uint64(b[i:])), int64(binary.LittleEndian.Uint64(b[i+8:])),
			binary.LittleEndian.Uint16(b[i+16:]), binary.LittleEndian.Uint32(b[i+18:]), binary.LittleEndian.Uint32(b[i+22:])))
	}
	if r := len(b) % 26; r != 0 {
		out = append(out, fmt.Sprintf("+%d stray bytes", r))
	}
	return strings.Join(out, " ")
}

func dumpTree(fs xfs.FS, dir, indent string) {
	infos, err := fs.List(dir)
	if err != nil {
		fmt.Println(indent, "list error", err)
		return
	}
	sort.Slice(infos, func(i, j int) bool { return infos[i].Name() < infos[j].Name() })
	for _, in := range infos {
		p := dir + "/" + in.Name()
		if in.IsDir() {
			fmt.Printf("%s%s/\n", indent, in.Name())
			dumpTree(fs, p, indent+"  ")
			continue
		}
		extra := ""
		if in.Name() == "index.domain" || in.Name() == "counter.domain" {
			f, err := fs.Open(p, os.O_RDONLY)
			if err == nil {
				buf := make([]byte, in.Size())
				_, _ = f.ReadAt(buf, 0)
				_ = f.Close()
				if in.Name() == "index.domain" {
					extra = decodePtrs(buf)
				} else {
					extra = fmt.Sprintf("%x", buf)
				}
			}
		}
		fmt.Printf("%s%-16s %6d %s\n", indent, in.Name(), in.Size(), extra)
	}
}

var hangMu sync.Mutex
var hangSeen = map[string]int{}

// writeHangWitness keeps the first three witnesses per image state of reads that did not
// return (watchdog; counted inconclusive, not a violation).
func writeHangWitness(layer string, c int, f failure, w witness) {
	hangMu.Lock()
	defer hangMu.Unlock()
	hangSeen[f.state]++
	if hangSeen[f.state] > 3 {
		return
	}
	dir := filepath.Join(harness.Root(), "replays", "C02")
	if d := os.Getenv("VERIF_REPLAY_DIR"); d != "" {
		dir = filepath.Join(d, "C02")
	}
	_ = os.MkdirAll(dir, 0o755)
	rs := map[string]any{"property": "C02", "layer": layer, "case": c, "signature": "c02:read-hang:" + f.state, "what": f.detail, "witness": w}
	b, _ := json.MarshalIndent(rs, "", " ")
	name := fmt.Sprintf("hang-%s-c%d-%d.json", strings.NewReplacer(":", "_", "=", "-", "+", ".").Replace(f.state), c, hangSeen[f.state])
	_ = os.WriteFile(filepath.Join(dir, name), b, 0o644)
	fmt.Printf("NOTE: read-hang (inconclusive) state=%s witness=%s\n", f.state, filepath.Join(dir, name))
}

// findSig searches a recording for a crash point showing sig.
func findSig(rec *recording, sig string) (k, torn int, f failure, v verdict, ok bool) {
	for kk := 1; kk <= len(rec.muts); kk++ {
		m := rec.muts[kk-1]
		if m.Kind == recfs.Marker {
			continue
		}
		torns := []int{-1}
		if m.Kind == recfs.WriteAt && len(m.Data) >= 2 {
			torns = append(torns, len(m.Data)/2, 1)
		}
		for _, t := range torns {
			vv := evaluate(rec, kk, t)
			for _, ff := range vv.fails {
				if "c02:"+ff.class+":"+ff.state == sig {
					return kk, t, ff, vv, true
				}
			}
		}
	}
	return 0, 0, failure{}, verdict{}, false
}

// minimizeMain (C02_MIN=<replay.json>, triage helper): shrinks the witness script while
// some crash point of its recording still shows the witness's signature and prints a
// replay document for the smallest script found. Recordings depend on map order
// (channel order inside a commit or a garbage collection), so every candidate is
// recorded up to six times.
func minimizeMain(p string) {
	b, err := os.ReadFile(p)
	if err != nil {
		panic(err)
	}
	var rs struct {
		Signature string  `json:"signature"`
		Witness   witness `json:"witness"`
	}
	if err := json.Unmarshal(b, &rs); err != nil {
		panic(err)
	}
	pred := func(s *cskit.Script) bool {
		for try := 0; try < 6; try++ {
			rec := record(s)
			if rec == nil || rec.stopped {
				return false
			}
			if _, _, _, _, ok := findSig(rec, rs.Signature); ok {
				return true
			}
		}
		return false
	}
	if !pred(rs.Witness.Script) {
		fmt.Fprintln(os.Stderr, "witness does not reproduce", rs.Signature)
		os.Exit(1)
	}
	m := cskit.Minimize(rs.Witness.Script, pred)
	for try := 0; try < 20; try++ {
		rec := record(m)
		k, torn, f, v, ok := findSig(rec, rs.Signature)
		if !ok {
			continue
		}
		lo := k - 4
		if lo < 0 {
			lo = 0
		}
		last := append([]recfs.Mutation(nil), rec.muts[lo:k]...)
		for i := range last {
			if len(last[i].Data) > 64 {
				last[i].Data = last[i].Data[:64]
			}
		}
		var next *recfs.Mutation
		for j := k; j < len(rec.muts); j++ {
			if rec.muts[j].Kind != recfs.Marker {
				nm := rec.muts[j]
				if len(nm.Data) > 64 {
					nm.Data = nm.Data[:64]
				}
				next = &nm
				break
			}
		}
		states := map[string]string{}
		for key, st := range v.states {
			states[fmt.Sprint(key)] = st
		}
		out := map[string]any{"property": "C02", "signature": rs.Signature, "what": f.detail,
			"witness": witness{Script: m, Prefix: k, Torn: torn, Total: len(rec.muts), InFlight: v.nextNote, OpIndex: v.nextIdx, Channel: f.key, States: states, Last: last, Next: next, Detail: f.detail}}
		ob, _ := json.MarshalIndent(out, "", " ")
		fmt.Println(string(ob))
		return
	}
	fmt.Fprintln(os.Stderr, "minimized script stopped reproducing")
	os.Exit(1)
}
