// C02 — Cesium survives a crash at any point with consistent, durable data.
//
// Fault enumeration over a recorded log: every script is run once on a recording
// filesystem; every prefix of the filesystem mutations it issued (plus torn variants of a
// final write) is rebuilt as a fresh in-memory image — the property's own process-crash
// model — and cesium.Open + reads on that image are judged by the recovery oracle.
package main

import (
	"bytes"
	"context"
	"fmt"
	"path"
	"regexp"
	"sort"
	"strings"
	"sync"
	"time"

	"github.com/synnaxlabs/cesium"
	xfs "github.com/synnaxlabs/x/io/fs"
	"github.com/synnaxlabs/x/telem"
	"verif/lib/cskit"
	"verif/lib/harness"
	"verif/lib/recfs"
)

func main() {
	harness.Main("C02", "fault_enumeration",
		harness.Layer{Name: "writes", Run: func(h *harness.H) { run(h, "writes", h.N(30, 1200), false) }},
		harness.Layer{Name: "maint", Run: func(h *harness.H) { run(h, "maint", h.N(30, 1200), true) }},
	)
}

var uniqueTypes = []string{"int64", "uint64", "float64", "timestamp", "uuid", "json"}

type snapshot struct {
	durable *cskit.Model
	ever    map[uint32]map[string]cskit.Stamp
	created map[uint32]bool
}

type witness struct {
	Script   *cskit.Script    `json:"script"`
	Prefix   int              `json:"mutations_applied"`
	Torn     int              `json:"torn_bytes"`
	Total    int              `json:"mutations_total"`
	InFlight string           `json:"op_in_flight"`
	OpIndex  int              `json:"op_index"`
	Last     []recfs.Mutation `json:"last_mutations"`
	Next     *recfs.Mutation  `json:"next_mutation,omitempty"`
	Detail   string           `json:"detail"`
}

func run(h *harness.H, layer string, n int, maint bool) {
	h.AddRule(layer + ": cskit scripts (unique-valued types only) run on a recording MemFS; crash points = every prefix of the recorded mutation log (mkdir/create/trunc/writeat/rename/remove) + torn variants (first half, first byte) of a final write; a crash point is non-trivial if the image holds >=1 channel with >=1 sample; distinct by (script shape, prefix length, torn)")
	h.Assume("process-crash model of the property: completed filesystem calls survive in call-return order, nothing else; rename/remove atomic as MemFS implements them")
	h.Assume("durable = commits acknowledged under always-persist auto-commit, explicit commits with auto-commit off, and everything committed by a writer whose Close returned; all other written data is 'maybe' (either outcome admissible)")
	h.Assume("scripts whose uncrashed run already disagrees with the C01/C04 read oracle are excluded (counted) so that only crash-specific behaviour is judged")
	var wg sync.WaitGroup
	work := make(chan int, 64)
	for w := 0; w < 14; w++ {
		wg.Add(1)
		go func() {
			defer wg.Done()
			for c := range work {
				one(h, layer, c, maint)
			}
		}()
	}
	for c := 0; c < n; c++ {
		if !h.Skip(layer, c) {
			work <- c
		}
	}
	close(work)
	wg.Wait()
}

func cloneEver(e map[uint32]map[string]cskit.Stamp) map[uint32]map[string]cskit.Stamp {
	out := make(map[uint32]map[string]cskit.Stamp, len(e))
	for k, m := range e {
		c := make(map[string]cskit.Stamp, len(m))
		for v, s := range m {
			c[v] = s
		}
		out[k] = c
	}
	return out
}

var numRe = regexp.MustCompile(`[0-9]+`)

// fileClass normalises a path to <file class>(<channel role>): e.g. index.domain(idx),
// N.domain(data), meta.json(data), N(idx) for a channel directory.
func fileClass(s *cskit.Script, p string) string {
	b := path.Base(p)
	role := ""
	parts := strings.Split(p, "/")
	if len(parts) >= 2 {
		var key uint32
		if _, err := fmt.Sscanf(parts[1], "%d", &key); err == nil {
			role = "(data)"
			for _, g := range s.Groups {
				if g.Index.Key == key {
					role = "(idx)"
				}
			}
		}
	}
	if strings.Contains(b, "-DELETE-") {
		return "deleted-dir" + role
	}
	return numRe.ReplaceAllString(b, "N") + role
}

func one(h *harness.H, layer string, c int, maint bool) {
	r := h.Rand(layer, c)
	o := cskit.DefaultGen()
	o.Types = uniqueTypes
	o.MaxSessions = 4
	o.MaxData = 3
	o.MaxChunks = 4
	o.Reads = false
	o.Reopen = true
	o.FileSizes = []int64{1, 8, 64, 200, 1 << 30}
	if maint {
		o.Deletes, o.GC, o.GapRewrite = true, true, true
	}
	s := cskit.Gen(r, o)

	// 1. uncrashed reference run on a plain MemFS with the full read oracle
	_, pre := cskit.RunScript(s, cskit.RunOpts{CheckGC: true, FinalReads: 6, FinalSeed: 99, Prefix: "pre"})
	if len(pre) > 0 {
		h.Count("scripts_excluded_uncrashed_oracle_disagrees", 1)
		return
	}

	// 2. recorded run with markers
	rfs, log := recfs.New(xfs.NewMem())
	e := cskit.NewExec(rfs, s)
	snaps := map[int]*snapshot{} // marker idx -> state after that op
	created := map[uint32]bool{}
	chanIdx := -1000
	e.OnChannelCreated = func(cs cskit.ChanSpec) {
		created[cs.Key] = true
		cr := map[uint32]bool{}
		for k := range created {
			cr[k] = true
		}
		snaps[chanIdx] = &snapshot{durable: e.Durable.Clone(), ever: cloneEver(e.Ever), created: cr}
		log.Mark(chanIdx, "channel-created")
		chanIdx++
	}
	e.AfterOp = func(i int, op cskit.Op, ex *cskit.Exec) {
		cr := map[uint32]bool{}
		for k := range created {
			cr[k] = true
		}
		snaps[i] = &snapshot{durable: ex.Durable.Clone(), ever: cloneEver(ex.Ever), created: cr}
		log.Mark(i, op.Kind)
	}
	if err := e.Setup(); err != nil {
		h.Inconclusive("setup-error")
		return
	}
	e.Run()
	e.CloseWriters()
	stopped := e.UnexpectedErr != ""
	_ = e.DB.Close()
	log.Mark(len(s.Ops), "db-closed")
	final := &snapshot{durable: e.Durable.Clone(), ever: cloneEver(e.Ever), created: created}
	snaps[len(s.Ops)] = final
	if stopped {
		h.Count("scripts_stopped_by_engine_error", 1)
		return
	}
	muts := log.Snapshot()
	h.Count("scripts_enumerated", 1)
	h.Count("mutations_recorded", len(muts))

	// 3. enumerate crash points
	prev := &snapshot{durable: cskit.NewModel(), ever: map[uint32]map[string]cskit.Stamp{}, created: map[uint32]bool{}}
	prevIdx := -2000
	shape := s.Shape()
	sampled := false
	for k := 1; k <= len(muts); k++ {
		m := muts[k-1]
		if m.Kind == recfs.Marker {
			prev = snaps[m.Idx]
			prevIdx = m.Idx
			continue
		}
		// the op in flight is the one whose marker comes next
		nextIdx, nextNote := len(s.Ops), "db-closed"
		for j := k; j < len(muts); j++ {
			if muts[j].Kind == recfs.Marker {
				nextIdx, nextNote = muts[j].Idx, muts[j].Note
				break
			}
		}
		after := snaps[nextIdx]
		if after == nil {
			after = final
		}
		torns := []int{-1}
		if m.Kind == recfs.WriteAt && len(m.Data) >= 2 {
			torns = append(torns, len(m.Data)/2, 1)
		}
		for _, torn := range torns {
			h.Eval()
			h.Count("crash_images", 1)
			var inflight *cskit.Op
			if nextIdx >= 0 && nextIdx < len(s.Ops) {
				inflight = &s.Ops[nextIdx]
			}
			fails, nonTrivial := judge(s, muts, k, torn, prev, after, inflight, e.Sessions, nextIdx)
			if nonTrivial {
				h.Distinct(fmt.Sprintf("%s|%d|%d", shape, k, torn))
			}
			for _, f := range fails {
				tornS := "whole"
				if torn >= 0 {
					tornS = "torn"
				}
				nextKind := "end"
				var nextMut *recfs.Mutation
				for j := k; j < len(muts); j++ {
					if muts[j].Kind != recfs.Marker {
						nextKind = string(muts[j].Kind) + "@" + fileClass(s, muts[j].Path)
						nm := muts[j]
						if len(nm.Data) > 64 {
							nm.Data = nm.Data[:64]
						}
						nextMut = &nm
						break
					}
				}
				sig := fmt.Sprintf("c02:%s:%s:%s@%s:%s:then-%s", f.class, nextNote, m.Kind, fileClass(s, m.Path), tornS, nextKind)
				lo := k - 3
				if lo < 0 {
					lo = 0
				}
				last := append([]recfs.Mutation(nil), muts[lo:k]...)
				for i := range last {
					if len(last[i].Data) > 64 {
						last[i].Data = last[i].Data[:64]
					}
				}
				h.Violation(layer, c, sig, f.detail, witness{Script: s, Prefix: k, Torn: torn, Total: len(muts), InFlight: nextNote, OpIndex: nextIdx, Last: last, Next: nextMut, Detail: f.detail})
			}
			if !sampled && nonTrivial && k > len(muts)/2 {
				sampled = true
				h.Sample(map[string]any{"case": c, "layer": layer, "mutations_total": len(muts), "crash_after_mutation": k, "torn": torn, "op_in_flight": nextNote, "mutation": map[string]any{"kind": m.Kind, "path": m.Path, "off": m.Off, "len": len(m.Data)}, "after_completed_op": prevIdx})
			}
		}
	}
}

type failure struct{ class, detail string }

func judge(s *cskit.Script, muts []recfs.Mutation, k, torn int, prev, after *snapshot, inflight *cskit.Op, sessions map[int]*cskit.SessionLog, nextIdx int) (fails []failure, nonTrivial bool) {
	img, err := recfs.Image(muts, k, torn)
	if err != nil {
		return []failure{{"harness-image", err.Error()}}, false
	}
	ctx := context.Background()
	db, err := cesium.Open(ctx, "db", cesium.WithFS(img), cesium.WithFileSizeCap(telem.Size(s.FileSize)),
		cesium.WithGCConfig(cesium.GCConfig{Threshold: s.GCThreshold, TryInterval: 24 * time.Hour}))
	if err != nil {
		return []failure{{"open-error", "cesium.Open on the crash image failed: " + trim(err.Error())}}, false
	}
	defer func() { _ = db.Close() }()
	delChans := map[uint32]bool{}
	if inflight != nil && inflight.Kind == "delete" {
		for _, c := range inflight.Chans {
			delChans[c] = true
		}
	}
	keys := make([]uint32, 0, len(prev.created))
	for key := range prev.created {
		keys = append(keys, key)
	}
	sort.Slice(keys, func(i, j int) bool { return keys[i] < keys[j] })
	for _, key := range keys {
		fr, err := db.Read(ctx, telem.TimeRangeMax, key)
		if err != nil {
			fails = append(fails, failure{"read-error", fmt.Sprintf("full read of channel %d failed: %s", key, trim(err.Error()))})
			continue
		}
		allowed := after.ever[key]
		var got []cskit.Stamp
		gotSet := map[cskit.Stamp]bool{}
		bad := false
		for _, ser := range fr.Get(key).Series {
			for _, v := range cskit.SplitSeries(ser) {
				st, ok := allowed[string(v)]
				if !ok {
					fails = append(fails, failure{"foreign-bytes", fmt.Sprintf("channel %d returned a value never written for it: %x", key, v)})
					bad = true
					break
				}
				got = append(got, st)
				if gotSet[st] {
					fails = append(fails, failure{"duplicate", fmt.Sprintf("channel %d returned ts=%d twice", key, st.TS)})
					bad = true
				}
				gotSet[st] = true
			}
			if bad {
				break
			}
		}
		if bad {
			continue
		}
		if len(got) > 0 {
			nonTrivial = true
		}
		for i := 1; i < len(got); i++ {
			if got[i].TS <= got[i-1].TS {
				fails = append(fails, failure{"disorder", fmt.Sprintf("channel %d: ts %d returned after %d", key, got[i].TS, got[i-1].TS)})
				break
			}
		}
		// (a) durable data intact (an in-flight delete makes the range optional but atomic)
		gotTS := map[int64]bool{}
		for _, g := range got {
			gotTS[g.TS] = true
		}
		inRangePresent, inRangeAbsent := 0, 0
		for _, d := range prev.durable.All(key) {
			if delChans[key] && d.TS >= inflight.A && d.TS < inflight.B {
				if gotTS[d.TS] {
					inRangePresent++
				} else {
					inRangeAbsent++
				}
				continue
			}
			st, ok := allowed[string(d.Val)]
			if !ok || !gotSet[st] {
				fails = append(fails, failure{"lost-durable", fmt.Sprintf("channel %d lost durable sample ts=%d (commit had completed with index persistence before the crash point)", key, d.TS)})
				break
			}
		}
		if inRangePresent > 0 && inRangeAbsent > 0 {
			fails = append(fails, failure{"delete-not-atomic", fmt.Sprintf("channel %d shows %d of the durable samples in the in-flight delete range and misses %d", key, inRangePresent, inRangeAbsent)})
		}
		// (c) per writer session: recovered samples are a commit-granular prefix
		for _, sl := range sessions {
			has := false
			for _, ck := range sl.Chans {
				if ck == key {
					has = true
				}
			}
			if !has {
				continue
			}
			// stamps of this session not touched by any delete issued so far
			var f []int64
			var bcount []int // filtered length at each boundary
			bi := 0
			for i, t := range sl.Stamps {
				for bi < len(sl.Boundaries) && sl.Boundaries[bi] == i {
					bcount = append(bcount, len(f))
					bi++
				}
				if !deletedUpTo(s, key, t, nextIdx) {
					f = append(f, t)
				}
			}
			for bi < len(sl.Boundaries) {
				bcount = append(bcount, len(f))
				bi++
			}
			j := 0
			for j < len(f) && gotSet[cskit.Stamp{TS: f[j], Gen: sl.Gen}] {
				j++
			}
			for i := j; i < len(f); i++ {
				if gotSet[cskit.Stamp{TS: f[i], Gen: sl.Gen}] {
					fails = append(fails, failure{"non-prefix", fmt.Sprintf("channel %d session gen=%d: sample %d (ts=%d) recovered although sample %d (ts=%d) is missing", key, sl.Gen, i, f[i], j, f[j])})
					i = len(f)
				}
			}
			okB := j == 0
			for _, b := range bcount {
				if b == j {
					okB = true
				}
			}
			if !okB {
				fails = append(fails, failure{"mid-commit", fmt.Sprintf("channel %d session gen=%d: %d samples recovered, not a commit boundary %v", key, sl.Gen, j, bcount)})
			}
		}
		// alignment: sub-range reads must return exactly the samples of the full read
		// that lie in the range
		if len(got) >= 2 {
			for _, pr := range [][2]int{{0, len(got) / 2}, {len(got) / 2, len(got) - 1}, {len(got) / 3, 2 * len(got) / 3}} {
				a, b := got[pr[0]].TS, got[pr[1]].TS
				if b <= a {
					continue
				}
				sub, err := db.Read(ctx, telem.TimeRange{Start: telem.TimeStamp(a), End: telem.TimeStamp(b)}, key)
				if err != nil {
					fails = append(fails, failure{"read-error", fmt.Sprintf("range read of channel %d failed: %s", key, trim(err.Error()))})
					break
				}
				var want [][]byte
				for _, g := range got {
					if g.TS >= a && g.TS < b {
						for v, st := range allowed {
							if st == g {
								want = append(want, []byte(v))
							}
						}
					}
				}
				var have [][]byte
				for _, ser := range sub.Get(key).Series {
					have = append(have, cskit.SplitSeries(ser)...)
				}
				same := len(want) == len(have)
				for i := 0; same && i < len(want); i++ {
					same = bytes.Equal(want[i], have[i])
				}
				if !same {
					fails = append(fails, failure{"misaligned", fmt.Sprintf("channel %d: range read [%d,%d) returned %d samples, the full read places %d there", key, a, b, len(have), len(want))})
					break
				}
			}
		}
	}
	return fails, nonTrivial
}

// deletedUpTo reports whether (key, ts) lies in the range of a delete op with index <= upTo.
func deletedUpTo(s *cskit.Script, key uint32, ts int64, upTo int) bool {
	for i, o := range s.Ops {
		if i > upTo {
			break
		}
		if o.Kind != "delete" || ts < o.A || ts >= o.B {
			continue
		}
		for _, c := range o.Chans {
			if c == key {
				return true
			}
		}
	}
	return false
}

func trim(s string) string {
	s = numRe.ReplaceAllString(s, "N")
	if len(s) > 140 {
		return s[:140]
	}
	return s
}
