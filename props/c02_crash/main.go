// C02 — Cesium survives a crash at any point with consistent, durable data.
//
// Fault enumeration over a recorded log: every script is run once on a recording
// filesystem; every prefix of the filesystem mutations it issued (plus torn variants of a
// final write) is rebuilt as a fresh in-memory image — the property's own process-crash
// model — and cesium.Open + reads on that image are judged by the recovery oracle.
//
// Violation signatures: c02:<failure class>:<idx|data>:<unfinished update>@<own|index|->
// (c02:open-error:-:<unfinished updates>@any when the database does not open). They name
// what the oracle observed, the role of the channel that failed and the *state of the
// on-disk image* at the crash point, derived from the recorded calls alone: which
// multi-step update of the failing channel's directory (own) or of its index channel's
// directory (index) had begun but not finished (see dirStates, rootState), or
// ahead-of-index when no update is unfinished but the data channel's stored domains extend
// past its index channel's. The state — not the operation that happened to be in flight
// or the neighbouring calls of other channels, which depend on goroutine and map order —
// identifies a root cause, and it is a small closed vocabulary. clean@- means no
// unfinished update explains the failure. The witness keeps the window (op in flight,
// last and next call) and the full directory states.
package main

import (
	"bytes"
	"context"
	"encoding/binary"
	"fmt"
	"os"
	"path"
	"regexp"
	"sort"
	"strings"
	"sync"
	"time"

	"github.com/synnaxlabs/cesium"
	xfs "github.com/synnaxlabs/x/io/fs"
	"github.com/synnaxlabs/x/telem"
	"verif/lib/cskit"
	"verif/lib/harness"
	"verif/lib/recfs"
)

func main() {
	if p := os.Getenv("C02_DUMP"); p != "" {
		dumpMain(p)
		return
	}
	if p := os.Getenv("C02_MIN"); p != "" {
		minimizeMain(p)
		return
	}
	harness.Main("C02", "fault_enumeration",
		harness.Layer{Name: "writes", Run: func(h *harness.H) { run(h, "writes", h.N(30, 1200), false) }},
		harness.Layer{Name: "maint", Run: func(h *harness.H) { run(h, "maint", h.N(30, 1200), true) }},
	)
}

var uniqueTypes = []string{"int64", "uint64", "float64", "timestamp", "uuid", "json"}

// readWatchdog bounds one read of a recovered image (in-memory, a few hundred samples).
// It is a watchdog, not an oracle: a read that does not return is counted inconclusive
// (reason read-hang) and its witness is written next to the replays.
var readWatchdog = func() time.Duration {
	if v, err := time.ParseDuration(os.Getenv("C02_WATCHDOG")); err == nil && v > 0 {
		return v // triage only
	}
	return 90 * time.Second
}()

type snapshot struct {
	durable *cskit.Model
	ever    map[uint32]map[string]cskit.Stamp
	created map[uint32]bool
	tomb    map[uint32]map[string]bool // values removed by deletes that had returned
}

func cloneTomb(t map[uint32]map[string]bool) map[uint32]map[string]bool {
	out := make(map[uint32]map[string]bool, len(t))
	for k, m := range t {
		c := make(map[string]bool, len(m))
		for v := range m {
			c[v] = true
		}
		out[k] = c
	}
	return out
}

type witness struct {
	Script   *cskit.Script     `json:"script"`
	Prefix   int               `json:"mutations_applied"`
	Torn     int               `json:"torn_bytes"`
	Total    int               `json:"mutations_total"`
	InFlight string            `json:"op_in_flight"`
	OpIndex  int               `json:"op_index"`
	Channel  uint32            `json:"channel,omitempty"`
	States   map[string]string `json:"directory_states"`
	Window   string            `json:"window"`
	Last     []recfs.Mutation  `json:"last_mutations"`
	Next     *recfs.Mutation   `json:"next_mutation,omitempty"`
	Detail   string            `json:"detail"`
}

func run(h *harness.H, layer string, n int, maint bool) {
	h.AddRule(layer + ": cskit scripts (unique-valued types only) run on a recording MemFS; crash points = every prefix of the recorded mutation log (mkdir/create/trunc/writeat/rename/remove) + torn variants (first half, first byte) of a final write; a crash point is non-trivial if the image holds >=1 channel with >=1 sample; distinct by (script shape, prefix length, torn)")
	h.Assume("process-crash model of the property: completed filesystem calls survive in call-return order, nothing else; rename/remove atomic as MemFS implements them")
	h.Assume("durable = commits acknowledged under always-persist auto-commit, explicit commits with auto-commit off, and everything committed by a writer whose Close returned; all other written data is 'maybe' (either outcome admissible)")
	h.Assume("scripts whose uncrashed run already disagrees with the C01/C04 read oracle are excluded (counted) so that only crash-specific behaviour is judged")
	var wg sync.WaitGroup
	work := make(chan int, 64)
	for w := 0; w < 14; w++ {
		wg.Add(1)
		go func() {
			defer wg.Done()
			for c := range work {
				one(h, layer, c, maint)
			}
		}()
	}
	for c := 0; c < n; c++ {
		if !h.Skip(layer, c) {
			work <- c
		}
	}
	close(work)
	wg.Wait()
}

func cloneEver(e map[uint32]map[string]cskit.Stamp) map[uint32]map[string]cskit.Stamp {
	out := make(map[uint32]map[string]cskit.Stamp, len(e))
	for k, m := range e {
		c := make(map[string]cskit.Stamp, len(m))
		for v, s := range m {
			c[v] = s
		}
		out[k] = c
	}
	return out
}

var numRe = regexp.MustCompile(`[0-9]+`)

// chanOfPath returns the channel key of a path under db/<key>/...
func chanOfPath(p string) (uint32, bool) {
	parts := strings.Split(p, "/")
	if len(parts) >= 2 {
		var key uint32
		if _, err := fmt.Sscanf(parts[1], "%d", &key); err == nil && fmt.Sprint(key) == parts[1] {
			return key, true
		}
	}
	return 0, false
}

func isIndexChan(s *cskit.Script, key uint32) bool {
	for _, g := range s.Groups {
		if g.Index.Key == key {
			return true
		}
	}
	return false
}

func indexOf(s *cskit.Script, key uint32) uint32 {
	for _, g := range s.Groups {
		if g.Index.Key == key {
			return key
		}
		for _, d := range g.Data {
			if d.Key == key {
				return g.Index.Key
			}
		}
	}
	return 0
}

// fileClass normalises a path to <file class>(<channel role>): e.g. index.domain(idx),
// N.domain(data), meta.json(data), N(idx) for a channel directory.
func fileClass(s *cskit.Script, p string) string {
	b := path.Base(p)
	role := ""
	if key, ok := chanOfPath(p); ok {
		role = "(data)"
		if isIndexChan(s, key) {
			role = "(idx)"
		}
	}
	if strings.Contains(b, "-DELETE-") {
		return "deleted-dir" + role
	}
	return numRe.ReplaceAllString(b, "N") + role
}

// dirStates derives, for every channel directory, which multi-step update had begun but
// not finished in the image muts[:k] (last write cut to torn bytes when torn >= 0). The
// vocabulary, joined by '+', "clean" when empty:
//
//	no-meta          the directory exists, meta.json has not been renamed into place
//	idx-trunc        index.domain was truncated for a rewrite; the rewrite (the next call on
//	                 this directory) has not happened
//	idx-torn         the rewrite of index.domain is the torn final write
//	gc-copy          a N.domain_gc compaction copy is being written; nothing swapped yet
//	gc-file-missing  N.domain was renamed to N.domain_temp; the copy is not yet in its place
//	gc-swapped       a compacted copy replaced N.domain; index.domain has not been rewritten
//	                 since (it still holds the offsets of the old file)
func dirStates(muts []recfs.Mutation, k, torn int) map[uint32]string {
	type st struct {
		hasDir, hasMeta   bool
		idxTrunc, idxTorn bool
		copying           bool
		missing           map[string]bool
		swapped           bool
	}
	states := map[uint32]*st{}
	get := func(key uint32) *st {
		if states[key] == nil {
			states[key] = &st{missing: map[string]bool{}}
		}
		return states[key]
	}
	// nextInDir returns the next non-marker mutation (in the whole log) of the same directory
	nextInDir := func(from int, key uint32) *recfs.Mutation {
		for j := from; j < len(muts); j++ {
			if muts[j].Kind == recfs.Marker {
				continue
			}
			if kk, ok := chanOfPath(muts[j].Path); ok && kk == key {
				return &muts[j]
			}
		}
		return nil
	}
	for i := 0; i < k; i++ {
		m := muts[i]
		if m.Kind == recfs.Marker {
			continue
		}
		key, ok := chanOfPath(m.Path)
		if !ok {
			continue
		}
		d := get(key)
		base := path.Base(m.Path)
		last := i == k-1
		switch {
		case m.Kind == recfs.Mkdir && base == fmt.Sprint(key):
			d.hasDir = true
		case m.Kind == recfs.Rename && path.Base(m.To) == "meta.json":
			d.hasMeta = true
		case base == "index.domain" && m.Kind == recfs.Trunc:
			// a truncate is half of a rewrite only if the rewrite follows
			d.idxTrunc = false
			if n := nextInDir(i+1, key); n != nil && n.Kind == recfs.WriteAt && path.Base(n.Path) == "index.domain" {
				d.idxTrunc = true
			}
		case base == "index.domain" && m.Kind == recfs.WriteAt:
			d.idxTrunc = false
			if last && torn >= 0 && torn < len(m.Data) {
				d.idxTorn = true
			} else {
				d.swapped = false
			}
		case strings.HasSuffix(base, ".domain_gc") && (m.Kind == recfs.Create || m.Kind == recfs.WriteAt):
			d.copying = true
		case m.Kind == recfs.Rename && strings.HasSuffix(path.Base(m.To), ".domain_temp"):
			d.missing[base] = true
		case m.Kind == recfs.Rename && strings.HasSuffix(base, ".domain_gc"):
			delete(d.missing, path.Base(m.To))
			d.swapped = true
			d.copying = false
		}
	}
	out := map[uint32]string{}
	for key, d := range states {
		var f []string
		if d.hasDir && !d.hasMeta {
			f = append(f, "no-meta")
		}
		if len(d.missing) > 0 {
			f = append(f, "gc-file-missing")
		}
		if d.swapped {
			f = append(f, "gc-swapped")
		}
		if d.copying && len(d.missing) == 0 && !d.swapped {
			f = append(f, "gc-copy")
		}
		if d.idxTorn {
			f = append(f, "idx-torn")
		}
		if d.idxTrunc {
			f = append(f, "idx-trunc")
		}
		if len(f) == 0 {
			out[key] = "clean"
		} else {
			out[key] = strings.Join(f, "+")
		}
	}
	return out
}

// rootState collapses a directory state to the update whose interruption explains it:
// once a data file has been moved or swapped by garbage collection, whether the index
// rewrite that ends the collection had also begun does not matter.
func rootState(st string) string {
	switch {
	case st == "":
		return "clean"
	case strings.Contains(st, "no-meta"):
		return "no-meta"
	case strings.Contains(st, "gc-file-missing"):
		return "gc-file-missing"
	case strings.Contains(st, "gc-swapped"):
		return "gc-swapped"
	}
	return st
}

// recording is one script run on the recording filesystem.
type recording struct {
	s        *cskit.Script
	muts     []recfs.Mutation
	snaps    map[int]*snapshot // marker idx -> state after that op
	final    *snapshot
	sessions map[int]*cskit.SessionLog
	stopped  bool
	inner    xfs.FS // the filesystem the recorded run actually wrote to
	// firstTagged: index of the first delete whose input has the precondition of one of
	// C04's open findings (R6/R7: a refused or range-snapping index delete leaves a
	// dependant unreadable WITHOUT any crash); -1 when there is none. From that operation
	// on the stored state may disagree with the model for a reason that is C04's finding,
	// so crash points there are not judged by this property.
	firstTagged int
}

func record(s *cskit.Script) *recording {
	rfs, log := recfs.New(xfs.NewMem())
	e := cskit.NewExec(rfs, s)
	// one channel at a time during garbage collection: the recorded log then holds each
	// channel's compaction as one contiguous block (channel order is still map order)
	e.ExtraOptions = []cesium.Option{cesium.WithGCConfig(cesium.GCConfig{Threshold: s.GCThreshold, TryInterval: 24 * time.Hour, MaxGoroutine: 1})}
	rec := &recording{s: s, snaps: map[int]*snapshot{}, inner: rfs.Inner(), firstTagged: -1}
	created := map[uint32]bool{}
	chanIdx := -1000
	copyCreated := func() map[uint32]bool {
		cr := map[uint32]bool{}
		for k := range created {
			cr[k] = true
		}
		return cr
	}
	e.OnChannelCreated = func(cs cskit.ChanSpec) {
		created[cs.Key] = true
		rec.snaps[chanIdx] = &snapshot{durable: e.Durable.Clone(), ever: cloneEver(e.Ever), created: copyCreated()}
		log.Mark(chanIdx, "channel-created")
		chanIdx++
	}
	e.AfterOp = func(i int, op cskit.Op, ex *cskit.Exec) {
		rec.snaps[i] = &snapshot{durable: ex.Durable.Clone(), ever: cloneEver(ex.Ever), created: copyCreated()}
		if rec.firstTagged < 0 && ex.DeleteTags != "" {
			rec.firstTagged = i
		}
		log.Mark(i, op.Kind)
	}
	if err := e.Setup(); err != nil {
		return nil
	}
	e.Run()
	e.CloseWriters()
	rec.stopped = e.UnexpectedErr != ""
	_ = e.DB.Close()
	log.Mark(len(s.Ops), "db-closed")
	rec.final = &snapshot{durable: e.Durable.Clone(), ever: cloneEver(e.Ever), created: created}
	rec.snaps[len(s.Ops)] = rec.final
	rec.muts = log.Snapshot()
	rec.sessions = e.Sessions
	return rec
}

type verdict struct {
	fails      []failure
	nonTrivial bool
	hung       bool
	nextIdx    int
	nextNote   string
	states     map[uint32]string
}

// evaluate judges the crash point "after mutation k (1-based), last write cut to torn
// bytes" of a recording. muts[k-1] must not be a marker.
func evaluate(rec *recording, k, torn int) verdict {
	s, muts := rec.s, rec.muts
	prev := &snapshot{durable: cskit.NewModel(), ever: map[uint32]map[string]cskit.Stamp{}, created: map[uint32]bool{}, tomb: map[uint32]map[string]bool{}}
	for j := k - 1; j >= 0; j-- {
		if muts[j].Kind == recfs.Marker {
			prev = rec.snaps[muts[j].Idx]
			break
		}
	}
	// the op in flight is the one whose marker comes next
	nextIdx, nextNote := len(s.Ops), "db-closed"
	for j := k; j < len(muts); j++ {
		if muts[j].Kind == recfs.Marker {
			nextIdx, nextNote = muts[j].Idx, muts[j].Note
			break
		}
	}
	after := rec.snaps[nextIdx]
	if after == nil {
		after = rec.final
	}
	var inflight *cskit.Op
	if nextIdx >= 0 && nextIdx < len(s.Ops) {
		inflight = &s.Ops[nextIdx]
	}
	v := verdict{nextIdx: nextIdx, nextNote: nextNote, states: dirStates(muts, k, torn)}
	v.fails, v.nonTrivial, v.hung = judge(s, muts, k, torn, prev, after, inflight, rec.sessions, nextIdx)
	// attach the image state to every failure: <role>:<unfinished update>@<where>
	for i := range v.fails {
		f := &v.fails[i]
		if f.key == 0 {
			// not attributable to one channel (open failed): every unfinished update counts
			set := map[string]bool{}
			for _, st := range v.states {
				if st != "clean" {
					set[rootState(st)] = true
				}
			}
			var fl []string
			for x := range set {
				fl = append(fl, x)
			}
			sort.Strings(fl)
			if len(fl) == 0 {
				fl = []string{"clean"}
			}
			f.state = "-:" + strings.Join(fl, "+") + "@any"
			continue
		}
		own := rootState(v.states[f.key])
		role, idxState := "data", "clean"
		if isIndexChan(s, f.key) {
			role = "idx"
		} else if ik := indexOf(s, f.key); ik != 0 {
			idxState = rootState(v.states[ik])
		}
		harmful := func(st string) bool { return st != "clean" && st != "gc-copy" }
		switch {
		case harmful(own):
			f.state = role + ":" + own + "@own"
		case harmful(idxState):
			f.state = role + ":" + idxState + "@index"
		case f.ahead:
			// the skew between a data channel and its index channel is a cause of its own
			// only when no update of either directory is unfinished (a torn pointer is
			// ahead of anything)
			f.state = role + ":ahead-of-index@own"
		case own != "clean":
			f.state = role + ":" + own + "@own"
		case idxState != "clean":
			f.state = role + ":" + idxState + "@index"
		default:
			f.state = role + ":clean@-"
		}
	}
	return v
}

func one(h *harness.H, layer string, c int, maint bool) {
	r := h.Rand(layer, c)
	o := cskit.DefaultGen()
	o.Types = uniqueTypes
	o.MaxSessions = 4
	o.MaxData = 3
	o.MaxChunks = 4
	o.Reads = false
	o.Reopen = true
	o.FileSizes = []int64{1, 8, 64, 200, 1 << 30}
	if maint {
		o.Deletes, o.GC, o.GapRewrite = true, true, true
	}
	s := cskit.Gen(r, o)

	// 1. uncrashed reference run on a plain MemFS with the full read oracle
	_, pre := cskit.RunScript(s, cskit.RunOpts{CheckGC: true, FinalReads: 6, FinalSeed: 99, Prefix: "pre"})
	if len(pre) > 0 {
		// A script whose live run already disagrees with the read oracle belongs to C01/C04.
		// When the live run agrees in full and only the state found after a clean Close and
		// reopen differs, the loss happened between memory and disk: that is this property's
		// last crash point (power lost right after Close returned).
		onlyReopen := true
		classes := map[string]bool{}
		for _, f := range pre {
			switch {
			case f.Sig == "pre:reopen-failed":
				classes["reopen-failed"] = true
			case f.Mismatch != nil && f.Mismatch.Reopened:
				classes[f.Mismatch.Class] = true
			default:
				onlyReopen = false
			}
		}
		if onlyReopen {
			h.Eval()
			var cl []string
			for k := range classes {
				cl = append(cl, k)
			}
			sort.Strings(cl)
			h.Violation(layer, c, "c02:after-clean-close:"+strings.Join(cl, "+"),
				"the uncrashed run agrees with the model while the DB is open, but after Close and reopen reads differ: "+pre[0].What,
				map[string]any{"script": s, "findings": pre})
			return
		}
		h.Count("scripts_excluded_uncrashed_oracle_disagrees", 1)
		return
	}

	// 2. recorded run with markers
	rec := record(s)
	if rec == nil {
		h.Inconclusive("setup-error")
		return
	}
	if rec.stopped {
		h.Count("scripts_stopped_by_engine_error", 1)
		return
	}
	muts := rec.muts
	h.Count("scripts_enumerated", 1)
	h.Count("mutations_recorded", len(muts))
	// self-check of the crash model's replay: the image rebuilt from the whole log must be
	// byte-identical to the filesystem the recorded run wrote to (append-mode writes,
	// truncate-and-rewrite, renames over existing files, recursive removes)
	if full, err := recfs.Image(muts, len(muts), -1); err != nil {
		h.Violation(layer, c, "c02:harness-image:-:replay-error@any", err.Error(), map[string]any{"script": s})
	} else if d := treeDiff(rec.inner, full, "db"); d != "" {
		h.Violation(layer, c, "c02:harness-image:-:replay-differs@any", d, map[string]any{"script": s})
	} else {
		h.Count("image_replays_identical_to_recorded_fs", 1)
	}

	// 3. enumerate crash points
	prevIdx := -2000
	shape := s.Shape()
	sampled := false
	for k := 1; k <= len(muts); k++ {
		m := muts[k-1]
		if m.Kind == recfs.Marker {
			prevIdx = m.Idx
			continue
		}
		torns := []int{-1}
		if m.Kind == recfs.WriteAt && len(m.Data) >= 2 {
			torns = append(torns, len(m.Data)/2, 1)
		}
		if rec.firstTagged >= 0 {
			inFlight := len(s.Ops)
			for j := k; j < len(muts); j++ {
				if muts[j].Kind == recfs.Marker {
					inFlight = muts[j].Idx
					break
				}
			}
			if inFlight >= rec.firstTagged {
				h.Count("crash_points_not_judged_after_a_delete_with_a_c04_known_finding_precondition", len(torns))
				continue
			}
		}
		for _, torn := range torns {
			h.Eval()
			h.Count("crash_images", 1)
			v := evaluate(rec, k, torn)
			if v.nonTrivial {
				h.Distinct(fmt.Sprintf("%s|%d|%d", shape, k, torn))
			}
			tornS := "whole"
			if torn >= 0 {
				tornS = "torn"
			}
			nextKind := "end"
			var nextMut *recfs.Mutation
			for j := k; j < len(muts); j++ {
				if muts[j].Kind != recfs.Marker {
					nextKind = string(muts[j].Kind) + "@" + fileClass(s, muts[j].Path)
					nm := muts[j]
					if len(nm.Data) > 64 {
						nm.Data = nm.Data[:64]
					}
					nextMut = &nm
					break
				}
			}
			window := fmt.Sprintf("%s:%s@%s:%s:then-%s", v.nextNote, m.Kind, fileClass(s, m.Path), tornS, nextKind)
			lo := k - 3
			if lo < 0 {
				lo = 0
			}
			last := append([]recfs.Mutation(nil), muts[lo:k]...)
			for i := range last {
				if len(last[i].Data) > 64 {
					last[i].Data = last[i].Data[:64]
				}
			}
			states := map[string]string{}
			for key, st := range v.states {
				states[fmt.Sprint(key)] = st
			}
			for _, f := range v.fails {
				w := witness{Script: s, Prefix: k, Torn: torn, Total: len(muts), InFlight: v.nextNote, OpIndex: v.nextIdx, Channel: f.key, States: states, Window: window, Last: last, Next: nextMut, Detail: f.detail}
				if f.class == "read-hang" {
					// watchdog, not a verdict
					h.Inconclusive("read-hang:" + f.state)
					h.Count("read_hang_witnesses", 1)
					writeHangWitness(layer, c, f, w)
					continue
				}
				sig := fmt.Sprintf("c02:%s:%s", f.class, f.state)
				h.Violation(layer, c, sig, f.detail, w)
				h.Seen("windows", f.class+"|"+window)
			}
			if !sampled && v.nonTrivial && k > len(muts)/2 {
				sampled = true
				h.Sample(map[string]any{"case": c, "layer": layer, "mutations_total": len(muts), "crash_after_mutation": k, "torn": torn, "op_in_flight": v.nextNote, "mutation": map[string]any{"kind": m.Kind, "path": m.Path, "off": m.Off, "len": len(m.Data)}, "after_completed_op": prevIdx})
			}
		}
	}
}

type failure struct {
	class, detail string
	key           uint32 // failing channel (0: not attributable to one channel)
	ahead         bool   // the channel's stored domains extend past those of its index channel (see domainsAhead)
	state         string // filled by evaluate
}

type readResult struct {
	fr  cesium.Frame
	err error
}

// readTO performs db.Read under the watchdog. hung=true: the call did not return.
func readTO(db *cesium.DB, tr telem.TimeRange, key uint32) (fr cesium.Frame, err error, hung bool) {
	ch := make(chan readResult, 1)
	go func() {
		defer func() {
			if r := recover(); r != nil {
				ch <- readResult{err: fmt.Errorf("panic in read: %v", r)}
			}
		}()
		f, e := db.Read(context.Background(), tr, key)
		ch <- readResult{fr: f, err: e}
	}()
	select {
	case r := <-ch:
		return r.fr, r.err, false
	case <-time.After(readWatchdog):
		return cesium.Frame{}, nil, true
	}
}

func judge(s *cskit.Script, muts []recfs.Mutation, k, torn int, prev, after *snapshot, inflight *cskit.Op, sessions map[int]*cskit.SessionLog, nextIdx int) (fails []failure, nonTrivial bool, hung bool) {
	img, err := recfs.Image(muts, k, torn)
	if err != nil {
		return []failure{{class: "harness-image", detail: err.Error()}}, false, false
	}
	ctx := context.Background()
	db, err := cesium.Open(ctx, "db", cesium.WithFS(img), cesium.WithFileSizeCap(telem.Size(s.FileSize)),
		cesium.WithGCConfig(cesium.GCConfig{Threshold: s.GCThreshold, TryInterval: 24 * time.Hour}))
	if err != nil {
		return []failure{{class: "open-error", detail: "cesium.Open on the crash image failed: " + trim(err.Error())}}, false, false
	}
	defer func() {
		if !hung { // a DB with a stuck iterator cannot be closed; it is abandoned
			_ = db.Close()
		}
	}()
	delChans := map[uint32]bool{}
	if inflight != nil && inflight.Kind == "delete" {
		for _, c := range inflight.Chans {
			delChans[c] = true
		}
	}
	keys := make([]uint32, 0, len(prev.created))
	for key := range prev.created {
		keys = append(keys, key)
	}
	sort.Slice(keys, func(i, j int) bool { return keys[i] < keys[j] })

	// pass 1: full read of every channel
	type chanRead struct {
		got    []cskit.Stamp
		gotSet map[cskit.Stamp]bool
		gotTS  map[int64]bool
		ok     bool
	}
	reads := map[uint32]*chanRead{}
	for _, key := range keys {
		cr := &chanRead{gotSet: map[cskit.Stamp]bool{}, gotTS: map[int64]bool{}}
		reads[key] = cr
		fr, err, h := readTO(db, telem.TimeRangeMax, key)
		if h {
			hung = true
			fails = append(fails, failure{class: "read-hang", key: key, detail: fmt.Sprintf("full read of channel %d did not return within %s", key, readWatchdog)})
			return fails, nonTrivial, hung
		}
		if err != nil {
			fails = append(fails, failure{class: "read-error", key: key, detail: fmt.Sprintf("full read of channel %d failed: %s", key, trim(err.Error()))})
			continue
		}
		allowed := after.ever[key]
		bad := false
		for _, ser := range fr.Get(key).Series {
			for _, v := range cskit.SplitSeries(ser) {
				st, ok := allowed[string(v)]
				if !ok {
					fails = append(fails, failure{class: "foreign-bytes", key: key, detail: fmt.Sprintf("channel %d returned a value never written for it: %x", key, v)})
					bad = true
					break
				}
				// a completed (returned) delete is persisted when it returns: what it removed
				// must not come back after a crash at any later instant
				if prev.tomb[key][string(v)] {
					fails = append(fails, failure{class: "deleted-data-resurrected", key: key, detail: fmt.Sprintf("channel %d returned ts=%d, which a DeleteTimeRange that had returned before the crash point removed", key, st.TS)})
					bad = true
					break
				}
				cr.got = append(cr.got, st)
				if cr.gotSet[st] {
					fails = append(fails, failure{class: "duplicate", key: key, detail: fmt.Sprintf("channel %d returned ts=%d twice", key, st.TS)})
					bad = true
				}
				cr.gotSet[st] = true
				cr.gotTS[st.TS] = true
			}
			if bad {
				break
			}
		}
		cr.ok = !bad
	}
	for i := range fails {
		if ik := indexOf(s, fails[i].key); fails[i].key != 0 && ik != 0 && ik != fails[i].key {
			fails[i].ahead = domainsAhead(img, fails[i].key, ik)
		}
	}

	// pass 2: judge every channel that read back cleanly
	for _, key := range keys {
		cr := reads[key]
		if !cr.ok {
			continue
		}
		got, gotSet, gotTS := cr.got, cr.gotSet, cr.gotTS
		allowed := after.ever[key]
		first := len(fails)
		if len(got) > 0 {
			nonTrivial = true
		}
		for i := 1; i < len(got); i++ {
			if got[i].TS <= got[i-1].TS {
				fails = append(fails, failure{class: "disorder", key: key, detail: fmt.Sprintf("channel %d: ts %d returned after %d", key, got[i].TS, got[i-1].TS)})
				break
			}
		}
		// (a) durable data intact (an in-flight delete makes the range optional but atomic)
		inRangePresent, inRangeAbsent := 0, 0
		for _, d := range prev.durable.All(key) {
			if delChans[key] && d.TS >= inflight.A && d.TS < inflight.B {
				if gotTS[d.TS] {
					inRangePresent++
				} else {
					inRangeAbsent++
				}
				continue
			}
			st, ok := allowed[string(d.Val)]
			if !ok || !gotSet[st] {
				fails = append(fails, failure{class: "lost-durable", key: key, detail: fmt.Sprintf("channel %d lost durable sample ts=%d (commit had completed with index persistence before the crash point)", key, d.TS)})
				break
			}
		}
		if inRangePresent > 0 && inRangeAbsent > 0 {
			fails = append(fails, failure{class: "delete-not-atomic", key: key, detail: fmt.Sprintf("channel %d shows %d of the durable samples in the in-flight delete range and misses %d", key, inRangePresent, inRangeAbsent)})
		}
		// (c) per writer session: recovered samples are a commit-granular prefix
		for _, sl := range sessions {
			has := false
			for _, ck := range sl.Chans {
				if ck == key {
					has = true
				}
			}
			if !has {
				continue
			}
			// stamps of this session not touched by any delete issued so far
			var f []int64
			var bcount []int // filtered length at each boundary
			bi := 0
			for i, t := range sl.Stamps {
				for bi < len(sl.Boundaries) && sl.Boundaries[bi] == i {
					bcount = append(bcount, len(f))
					bi++
				}
				if !deletedUpTo(s, key, t, nextIdx) {
					f = append(f, t)
				}
			}
			for bi < len(sl.Boundaries) {
				bcount = append(bcount, len(f))
				bi++
			}
			j := 0
			for j < len(f) && gotSet[cskit.Stamp{TS: f[j], Gen: sl.Gen}] {
				j++
			}
			for i := j; i < len(f); i++ {
				if gotSet[cskit.Stamp{TS: f[i], Gen: sl.Gen}] {
					fails = append(fails, failure{class: "non-prefix", key: key, detail: fmt.Sprintf("channel %d session gen=%d: sample %d (ts=%d) recovered although sample %d (ts=%d) is missing", key, sl.Gen, i, f[i], j, f[j])})
					i = len(f)
				}
			}
			okB := j == 0
			for _, b := range bcount {
				if b == j {
					okB = true
				}
			}
			if !okB {
				fails = append(fails, failure{class: "mid-commit", key: key, detail: fmt.Sprintf("channel %d session gen=%d: %d samples recovered, not a commit boundary %v", key, sl.Gen, j, bcount)})
			}
		}
		// alignment: sub-range reads must return exactly the samples of the full read
		// that lie in the range
		if len(got) >= 2 {
			for _, pr := range [][2]int{{0, len(got) / 2}, {len(got) / 2, len(got) - 1}, {len(got) / 3, 2 * len(got) / 3}} {
				a, b := got[pr[0]].TS, got[pr[1]].TS
				if b <= a {
					continue
				}
				sub, err, h := readTO(db, telem.TimeRange{Start: telem.TimeStamp(a), End: telem.TimeStamp(b)}, key)
				if h {
					hung = true
					fails = append(fails, failure{class: "read-hang", key: key, detail: fmt.Sprintf("range read [%d,%d) of channel %d did not return within %s", a, b, key, readWatchdog)})
					break
				}
				if err != nil {
					fails = append(fails, failure{class: "read-error", key: key, detail: fmt.Sprintf("range read of channel %d failed: %s", key, trim(err.Error()))})
					break
				}
				var want [][]byte
				for _, g := range got {
					if g.TS >= a && g.TS < b {
						for v, st := range allowed {
							if st == g {
								want = append(want, []byte(v))
							}
						}
					}
				}
				var have [][]byte
				for _, ser := range sub.Get(key).Series {
					have = append(have, cskit.SplitSeries(ser)...)
				}
				same := len(want) == len(have)
				for i := 0; same && i < len(want); i++ {
					same = bytes.Equal(want[i], have[i])
				}
				if !same {
					fails = append(fails, failure{class: "misaligned", key: key, detail: fmt.Sprintf("channel %d: range read [%d,%d) returned %d samples, the full read places %d there", key, a, b, len(have), len(want))})
					break
				}
			}
		}
		// image-state descriptor (never a verdict of its own)
		if ik := indexOf(s, key); ik != 0 && ik != key && len(fails) > first && domainsAhead(img, key, ik) {
			for i := first; i < len(fails); i++ {
				fails[i].ahead = true
			}
		}
		if hung {
			return fails, nonTrivial, hung
		}
	}
	return fails, nonTrivial, hung
}

// storedDomains decodes the time ranges of the domain pointers in a channel's index.domain
// (26-byte records: start, end, file, offset, size; a trailing partial record is ignored,
// as the engine does). Used only to describe the image in signatures.
func storedDomains(img xfs.FS, key uint32) [][2]int64 {
	b := readAll(img, fmt.Sprintf("db/%d/index.domain", key))
	var out [][2]int64
	for i := 0; i+26 <= len(b); i += 26 {
		out = append(out, [2]int64{int64(binary.LittleEndian.Uint64(b[i:])), int64(binary.LittleEndian.Uint64(b[i+8:]))})
	}
	return out
}

// domainsAhead reports whether data channel key stores a domain that no stored domain of
// its index channel ik covers: the data channel's commit reached the disk, the index
// channel's did not.
func domainsAhead(img xfs.FS, key, ik uint32) bool {
	idx := storedDomains(img, ik)
	sort.Slice(idx, func(i, j int) bool { return idx[i][0] < idx[j][0] })
	// channels roll over to a new file independently, so one data domain may span several
	// contiguous index domains: merge those
	var merged [][2]int64
	for _, x := range idx {
		if n := len(merged); n > 0 && x[0] <= merged[n-1][1] {
			if x[1] > merged[n-1][1] {
				merged[n-1][1] = x[1]
			}
			continue
		}
		merged = append(merged, x)
	}
	for _, d := range storedDomains(img, key) {
		covered := false
		for _, x := range merged {
			if x[0] <= d[0] && d[1] <= x[1] {
				covered = true
				break
			}
		}
		if !covered {
			return true
		}
	}
	return false
}

// treeDiff compares two filesystems below dir (names, kinds, file contents); "" when equal.
func treeDiff(a, b xfs.FS, dir string) string {
	la, errA := a.List(dir)
	lb, errB := b.List(dir)
	if errA != nil || errB != nil {
		return fmt.Sprintf("list %s: %v / %v", dir, errA, errB)
	}
	if len(la) != len(lb) {
		return fmt.Sprintf("%s: %d entries recorded, %d replayed", dir, len(la), len(lb))
	}
	for i := range la {
		if la[i].Name() != lb[i].Name() || la[i].IsDir() != lb[i].IsDir() {
			return fmt.Sprintf("%s: entry %q recorded, %q replayed", dir, la[i].Name(), lb[i].Name())
		}
		p := dir + "/" + la[i].Name()
		if la[i].IsDir() {
			if d := treeDiff(a, b, p); d != "" {
				return d
			}
			continue
		}
		ba, bb := readAll(a, p), readAll(b, p)
		if !bytes.Equal(ba, bb) {
			return fmt.Sprintf("%s: %d bytes recorded, %d replayed, contents differ", p, len(ba), len(bb))
		}
	}
	return ""
}

func readAll(fs xfs.FS, p string) []byte {
	st, err := fs.Stat(p)
	if err != nil || st.Size() == 0 {
		return nil
	}
	f, err := fs.Open(p, os.O_RDONLY)
	if err != nil {
		return nil
	}
	defer func() { _ = f.Close() }()
	b := make([]byte, st.Size())
	_, _ = f.ReadAt(b, 0)
	return b
}

// deletedUpTo reports whether (key, ts) lies in the range of a delete op with index <= upTo.
func deletedUpTo(s *cskit.Script, key uint32, ts int64, upTo int) bool {
	for i, o := range s.Ops {
		if i > upTo {
			break
		}
		if o.Kind != "delete" || ts < o.A || ts >= o.B {
			continue
		}
		for _, c := range o.Chans {
			if c == key {
				return true
			}
		}
	}
	return false
}

func trim(s string) string {
	s = numRe.ReplaceAllString(s, "N")
	if len(s) > 140 {
		return s[:140]
	}
	return s
}
