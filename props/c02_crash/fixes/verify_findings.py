#!/usr/bin/env python3
"""Check the proposed C02 known-findings entries against real runs.

usage: VERIF_REPO=<patched worktree> python3 props/c02_crash/fixes/verify_findings.py [seed ...]
       (default seeds 1 2 3; both layers)

For every seed it runs `./check C02`, collects every violation signature of the run from the
evidence file and verifies that each matches EXACTLY ONE proposed entry (anchored regexp, as
lib/harness does). It then lists, per entry, the distinct signatures it matched (with the
number of violations per seed) and the signatures its regexp admits that were never observed.
Exit status 1 when a signature is unmatched or matched by more than one entry."""
import hashlib, itertools, json, os, re, subprocess, sys

ROOT = '/verif'
HERE = os.path.dirname(os.path.abspath(__file__))
entries = json.load(open(os.path.join(HERE, 'known_findings.proposed.json')))
for e in entries:
    e['re'] = re.compile('^(?:' + e['signature_re'] + ')$')

args = [a for a in sys.argv[1:] if not a.startswith('--')]
seeds = [int(a) for a in args] or [1, 2, 3]
repo = os.environ.get('VERIF_REPO', '/repo')
if repo != '/repo':
    out = os.path.join(ROOT, '.build', 'alt-' + hashlib.md5((repo + '\n').encode()).hexdigest()[:8])
else:
    out = ROOT
evidence = os.path.join(out, 'evidence', 'C02.json')

per_seed = {}
for sd in seeds:
    env = dict(os.environ, VERIF_SEED=str(sd))
    env.pop('VERIF_LAYERS', None)
    r = subprocess.run([os.path.join(ROOT, 'check'), 'C02'], cwd=ROOT, env=env, capture_output=True, text=True)
    summary = [l for l in r.stdout.splitlines() if l.startswith(('SUMMARY', 'HARNESS-ERROR', 'NOTE'))]
    ev = json.load(open(evidence))
    assert ev['seed'] == sd, (ev['seed'], sd)
    sigs = dict(ev['coverage'].get('violation_signatures', {}))
    if ev['coverage'].get('known_finding_matches'):
        # signatures already listed in /verif/known_findings.json are only counted per key in
        # the evidence file: run this script BEFORE the C02 entries are added there
        print('        WARNING: %s violations matched entries of known_findings.json and are not itemised'
              % ev['coverage']['known_finding_matches'])
    per_seed[sd] = sigs
    print('seed %d: exit=%d  %s' % (sd, r.returncode, ' | '.join(summary)))
    print('        violations=%d distinct signatures=%d inconclusive=%s' % (
        sum(sigs.values()), len(sigs), ev['coverage'].get('inconclusive')))

bad = 0
matched = {e['key']: {} for e in entries}
for sd, sigs in per_seed.items():
    for s, n in sigs.items():
        hit = [e['key'] for e in entries if e['re'].match(s)]
        if len(hit) != 1:
            bad += 1
            print('NOT EXPLAINED BY EXACTLY ONE ENTRY (seed %d, %d violations): %s -> %s' % (sd, n, s, hit))
        for k in hit:
            matched[k].setdefault(s, {})[sd] = n

classes = ['open-error', 'read-error', 'foreign-bytes', 'duplicate', 'disorder', 'lost-durable',
           'delete-not-atomic', 'non-prefix', 'mid-commit', 'misaligned', 'harness-image']
states = ['clean', 'idx-torn', 'idx-trunc', 'gc-copy', 'gc-file-missing', 'gc-swapped', 'no-meta', 'ahead-of-index']
vocab = ['c02:%s:%s:%s@%s' % (c, r, st, w) for c, r, st, w in
         itertools.product(classes, ['idx', 'data', '-'], states, ['own', 'index', 'any', '-'])]
for e in entries:
    m = matched[e['key']]
    print('\n%s\n  signature_re: %s' % (e['key'], e['signature_re']))
    print('  matched %d distinct signatures, %d violations over seeds %s:' % (
        len(m), sum(sum(v.values()) for v in m.values()), seeds))
    for s in sorted(m):
        print('    %-52s %s' % (s, ' '.join('s%d=%d' % (sd, m[s].get(sd, 0)) for sd in seeds)))
    unobserved = [s for s in vocab if e['re'].match(s) and s not in m]
    print('  admitted by the regexp but not observed at these seeds (%d): %s' % (len(unobserved), ', '.join(unobserved) or '-'))
print('\nRESULT: %s' % ('every violation signature matches exactly one proposed entry' if not bad else '%d signatures not explained' % bad))
sys.exit(1 if bad else 0)
