// C03 — cesium never stores overlapping data; conflicting writes fail cleanly.
//
// Runtime monitor: histories of open / write / commit(end) / close / delete / gc /
// reopen over several writers on one channel are run against the REAL domain.DB (via
// cesium/verifx), the real unary.DB writers (via cesium.DB.VerifUnary) and the public
// cesium writer. After every operation the committed domains are enumerated with the
// database's own iterator and read back in full; a reference model of the committed
// ranges, written from the property statement, decides which opens/commits must fail.
package main

import (
	"runtime"
	"sync"

	"github.com/synnaxlabs/x/telem"

	"verif/lib/harness"
)

func main() {
	harness.Main("C03", "exploration",
		harness.Layer{Name: "domain", Run: layerDomain},
		harness.Layer{Name: "unary", Run: layerUnary},
		harness.Layer{Name: "cesium", Run: layerCesium},
	)
}

// parallel runs f(c) for c in [0,n) on a worker pool; each case is independent (own
// PRNG, own in-memory file system) and reports through the thread-safe harness.
func parallel(h *harness.H, layer string, n int, f func(c int)) {
	workers := runtime.GOMAXPROCS(0)
	if workers > 16 {
		workers = 16
	}
	ch := make(chan int)
	var wg sync.WaitGroup
	for i := 0; i < workers; i++ {
		wg.Add(1)
		go func() {
			defer wg.Done()
			for c := range ch {
				f(c)
			}
		}()
	}
	for c := 0; c < n; c++ {
		if h.Skip(layer, c) {
			continue
		}
		ch <- c
	}
	close(ch)
	wg.Wait()
}

func layerDomain(h *harness.H) {
	h.AddRule("domain: PRNG history of 10-40 ops (open[start,presetEnd]/write/commit(end)/close/delete/gc/reopen) over <=4 live writers on one domain.DB, timestamps in 0..48 biased to existing edges +-1, file cap in {1B,64B,1GB}; distinct+non-trivial = distinct op/outcome log with >=2 successful commits and >=1 open-inside or conflicting commit evaluated")
	h.Assume("a Commit issued when no byte has been written in the writer's current domain is treated as a no-op: returning nil is admissible iff the committed state is unchanged")
	h.Assume("for writers with a preset End the commit-end argument is not subject to the 'moves backwards' clause (the stored range is the preset one); the committed range must still be one of [start,presetEnd) / [start,end) and overlap-free")
	h.Assume("a legal open/commit that fails is counted inconclusive (the statement only constrains conflicting operations)")
	caps := []telem.Size{1, 64, telem.Gigabyte}
	parallel(h, "domain", h.N(2000, 200000), func(c int) {
		r := h.Rand("domain", c)
		h.Eval()
		b, err := newDomainBackend(caps[r.Intn(len(caps))])
		if err != nil {
			h.Inconclusive("open-db-failed")
			return
		}
		hs := &history{h: h, layer: "domain", c: c, r: r, b: b, universe: 48}
		hs.run(r.Range(10, 40), r.Range(1, 4))
	})
}
