package main

import (
	"context"
	"fmt"

	"github.com/synnaxlabs/cesium/verifx"
	xfs "github.com/synnaxlabs/x/io/fs"
	"github.com/synnaxlabs/x/telem"
)

var ctx = context.Background()

// enumerateDomain lists every committed domain through the database's own iterator and
// reads each one back completely through OpenReader.
func enumerateDomain(db *verifx.DomainDB) ([]dom, string) {
	it := db.OpenIterator(verifx.DomainIterRange(telem.TimeRangeMax))
	defer func() { _ = it.Close() }()
	var out []dom
	for ok := it.SeekFirst(ctx); ok; ok = it.Next() {
		tr := it.TimeRange()
		size := int64(it.Size())
		r, err := it.OpenReader(ctx)
		if err != nil {
			return out, fmt.Sprintf("domain %v: OpenReader: %v", tr, err)
		}
		buf := make([]byte, size)
		n, err := r.ReadAt(buf, 0)
		_ = r.Close()
		if int64(n) != size {
			return out, fmt.Sprintf("domain [%d,%d) size %d: only %d bytes readable from its file (err=%v)", int64(tr.Start), int64(tr.End), size, n, err)
		}
		out = append(out, dom{int64(tr.Start), int64(tr.End), buf})
		if len(out) > 10000 {
			return out, "iterator does not terminate"
		}
	}
	return out, ""
}

type domainBackend struct {
	fs       xfs.FS
	db       *verifx.DomainDB
	fileSize telem.Size
	name     string
}

func newDomainBackend(fileSize telem.Size) (*domainBackend, error) {
	b := &domainBackend{fs: xfs.NewMem(), fileSize: fileSize, name: fmt.Sprintf("domain/cap=%d", fileSize)}
	return b, b.open()
}

func (b *domainBackend) open() (err error) {
	b.db, err = verifx.OpenDomain(verifx.DomainConfig{FS: b.fs, FileSize: b.fileSize, GCThreshold: 1e-9})
	return err
}

func (b *domainBackend) Name() string          { return b.name }
func (b *domainBackend) RollMode() int         { return rollObserve }
func (b *domainBackend) ControlDisjoint() bool { return false }
func (b *domainBackend) CanDelete() bool       { return true }
func (b *domainBackend) GC() error             { return b.db.GarbageCollect(ctx) }
func (b *domainBackend) Close() error          { return b.db.Close() }
func (b *domainBackend) Reopen() error {
	if err := b.db.Close(); err != nil {
		return err
	}
	return b.open()
}
func (b *domainBackend) Enumerate() ([]dom, string) { return enumerateDomain(b.db) }

type domainWr struct{ w *verifx.DomainWriter }

func (w domainWr) Write(p []byte) error   { _, err := w.w.Write(p); return err }
func (w domainWr) Commit(end int64) error { return w.w.Commit(ctx, telem.TimeStamp(end)) }
func (w domainWr) Close() error           { return w.w.Close() }
func (w domainWr) CurStart() int64        { return int64(w.w.Start) }

func (b *domainBackend) Open(start, presetEnd int64, variant int) (wr, error) {
	cfg := verifx.DomainWriterConfig{Start: telem.TimeStamp(start), End: telem.TimeStamp(presetEnd)}
	t, f := true, false
	switch variant {
	case 0: // explicit commits, always persisted
		cfg.EnableAutoCommit = &f
	case 1: // auto-commit flavour, persisted on every commit
		cfg.EnableAutoCommit = &t
		cfg.AutoIndexPersistInterval = -1
	case 2: // auto-commit flavour, lazily persisted (flushed by Close)
		cfg.EnableAutoCommit = &t
		cfg.AutoIndexPersistInterval = telem.Second
	}
	w, err := b.db.OpenWriter(ctx, cfg)
	if err != nil {
		return nil, err
	}
	return domainWr{w}, nil
}

// Delete at the domain level needs byte-offset resolvers. The monitor supplies a
// monotone linear interpolation over the domain that contains the timestamp: offset =
// floor(size*(ts-start)/(end-start)); the timestamp is kept as is.
func (b *domainBackend) Delete(a, c int64, cur []dom) error {
	res := func(_ context.Context, domainStart, ts telem.TimeStamp) (telem.Size, telem.TimeStamp, error) {
		for _, d := range cur {
			if d.S == int64(domainStart) {
				off := int64(len(d.Data)) * (int64(ts) - d.S) / (d.E - d.S)
				return telem.Size(off), ts, nil
			}
		}
		return 0, ts, fmt.Errorf("resolver: unknown domain start %d", domainStart)
	}
	return b.db.Delete(ctx, telem.TimeRange{Start: telem.TimeStamp(a), End: telem.TimeStamp(c)}, res, res)
}
