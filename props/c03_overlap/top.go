package main

import (
	"bytes"
	"encoding/binary"
	"fmt"
	"sort"
	"strings"

	"github.com/synnaxlabs/cesium"
	xfs "github.com/synnaxlabs/x/io/fs"
	"github.com/synnaxlabs/x/telem"

	"verif/lib/harness"
	"verif/lib/prng"
)

// layerCesium: the public cesium writer. Sessions of OpenWriter(start) / Write(frame
// with index timestamps + data values) / Commit / Close on an index channel and an
// int64 data channel. The commit range of a session is [start, lastTimestamp+1).
// Timestamps are drawn from a tiny universe so sessions start inside, adjacent to and
// around existing data, write into existing data and write backwards.
type topCase struct {
	h       *harness.H
	c       int
	r       *prng.R
	fs      xfs.FS
	db      *cesium.DB
	cap     telem.Size
	state   [nTop][]dom // committed domains of idx, i64 data, string data
	partial bool        // a failed multi-channel commit was applied on some channels earlier in this history
	noRead  bool        // after a DeleteTimeRange the full-read comparison is left to C04
	log     []string
	dead    bool

	successes, mustFails int
	val                  int64
}

const nTop = 3

var topKeys = [nTop]cesium.ChannelKey{keyIdx, keyData, keyStr}

func (t *topCase) logf(f string, a ...any) { t.log = append(t.log, fmt.Sprintf(f, a...)) }

func (t *topCase) violate(sig, what string) {
	t.dead = true
	if t.partial {
		// a failed multi-channel commit was applied on the channels whose range was free
		// (counted, not judged): the channels of one index group no longer hold the same
		// timestamps, and what later operations do in that state is tagged as such
		sig += ":after-partially-applied-failed-commit"
	}
	t.h.Violation("cesium", t.c, sig, what, map[string]any{
		"file_cap": int64(t.cap), "ops": t.log,
		"idx_before": fmtState(t.state[0]), "data_before": fmtState(t.state[1]),
	})
}

func (t *topCase) enumerate(after string) ([nTop][]dom, bool) {
	var out [nTop][]dom
	for i, k := range topKeys {
		u, ok := t.db.VerifUnary(k)
		if !ok {
			t.dead = true
			t.h.Inconclusive("no-unary")
			return out, false
		}
		ds, bad := enumerateDomain(u.VerifDomain())
		t.h.Count("enumerations", 1)
		t.h.Count("domains_read_back", len(ds))
		if bad != "" {
			t.violate("c03:domain-not-within-file", fmt.Sprintf("after %s: channel %d: %s", after, k, bad))
			return out, false
		}
		for j, d := range ds {
			if d.S >= d.E {
				t.violate("c03:empty-or-inverted-domain", fmt.Sprintf("after %s: channel %d domain %v", after, k, d))
				return out, false
			}
			if j > 0 && (ds[j-1].S >= d.S || overlaps(ds[j-1].S, ds[j-1].E, d.S, d.E)) {
				t.violate("c03:domains-overlap", fmt.Sprintf("after %s: channel %d: %v vs %v", after, k, ds[j-1], d))
				return out, false
			}
		}
		out[i] = ds
	}
	return out, true
}

func (t *topCase) unchanged(after, sig string) bool {
	st, ok := t.enumerate(after)
	if !ok {
		return false
	}
	for i := range st {
		if !equalState(st[i], t.state[i]) {
			t.violate(sig, fmt.Sprintf("after %s: channel %d committed data changed: before {%s} after {%s}", after, topKeys[i], fmtState(t.state[i]), fmtState(st[i])))
			return false
		}
	}
	return t.readable(after)
}

// readable: a full read through the public API returns exactly the committed samples.
func (t *topCase) readable(after string) bool {
	if t.noRead {
		return true
	}
	fr, err := t.db.Read(ctx, telem.TimeRangeMax, topKeys[:]...)
	if err != nil {
		t.violate("c03:committed-data-unreadable", fmt.Sprintf("after %s: Read: %v", after, err))
		return false
	}
	t.h.Count("full_reads", 1)
	for i, k := range topKeys {
		var want, got []byte
		for _, d := range t.state[i] {
			want = append(want, d.Data...)
		}
		for _, s := range fr.Get(k).Series {
			got = append(got, s.Data...)
		}
		if string(want) != string(got) {
			t.violate("c03:committed-data-unreadable", fmt.Sprintf("after %s: channel %d read %x want %x", after, k, got, want))
			return false
		}
	}
	return true
}

func (t *topCase) pickTS() int64 {
	var pts []int64
	for _, d := range t.state[0] {
		pts = append(pts, d.S, d.E)
	}
	if len(pts) > 0 && t.r.Chance(6, 10) {
		v := prng.Pick(t.r, pts) + int64(t.r.Intn(3)) - 1
		if v < 1 {
			v = 1
		}
		return v
	}
	return int64(t.r.Range(1, 60))
}

func le64(vs []int64) []byte {
	b := make([]byte, 8*len(vs))
	for i, v := range vs {
		binary.LittleEndian.PutUint64(b[8*i:], uint64(v))
	}
	return b
}

func (t *topCase) session() {
	r := t.r
	start := t.pickTS()
	variant := r.Intn(3)
	cfg := cesium.WriterConfig{Start: telem.TimeStamp(start), Channels: topKeys[:]}
	tr, fl := true, false
	switch variant {
	case 0:
		cfg.EnableAutoCommit = &fl
	case 1:
		cfg.EnableAutoCommit = &fl
		cfg.Sync = &tr
	case 2: // auto-commit on every write, persisted always; Sync so errors surface on Write
		cfg.EnableAutoCommit = &tr
		cfg.AutoIndexPersistInterval = cesium.AlwaysIndexPersistOnAutoCommit
		cfg.Sync = &tr
	}
	op := fmt.Sprintf("open(start=%d,v=%d)", start, variant)
	in := false
	for ch := range t.state {
		in = in || inside(t.state[ch], start)
	}
	if in {
		t.mustFails++
		t.h.Count("open_inside_attempts", 1)
	}
	w, err := t.db.OpenWriter(ctx, cfg)
	if err != nil {
		t.logf("%s -> err %s", op, errClass(err))
		if !t.unchanged(op, "c03:failed-open-changed-committed-data") {
			return
		}
		if !in {
			t.dead = true
			t.h.Inconclusive("legal-open-rejected")
			return
		}
		t.h.Count("open_inside_rejected", 1)
		return
	}
	t.logf("%s -> ok", op)
	if in {
		_ = w.Close()
		t.violate("c03:open-inside-existing-data-accepted", fmt.Sprintf("%s succeeded although %d lies inside committed data idx{%s}", op, start, fmtState(t.state[0])))
		return
	}
	t.h.Count("writers_opened", 1)
	type hyp struct {
		curStart, prevCommit int64
		buf                  []byte
	}
	// Every channel has its own file and so its own rollover points. Whether a
	// successful commit rolled a channel's writer over to a new file (and so to a new
	// domain starting at the commit end) is known for cap=1B (always) and 1GB (never);
	// for the 64B cap both possibilities are kept per channel as hypotheses until the
	// next successful commit shows which one the committed state matches.
	var hyps [nTop][]hyp
	for ch := range hyps {
		hyps[ch] = []hyp{{curStart: start}}
	}
	rounds := r.Range(1, 3)
	closed := false
	for k := 0; k < rounds && !t.dead && !closed; k++ {
		n := r.Range(1, 4)
		base := hyps[0][0].curStart
		if hyps[0][0].prevCommit != 0 {
			base = hyps[0][0].prevCommit
		}
		if r.Chance(1, 4) {
			base = t.pickTS()
		}
		tss := make([]int64, n)
		vals := make([]int64, n)
		cur := base
		for i := range tss {
			if i > 0 || r.Chance(1, 3) {
				cur += int64(r.Range(1, 3))
			}
			tss[i] = cur
			t.val++
			vals[i] = t.val
		}
		end := tss[n-1] + 1
		strs := make([]string, n)
		var strBytes []byte
		for i := range strs {
			strs[i] = fmt.Sprintf("v%06d", vals[i])[:1+int(vals[i]%5)]
			strBytes = append(strBytes, telem.MarshalVariableSample([]byte(strs[i]))...)
		}
		newBytes := [nTop][]byte{le64(tss), le64(vals), strBytes}
		// per channel, per hypothesis: why this commit would be illegal ("" = legal)
		var reasons [nTop][]string
		var owns [nTop][]int
		mustFail, anyReason := false, false
		reason := ""
		for ch := 0; ch < nTop; ch++ {
			chMust := true
			for _, hy := range hyps[ch] {
				own := -1
				if hy.prevCommit != 0 {
					for i, d := range t.state[ch] {
						if d.S == hy.curStart {
							own = i
						}
					}
				}
				rs := ""
				if end <= hy.curStart {
					rs = "zero-length"
				}
				for i, d := range t.state[ch] {
					if rs == "" && i != own && overlaps(hy.curStart, end, d.S, d.E) {
						rs = "overlap"
					}
				}
				if rs == "" && hy.prevCommit != 0 && end < hy.prevCommit {
					rs = "backward"
				}
				reasons[ch] = append(reasons[ch], rs)
				owns[ch] = append(owns[ch], own)
				if rs == "" {
					chMust = false
				} else {
					anyReason = true
				}
			}
			if chMust && !mustFail {
				mustFail = true
				reason = reasons[ch][0]
				if len(hyps[ch]) > 1 && reason == "backward" {
					// 64B cap, rollover state unknown: under the not-rolled hypothesis the
					// commit moves backwards, under the rolled one it ends before its start.
					// A success can only come from the rollover path.
					reason = "backward:on-file-rollover"
				}
			}
		}
		fr := telem.MultiFrame(
			topKeys[:],
			[]telem.Series{telem.NewSeries(toTS(tss)), telem.NewSeries(vals), telem.NewSeries(strs)},
		)
		wop := fmt.Sprintf("write+commit(ts=%v)[idx start=%d,prev=%d,hyps=%d]", tss, hyps[0][0].curStart, hyps[0][0].prevCommit, len(hyps[0]))
		if mustFail {
			t.mustFails++
			t.h.Count("commit_conflict_attempts", 1)
			t.h.Seen("conflict_kinds", reason)
		}
		_, werr := w.Write(fr)
		var cerr error
		if werr == nil && variant != 2 {
			_, cerr = w.Commit()
		}
		err := werr
		if err == nil {
			err = cerr
		}
		if err == nil && variant == 2 {
			// auto-commit: errors of the implied commit surface on the next call
			_, err = w.Commit()
		}
		t.logf("%s -> %s", wop, errClass(err))
		st, ok := t.enumerate(wop)
		if !ok {
			_ = w.Close()
			return
		}
		// expectation per channel: which hypothesis (if any) explains the new state as
		// "own domain set to [curStart,end) holding everything written in it"
		var matched [nTop]int
		var nbuf [nTop][]byte
		var illegalApplied [nTop]string // an ILLEGAL candidate that the new state equals
		for ch := 0; ch < nTop; ch++ {
			matched[ch] = -1
			for hi, hy := range hyps[ch] {
				buf := append(append([]byte(nil), hy.buf...), newBytes[ch]...)
				if reasons[ch][hi] != "" {
					if owns[ch][hi] >= 0 {
						exp := cloneState(t.state[ch])
						exp[owns[ch][hi]] = dom{hy.curStart, end, buf}
						if equalState(exp, st[ch]) {
							illegalApplied[ch] = reasons[ch][hi]
						}
					}
					continue
				}
				exp := cloneState(t.state[ch])
				nd := dom{hy.curStart, end, buf}
				if owns[ch][hi] >= 0 {
					exp[owns[ch][hi]] = nd
				} else {
					exp = append(exp, nd)
					sort.SliceStable(exp, func(i, j int) bool { return exp[i].S < exp[j].S })
				}
				if equalState(exp, st[ch]) {
					matched[ch], nbuf[ch] = hi, buf
					break
				}
			}
		}
		if err != nil {
			closed = true
			cl := w.Close()
			t.logf("close -> %s", errClass(cl))
			// "leaving all previously committed data unchanged": every channel is either
			// untouched or shows exactly the result its own (legal) commit would have had:
			// the multi-channel commit is not atomic, a channel whose range was free
			// commits although another channel's commit failed. That adds new data but
			// does not change previously committed data; it is counted, not a verdict.
			partial := false
			for ch := 0; ch < nTop; ch++ {
				if equalState(st[ch], t.state[ch]) {
					continue
				}
				if matched[ch] >= 0 {
					partial = true
					continue
				}
				if illegalApplied[ch] != "" {
					// this channel applied a commit it had to reject (the writer as a whole
					// failed because another channel did reject it)
					sg := "c03:conflicting-commit-accepted:" + illegalApplied[ch]
					if illegalApplied[ch] == "backward" && len(hyps[ch]) > 1 {
						sg += ":on-file-rollover"
					}
					t.violate(sg, fmt.Sprintf("%s failed as a whole, but channel %d applied it: before {%s} after {%s}", wop, topKeys[ch], fmtState(t.state[ch]), fmtState(st[ch])))
					return
				}
				t.violate("c03:failed-commit-changed-committed-data", fmt.Sprintf("after %s: channel %d committed data changed: before {%s} after {%s}", wop, topKeys[ch], fmtState(t.state[ch]), fmtState(st[ch])))
				return
			}
			if partial {
				t.h.Count("failed_commits_partially_applied_on_other_channels", 1)
				t.partial = true
				t.state = st
				t.noRead = true // channels now differ in content; reading is C01/C04's
			} else if !t.readable(wop) {
				return
			}
			if !mustFail {
				if anyReason {
					t.h.Count("commit_rollover_ambiguous_rejected", 1)
					return
				}
				t.dead = true
				t.h.Inconclusive("legal-commit-rejected")
				return
			}
			if !isValidation(err) {
				t.violate("c03:conflicting-commit-wrong-error-class:"+reason, fmt.Sprintf("%s failed with a non-validation error: %v", wop, err))
				return
			}
			t.h.Count("commit_conflicts_rejected", 1)
			return
		}
		if mustFail {
			t.violate("c03:conflicting-commit-accepted:"+reason, fmt.Sprintf("%s succeeded; idx before {%s} after {%s}", wop, fmtState(t.state[0]), fmtState(st[0])))
			_ = w.Close()
			return
		}
		for ch := 0; ch < nTop; ch++ {
			if matched[ch] < 0 {
				t.violate("c03:commit-result-mismatch", fmt.Sprintf("%s succeeded but channel %d matches no admissible outcome: before {%s} after {%s}", wop, topKeys[ch], fmtState(t.state[ch]), fmtState(st[ch])))
				_ = w.Close()
				return
			}
		}
		t.state = st
		t.successes++
		t.h.Count("commits_ok", 1)
		for ch := 0; ch < nTop; ch++ {
			notRolled := hyp{hyps[ch][matched[ch]].curStart, end, nbuf[ch]}
			rolled := hyp{curStart: end}
			switch {
			case t.cap == 1:
				hyps[ch] = []hyp{rolled}
			case t.cap >= telem.Gigabyte:
				hyps[ch] = []hyp{notRolled}
			default:
				hyps[ch] = []hyp{notRolled, rolled}
			}
		}
		if t.cap == 1 {
			t.h.Count("rollovers", 1)
		}
	}
	if !closed {
		err := w.Close()
		t.logf("close -> %s", errClass(err))
		if err != nil {
			t.dead = true
			t.h.Inconclusive("writer-close-failed")
			return
		}
		t.unchanged("close", "c03:close-changed-committed-data")
	}
}

func toTS(v []int64) []telem.TimeStamp {
	out := make([]telem.TimeStamp, len(v))
	for i, x := range v {
		out[i] = telem.TimeStamp(x)
	}
	return out
}

// deleteRange: DeleteTimeRange over a random channel subset. The statement only asks that
// what remains is ordered, non-overlapping, within its files, and that every surviving
// domain is a contiguous piece of a previous one with everything outside [a,b) untouched
// (exactness of the cut is C04's). The model adopts the observed state.
func (t *topCase) deleteRange() {
	r := t.r
	a, b := t.pickTS(), t.pickTS()
	if a > b {
		a, b = b, a
	}
	if a == b {
		b = a + int64(r.Range(1, 8))
	}
	var keys []cesium.ChannelKey
	switch r.Intn(3) {
	case 0:
		keys = topKeys[:]
	case 1:
		keys = []cesium.ChannelKey{keyData, keyStr}
	default:
		keys = []cesium.ChannelKey{topKeys[1+r.Intn(2)]}
	}
	err := t.db.DeleteTimeRange(ctx, keys, telem.TimeRange{Start: telem.TimeStamp(a), End: telem.TimeStamp(b)})
	op := fmt.Sprintf("delete(%v,[%d,%d))", keys, a, b)
	t.logf("%s -> %s", op, errClass(err))
	t.noRead = true
	// Root-cause specific signature first: a cut point resolved to the zero timestamp
	// (domain starting at 0 or ending at 1 that did not exist before).
	for ch, k := range topKeys {
		u, _ := t.db.VerifUnary(k)
		ds, _ := enumerateDomain(u.VerifDomain())
		for _, d := range ds {
			if d.S != 0 && d.E != 1 {
				continue
			}
			existed := false
			for _, o := range t.state[ch] {
				if o.S == d.S && o.E == d.E {
					existed = true
				}
			}
			if !existed {
				t.violate("c03:delete-cut-snapped-to-epoch", fmt.Sprintf("%s left channel %d with domain %v (cut point resolved to timestamp 0): before {%s} after {%s}", op, k, d, fmtState(t.state[ch]), fmtState(ds)))
				return
			}
		}
	}
	st, ok := t.enumerate(op)
	if !ok {
		return
	}
	t.h.Count("deletes", 1)
	named := map[cesium.ChannelKey]bool{}
	for _, k := range keys {
		named[k] = true
	}
	for ch, k := range topKeys {
		if !named[k] {
			if !equalState(st[ch], t.state[ch]) {
				t.violate("c03:delete-touched-data-outside-range", fmt.Sprintf("%s changed channel %d which was not named: before {%s} after {%s}", op, k, fmtState(t.state[ch]), fmtState(st[ch])))
				return
			}
			continue
		}
		for _, n := range st[ch] {
			found := false
			for _, o := range t.state[ch] {
				if headHandedOver(n, o, a, t.state[ch]) {
					found = true
					break
				}
				if n.S >= o.S && n.E <= o.E && bytes.Contains(o.Data, n.Data) {
					found = true
					if !overlaps(o.S, o.E, a, b) && (n.S != o.S || n.E != o.E || !bytes.Equal(n.Data, o.Data)) {
						t.violate("c03:delete-touched-data-outside-range", fmt.Sprintf("%s: channel %d %v became %v", op, k, o, n))
						return
					}
					break
				}
			}
			if !found {
				t.violate("c03:delete-produced-foreign-domain", fmt.Sprintf("%s: channel %d domain %v is not a piece of any previous domain {%s}", op, k, n, fmtState(t.state[ch])))
				return
			}
		}
	}
	t.state = st
}

func (t *topCase) reopen() {
	if err := t.db.Close(); err != nil {
		t.dead = true
		t.h.Inconclusive("db-close-failed")
		return
	}
	var err error
	if t.db, err = openCesium(t.fs, t.cap); err != nil {
		t.dead = true
		t.h.Inconclusive("reopen-failed")
		return
	}
	t.logf("reopen")
	t.h.Count("reopens", 1)
	t.unchanged("reopen", "c03:reopen-changed-committed-data")
}

func layerCesium(h *harness.H) {
	h.AddRule("cesium: 4-14 sequential public-API writer sessions (OpenWriter(start)/Write(index timestamps+int64 values)/Commit/Close, explicit or auto commit, sync or not) on index + int64 + string channel, DeleteTimeRange over channel subsets, timestamps in 1..60 biased to domain edges, file cap in {1B,64B,1GB}, reopen; distinct+non-trivial = distinct log with >=2 successful commits and >=1 conflicting open/commit evaluated")
	caps := []telem.Size{1, 64, telem.Gigabyte}
	parallel(h, "cesium", h.N(400, 40000), func(c int) {
		r := h.Rand("cesium", c)
		h.Eval()
		t := &topCase{h: h, c: c, r: r, fs: xfs.NewMem(), cap: caps[r.Intn(3)]}
		var err error
		if t.db, err = openCesium(t.fs, t.cap); err != nil {
			h.Inconclusive("open-db-failed")
			return
		}
		if err = t.db.CreateChannel(ctx,
			cesium.Channel{Key: keyIdx, Name: "idx", IsIndex: true, DataType: telem.TimeStampT},
			cesium.Channel{Key: keyData, Name: "data", Index: keyIdx, DataType: telem.Int64T},
			cesium.Channel{Key: keyStr, Name: "str", Index: keyIdx, DataType: telem.StringT},
		); err != nil {
			h.Inconclusive("create-channel-failed")
			return
		}
		n := r.Range(4, 14)
		for i := 0; i < n && !t.dead; i++ {
			if r.Chance(1, 10) {
				t.reopen()
				continue
			}
			if i > 1 && r.Chance(1, 6) {
				t.deleteRange()
				continue
			}
			t.session()
		}
		if !t.dead {
			t.reopen()
		}
		_ = t.db.Close()
		if !t.dead && t.successes >= 2 && t.mustFails >= 1 {
			h.Distinct(fmt.Sprintf("cesium/cap=%d|%s", t.cap, strings.Join(t.log, ";")))
		}
		h.Sample(map[string]any{"layer": "cesium", "case": c, "file_cap": int64(t.cap), "ops": t.log})
	})
}
