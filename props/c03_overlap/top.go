package main

import (
	"encoding/binary"
	"fmt"
	"sort"
	"strings"

	"github.com/synnaxlabs/cesium"
	xfs "github.com/synnaxlabs/x/io/fs"
	"github.com/synnaxlabs/x/telem"

	"verif/lib/harness"
	"verif/lib/prng"
)

// layerCesium: the public cesium writer. Sessions of OpenWriter(start) / Write(frame
// with index timestamps + data values) / Commit / Close on an index channel and an
// int64 data channel. The commit range of a session is [start, lastTimestamp+1).
// Timestamps are drawn from a tiny universe so sessions start inside, adjacent to and
// around existing data, write into existing data and write backwards.
type topCase struct {
	h     *harness.H
	c     int
	r     *prng.R
	fs    xfs.FS
	db    *cesium.DB
	cap   telem.Size
	state [2][]dom // committed domains of idx, data
	log   []string
	dead  bool

	successes, mustFails int
	val                  int64
}

var topKeys = [2]cesium.ChannelKey{keyIdx, keyData}

func (t *topCase) logf(f string, a ...any) { t.log = append(t.log, fmt.Sprintf(f, a...)) }

func (t *topCase) violate(sig, what string) {
	t.dead = true
	t.h.Violation("cesium", t.c, sig, what, map[string]any{
		"file_cap": int64(t.cap), "ops": t.log,
		"idx_before": fmtState(t.state[0]), "data_before": fmtState(t.state[1]),
	})
}

func (t *topCase) enumerate(after string) ([2][]dom, bool) {
	var out [2][]dom
	for i, k := range topKeys {
		u, ok := t.db.VerifUnary(k)
		if !ok {
			t.dead = true
			t.h.Inconclusive("no-unary")
			return out, false
		}
		ds, bad := enumerateDomain(u.VerifDomain())
		t.h.Count("enumerations", 1)
		t.h.Count("domains_read_back", len(ds))
		if bad != "" {
			t.violate("c03:domain-not-within-file", fmt.Sprintf("after %s: channel %d: %s", after, k, bad))
			return out, false
		}
		for j, d := range ds {
			if d.S >= d.E {
				t.violate("c03:empty-or-inverted-domain", fmt.Sprintf("after %s: channel %d domain %v", after, k, d))
				return out, false
			}
			if j > 0 && (ds[j-1].S >= d.S || overlaps(ds[j-1].S, ds[j-1].E, d.S, d.E)) {
				t.violate("c03:domains-overlap", fmt.Sprintf("after %s: channel %d: %v vs %v", after, k, ds[j-1], d))
				return out, false
			}
		}
		out[i] = ds
	}
	return out, true
}

func (t *topCase) unchanged(after, sig string) bool {
	st, ok := t.enumerate(after)
	if !ok {
		return false
	}
	for i := range st {
		if !equalState(st[i], t.state[i]) {
			t.violate(sig, fmt.Sprintf("after %s: channel %d committed data changed: before {%s} after {%s}", after, topKeys[i], fmtState(t.state[i]), fmtState(st[i])))
			return false
		}
	}
	return t.readable(after)
}

// readable: a full read through the public API returns exactly the committed samples.
func (t *topCase) readable(after string) bool {
	fr, err := t.db.Read(ctx, telem.TimeRangeMax, keyIdx, keyData)
	if err != nil {
		t.violate("c03:committed-data-unreadable", fmt.Sprintf("after %s: Read: %v", after, err))
		return false
	}
	t.h.Count("full_reads", 1)
	for i, k := range topKeys {
		var want, got []byte
		for _, d := range t.state[i] {
			want = append(want, d.Data...)
		}
		for _, s := range fr.Get(k).Series {
			got = append(got, s.Data...)
		}
		if string(want) != string(got) {
			t.violate("c03:committed-data-unreadable", fmt.Sprintf("after %s: channel %d read %x want %x", after, k, got, want))
			return false
		}
	}
	return true
}

func (t *topCase) pickTS() int64 {
	var pts []int64
	for _, d := range t.state[0] {
		pts = append(pts, d.S, d.E)
	}
	if len(pts) > 0 && t.r.Chance(6, 10) {
		v := prng.Pick(t.r, pts) + int64(t.r.Intn(3)) - 1
		if v < 1 {
			v = 1
		}
		return v
	}
	return int64(t.r.Range(1, 60))
}

func le64(vs []int64) []byte {
	b := make([]byte, 8*len(vs))
	for i, v := range vs {
		binary.LittleEndian.PutUint64(b[8*i:], uint64(v))
	}
	return b
}

func (t *topCase) session() {
	r := t.r
	start := t.pickTS()
	variant := r.Intn(3)
	cfg := cesium.WriterConfig{Start: telem.TimeStamp(start), Channels: []cesium.ChannelKey{keyIdx, keyData}}
	tr, fl := true, false
	switch variant {
	case 0:
		cfg.EnableAutoCommit = &fl
	case 1:
		cfg.EnableAutoCommit = &fl
		cfg.Sync = &tr
	case 2: // auto-commit on every write, persisted always; Sync so errors surface on Write
		cfg.EnableAutoCommit = &tr
		cfg.AutoIndexPersistInterval = cesium.AlwaysIndexPersistOnAutoCommit
		cfg.Sync = &tr
	}
	op := fmt.Sprintf("open(start=%d,v=%d)", start, variant)
	in := inside(t.state[0], start) || inside(t.state[1], start)
	if in {
		t.mustFails++
		t.h.Count("open_inside_attempts", 1)
	}
	w, err := t.db.OpenWriter(ctx, cfg)
	if err != nil {
		t.logf("%s -> err %s", op, errClass(err))
		if !t.unchanged(op, "c03:failed-open-changed-committed-data") {
			return
		}
		if !in {
			t.dead = true
			t.h.Inconclusive("legal-open-rejected")
			return
		}
		t.h.Count("open_inside_rejected", 1)
		return
	}
	t.logf("%s -> ok", op)
	if in {
		_ = w.Close()
		t.violate("c03:open-inside-existing-data-accepted", fmt.Sprintf("%s succeeded although %d lies inside committed data idx{%s}", op, start, fmtState(t.state[0])))
		return
	}
	t.h.Count("writers_opened", 1)
	type hyp struct {
		curStart, prevCommit int64
		bufI, bufD           []byte
	}
	// Whether a successful commit rolled the writer over to a new file (and so to a new
	// domain starting at the commit end) is known for cap=1B (always) and 1GB (never);
	// for the 64B cap both possibilities are kept as hypotheses until the next
	// successful commit shows which one the committed state matches.
	hyps := []hyp{{curStart: start}}
	rounds := r.Range(1, 3)
	closed := false
	for k := 0; k < rounds && !t.dead && !closed; k++ {
		n := r.Range(1, 4)
		base := hyps[0].curStart
		if hyps[0].prevCommit != 0 {
			base = hyps[0].prevCommit
		}
		if r.Chance(1, 4) {
			base = t.pickTS()
		}
		tss := make([]int64, n)
		vals := make([]int64, n)
		cur := base
		for i := range tss {
			if i > 0 || r.Chance(1, 3) {
				cur += int64(r.Range(1, 3))
			}
			tss[i] = cur
			t.val++
			vals[i] = t.val
		}
		end := tss[n-1] + 1
		reasons := make([]string, len(hyps))
		owns := make([]int, len(hyps))
		mustFail := true
		for hi, hy := range hyps {
			own := -1
			if hy.prevCommit != 0 {
				for i, d := range t.state[0] {
					if d.S == hy.curStart {
						own = i
					}
				}
			}
			owns[hi] = own
			reason := ""
			if end <= hy.curStart {
				reason = "zero-length"
			}
			for ch := 0; ch < 2 && reason == ""; ch++ {
				for i, d := range t.state[ch] {
					if i != own && overlaps(hy.curStart, end, d.S, d.E) {
						reason = "overlap"
					}
				}
			}
			if reason == "" && hy.prevCommit != 0 && end < hy.prevCommit {
				reason = "backward"
			}
			reasons[hi] = reason
			if reason == "" {
				mustFail = false
			}
		}
		reason := ""
		if mustFail {
			reason = reasons[0]
			if len(hyps) > 1 && reasons[0] == "backward" {
				// 64B cap, rollover state unknown: under the not-rolled hypothesis the
				// commit moves backwards, under the rolled one it ends before its start.
				// A success can only come from the rollover path.
				reason = "backward:on-file-rollover"
			}
		}
		fr := telem.MultiFrame(
			[]cesium.ChannelKey{keyIdx, keyData},
			[]telem.Series{telem.NewSeries(toTS(tss)), telem.NewSeries(vals)},
		)
		wop := fmt.Sprintf("write+commit(ts=%v)[start=%d,prev=%d,hyps=%d]", tss, hyps[0].curStart, hyps[0].prevCommit, len(hyps))
		if mustFail {
			t.mustFails++
			t.h.Count("commit_conflict_attempts", 1)
			t.h.Seen("conflict_kinds", reason)
		}
		_, werr := w.Write(fr)
		var cerr error
		if werr == nil && variant != 2 {
			_, cerr = w.Commit()
		}
		err := werr
		if err == nil {
			err = cerr
		}
		if err == nil && variant == 2 {
			// auto-commit: errors of the implied commit surface on the next call
			_, err = w.Commit()
		}
		t.logf("%s -> %s", wop, errClass(err))
		if err != nil {
			closed = true
			cl := w.Close()
			t.logf("close -> %s", errClass(cl))
			if !t.unchanged(wop, "c03:failed-commit-changed-committed-data") {
				return
			}
			if !mustFail {
				anyReason := false
				for _, rs := range reasons {
					if rs != "" {
						anyReason = true
					}
				}
				if anyReason {
					t.h.Count("commit_rollover_ambiguous_rejected", 1)
					return
				}
				t.dead = true
				t.h.Inconclusive("legal-commit-rejected")
				return
			}
			if !isValidation(err) {
				t.violate("c03:conflicting-commit-wrong-error-class:"+reason, fmt.Sprintf("%s failed with a non-validation error: %v", wop, err))
				return
			}
			t.h.Count("commit_conflicts_rejected", 1)
			return
		}
		if mustFail {
			st, _ := t.enumerate(wop)
			t.violate("c03:conflicting-commit-accepted:"+reason, fmt.Sprintf("%s succeeded; idx before {%s} after {%s}", wop, fmtState(t.state[0]), fmtState(st[0])))
			_ = w.Close()
			return
		}
		st, ok := t.enumerate(wop)
		if !ok {
			_ = w.Close()
			return
		}
		matched := -1
		var nbI, nbD []byte
		for hi, hy := range hyps {
			if reasons[hi] != "" {
				continue
			}
			bI := append(append([]byte(nil), hy.bufI...), le64(tss)...)
			bD := append(append([]byte(nil), hy.bufD...), le64(vals)...)
			all := true
			for ch, buf := range [][]byte{bI, bD} {
				exp := cloneState(t.state[ch])
				nd := dom{hy.curStart, end, buf}
				if owns[hi] >= 0 {
					exp[owns[hi]] = nd
				} else {
					exp = append(exp, nd)
					sort.SliceStable(exp, func(i, j int) bool { return exp[i].S < exp[j].S })
				}
				if !equalState(exp, st[ch]) {
					all = false
				}
			}
			if all {
				matched, nbI, nbD = hi, bI, bD
				break
			}
		}
		if matched < 0 {
			t.violate("c03:commit-result-mismatch", fmt.Sprintf("%s succeeded but the committed state matches no admissible outcome: idx before {%s} after {%s}; data before {%s} after {%s}", wop, fmtState(t.state[0]), fmtState(st[0]), fmtState(t.state[1]), fmtState(st[1])))
			_ = w.Close()
			return
		}
		t.state = st
		t.successes++
		t.h.Count("commits_ok", 1)
		notRolled := hyp{hyps[matched].curStart, end, nbI, nbD}
		rolled := hyp{curStart: end}
		switch {
		case t.cap == 1:
			t.h.Count("rollovers", 1)
			hyps = []hyp{rolled}
		case t.cap >= telem.Gigabyte:
			hyps = []hyp{notRolled}
		default:
			hyps = []hyp{notRolled, rolled}
		}
	}
	if !closed {
		err := w.Close()
		t.logf("close -> %s", errClass(err))
		if err != nil {
			t.dead = true
			t.h.Inconclusive("writer-close-failed")
			return
		}
		t.unchanged("close", "c03:close-changed-committed-data")
	}
}

func toTS(v []int64) []telem.TimeStamp {
	out := make([]telem.TimeStamp, len(v))
	for i, x := range v {
		out[i] = telem.TimeStamp(x)
	}
	return out
}

func (t *topCase) reopen() {
	if err := t.db.Close(); err != nil {
		t.dead = true
		t.h.Inconclusive("db-close-failed")
		return
	}
	var err error
	if t.db, err = openCesium(t.fs, t.cap); err != nil {
		t.dead = true
		t.h.Inconclusive("reopen-failed")
		return
	}
	t.logf("reopen")
	t.h.Count("reopens", 1)
	t.unchanged("reopen", "c03:reopen-changed-committed-data")
}

func layerCesium(h *harness.H) {
	h.AddRule("cesium: 4-14 sequential public-API writer sessions (OpenWriter(start)/Write(index timestamps+int64 values)/Commit/Close, explicit or auto commit, sync or not) on index+data channel, timestamps in 1..60 biased to domain edges, file cap in {1B,64B,1GB}, reopen; distinct+non-trivial = distinct log with >=2 successful commits and >=1 conflicting open/commit evaluated")
	caps := []telem.Size{1, 64, telem.Gigabyte}
	parallel(h, "cesium", h.N(400, 40000), func(c int) {
		r := h.Rand("cesium", c)
		h.Eval()
		t := &topCase{h: h, c: c, r: r, fs: xfs.NewMem(), cap: caps[r.Intn(3)]}
		var err error
		if t.db, err = openCesium(t.fs, t.cap); err != nil {
			h.Inconclusive("open-db-failed")
			return
		}
		if err = t.db.CreateChannel(ctx,
			cesium.Channel{Key: keyIdx, Name: "idx", IsIndex: true, DataType: telem.TimeStampT},
			cesium.Channel{Key: keyData, Name: "data", Index: keyIdx, DataType: telem.Int64T},
		); err != nil {
			h.Inconclusive("create-channel-failed")
			return
		}
		n := r.Range(4, 14)
		for i := 0; i < n && !t.dead; i++ {
			if r.Chance(1, 10) {
				t.reopen()
				continue
			}
			t.session()
		}
		if !t.dead {
			t.reopen()
		}
		_ = t.db.Close()
		if !t.dead && t.successes >= 2 && t.mustFails >= 1 {
			h.Distinct(fmt.Sprintf("cesium/cap=%d|%s", t.cap, strings.Join(t.log, ";")))
		}
		h.Sample(map[string]any{"layer": "cesium", "case": c, "file_cap": int64(t.cap), "ops": t.log})
	})
}
