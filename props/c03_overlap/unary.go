package main

import (
	"fmt"
	"time"

	"github.com/synnaxlabs/cesium"
	"github.com/synnaxlabs/cesium/verifx"
	xcontrol "github.com/synnaxlabs/x/control"
	xfs "github.com/synnaxlabs/x/io/fs"
	"github.com/synnaxlabs/x/telem"

	"verif/lib/harness"
)

const (
	keyIdx  cesium.ChannelKey = 1
	keyData cesium.ChannelKey = 2
	keyU8   cesium.ChannelKey = 3
	keyStr  cesium.ChannelKey = 4
)

func openCesium(fs xfs.FS, fileCap telem.Size) (*cesium.DB, error) {
	return cesium.Open(ctx, "",
		cesium.WithFS(fs),
		cesium.WithFileSizeCap(fileCap),
		cesium.WithGCConfig(cesium.GCConfig{TryInterval: time.Hour, Threshold: 1e-9}),
	)
}

// unaryBackend drives the real unary.Writer of a uint8 data channel inside a real
// cesium.DB (OpenWriter / WriteAt / CommitWithEnd / Close) and observes the channel's
// domain.DB. File cap is either 1 byte (every commit rolls the file) or 1 GB (never).
type unaryBackend struct {
	fs      xfs.FS
	db      *cesium.DB
	u       *verifx.UnaryDB
	fileCap telem.Size
	n       int
}

func newUnaryBackend(fileCap telem.Size) (*unaryBackend, error) {
	b := &unaryBackend{fs: xfs.NewMem(), fileCap: fileCap}
	if err := b.open(); err != nil {
		return nil, err
	}
	err := b.db.CreateChannel(ctx,
		cesium.Channel{Key: keyIdx, Name: "idx", IsIndex: true, DataType: telem.TimeStampT},
		cesium.Channel{Key: keyU8, Name: "u8", Index: keyIdx, DataType: telem.Uint8T},
	)
	if err != nil {
		return nil, err
	}
	return b, b.bind()
}

func (b *unaryBackend) open() (err error) {
	b.db, err = openCesium(b.fs, b.fileCap)
	return err
}

func (b *unaryBackend) bind() error {
	u, ok := b.db.VerifUnary(keyU8)
	if !ok {
		return fmt.Errorf("no unary db for channel %d", keyU8)
	}
	b.u = u
	return nil
}

func (b *unaryBackend) Name() string { return fmt.Sprintf("unary/cap=%d", b.fileCap) }
func (b *unaryBackend) RollMode() int {
	if b.fileCap == 1 {
		return rollAlways
	}
	return rollNever
}
func (b *unaryBackend) ControlDisjoint() bool              { return true }
func (b *unaryBackend) CanDelete() bool                    { return false }
func (b *unaryBackend) Delete(a, c int64, cur []dom) error { return nil }
func (b *unaryBackend) GC() error                          { return b.db.VerifGarbageCollect(ctx) }
func (b *unaryBackend) Close() error                       { return b.db.Close() }
func (b *unaryBackend) Enumerate() ([]dom, string)         { return enumerateDomain(b.u.VerifDomain()) }
func (b *unaryBackend) Reopen() error {
	if err := b.db.Close(); err != nil {
		return err
	}
	if err := b.open(); err != nil {
		return err
	}
	return b.bind()
}

type unaryWr struct{ w *verifx.UnaryWriter }

func (w unaryWr) Write(p []byte) error {
	_, err := w.w.WriteAt(telem.Series{DataType: telem.Uint8T, Data: append([]byte(nil), p...)}, 0)
	return err
}
func (w unaryWr) Commit(end int64) error { return w.w.CommitWithEnd(ctx, telem.TimeStamp(end)) }
func (w unaryWr) Close() error           { _, err := w.w.Close(); return err }
func (w unaryWr) CurStart() int64        { return 0 }

func (b *unaryBackend) Open(start, presetEnd int64, variant int) (wr, error) {
	b.n++
	t, f := true, false
	cfg := verifx.UnaryWriterConfig{
		Start:                 telem.TimeStamp(start),
		End:                   telem.TimeStamp(presetEnd),
		Subject:               xcontrol.Subject{Key: fmt.Sprintf("w%d", b.n)},
		Authority:             xcontrol.AuthorityAbsolute,
		ErrOnUnauthorizedOpen: &t,
	}
	switch variant {
	case 0:
		cfg.EnableAutoCommit = &f
	case 1:
		cfg.EnableAutoCommit = &t
		cfg.AutoIndexPersistInterval = -1
	case 2:
		cfg.EnableAutoCommit = &t
		cfg.AutoIndexPersistInterval = telem.Second
	}
	w, _, err := b.u.OpenWriter(ctx, cfg)
	if err != nil {
		return nil, err
	}
	return unaryWr{w}, nil
}

func layerUnary(h *harness.H) {
	h.AddRule("unary: same history generator over real unary.Writer (OpenWriter/WriteAt/CommitWithEnd/Close) of a uint8 channel inside a cesium.DB; concurrently open writers are given disjoint control regions; file cap in {1B,1GB}; gc/reopen through cesium; same distinct rule")
	caps := []telem.Size{1, telem.Gigabyte}
	parallel(h, "unary", h.N(500, 50000), func(c int) {
		r := h.Rand("unary", c)
		h.Eval()
		b, err := newUnaryBackend(caps[r.Intn(len(caps))])
		if err != nil {
			h.Inconclusive("open-db-failed")
			return
		}
		hs := &history{h: h, layer: "unary", c: c, r: r, b: b, universe: 48, minTS: 1}
		hs.run(r.Range(10, 40), r.Range(1, 3))
	})
}
