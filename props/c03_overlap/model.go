package main

import (
	"bytes"
	"fmt"
	"runtime/debug"
	"sort"
	"strings"

	xerrors "github.com/synnaxlabs/x/errors"
	"github.com/synnaxlabs/x/validate"

	"verif/lib/harness"
	"verif/lib/prng"
)

// dom is one committed domain as observed through the database's own iterator and
// reader: half-open time range [S,E) and the bytes the reader returns for it.
type dom struct {
	S, E int64
	Data []byte
}

func (d dom) String() string { return fmt.Sprintf("[%d,%d)#%d", d.S, d.E, len(d.Data)) }

func fmtState(ds []dom) string {
	parts := make([]string, len(ds))
	for i, d := range ds {
		parts[i] = fmt.Sprintf("[%d,%d)%x", d.S, d.E, d.Data)
	}
	return strings.Join(parts, " ")
}

func equalState(a, b []dom) bool {
	if len(a) != len(b) {
		return false
	}
	for i := range a {
		if a[i].S != b[i].S || a[i].E != b[i].E || !bytes.Equal(a[i].Data, b[i].Data) {
			return false
		}
	}
	return true
}

func cloneState(a []dom) []dom {
	out := make([]dom, len(a))
	for i, d := range a {
		out[i] = dom{d.S, d.E, append([]byte(nil), d.Data...)}
	}
	return out
}

// overlaps is the statement's half-open interval algebra, written independently of
// telem.TimeRange.OverlapsWith: [a,b) and [c,d) share a point.
func overlaps(a, b, c, d int64) bool { return a < d && c < b && a < b && c < d }

// inside reports whether ts falls inside existing data: s <= ts < e for some domain.
func inside(ds []dom, ts int64) bool {
	for _, d := range ds {
		if d.S <= ts && ts < d.E {
			return true
		}
	}
	return false
}

// rollover knowledge of a backend: whether a successful commit of >0 bytes moved the
// writer to a new file (and so to a new domain starting at the commit end).
const (
	rollNever   = iota // file size cap is huge
	rollAlways         // file size cap is 1 byte: every commit of >=1 byte rolls
	rollObserve        // ask the writer (domain.Writer.Start is exported)
)

type wr interface {
	Write(p []byte) error
	Commit(end int64) error
	Close() error
	CurStart() int64 // only used with rollObserve
}

type backend interface {
	Open(start, presetEnd int64, variant int) (wr, error)
	Enumerate() ([]dom, string) // string != "" : a domain could not be read back in full
	Delete(a, b int64, cur []dom) error
	CanDelete() bool
	GC() error
	Reopen() error
	Close() error
	RollMode() int
	// ControlDisjoint: concurrently open writers must have disjoint [start, end|inf)
	// regions (unary/cesium level: overlapping regions share one writer, which is C05).
	ControlDisjoint() bool
	Name() string
}

// mw is the model of one open writer.
type mw struct {
	id         int
	w          wr
	cfgStart   int64
	presetEnd  int64 // 0 = none
	curStart   int64
	prevCommit int64 // end of the last successful commit in the current domain, 0 = none
	buf        []byte
}

type history struct {
	h       *harness.H
	layer   string
	c       int
	r       *prng.R
	b       backend
	state   []dom // last observed committed state (== model state)
	writers []*mw
	nextID  int
	nextB   byte
	log     []string
	dead    bool // stop: violation or inconclusive

	universe  int64
	minTS     int64 // unary level: a commit end of 0 means 'derive from the index'
	successes int
	mustFails int
	maxDoms   int
}

func (hs *history) logf(f string, a ...any) { hs.log = append(hs.log, fmt.Sprintf(f, a...)) }

func (hs *history) violate(sig, what string) {
	hs.dead = true
	hs.h.Violation(hs.layer, hs.c, sig, what, map[string]any{
		"backend": hs.b.Name(), "ops": hs.log, "state_before": fmtState(hs.state),
	})
}

func (hs *history) inconclusive(reason string) {
	hs.dead = true
	hs.h.Inconclusive(reason)
}

func isValidation(err error) bool { return xerrors.Is(err, validate.ErrValidation) }

// observe enumerates the real database and checks the structural invariant of the
// statement: strictly time-ordered, pairwise non-overlapping, non-empty ranges whose
// bytes can be read back in full from their files.
func (hs *history) observe(after string) ([]dom, bool) {
	ds, bad := hs.b.Enumerate()
	hs.h.Count("enumerations", 1)
	hs.h.Count("domains_read_back", len(ds))
	if bad != "" {
		hs.violate("c03:domain-not-within-file", fmt.Sprintf("after %s: %s", after, bad))
		return nil, false
	}
	for i, d := range ds {
		if d.S >= d.E {
			hs.violate("c03:empty-or-inverted-domain", fmt.Sprintf("after %s: domain %v", after, d))
			return nil, false
		}
		if i > 0 {
			p := ds[i-1]
			if p.S >= d.S {
				hs.violate("c03:domains-out-of-order", fmt.Sprintf("after %s: %v before %v", after, p, d))
				return nil, false
			}
			if overlaps(p.S, p.E, d.S, d.E) {
				hs.violate("c03:domains-overlap", fmt.Sprintf("after %s: %v overlaps %v", after, p, d))
				return nil, false
			}
		}
	}
	if len(ds) > hs.maxDoms {
		hs.maxDoms = len(ds)
	}
	return ds, true
}

// unchanged asserts that the committed state equals the last observed state.
func (hs *history) unchanged(after, sig string) bool {
	ds, ok := hs.observe(after)
	if !ok {
		return false
	}
	if !equalState(ds, hs.state) {
		hs.violate(sig, fmt.Sprintf("after %s: committed data changed: before {%s} after {%s}", after, fmtState(hs.state), fmtState(ds)))
		return false
	}
	return true
}

func (hs *history) ownIndex(w *mw) int {
	if w.prevCommit == 0 {
		return -1
	}
	for i, d := range hs.state {
		if d.S == w.curStart {
			return i
		}
	}
	return -1
}

func (hs *history) opOpen(start, presetEnd int64, variant int) {
	op := fmt.Sprintf("open(start=%d,end=%d,v=%d)", start, presetEnd, variant)
	w, err := hs.b.Open(start, presetEnd, variant)
	in := inside(hs.state, start)
	if in {
		hs.mustFails++
		hs.h.Count("open_inside_attempts", 1)
	}
	if err == nil {
		hs.logf("%s -> ok w%d", op, hs.nextID)
		if in {
			sig := "c03:open-inside-existing-data-accepted"
			if presetEnd != 0 && presetEnd < start {
				sig += ":inverted-preset-end"
			}
			hs.violate(sig, fmt.Sprintf("%s succeeded although %d lies inside committed data {%s}", op, start, fmtState(hs.state)))
			_ = w.Close()
			return
		}
		hs.writers = append(hs.writers, &mw{id: hs.nextID, w: w, cfgStart: start, presetEnd: presetEnd, curStart: start})
		hs.nextID++
		hs.h.Count("writers_opened", 1)
		hs.unchanged(op, "c03:open-changed-committed-data")
		return
	}
	hs.logf("%s -> err %s", op, errClass(err))
	if !hs.unchanged(op, "c03:failed-open-changed-committed-data") {
		return
	}
	if in {
		hs.h.Seen("open_reject_class", errClass(err))
		hs.h.Count("open_inside_rejected", 1)
		return
	}
	// Not inside existing data. A preset range that reaches into existing data (or is
	// inverted) is something the statement does not rule on: both outcomes admissible.
	if presetEnd != 0 {
		if presetEnd < start {
			return
		}
		for _, d := range hs.state {
			if overlaps(start, presetEnd, d.S, d.E) {
				hs.h.Count("open_preset_overlap_rejected", 1)
				return
			}
		}
	}
	hs.inconclusive("legal-open-rejected")
}

func errClass(err error) string {
	switch {
	case err == nil:
		return "nil"
	case isValidation(err):
		return "validation"
	default:
		s := err.Error()
		if len(s) > 40 {
			s = s[:40]
		}
		return "other:" + s
	}
}

func (hs *history) opWrite(w *mw, n int) {
	p := make([]byte, n)
	for i := range p {
		hs.nextB++
		if hs.nextB == 0 {
			hs.nextB = 1
		}
		p[i] = hs.nextB
	}
	err := w.w.Write(p)
	hs.logf("w%d.write(%x) -> %s", w.id, p, errClass(err))
	if err != nil {
		hs.inconclusive("write-failed")
		return
	}
	w.buf = append(w.buf, p...)
	hs.unchanged(fmt.Sprintf("w%d.write", w.id), "c03:write-changed-committed-data")
}

func (hs *history) opCommit(w *mw, end int64) {
	op := fmt.Sprintf("w%d[start=%d,preset=%d,prev=%d,buf=%d].commit(%d)", w.id, w.curStart, w.presetEnd, w.prevCommit, len(w.buf), end)
	own := hs.ownIndex(w)
	// Ranges the statement allows this commit to establish.
	type cand struct{ e int64 }
	var cands []cand
	if w.presetEnd != 0 {
		cands = append(cands, cand{w.presetEnd})
		if end != w.presetEnd {
			cands = append(cands, cand{end})
		}
	} else {
		cands = append(cands, cand{end})
	}
	reason := ""
	legal := func(e int64) string {
		if e <= w.curStart {
			return "zero-length"
		}
		for i, d := range hs.state {
			if i != own && overlaps(w.curStart, e, d.S, d.E) {
				return "overlap"
			}
		}
		return ""
	}
	allIllegal, anyIllegal := true, false
	for _, cd := range cands {
		if r := legal(cd.e); r == "" {
			allIllegal = false
		} else {
			anyIllegal = true
			if reason == "" {
				reason = r
			}
		}
	}
	mustFailValidation := allIllegal
	if w.presetEnd == 0 && w.prevCommit != 0 && end < w.prevCommit {
		mustFailValidation = true
		if legal(end) == "" {
			reason = "backward"
		}
	}
	mustFailAny := w.presetEnd != 0 && end > w.presetEnd
	noBytes := len(w.buf) == 0
	if (mustFailValidation || mustFailAny) && !noBytes {
		hs.mustFails++
		hs.h.Count("commit_conflict_attempts", 1)
		hs.h.Seen("conflict_kinds", reason+fmt.Sprint(mustFailAny))
	}
	err := w.w.Commit(end)
	hs.logf("%s -> %s", op, errClass(err))
	if err != nil {
		if !hs.unchanged(op, "c03:failed-commit-changed-committed-data") {
			return
		}
		if mustFailValidation && !mustFailAny && !noBytes && !isValidation(err) {
			hs.violate("c03:conflicting-commit-wrong-error-class:"+reason, fmt.Sprintf("%s failed with a non-validation error: %v", op, err))
			return
		}
		if mustFailValidation || mustFailAny {
			hs.h.Count("commit_conflicts_rejected", 1)
			return
		}
		if anyIllegal {
			// preset writer: which of the two admissible ends applies depends on file
			// rollover, which the statement does not fix; a failure is admissible.
			hs.h.Count("commit_preset_ambiguous_rejected", 1)
			return
		}
		hs.inconclusive("legal-commit-rejected")
		return
	}
	// success
	if noBytes {
		// Nothing was written in this domain: a nil return is admissible only as a no-op.
		hs.h.Count("empty_commits", 1)
		hs.unchanged(op, "c03:empty-commit-changed-committed-data")
		return
	}
	if mustFailAny {
		hs.violate("c03:commit-beyond-preset-end-accepted", op+" succeeded")
		return
	}
	if mustFailValidation {
		sig := "c03:conflicting-commit-accepted:" + reason
		if reason == "backward" {
			if hs.b.RollMode() == rollObserve && w.w.CurStart() != w.curStart {
				sig += ":on-file-rollover"
			}
		}
		ds, _ := hs.b.Enumerate()
		hs.violate(sig, fmt.Sprintf("%s succeeded; committed before {%s} after {%s}", op, fmtState(hs.state), fmtState(ds)))
		return
	}
	ds, ok := hs.observe(op)
	if !ok {
		return
	}
	matched := int64(-1)
	for _, cd := range cands {
		if legal(cd.e) != "" {
			continue
		}
		exp := cloneState(hs.state)
		nd := dom{w.curStart, cd.e, append([]byte(nil), w.buf...)}
		if own >= 0 {
			exp[own] = nd
		} else {
			exp = append(exp, nd)
			sort.SliceStable(exp, func(i, j int) bool { return exp[i].S < exp[j].S })
		}
		if equalState(exp, ds) {
			matched = cd.e
			break
		}
	}
	if matched < 0 {
		hs.violate("c03:commit-result-mismatch", fmt.Sprintf("%s succeeded but the committed state is not 'previous state with this writer's domain set to [start,end) holding the bytes it wrote': before {%s} after {%s} wrote %x", op, fmtState(hs.state), fmtState(ds), w.buf))
		return
	}
	hs.state = ds
	hs.successes++
	hs.h.Count("commits_ok", 1)
	rolled := false
	switch hs.b.RollMode() {
	case rollAlways:
		rolled = true
	case rollObserve:
		rolled = w.w.CurStart() != w.curStart
	}
	if rolled {
		hs.h.Count("rollovers", 1)
		w.curStart = matched
		if hs.b.RollMode() == rollObserve {
			w.curStart = w.w.CurStart()
		}
		w.prevCommit = 0
		w.buf = nil
	} else {
		w.prevCommit = matched
	}
	// adjacency coverage
	for _, d := range hs.state {
		if d.E == w.curStart || d.S == matched {
			hs.h.Count("adjacent_commits", 1)
			break
		}
	}
}

func (hs *history) opClose(i int) {
	w := hs.writers[i]
	err := w.w.Close()
	hs.logf("w%d.close -> %s", w.id, errClass(err))
	hs.writers = append(hs.writers[:i], hs.writers[i+1:]...)
	if err != nil {
		hs.inconclusive("writer-close-failed")
		return
	}
	hs.unchanged(fmt.Sprintf("w%d.close", w.id), "c03:close-changed-committed-data")
}

func (hs *history) closeAll() {
	for len(hs.writers) > 0 && !hs.dead {
		hs.opClose(0)
	}
	for _, w := range hs.writers {
		_ = w.w.Close()
	}
	hs.writers = nil
}

func (hs *history) opReopen() {
	hs.closeAll()
	if hs.dead {
		return
	}
	err := hs.b.Reopen()
	hs.logf("reopen -> %s", errClass(err))
	if err != nil {
		hs.inconclusive("reopen-failed")
		return
	}
	hs.h.Count("reopens", 1)
	hs.unchanged("reopen", "c03:reopen-changed-committed-data")
}

func (hs *history) opGC() {
	err := hs.b.GC()
	hs.logf("gc -> %s", errClass(err))
	if err != nil {
		hs.inconclusive("gc-failed")
		return
	}
	hs.h.Count("gcs", 1)
	hs.unchanged("gc", "c03:gc-changed-committed-data")
}

// headHandedOver: n is the old domain o with its end moved forward, up to the start a of
// the delete, over the sample-free head of the old domain that followed o without a gap
// and was cut by the delete. The stretch of time changes owner, no sample does; coverage
// neither grows nor overlaps (engine repair 8e23491 keeps the head covered this way).
func headHandedOver(n, o dom, a int64, old []dom) bool {
	if n.S != o.S || !bytes.Equal(n.Data, o.Data) || n.E <= o.E || n.E > a {
		return false
	}
	for _, x := range old {
		if x.S == o.E && x.E >= n.E {
			return true
		}
	}
	return false
}

// opDelete: the statement only requires that what remains is still a set of ordered,
// non-overlapping ranges lying within their files and that nothing outside [a,b) is
// touched. Exactness of the cut is C04's business: the model adopts the observed state
// after checking that every surviving domain is a contiguous piece of an old one.
func (hs *history) opDelete(a, b int64) {
	op := fmt.Sprintf("delete[%d,%d)", a, b)
	err := hs.b.Delete(a, b, hs.state)
	hs.logf("%s -> %s", op, errClass(err))
	if err != nil {
		hs.h.Count("delete_errors", 1)
		hs.unchanged(op, "c03:failed-delete-changed-committed-data")
		return
	}
	ds, ok := hs.observe(op)
	if !ok {
		return
	}
	hs.h.Count("deletes", 1)
	// every new domain must be a contiguous piece of exactly one old domain
	for _, n := range ds {
		found := false
		for _, o := range hs.state {
			if headHandedOver(n, o, a, hs.state) {
				found = true
				break
			}
			if n.S >= o.S && n.E <= o.E && bytes.Contains(o.Data, n.Data) {
				found = true
				// untouched region: if the old domain lies fully outside [a,b) it must be identical
				if !overlaps(o.S, o.E, a, b) && (n.S != o.S || n.E != o.E || !bytes.Equal(n.Data, o.Data)) {
					hs.violate("c03:delete-touched-data-outside-range", fmt.Sprintf("%s: %v became %v", op, o, n))
					return
				}
				break
			}
		}
		if !found {
			hs.violate("c03:delete-produced-foreign-domain", fmt.Sprintf("%s: domain %v (%x) is not a piece of any previous domain {%s}", op, n, n.Data, fmtState(hs.state)))
			return
		}
	}
	// old domains fully outside [a,b) must survive
	for _, o := range hs.state {
		if overlaps(o.S, o.E, a, b) {
			continue
		}
		found := false
		for _, n := range ds {
			if (n.S == o.S && n.E == o.E && bytes.Equal(n.Data, o.Data)) || headHandedOver(n, o, a, hs.state) {
				found = true
			}
		}
		if !found {
			hs.violate("c03:delete-touched-data-outside-range", fmt.Sprintf("%s: %v vanished; after {%s}", op, o, fmtState(ds)))
			return
		}
	}
	if !equalState(ds, hs.state) {
		hs.h.Count("deletes_effective", 1)
	}
	hs.state = ds
}

// pickTS draws a timestamp from the tiny universe, biased towards existing domain
// edges (+-1) and the starts/ends claimed by open writers so that adjacency, equal
// starts and one-off overlaps collide constantly.
func (hs *history) pickTS() int64 {
	r := hs.r
	var pts []int64
	for _, d := range hs.state {
		pts = append(pts, d.S, d.E)
	}
	for _, w := range hs.writers {
		pts = append(pts, w.curStart)
		if w.prevCommit != 0 {
			pts = append(pts, w.prevCommit)
		}
		if w.presetEnd != 0 {
			pts = append(pts, w.presetEnd)
		}
	}
	if len(pts) > 0 && r.Chance(6, 10) {
		v := prng.Pick(r, pts) + int64(r.Intn(3)) - 1
		if v < hs.minTS {
			v = hs.minTS
		}
		if v > hs.universe {
			v = hs.universe
		}
		return v
	}
	return hs.minTS + int64(r.Intn(int(hs.universe-hs.minTS)+1))
}

func (hs *history) controlFree(start, presetEnd int64) bool {
	if !hs.b.ControlDisjoint() {
		return true
	}
	const inf = int64(1) << 62
	e := presetEnd
	if e == 0 {
		e = inf
	}
	if e <= start {
		return false
	}
	for _, w := range hs.writers {
		we := w.presetEnd
		if we == 0 {
			we = inf
		}
		// the control package treats equal starts and any shared point as overlapping
		if start < we && w.cfgStart < e {
			return false
		}
	}
	return true
}

func (hs *history) deleteLegal(a, b int64) bool {
	for _, w := range hs.writers {
		if w.prevCommit != 0 && overlaps(w.curStart, w.prevCommit, a, b) {
			return false
		}
	}
	return true
}

func (hs *history) run(nOps, maxWriters int) {
	// "fails cleanly": a panic inside the engine while the history runs is a verdict of
	// this property, not a crash of the monitor
	defer func() {
		if p := recover(); p != nil {
			where := "unknown"
			for _, line := range strings.Split(string(debug.Stack()), "\n") {
				if strings.HasPrefix(line, "github.com/synnaxlabs/cesium") {
					where = line
					if i := strings.LastIndex(where, "("); i > 0 {
						where = where[:i]
					}
					where = strings.TrimPrefix(where, "github.com/synnaxlabs/cesium/")
					break
				}
			}
			hs.dead = true
			hs.h.Violation(hs.layer, hs.c, "c03:engine-panic:"+where, fmt.Sprintf("the engine panicked during a history of open/write/commit/close/delete operations: %v (in %s)", p, where), map[string]any{"stack": string(debug.Stack())})
		}
	}()
	r := hs.r
	st, ok := hs.observe("start")
	if !ok {
		return
	}
	hs.state = st
	for step := 0; step < nOps && !hs.dead; step++ {
		k := r.Intn(100)
		switch {
		case k < 18 || len(hs.writers) == 0:
			if len(hs.writers) >= maxWriters {
				continue
			}
			start := hs.pickTS()
			var pe int64
			if r.Chance(1, 3) {
				pe = hs.pickTS()
				if pe <= start && !(r.Chance(1, 10) && !hs.b.ControlDisjoint()) {
					pe = start + 1 + int64(r.Intn(12))
				}
				if pe == 0 {
					pe = 1
				}
			}
			if !hs.controlFree(start, pe) {
				continue
			}
			hs.opOpen(start, pe, r.Intn(3))
		case k < 45:
			w := prng.Pick(r, hs.writers)
			n := r.Range(1, 6)
			if r.Chance(1, 8) {
				n = r.Range(20, 40)
			}
			hs.opWrite(w, n)
		case k < 78:
			w := prng.Pick(r, hs.writers)
			hs.opCommit(w, hs.pickTS())
		case k < 86:
			hs.opClose(r.Intn(len(hs.writers)))
		case k < 92:
			if !hs.b.CanDelete() || len(hs.state) == 0 {
				continue
			}
			a, b := hs.pickTS(), hs.pickTS()
			if a > b {
				a, b = b, a
			}
			if a == b || !hs.deleteLegal(a, b) {
				continue
			}
			hs.opDelete(a, b)
		case k < 96:
			hs.opGC()
		default:
			hs.opReopen()
		}
	}
	if !hs.dead {
		hs.closeAll()
	}
	if !hs.dead && r.Chance(1, 2) {
		hs.opReopen()
	}
	for _, w := range hs.writers {
		_ = w.w.Close()
	}
	_ = hs.b.Close()
	if !hs.dead && hs.successes >= 2 && hs.mustFails >= 1 {
		hs.h.Distinct(hs.b.Name() + "|" + strings.Join(hs.log, ";"))
	}
	hs.h.Sample(map[string]any{"layer": hs.layer, "case": hs.c, "backend": hs.b.Name(), "ops": hs.log})
}
