package main

import (
	"context"
	"fmt"

	"github.com/synnaxlabs/arc"
	"github.com/synnaxlabs/arc/compiler"
	stlchannels "github.com/synnaxlabs/arc/stl/channels"
	stlerrors "github.com/synnaxlabs/arc/stl/errors"
	stlmath "github.com/synnaxlabs/arc/stl/math"
	"github.com/synnaxlabs/arc/stl/series"
	"github.com/synnaxlabs/arc/stl/stateful"
	stlstrings "github.com/synnaxlabs/arc/stl/strings"
	stltime "github.com/synnaxlabs/arc/stl/time"
	"github.com/synnaxlabs/arc/text"
	"github.com/tetratelabs/wazero"
	"github.com/tetratelabs/wazero/api"
)

// stage at which the pipeline stopped.
type stage int

const (
	stParse stage = iota
	stAnalyze
	stCompile
	stValidate
	stInstantiate
	stOK
)

func (s stage) String() string {
	return [...]string{"parse", "analyze", "compile", "validate", "instantiate", "ok"}[s]
}

type built struct {
	stage stage  // first stage that failed, or stOK
	diag  string // diagnostics / error text of the failing stage
	rt    wazero.Runtime
	mod   api.Module
	state *stateful.Host
}

func (b *built) Close(ctx context.Context) {
	if b.rt != nil {
		_ = b.rt.Close(ctx)
	}
}

// build runs the production pipeline text.Parse -> text.Analyze -> compiler.Compile ->
// wazero CompileModule -> Instantiate, binding the same host modules the Arc runtime binds
// (core/pkg/service/arc/runtime/task.go).
func build(ctx context.Context, src string, interp bool) *built {
	b := &built{}
	parsed, diag := text.Parse(text.Text{Raw: src})
	if diag != nil && !diag.Ok() {
		b.stage, b.diag = stParse, diag.String()
		return b
	}
	inter, diag := text.Analyze(ctx, parsed, arc.NewRoot(nil))
	if diag != nil && !diag.Ok() {
		b.stage, b.diag = stAnalyze, diag.String()
		return b
	}
	out, err := compiler.Compile(ctx, inter)
	if err != nil {
		b.stage, b.diag = stCompile, err.Error()
		return b
	}
	cfg := wazero.NewRuntimeConfigCompiler().WithCloseOnContextDone(true)
	if interp {
		cfg = wazero.NewRuntimeConfigInterpreter()
	}
	rt := wazero.NewRuntimeWithConfig(ctx, cfg)
	b.rt = rt
	stringsState := stlstrings.NewProgramState()
	seriesState := series.NewProgramState()
	channelState := stlchannels.NewProgramState(nil)
	var herr error
	must := func(err error) {
		if err != nil && herr == nil {
			herr = err
		}
	}
	st, err := stateful.NewHost(ctx, rt, seriesState, stringsState)
	must(err)
	_, err = series.NewHost(ctx, rt, seriesState)
	must(err)
	_, err = stlstrings.NewHost(ctx, rt, stringsState, nil)
	must(err)
	_, err = stlmath.NewHost(ctx, rt)
	must(err)
	_, err = stlerrors.NewHost(ctx, rt, nil)
	must(err)
	_, err = stltime.NewHost(ctx, rt)
	must(err)
	_, err = stlchannels.NewHost(ctx, rt, channelState, stringsState)
	must(err)
	if herr != nil {
		panic(fmt.Sprintf("host module binding failed: %v", herr))
	}
	b.state = st
	cm, err := rt.CompileModule(ctx, out.WASM)
	if err != nil {
		b.stage, b.diag = stValidate, err.Error()
		return b
	}
	mod, err := rt.InstantiateModule(ctx, cm, wazero.NewModuleConfig().WithName("guest"))
	if err != nil {
		b.stage, b.diag = stInstantiate, err.Error()
		return b
	}
	b.mod = mod
	b.stage = stOK
	return b
}
