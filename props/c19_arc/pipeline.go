package main

import (
	"context"
	"fmt"

	"github.com/synnaxlabs/arc"
	"github.com/synnaxlabs/arc/compiler"
	stlchannels "github.com/synnaxlabs/arc/stl/channels"
	stlerrors "github.com/synnaxlabs/arc/stl/errors"
	stlmath "github.com/synnaxlabs/arc/stl/math"
	"github.com/synnaxlabs/arc/stl/series"
	"github.com/synnaxlabs/arc/stl/stateful"
	stlstrings "github.com/synnaxlabs/arc/stl/strings"
	stltime "github.com/synnaxlabs/arc/stl/time"
	"github.com/synnaxlabs/arc/text"
	"github.com/tetratelabs/wazero"
	"github.com/tetratelabs/wazero/api"
)

// stage at which the pipeline stopped.
type stage int

const (
	stParse stage = iota
	stAnalyze
	stCompile
	stValidate
	stInstantiate
	stOK
)

func (s stage) String() string {
	return [...]string{"parse", "analyze", "compile", "validate", "instantiate", "ok"}[s]
}

// hostEnv is one wazero runtime with the host modules the Arc runtime binds
// (core/pkg/service/arc/runtime/task.go: time, channels, stateful, series, strings, math,
// errors). Binding them costs ~100 host-function trampolines (mmap'ed code) per runtime,
// which serialises the whole process on the kernel's mm lock when done per program, so a
// worker keeps one environment and instantiates each compiled program into it as a
// separately named guest module. Stateful variables are kept apart by giving every call
// sequence a fresh node key.
type hostEnv struct {
	rt    wazero.Runtime
	state *stateful.Host
	seq   int
}

func newHostEnv(ctx context.Context) *hostEnv {
	cfg := wazero.NewRuntimeConfigCompiler().WithCloseOnContextDone(true)
	rt := wazero.NewRuntimeWithConfig(ctx, cfg)
	stringsState := stlstrings.NewProgramState()
	seriesState := series.NewProgramState()
	channelState := stlchannels.NewProgramState(nil)
	var herr error
	must := func(err error) {
		if err != nil && herr == nil {
			herr = err
		}
	}
	st, err := stateful.NewHost(ctx, rt, seriesState, stringsState)
	must(err)
	_, err = series.NewHost(ctx, rt, seriesState)
	must(err)
	_, err = stlstrings.NewHost(ctx, rt, stringsState, nil)
	must(err)
	_, err = stlmath.NewHost(ctx, rt)
	must(err)
	_, err = stlerrors.NewHost(ctx, rt, nil)
	must(err)
	_, err = stltime.NewHost(ctx, rt)
	must(err)
	_, err = stlchannels.NewHost(ctx, rt, channelState, stringsState)
	must(err)
	if herr != nil {
		panic(fmt.Sprintf("host module binding failed: %v", herr))
	}
	return &hostEnv{rt: rt, state: st}
}

func (e *hostEnv) Close(ctx context.Context) { _ = e.rt.Close(ctx) }

type built struct {
	stage stage  // first stage that failed, or stOK
	diag  string // diagnostics / error text of the failing stage
	cm    wazero.CompiledModule
	mod   api.Module
	state *stateful.Host
}

func (b *built) Close(ctx context.Context) {
	if b.mod != nil {
		_ = b.mod.Close(ctx)
	}
	if b.cm != nil {
		_ = b.cm.Close(ctx)
	}
}

// build runs the production pipeline text.Parse -> text.Analyze -> compiler.Compile ->
// wazero CompileModule -> InstantiateModule.
func build(ctx context.Context, env *hostEnv, src string) *built {
	b := &built{state: env.state}
	parsed, diag := text.Parse(text.Text{Raw: src})
	if diag != nil && !diag.Ok() {
		b.stage, b.diag = stParse, diag.String()
		return b
	}
	inter, diag := text.Analyze(ctx, parsed, arc.NewRoot(nil))
	if diag != nil && !diag.Ok() {
		b.stage, b.diag = stAnalyze, diag.String()
		return b
	}
	out, err := compiler.Compile(ctx, inter)
	if err != nil {
		b.stage, b.diag = stCompile, err.Error()
		return b
	}
	cm, err := env.rt.CompileModule(ctx, out.WASM)
	if err != nil {
		b.stage, b.diag = stValidate, err.Error()
		return b
	}
	b.cm = cm
	env.seq++
	mod, err := env.rt.InstantiateModule(ctx, cm, wazero.NewModuleConfig().WithName(fmt.Sprintf("guest%d", env.seq)))
	if err != nil {
		b.stage, b.diag = stInstantiate, err.Error()
		return b
	}
	b.mod = mod
	b.stage = stOK
	return b
}
