package main

import (
	"math"

	"verif/lib/prng"
)

// Boundary argument sets per parameter type (DESIGN §3/C19): {min, min+1, -1, 0, 1, max-1,
// max, powers of two +-1, +-0.0, +-inf, NaN, subnormal, 2^24+-1, 2^53+-1, ...}.

func intBoundaries(t Typ) []Value {
	w := uint(t.Bits())
	var out []Value
	if t.Signed() {
		min := -int64(1) << (w - 1)
		max := int64(1)<<(w-1) - 1
		xs := []int64{min, min + 1, min / 2, -3, -2, -1, 0, 1, 2, 3, 7, max / 2, max - 1, max}
		for _, k := range []uint{3, 6, 7, 8, 14, 15, 16, 30, 31, 32, 52, 53, 62} {
			if k < w-1 {
				p := int64(1) << k
				xs = append(xs, p-1, p, p+1, -p, -p-1, -p+1)
			}
		}
		for _, x := range xs {
			if x >= min && x <= max {
				out = append(out, intValue(t, x))
			}
		}
		return out
	}
	max := maxOf(t)
	xs := []uint64{0, 1, 2, 3, 7, max / 2, max/2 + 1, max/2 + 2, max - 1, max}
	for _, k := range []uint{3, 6, 7, 8, 14, 15, 16, 30, 31, 32, 52, 53, 62, 63} {
		if k < w {
			p := uint64(1) << k
			xs = append(xs, p-1, p, p+1)
		}
	}
	for _, x := range xs {
		if x <= max {
			out = append(out, uintValue(t, x))
		}
	}
	return out
}

var f64Boundaries = []float64{
	0, math.Copysign(0, -1), 1, -1, 0.5, -0.5, 1.5, -1.5, 2.5, -2.5, 2, 3, 10, -10, 0.999999, -0.999999, 3.999999,
	math.Inf(1), math.Inf(-1), math.NaN(), 5e-324, -5e-324, 2.2250738585072014e-308,
	math.MaxFloat64, -math.MaxFloat64, math.MaxFloat32, math.SmallestNonzeroFloat32,
	1<<24 - 1, 1 << 24, 1<<24 + 1, 1<<53 - 1, 1 << 53, 1<<53 + 1,
	127, 127.5, 127.9, 128, 128.5, -128, -128.5, -128.9, -129, 255, 255.5, 255.9, 256, 256.5,
	32767, 32767.9, 32768, -32768, -32768.9, -32769, 65535, 65535.9, 65536,
	2147483647, 2147483647.5, 2147483648, -2147483648, -2147483648.9, -2147483649, 4294967295, 4294967295.5, 4294967296,
	9223372036854774784, 9223372036854775807, 9223372036854775808, -9223372036854775808, -9223372036854777856,
	18446744073709549568, 18446744073709551615, 18446744073709551616, 1e10, 1e-10, 1e19, 1e20, -1e19, 1e300, -1e300,
}

func floatBoundaries(t Typ) []Value {
	out := make([]Value, 0, len(f64Boundaries))
	for _, f := range f64Boundaries {
		if t == F32 {
			out = append(out, f32Value(float32(f)))
		} else {
			out = append(out, f64Value(f))
		}
	}
	return out
}

var boundaryCache = func() map[Typ][]Value {
	m := map[Typ][]Value{}
	for _, t := range allTyps {
		if t.IsFloat() {
			m[t] = floatBoundaries(t)
		} else {
			m[t] = intBoundaries(t)
		}
	}
	return m
}()

func randomValue(r *prng.R, t Typ) Value {
	if t.IsFloat() {
		var f float64
		switch r.Intn(5) {
		case 0: // arbitrary bit pattern
			if t == F32 {
				return Value{F32, uint64(uint32(r.U64()))}
			}
			return Value{F64, r.U64()}
		case 1:
			f = float64(int64(r.U64()) >> uint(r.Intn(64)))
		case 2:
			f = (r.Float() - 0.5) * 1000
		case 3:
			f = (r.Float() - 0.5) * math.Pow(2, float64(r.Range(-10, 70)))
		default:
			f = float64(r.Range(-300, 300)) / 4
		}
		if t == F32 {
			return f32Value(float32(f))
		}
		return f64Value(f)
	}
	// random magnitude: uniformly chosen bit length
	w := uint(t.Bits())
	x := r.U64() >> uint(r.Intn(64))
	if t.Signed() {
		v := int64(x)
		if r.Bool() {
			v = -v
		}
		return decodeResult(t, uint64(v)<<(64-w)>>(64-w))
	}
	return decodeResult(t, x)
}

func pickArg(r *prng.R, t Typ) Value {
	if r.Chance(7, 10) {
		b := boundaryCache[t]
		return b[r.Intn(len(b))]
	}
	if t.IsInt() && r.Chance(1, 2) {
		// small values keep loops, exponents and divisors interesting
		if t.Signed() {
			return intValue(t, int64(r.Range(-9, 9)))
		}
		return uintValue(t, uint64(r.Range(0, 12)))
	}
	return randomValue(r, t)
}

// argVectors: n argument vectors for f. The first ones walk the boundary sets with all
// parameters at the same index; the rest pick each parameter independently.
func argVectors(r *prng.R, f *Func, n int) [][]Value {
	out := make([][]Value, 0, n)
	for i := 0; i < n; i++ {
		v := make([]Value, len(f.Params))
		for j, p := range f.Params {
			if i < 6 && (i < 3 || len(f.Hints[p.Name]) == 0) {
				b := boundaryCache[p.T]
				switch i {
				case 0:
					v[j] = b[0] // min / zero
				case 1:
					v[j] = b[len(b)-1] // max-ish (ints) / large (floats)
				default:
					v[j] = b[(i*7+j*3)%len(b)]
				}
				if p.T.IsInt() && i == 1 {
					if p.T.Signed() {
						v[j] = intValue(p.T, int64(maxOf(p.T)))
					} else {
						v[j] = uintValue(p.T, maxOf(p.T))
					}
				}
			} else if hs := f.Hints[p.Name]; len(hs) > 0 && r.Chance(11, 20) {
				v[j] = hs[r.Intn(len(hs))]
			} else {
				v[j] = pickArg(r, p.T)
			}
		}
		out = append(out, v)
	}
	return out
}
