package main

import (
	"context"
	"fmt"
	"os"
)

func probeMain() {
	ctx := context.Background()
	env := newHostEnv(ctx)
	if os.Getenv("C19_PROBE") == "gen" {
		for c := 0; c < 3; c++ {
			f := genCtlFunc(caseRand(1, "ctl", c), "f0")
			fmt.Println(f.String())
			fmt.Println("hints:", f.Hints)
			b := build(ctx, env, f.String())
			fmt.Println("stage:", b.stage, b.diag)
		}
		return
	}
	src, _ := os.ReadFile(os.Getenv("C19_PROBE"))
	b := build(ctx, env, string(src))
	fmt.Println("stage:", b.stage, b.diag)
}
