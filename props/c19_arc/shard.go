package main

import (
	"bufio"
	"bytes"
	"context"
	"crypto/sha256"
	"encoding/hex"
	"encoding/json"
	"fmt"
	"os"
	"os/exec"
	"runtime"
	"strconv"
	"strings"
	"sync"
	"time"

	"verif/lib/harness"
	"verif/lib/prng"
)

// The generated-program layers are sharded over worker PROCESSES: the ANTLR runtime the
// Arc parser is built on keeps one set of prediction DFAs per process behind RW mutexes,
// and goroutine workers spend most of their time queueing on them (measured: 16 goroutines
// give 1.6x). A worker process runs the cases c with c % n == i of one layer on a single
// goroutine and reports counters, sets, samples and violations as JSON lines on stdout;
// the parent replays them into the harness (which decides known/unknown and writes the
// witness files). Replays run in-process.

type Sink interface {
	Eval()
	Count(name string, d int)
	Seen(set, member string)
	Distinct(key string)
	Sample(v any)
	Violation(layer string, c int, sig, what string, witness any)
	Inconclusive(reason string)
	Note(s string)
}

// hSink: direct to the harness (replay mode, crash layer).
type hSink struct {
	h     *harness.H
	notes int
}

func (s *hSink) Eval()                 { s.h.Eval() }
func (s *hSink) Count(n string, d int) { s.h.Count(n, d) }
func (s *hSink) Seen(set, m string)    { s.h.Seen(set, m) }
func (s *hSink) Distinct(key string)   { s.h.Distinct(key) }
func (s *hSink) Sample(v any)          { s.h.Sample(v) }
func (s *hSink) Inconclusive(r string) { s.h.Inconclusive(r) }
func (s *hSink) Violation(layer string, c int, sig, what string, w any) {
	noteClass(s.h, sig)
	s.h.Violation(layer, c, sig, what, w)
}
func (s *hSink) Note(t string) {
	s.notes++
	if s.notes <= 12 {
		fmt.Println("NOTE: " + t)
	}
}

type shardEvent struct {
	K       string          `json:"k"` // violation | note | done
	Layer   string          `json:"layer,omitempty"`
	Case    int             `json:"case,omitempty"`
	Sig     string          `json:"sig,omitempty"`
	What    string          `json:"what,omitempty"`
	Witness json.RawMessage `json:"witness,omitempty"`
	Text    string          `json:"text,omitempty"`
	// done:
	Evals    int                 `json:"evals,omitempty"`
	Counts   map[string]int      `json:"counts,omitempty"`
	Sets     map[string][]string `json:"sets,omitempty"`
	Distinct []string            `json:"distinct,omitempty"`
	Samples  []json.RawMessage   `json:"samples,omitempty"`
	Incon    map[string]int      `json:"inconclusive,omitempty"`
}

// recSink: worker-process side.
type recSink struct {
	w        *bufio.Writer
	enc      *json.Encoder
	evals    int
	counts   map[string]int
	sets     map[string]map[string]struct{}
	distinct map[string]struct{}
	samples  []json.RawMessage
	incon    map[string]int
	notes    int
}

func newRecSink() *recSink {
	w := bufio.NewWriterSize(os.Stdout, 1<<16)
	return &recSink{w: w, enc: json.NewEncoder(w), counts: map[string]int{}, sets: map[string]map[string]struct{}{},
		distinct: map[string]struct{}{}, incon: map[string]int{}}
}

func (s *recSink) Eval()                 { s.evals++ }
func (s *recSink) Count(n string, d int) { s.counts[n] += d }
func (s *recSink) Seen(set, m string) {
	if s.sets[set] == nil {
		s.sets[set] = map[string]struct{}{}
	}
	s.sets[set][m] = struct{}{}
}
func (s *recSink) Distinct(key string) {
	sum := sha256.Sum256([]byte(key))
	s.distinct[hex.EncodeToString(sum[:12])] = struct{}{}
}
func (s *recSink) Sample(v any) {
	if len(s.samples) < 2 {
		b, _ := json.Marshal(v)
		s.samples = append(s.samples, b)
	}
}
func (s *recSink) Inconclusive(r string) { s.incon[r]++ }
func (s *recSink) Violation(layer string, c int, sig, what string, w any) {
	wb, err := json.Marshal(w)
	if err != nil {
		wb, _ = json.Marshal(fmt.Sprintf("%+v", w))
	}
	_ = s.enc.Encode(shardEvent{K: "violation", Layer: layer, Case: c, Sig: sig, What: what, Witness: wb})
	s.w.Flush()
}
func (s *recSink) Note(t string) {
	s.notes++
	if s.notes <= 2 {
		_ = s.enc.Encode(shardEvent{K: "note", Text: t})
	}
}
func (s *recSink) done() {
	ev := shardEvent{K: "done", Evals: s.evals, Counts: s.counts, Sets: map[string][]string{}, Incon: s.incon, Samples: s.samples}
	for k, m := range s.sets {
		for x := range m {
			ev.Sets[k] = append(ev.Sets[k], x)
		}
	}
	for k := range s.distinct {
		ev.Distinct = append(ev.Distinct, k)
	}
	_ = s.enc.Encode(ev)
	s.w.Flush()
}

type layerDef struct {
	quick, thorough int
	mk              func(r *prng.R, c int) progSpec
}

var layerDefs = map[string]layerDef{}

func caseRand(seed int64, layer string, c int) *prng.R { return prng.New(seed, "C19/"+layer, c) }

// shardMain: C19_SHARD=<layer>. Case numbers arrive one per line on stdin; the worker
// answers every finished case with a "ready" event (dynamic load balancing: case costs
// differ by orders of magnitude because failing cases are minimised).
func shardMain() {
	layer := os.Getenv("C19_SHARD")
	def, ok := layerDefs[layer]
	if !ok {
		fmt.Fprintln(os.Stderr, "unknown layer", layer)
		os.Exit(3)
	}
	seed := prng.Seed()
	ctx := context.Background()
	env := newHostEnv(ctx)
	sink := newRecSink()
	in := bufio.NewScanner(os.Stdin)
	ready := func() {
		_ = sink.enc.Encode(shardEvent{K: "ready"})
		sink.w.Flush()
	}
	ready()
	for in.Scan() {
		c, err := strconv.Atoi(strings.TrimSpace(in.Text()))
		if err != nil {
			break
		}
		r := caseRand(seed, layer, c)
		sp := def.mk(r, c)
		sink.Eval()
		sink.Count("programs_generated", 1)
		t0 := time.Now()
		checkProgram(ctx, env, sink, layer, c, r, sp)
		if d := time.Since(t0); d > 3*time.Second && os.Getenv("C19_DEBUG") != "" {
			fmt.Fprintf(os.Stderr, "slow case %s/%d: %v\n", layer, c, d)
		}
		ready()
	}
	sink.done()
	os.Exit(0)
}

func runLayer(h *harness.H, layer string) {
	def := layerDefs[layer]
	cases := h.N(def.quick, def.thorough)
	ctx := context.Background()
	if rs, replaying := h.Replaying(); replaying {
		env := newHostEnv(ctx)
		defer env.Close(ctx)
		sink := &hSink{h: h}
		for c := 0; c < cases || (rs.Case >= 0 && c <= rs.Case); c++ {
			if h.Skip(layer, c) {
				continue
			}
			r := h.Rand(layer, c)
			sp := def.mk(r, c)
			h.Eval()
			checkProgram(ctx, env, sink, layer, c, r, sp)
		}
		return
	}
	n := runtime.NumCPU()
	if n > 16 {
		n = 16
	}
	if n > cases {
		n = cases
	}
	jobs := make(chan int, cases)
	for c := 0; c < cases; c++ {
		jobs <- c
	}
	close(jobs)
	var mu sync.Mutex
	totals := map[string]int{}
	notes := 0
	var wg sync.WaitGroup
	var failures []string
	for i := 0; i < n; i++ {
		wg.Add(1)
		go func(i int) {
			defer wg.Done()
			cmd := exec.Command(os.Args[0])
			cmd.Env = append(os.Environ(), "C19_SHARD="+layer, fmt.Sprintf("VERIF_SEED=%d", h.Seed()))
			stdin, err := cmd.StdinPipe()
			if err != nil {
				panic(err)
			}
			var errb bytes.Buffer
			cmd.Stderr = &errb
			out, err := cmd.StdoutPipe()
			if err != nil {
				panic(err)
			}
			if err := cmd.Start(); err != nil {
				panic(err)
			}
			sc := bufio.NewScanner(out)
			sc.Buffer(make([]byte, 1<<20), 1<<28)
			finished := false
			for sc.Scan() {
				var ev shardEvent
				if json.Unmarshal(sc.Bytes(), &ev) != nil {
					continue
				}
				switch ev.K {
				case "ready":
					if c, ok := <-jobs; ok {
						fmt.Fprintf(stdin, "%d\n", c)
					} else {
						stdin.Close()
					}
				case "violation":
					noteClass(h, ev.Sig)
					h.Violation(ev.Layer, ev.Case, ev.Sig, ev.What, ev.Witness)
				case "note":
					mu.Lock()
					notes++
					if notes <= 12 {
						fmt.Println("NOTE: " + ev.Text)
					}
					mu.Unlock()
				case "done":
					finished = true
					h.Evals(ev.Evals)
					mu.Lock()
					for k, v := range ev.Counts {
						totals[k] += v
					}
					mu.Unlock()
					for k, v := range ev.Counts {
						h.Count(k, v)
					}
					for set, ms := range ev.Sets {
						for _, m := range ms {
							h.Seen(set, m)
						}
					}
					for _, d := range ev.Distinct {
						h.Distinct(d)
					}
					for _, s := range ev.Samples {
						h.Sample(s)
					}
					for r, k := range ev.Incon {
						for ; k > 0; k-- {
							h.Inconclusive(r)
						}
					}
				}
			}
			err = cmd.Wait()
			if err != nil || !finished {
				mu.Lock()
				failures = append(failures, fmt.Sprintf("shard %d of layer %s: %v: %s", i, layer, err, head(errb.String(), 1500)))
				mu.Unlock()
			}
		}(i)
	}
	wg.Wait()
	if len(failures) > 0 {
		// a worker process that dies is either a fatal crash of the pipeline on a
		// generated (valid) program or a broken monitor; both need a human
		panic("worker process failed: " + strings.Join(failures, " || "))
	}
	if plain := totals["plain_programs_generated"]; plain >= 50 {
		rate := float64(totals["plain_programs_accepted"]) / float64(plain)
		h.SetExtra("acceptance_rate_"+layer, rate)
		if rate < 0.6 {
			panic(fmt.Sprintf("layer %s: analyzer accepted only %.0f%% of generated programs (<60%%): the generator is wrong", layer, rate*100))
		}
	}
}
