// C19 — compiled Arc code computes what the specification says.
//
// Differential runtime monitor of the real pipeline text.Parse -> text.Analyze ->
// compiler.Compile -> wazero (compile, instantiate, call) against a reference interpreter
// written from /repo/arc/docs/spec.md (ref.go). See gen.go (type-directed generator),
// args.go (boundary arguments), judge.go (verdicts, signatures), minimize.go (witness
// minimisation), crash.go (no-crash clause in a child process).
package main

import (
	"fmt"
	"os"

	"verif/lib/harness"
	"verif/lib/prng"
)

func main() {
	if os.Getenv("C19_CHILD") != "" {
		childMain()
		return
	}
	if os.Getenv("C19_SHARD") != "" {
		shardMain()
		return
	}
	harness.Main("C19", "exploration",
		harness.Layer{Name: "expr", Run: layerExpr},
		harness.Layer{Name: "stmt", Run: layerStmt},
		harness.Layer{Name: "ctl", Run: layerCtl},
		harness.Layer{Name: "state", Run: layerState},
		harness.Layer{Name: "quirk", Run: layerQuirk},
		harness.Layer{Name: "crash", Run: layerCrash},
	)
}

func rules(h *harness.H) {
	h.AddRule("programs: PRNG(seed,layer,case) type-directed generator over i8..u64,f32,f64 (gen.go); each function is run on boundary+random " +
		"argument vectors (args.go); an evaluation is judged when spec.md defines its outcome (value or division-by-zero error); " +
		"distinct_nontrivial = distinct function source texts with >=1 judged call; spec-silent outcomes are counted per reason and never judged")
	h.AddRule("ctl layer: control-flow functions (gen.go genCtlFunc) — if-chains with 0..4 else-if arms at any depth inside range(1-3 args) / conditional / infinite loops, " +
		"break/continue/return/assignments in any arm, nested chains and loops, an order-sensitive i64 accumulator updated before, inside and after the chains; " +
		"arm conditions compare loop variables, counters or parameters with small constants and the constants +-1 are fed back as argument hints; " +
		"arms_entered_<loop|top>_<arm> / arm_exits_..._<break|continue|return> count judged calls per arm index")
	h.AddRule("a real call that has not returned after 10 s although the reference finished the same call in < 10000 statements is the violation c19:call-does-not-terminate:<features>:<shape>; " +
		"other watchdog hits stay inconclusive")
	h.Assume("calling convention: narrow integers are passed canonically in a 32-bit register (sign-extended if signed, zero-extended if unsigned, as the compiler emits literals); results are read from the low `width` bits (as arc/go/stl/wasm/node.go does)")
	h.Assume("f32/f64 arithmetic, comparisons, int->float and f64->f32 conversions are IEEE 754 round-to-nearest-even (spec.md names the types but not the rounding); any NaN equals any NaN")
	h.Assume("loop semantics (range/conditional/infinite for, break, continue) come from docs/site/.../arc/reference/loops.mdx: spec.md has no loop section (it says 'No loops') although the property statement lists bounded loops")
	h.Assume("a WASM trap is the accepted outcome where spec.md defines a runtime error (integer division/modulo by zero)")
	h.Assume("wazero runs with RuntimeConfigCompiler (as core/pkg/service/arc/runtime/task.go) plus WithCloseOnContextDone so that a non-terminating call becomes an inconclusive watchdog result instead of hanging the check")
	h.Assume("one wazero runtime with the production host modules (time, channels, stateful, series, strings, math, errors) per worker process; every compiled program is instantiated into it as its own guest module and every call sequence gets a fresh stateful node key (production builds one runtime per program)")
	h.SetExtra("spec_silent", []string{
		"int-div-negative / int-mod-negative: rounding of / and sign of % with a negative operand",
		"int-min-div-minus-one: overflowing signed division",
		"pow-negative-exponent, pow-zero-zero: integer ^ with negative exponent, 0 ^ 0",
		"float-div-zero: x / 0.0 (IEEE value vs the 'division by zero' runtime error)",
		"float-pow-inexact: float ^ whose exact value is not representable (no accuracy bound in spec.md)",
		"float-mod: % on floats",
		"cast-nan-to-int: float -> int of NaN",
		"cast-sign-and-width: integer cast changing signedness and width on a value the target cannot hold (truncate vs saturate rules conflict)",
		"neg-unsigned: unary minus on unsigned values (not generated)",
		"loop-var-overflow, range-step-zero: range loops leaving the loop variable's type / zero step",
		"comparison chains (a < b == c) and mixed and/or without parentheses: never generated, spec.md gives one level and no associativity",
		"literal type inference in mixed-width expressions: bare literals are only generated where the context or the other operand fixes the type and the value fits",
		"encoding of narrow integers in 32-bit registers at the WASM ABI (see assumptions)",
		"budget: more than 4000 loop iterations in the reference",
	})
}

func init() {
	layerDefs["expr"] = layerDef{1500, 80000, func(r *prng.R, c int) progSpec {
		p := &Prog{}
		for i := 0; i < 4; i++ {
			p.Funcs = append(p.Funcs, genExprFunc(r, fmt.Sprintf("f%d", i)))
		}
		return progSpec{prog: p, nvec: 40}
	}}
	layerDefs["stmt"] = layerDef{1500, 60000, func(r *prng.R, c int) progSpec {
		p := &Prog{}
		for i := 0; i < 2; i++ {
			p.Funcs = append(p.Funcs, genStmtFunc(r, fmt.Sprintf("f%d", i), false))
		}
		return progSpec{prog: p, nvec: 24}
	}}
	layerDefs["ctl"] = layerDef{1200, 50000, func(r *prng.R, c int) progSpec {
		p := &Prog{}
		for i := 0; i < 2; i++ {
			p.Funcs = append(p.Funcs, genCtlFunc(r, fmt.Sprintf("f%d", i)))
		}
		return progSpec{prog: p, nvec: 24}
	}}
	layerDefs["state"] = layerDef{700, 30000, func(r *prng.R, c int) progSpec {
		p := &Prog{}
		for i := 0; i < r.Range(1, 2); i++ {
			if r.Chance(1, 3) {
				p.Funcs = append(p.Funcs, genStateIdiom(r, fmt.Sprintf("f%d", i)))
				continue
			}
			p.Funcs = append(p.Funcs, genStmtFunc(r, fmt.Sprintf("f%d", i), true))
		}
		return progSpec{prog: p, nseq: 8}
	}}
	layerDefs["quirk"] = layerDef{150, 3000, func(r *prng.R, c int) progSpec {
		f, q := genQuirkFunc(r, "f0")
		return progSpec{prog: &Prog{Funcs: []*Func{f}}, quirk: q, nvec: 12}
	}}
}

func layerExpr(h *harness.H)  { rules(h); runLayer(h, "expr") }
func layerStmt(h *harness.H)  { runLayer(h, "stmt") }
func layerCtl(h *harness.H)   { runLayer(h, "ctl") }
func layerState(h *harness.H) { runLayer(h, "state") }
func layerQuirk(h *harness.H) { runLayer(h, "quirk") }
