package main

import (
	"bufio"
	"bytes"
	"context"
	"encoding/json"
	"fmt"
	"os"
	"os/exec"
	"path/filepath"
	"regexp"
	"runtime/debug"
	"strings"
	"sync"
	"time"

	"verif/lib/harness"
	"verif/lib/prng"
)

// No-crash clause: "Source the analyzer rejects produces diagnostics, never a crash."
// Token-level mutations of valid generated programs, token soup, byte noise and
// pathological shapes (deep nesting, long chains) go through the same pipeline in a child
// process (a Go stack overflow or other fatal error cannot be recovered in-process). The
// batch is written to $VERIF_REPLAY_DIR/C19/ before the child starts; the child announces
// every input before touching it, so an input in flight when the child dies is identified.
// Mutants that the analyzer ACCEPTS fall under the first clause again: they must compile,
// validate and instantiate.

type childEvent struct {
	I     int    `json:"i"`
	Ev    string `json:"ev"` // begin | end
	Stage string `json:"stage,omitempty"`
	Msg   string `json:"msg,omitempty"`
	Empty bool   `json:"diag_empty,omitempty"`
	Panic bool   `json:"panic,omitempty"`
	Frame string `json:"frame,omitempty"`
}

type crashBatch struct {
	Inputs []string `json:"inputs"`
}

var reRepoFrame = regexp.MustCompile(`(?m)^(github\.com/synnaxlabs/[^\s(]+|github\.com/antlr4-go/[^\s(]+)\(`)

func topRepoFrame(stack string) string {
	m := reRepoFrame.FindAllStringSubmatch(stack, -1)
	for _, x := range m {
		if strings.Contains(x[1], "synnaxlabs") {
			fr := x[1]
			fr = strings.TrimPrefix(fr, "github.com/synnaxlabs/")
			return regexp.MustCompile(`\[[^\]]*\]`).ReplaceAllString(fr, "")
		}
	}
	if len(m) > 0 {
		return m[0][1]
	}
	return "unknown"
}

// runOne runs the pipeline on one input, recovering panics.
func runOne(ctx context.Context, env *hostEnv, src string) (ev childEvent) {
	ev.Ev = "end"
	defer func() {
		if r := recover(); r != nil {
			ev.Panic = true
			ev.Msg = fmt.Sprint(r)
			ev.Frame = topRepoFrame(string(debug.Stack()))
		}
	}()
	b := build(ctx, env, src)
	defer b.Close(ctx)
	ev.Stage = b.stage.String()
	ev.Msg = firstLine(b.diag)
	ev.Empty = strings.TrimSpace(b.diag) == ""
	return ev
}

func childMain() {
	path := os.Getenv("C19_CHILD")
	from := 0
	fmt.Sscanf(os.Getenv("C19_CHILD_FROM"), "%d", &from)
	raw, err := os.ReadFile(path)
	if err != nil {
		fmt.Fprintln(os.Stderr, "child: cannot read batch:", err)
		os.Exit(3)
	}
	var batch crashBatch
	if err := json.Unmarshal(raw, &batch); err != nil {
		fmt.Fprintln(os.Stderr, "child: cannot parse batch:", err)
		os.Exit(3)
	}
	w := bufio.NewWriter(os.Stdout)
	enc := json.NewEncoder(w)
	ctx := context.Background()
	env := newHostEnv(ctx)
	for i := from; i < len(batch.Inputs); i++ {
		_ = enc.Encode(childEvent{I: i, Ev: "begin"})
		w.Flush()
		ev := runOne(ctx, env, batch.Inputs[i])
		ev.I = i
		_ = enc.Encode(ev)
		w.Flush()
	}
	os.Exit(0)
}

// ---------------------------------------------------------------------------------------
// Input generation
// ---------------------------------------------------------------------------------------

var reToken = regexp.MustCompile(`[A-Za-z_][A-Za-z0-9_]*|\d+\.\d*|\.\d+|\d+|:=|\$=|=>|->|==|!=|<=|>=|\+=|-=|\*=|/=|%=|\n|[^\sA-Za-z0-9_]`)

var vocab = []string{
	"func", "if", "else", "return", "for", "break", "continue", "import", "as", "sequence", "stage", "next", "chan", "authority",
	"i8", "i16", "i32", "i64", "u8", "u16", "u32", "u64", "f32", "f64", "str", "series", "->", ":=", "$=", "=>", "=", "+=", "-=", "*=",
	"/=", "%=", "+", "-", "*", "/", "%", "^", "==", "!=", "<", ">", "<=", ">=", "and", "or", "not", "(", ")", "{", "}", "[", "]", ",",
	":", ".", "0", "1", "255", "256", "9223372036854775807", "9223372036854775808", "18446744073709551616", "99999999999999999999999",
	"1.5", ".5", "5.", "1e5", "100ms", "5s", "1min", "10hz", "5xyz", "p0", "p1", "v1", "f0", "range", "len", "now", "true", "false",
	"math", "pow", "\"s\"", "\"", "`", "//", "/*", "*/", "\n", "$", "#", "@", "\\", "'", ";", "!", "&", "|", "~", "?",
}

func tokenize(src string) []string { return reToken.FindAllString(src, -1) }

func joinTokens(r *prng.R, toks []string, glue bool) string {
	var sb strings.Builder
	for i, t := range toks {
		if i > 0 && t != "\n" && !(glue && r.Chance(1, 12)) {
			sb.WriteByte(' ')
		}
		sb.WriteString(t)
	}
	return sb.String()
}

func validSource(r *prng.R) string {
	p := &Prog{}
	switch r.Intn(3) {
	case 0:
		p.Funcs = append(p.Funcs, genExprFunc(r, "f0"), genExprFunc(r, "f1"))
	case 1:
		p.Funcs = append(p.Funcs, genStmtFunc(r, "f0", false))
	default:
		p.Funcs = append(p.Funcs, genStmtFunc(r, "f0", true))
	}
	return p.String()
}

func mutate(r *prng.R) string {
	toks := tokenize(validSource(r))
	n := r.Range(1, 4)
	for k := 0; k < n && len(toks) > 2; k++ {
		i := r.Intn(len(toks))
		switch r.Intn(8) {
		case 0: // delete
			toks = append(toks[:i], toks[i+1:]...)
		case 1: // duplicate
			toks = append(toks[:i+1], toks[i:]...)
		case 2: // swap with neighbour
			if i+1 < len(toks) {
				toks[i], toks[i+1] = toks[i+1], toks[i]
			}
		case 3, 4: // replace
			toks[i] = vocab[r.Intn(len(vocab))]
		case 5: // insert
			toks = append(toks[:i], append([]string{vocab[r.Intn(len(vocab))]}, toks[i:]...)...)
		case 6: // truncate
			toks = toks[:i]
		case 7: // splice in a slice of another program
			o := tokenize(validSource(r))
			a := r.Intn(len(o))
			b := a + r.Intn(len(o)-a)
			toks = append(toks[:i], append(append([]string{}, o[a:b]...), toks[i:]...)...)
		}
	}
	return joinTokens(r, toks, true)
}

func soup(r *prng.R) string {
	n := r.Range(1, 60)
	toks := make([]string, n)
	for i := range toks {
		toks[i] = vocab[r.Intn(len(vocab))]
	}
	return joinTokens(r, toks, true)
}

func noise(r *prng.R) string {
	b := r.Bytes(r.Range(0, 200))
	if r.Bool() {
		// mostly printable with some hostile bytes
		for i := range b {
			if r.Chance(9, 10) {
				b[i] = " \n\tabcfunc(){}:=+-*/%^<>!01239.,\"`$"[int(b[i])%35]
			}
		}
	}
	return string(b)
}

func wrapFunc(ret, body string) string {
	return "func f0(p0 i64, p1 u8, p2 f64) " + ret + " {\n" + body + "\n}\n"
}

// pathological shapes of size n
func shaped(r *prng.R, n int) string {
	switch r.Intn(14) {
	case 0:
		return wrapFunc("i64", "return "+strings.Repeat("(", n)+"p0"+strings.Repeat(")", n))
	case 1:
		return wrapFunc("i64", "return "+strings.Repeat("-", n)+"p0")
	case 2:
		return wrapFunc("u8", "return "+strings.Repeat("not ", n)+"p1")
	case 3:
		return wrapFunc("i64", "return p0"+strings.Repeat(" + p0", n))
	case 4:
		return wrapFunc("i64", "return p0"+strings.Repeat(" ^ p0", n))
	case 5:
		return wrapFunc("i64", "return "+strings.Repeat("i64(", n)+"p0"+strings.Repeat(")", n))
	case 6:
		return wrapFunc("i64", strings.Repeat("if p1 {\n", n)+"return 1\n"+strings.Repeat("}\n", n)+"return 0")
	case 7:
		return wrapFunc("i64", strings.Repeat("for i := range(2) {\n", n)+strings.Repeat("}\n", n)+"return 0")
	case 8:
		return wrapFunc("i64", "return "+strings.Repeat("(", n)+"p0")
	case 9:
		return strings.Repeat("{", n)
	case 10:
		return wrapFunc("u8", "return p1"+strings.Repeat(" and p1", n))
	case 11:
		return wrapFunc("i64", "return "+strings.Repeat("9", n))
	case 12:
		return wrapFunc("u8", "return p0"+strings.Repeat(" < p0", n))
	default:
		var sb strings.Builder
		for i := 0; i < n; i++ {
			fmt.Fprintf(&sb, "v%d := p0 + %d\n", i, i)
		}
		return wrapFunc("i64", sb.String()+"return p0")
	}
}

// returnChain: a function that ends in an if / else-if / else chain in which every arm
// returns, except (usually) one chosen arm, which falls through. Without a return after
// the chain the analyzer has to refuse it ("must return a value on all paths"); if it
// accepts, the module must still validate and instantiate.
func returnChain(r *prng.R) string {
	n := r.Range(1, 3) // else-if arms
	drop := r.Intn(n+3) - 1
	conds := []string{"p0 > 3", "p1", "p2 < 0.5", "p0 == 7", "p0 < -2", "not p1"}
	arm := func(i int) string {
		if i == drop {
			return fmt.Sprintf("v%d := p0 + %d\n", i, i+1)
		}
		return fmt.Sprintf("return p0 + %d\n", i+1)
	}
	var sb strings.Builder
	fmt.Fprintf(&sb, "if %s {\n%s}", conds[r.Intn(len(conds))], arm(0))
	for i := 1; i <= n; i++ {
		fmt.Fprintf(&sb, " else if %s {\n%s}", conds[r.Intn(len(conds))], arm(i))
	}
	fmt.Fprintf(&sb, " else {\n%s}", arm(n+1))
	body := sb.String()
	if r.Chance(1, 3) {
		body = "if p1 {\nreturn 0\n} else {\n" + body + "\n}"
	}
	if r.Chance(1, 8) {
		body += "\nreturn 9"
	}
	return wrapFunc("i64", body)
}

func crashInput(r *prng.R, thorough bool) (string, string) {
	switch n := r.Intn(100); {
	case n < 56:
		return mutate(r), "mutant"
	case n < 62:
		return returnChain(r), "return-chain"
	case n < 80:
		return soup(r), "soup"
	case n < 90:
		return noise(r), "noise"
	default:
		sizes := []int{10, 60, 200, 600}
		if thorough {
			sizes = append(sizes, 2000)
		}
		return shaped(r, sizes[r.Intn(len(sizes))]), "shaped"
	}
}

// ---------------------------------------------------------------------------------------
// Parent side
// ---------------------------------------------------------------------------------------

const crashBatchSize = 250

func replayDir(h *harness.H) string {
	dir := filepath.Join(harness.Root(), "replays", h.Prop)
	if d := os.Getenv("VERIF_REPLAY_DIR"); d != "" {
		dir = filepath.Join(d, h.Prop)
	}
	_ = os.MkdirAll(dir, 0o755)
	return dir
}

// ddminText shrinks a token list while pred holds.
func ddminText(toks []string, pred func([]string) bool, budget int) []string {
	n := 2
	for len(toks) >= 2 && budget > 0 {
		chunk := (len(toks) + n - 1) / n
		reduced := false
		for i := 0; i < len(toks) && budget > 0; i += chunk {
			end := i + chunk
			if end > len(toks) {
				end = len(toks)
			}
			cand := append(append([]string{}, toks[:i]...), toks[end:]...)
			budget--
			if len(cand) > 0 && pred(cand) {
				toks = cand
				if n > 2 {
					n--
				}
				reduced = true
				break
			}
		}
		if !reduced {
			if n >= len(toks) {
				break
			}
			n *= 2
			if n > len(toks) {
				n = len(toks)
			}
		}
	}
	return toks
}

func layerCrash(h *harness.H) {
	h.AddRule("crash layer: token-level mutants of generated programs, token soup, byte noise, pathological shapes and if-else-if-else return chains with one arm falling through (6%: must be refused, or be a valid module) through " +
		"text.Parse -> text.Analyze -> compiler.Compile -> wazero in a child process; distinct = distinct input texts that completed")
	total := h.N(3000, 120000)
	batches := (total + crashBatchSize - 1) / crashBatchSize
	dir := replayDir(h)
	ctx := context.Background()
	workers := 8
	if _, replaying := h.Replaying(); replaying {
		workers = 1
	}
	sem := make(chan struct{}, workers)
	var wg sync.WaitGroup
	var pmu sync.Mutex
	var problems []string
	for bn := 0; bn < batches; bn++ {
		if h.Skip("crash", bn) {
			continue
		}
		wg.Add(1)
		sem <- struct{}{}
		go func(bn int) {
			defer wg.Done()
			defer func() { <-sem }()
			if p := crashBatchRun(ctx, h, dir, bn, total); p != "" {
				pmu.Lock()
				problems = append(problems, p)
				pmu.Unlock()
			}
		}(bn)
	}
	wg.Wait()
	if len(problems) > 0 {
		panic(strings.Join(problems, " || "))
	}
}

// crashBatchRun generates batch bn, runs it in child processes and judges the events.
// Returns a non-empty string when the monitor itself is broken.
func crashBatchRun(ctx context.Context, h *harness.H, dir string, bn, total int) string {
	env := newHostEnv(ctx)
	defer env.Close(ctx)
	r := h.Rand("crash", bn)
	var batch crashBatch
	kinds := make([]string, 0, crashBatchSize)
	for i := 0; i < crashBatchSize && bn*crashBatchSize+i < total; i++ {
		in, kind := crashInput(r, h.Thorough())
		batch.Inputs = append(batch.Inputs, in)
		kinds = append(kinds, kind)
	}
	h.Evals(len(batch.Inputs))
	path := filepath.Join(dir, fmt.Sprintf("crash-batch-s%d-b%d.json", h.Seed(), bn))
	raw, _ := json.Marshal(batch)
	if err := os.WriteFile(path, raw, 0o644); err != nil {
		return err.Error()
	}
	keep := false
	from := 0
	for from < len(batch.Inputs) {
		events, stderr, timedOut := runChild(path, from)
		last := from - 1
		begun := -1
		for _, ev := range events {
			if ev.Ev == "begin" {
				begun = ev.I
				continue
			}
			last = ev.I
			begun = -1
			if judgeCrashEvent(ctx, env, h, bn, ev, batch.Inputs[ev.I], kinds[ev.I]) {
				keep = true
			}
		}
		if begun >= 0 {
			// the child died (or hung) while this input was in flight
			in := batch.Inputs[begun]
			if timedOut {
				h.Inconclusive("crash-child-watchdog")
				fmt.Printf("NOTE: child watchdog fired on input %d of batch %d (%s, %d bytes)\n", begun, bn, kinds[begun], len(in))
			} else {
				sig := "c19:crash:fatal:" + normMsg(fatalLine(stderr))
				h.Violation("crash", bn, sig, fmt.Sprintf("child process died while running the pipeline on a %s input (%d bytes): %s", kinds[begun], len(in), fatalLine(stderr)),
					map[string]any{"input": in, "kind": kinds[begun], "stderr_head": head(stderr, 2000), "batch_file": path, "index": begun})
			}
			keep = true
			from = begun + 1
			continue
		}
		if last+1 < len(batch.Inputs) {
			return fmt.Sprintf("crash child stopped after input %d of batch %d without dying in one: %s", last, bn, head(stderr, 500))
		}
		from = last + 1
	}
	if !keep {
		_ = os.Remove(path)
	}
	return ""
}

func head(s string, n int) string {
	if len(s) > n {
		return s[:n]
	}
	return s
}

func fatalLine(stderr string) string {
	for _, l := range strings.Split(stderr, "\n") {
		if strings.HasPrefix(l, "fatal error:") || strings.HasPrefix(l, "runtime:") || strings.HasPrefix(l, "panic:") || strings.HasPrefix(l, "SIG") {
			return l
		}
	}
	return firstLine(stderr)
}

func runChild(path string, from int) (events []childEvent, stderr string, timedOut bool) {
	ctx, cancel := context.WithTimeout(context.Background(), 900*time.Second)
	defer cancel()
	cmd := exec.CommandContext(ctx, os.Args[0])
	cmd.Env = append(os.Environ(), "C19_CHILD="+path, fmt.Sprintf("C19_CHILD_FROM=%d", from))
	var out, errb bytes.Buffer
	cmd.Stdout = &out
	cmd.Stderr = &errb
	_ = cmd.Run()
	timedOut = ctx.Err() != nil
	sc := bufio.NewScanner(&out)
	sc.Buffer(make([]byte, 1<<20), 1<<26)
	for sc.Scan() {
		var ev childEvent
		if json.Unmarshal(sc.Bytes(), &ev) == nil && ev.Ev != "" {
			events = append(events, ev)
		}
	}
	return events, errb.String(), timedOut
}

// judgeCrashEvent returns true when a violation was filed.
func judgeCrashEvent(ctx context.Context, env *hostEnv, h *harness.H, bn int, ev childEvent, in, kind string) bool {
	h.Count("crash_inputs_"+kind, 1)
	if strings.TrimSpace(in) != "" {
		h.Distinct("crash:" + in)
	}
	switch {
	case ev.Panic:
		toks := ddminText(tokenize(in), func(t []string) bool {
			e := runOne(ctx, env, strings.Join(t, " "))
			return e.Panic && e.Frame == ev.Frame
		}, 150)
		min := strings.Join(toks, " ")
		if e := runOne(ctx, env, min); !(e.Panic && e.Frame == ev.Frame) {
			min = in
		}
		h.Violation("crash", bn, "c19:crash:panic:"+ev.Frame+":"+normMsg(ev.Msg),
			fmt.Sprintf("pipeline panicked (%s) in %s on: %s", firstLine(ev.Msg), ev.Frame, head(oneLine(min), 300)),
			map[string]any{"input": in, "minimised": min, "kind": kind, "panic": ev.Msg, "frame": ev.Frame})
		return true
	case ev.Stage == "parse" || ev.Stage == "analyze":
		h.Count("crash_rejected", 1)
		if ev.Empty {
			h.Violation("crash", bn, "c19:rejected-without-diagnostics:"+ev.Stage, "source rejected with empty diagnostics: "+head(oneLine(in), 300),
				map[string]any{"input": in, "kind": kind})
			return true
		}
	case ev.Stage == "ok":
		h.Count("crash_accepted_and_instantiated", 1)
	default:
		// accepted by the analyzer, but a later stage failed
		h.Count("crash_accepted_but_failed", 1)
		nm := normMsg(ev.Msg)
		toks := ddminText(tokenize(in), func(t []string) bool {
			e := runOne(ctx, env, strings.Join(t, " "))
			return !e.Panic && e.Stage == ev.Stage && normMsg(e.Msg) == nm
		}, 150)
		min := strings.Join(toks, " ")
		if e := runOne(ctx, env, min); e.Panic || e.Stage != ev.Stage || normMsg(e.Msg) != nm {
			min = in
		}
		k := map[string]string{"compile": "compile-fails", "validate": "invalid-module", "instantiate": "instantiate-fails"}[ev.Stage]
		h.Violation("crash", bn, "c19:"+k+":"+nm+":text",
			fmt.Sprintf("analyzer accepted the source but stage %s failed: %s | %s", ev.Stage, ev.Msg, head(oneLine(min), 300)),
			map[string]any{"input": in, "minimised": min, "kind": kind, "stage": ev.Stage, "message": ev.Msg})
		return true
	}
	return false
}
