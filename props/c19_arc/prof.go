package main

import (
	"os"
	"os/signal"
	"runtime"
	"runtime/pprof"
	"syscall"
	"time"
)

// startProfile: developer aid (C19_PROF=<prefix>): CPU + mutex + block profiles, written
// after 25 s or on SIGUSR1 (harness.Main exits the process, so defers do not run).
func startProfile(prefix string) func() {
	runtime.SetMutexProfileFraction(5)
	runtime.SetBlockProfileRate(10000)
	f, _ := os.Create(prefix + ".cpu")
	_ = pprof.StartCPUProfile(f)
	dump := func() {
		pprof.StopCPUProfile()
		f.Close()
		for _, n := range []string{"mutex", "block"} {
			g, _ := os.Create(prefix + "." + n)
			_ = pprof.Lookup(n).WriteTo(g, 0)
			g.Close()
		}
	}
	go func() {
		c := make(chan os.Signal, 1)
		signal.Notify(c, syscall.SIGUSR1)
		select {
		case <-c:
		case <-time.After(20 * time.Second):
		}
		dump()
	}()
	return dump
}
