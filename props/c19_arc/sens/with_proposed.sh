#!/usr/bin/env bash
# Run the already built C19 binary with props/c19_arc/proposed_known_findings.json standing in
# for /verif/known_findings.json (nothing is written to /verif/evidence or /verif/replays).
#   sens/with_proposed.sh [binary] [seed] [layers]
set -u
bin=${1:-/verif/.build/C19.bin}; seed=${2:-1}; layers=${3:-}
root=/verif/.build/c19-proposed-root
mkdir -p "$root"
cp /verif/props/c19_arc/proposed_known_findings.json "$root/known_findings.json"
VERIF_ROOT="$root" VERIF_SEED="$seed" VERIF_LAYERS="$layers" VERIF_TIER=${VERIF_TIER:-quick} \
  VERIF_EVIDENCE="$root/evidence-s$seed.json" VERIF_REPLAY_DIR="$root/replays" "$bin"
echo "exit=$?"
