#!/usr/bin/env bash
# sens/run_mutation.sh <name>   — applies props/c19_arc/sens/<name>.diff to a scratch worktree (prefix bC),
# builds C19 against it through ./check, runs the binary with the proposed known findings standing in,
# prints the violations that are NOT explained by them, and removes the worktree.
set -u
name=$1; seed=${2:-1}
cd /verif
d=$(tools/scratch.sh new bC-$name)
( cd "$d" && git apply /verif/props/c19_arc/sens/$name.diff ) || { echo "patch failed"; tools/scratch.sh rm bC-$name; exit 2; }
alt="/verif/.build/alt-$(echo "$d" | md5sum | cut -c1-8)"
VERIF_REPO=$d VERIF_LAYERS=quirk VERIF_SCALE=0.02 ./check C19 >/dev/null 2>&1
ls "$alt"/C19*.bin >/dev/null 2>&1 || { echo "build failed"; cat "$alt/logs/C19.build.log" | tail -20; tools/scratch.sh rm bC-$name; exit 2; }
bin=$(ls "$alt"/C19*.bin | head -1)
props/c19_arc/sens/with_proposed.sh "$bin" "$seed" > /verif/.build/c19tmp/mut-$name.txt 2>&1
echo "mutation $name: $(grep -c '^VIOLATION' /verif/.build/c19tmp/mut-$name.txt) new violation signatures; $(grep 'exit=' /verif/.build/c19tmp/mut-$name.txt)"
grep -A2 '^VIOLATION' /verif/.build/c19tmp/mut-$name.txt | grep 'signature' | sed -E 's/\b[iuf](8|16|32|64)\b/T/g' | sort | uniq -c | sort -rn | head -8
tools/scratch.sh rm bC-$name
