#!/usr/bin/env bash
# sens/run_mutation.sh <name>   — applies props/c19_arc/sens/<name>.diff to a scratch worktree (prefix bC),
# builds C19 against it through ./check, runs the binary (all layers, quick tier) with a copy of /verif/known_findings.json,
# prints the violations that are NOT known findings, and removes the worktree.
set -u
name=$1; seed=${2:-1}
cd /verif
d=$(tools/scratch.sh new bC-$name)
( cd "$d" && git apply /verif/props/c19_arc/sens/$name.diff ) || { echo "patch failed"; tools/scratch.sh rm bC-$name; exit 2; }
mkdir -p /verif/.build/c19-mut-root /verif/.build/c19tmp; cp /verif/known_findings.json /verif/.build/c19-mut-root/known_findings.json
alt="/verif/.build/alt-$(echo "$d" | md5sum | cut -c1-8)"
VERIF_REPO=$d VERIF_LAYERS=quirk VERIF_SCALE=0.02 ./check C19 >/dev/null 2>&1
ls "$alt"/C19*.bin >/dev/null 2>&1 || { echo "build failed"; cat "$alt/logs/C19.build.log" | tail -20; tools/scratch.sh rm bC-$name; exit 2; }
bin=$(ls "$alt"/C19*.bin | head -1)
VERIF_ROOT=/verif/.build/c19-mut-root VERIF_SEED=$seed VERIF_TIER=quick VERIF_EVIDENCE=/verif/.build/c19-mut-root/evidence.json VERIF_REPLAY_DIR=/verif/.build/c19-mut-root/replays "$bin" > /verif/.build/c19tmp/mut-$name.txt 2>&1; echo "exit=$?" >> /verif/.build/c19tmp/mut-$name.txt
echo "mutation $name: $(grep -c '^VIOLATION' /verif/.build/c19tmp/mut-$name.txt) new violation signatures; $(grep 'exit=' /verif/.build/c19tmp/mut-$name.txt)"
grep -A2 '^VIOLATION' /verif/.build/c19tmp/mut-$name.txt | grep 'signature' | sed -E 's/\b[iuf](8|16|32|64)\b/T/g' | sort | uniq -c | sort -rn | head -8
tools/scratch.sh rm bC-$name
