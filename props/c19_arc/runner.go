package main

import (
	"context"
	"fmt"
	"strings"
	"sync"

	"verif/lib/harness"
	"verif/lib/prng"
)

type progSpec struct {
	prog  *Prog
	quirk string
	nvec  int // argument vectors per plain function
	nseq  int // call sequences per stateful function
}

func callsToStrings(calls [][]Value) [][]string {
	out := make([][]string, len(calls))
	for i, c := range calls {
		out[i] = make([]string, len(c))
		for j, v := range c {
			out[i][j] = v.String()
		}
	}
	return out
}

type witness struct {
	Source         string     `json:"source"`
	Calls          [][]string `json:"calls,omitempty"`
	CallsRaw       [][]Value  `json:"calls_raw,omitempty"`
	FailingCall    int        `json:"failing_call"`
	Spec           string     `json:"spec_says,omitempty"`
	Real           string     `json:"real_code,omitempty"`
	Stage          string     `json:"stage,omitempty"`
	Message        string     `json:"message,omitempty"`
	Tags           []string   `json:"reference_tags,omitempty"`
	OriginalSource string     `json:"original_source,omitempty"`
	OriginalCalls  [][]string `json:"original_calls,omitempty"`
	MinimiseBuilds int        `json:"minimise_builds"`
	Quirk          string     `json:"quirk,omitempty"`
}

const minimiseBudget = 220

// non-termination reports minimised per worker process
const maxNontermMinimised = 2

var nontermReports int

var (
	classMu sync.Mutex
	classes = map[string]int{}
)

// classOf: the signature with concrete types replaced by T and the shape dropped; used
// only for the human-readable summary in the evidence file.
func classOf(sig string) string {
	parts := strings.SplitN(sig, ":", 5)
	if len(parts) > 4 {
		parts = parts[:len(parts)-1]
	}
	return reType.ReplaceAllString(strings.Join(parts, ":"), "T")
}

func noteClass(h *harness.H, sig string) {
	classMu.Lock()
	classes[classOf(sig)]++
	cp := make(map[string]int, len(classes))
	for k, v := range classes {
		cp[k] = v
	}
	classMu.Unlock()
	h.SetExtra("violation_classes_types_abstracted", cp)
}

// report minimises a failing case and files the violation.
func report(ctx context.Context, env *hostEnv, h Sink, layer string, cn int, c Case, vd Verdict, origSrc string, quirk string) {
	mc, mvd, builds := minimize(ctx, env, c, vd, minimiseBudget)
	if mvd.Kind == vdMismatch && mvd.MKind == mkNonterm {
		// minimised under a short watchdog: confirm under the full one
		if caseSize(mc) < caseSize(c) {
			if re := judgeCase(ctx, env, mc); re.Kind == vdMismatch && re.MKind == mkNonterm {
				mvd = re
			} else {
				mc, mvd = c, vd
			}
		}
		h.Count("nonterminating_calls", 1)
		h.Seen("nonterminating_shapes", funcShape(mc.F))
	}
	h.Count("minimisations", 1)
	h.Count("minimise_builds", builds)
	sig := signatureOf(mc, mvd)
	w := witness{
		Source: mc.F.String(), Calls: callsToStrings(mc.Calls), CallsRaw: mc.Calls, FailingCall: mvd.CallIdx,
		Tags: mvd.Tags, OriginalSource: origSrc, OriginalCalls: callsToStrings(c.Calls), MinimiseBuilds: builds, Quirk: quirk,
	}
	var what string
	switch mvd.Kind {
	case vdMismatch:
		w.Spec, w.Real = mvd.Ref.String(), mvd.Real.String()
		what = fmt.Sprintf("%s: spec.md gives %s, compiled code gives %s for call %v of: %s", mvd.MKind, mvd.Ref, mvd.Real,
			callsToStrings(mc.Calls)[mvd.CallIdx], oneLine(mc.F.String()))
	case vdPipeline:
		w.Stage, w.Message = mvd.Stage.String(), mvd.Msg
		what = fmt.Sprintf("analyzer accepted the program but stage %s failed: %s | %s", mvd.Stage, firstLine(mvd.Msg), oneLine(mc.F.String()))
	case vdPanic:
		w.Message = mvd.Msg
		what = fmt.Sprintf("pipeline panicked: %s | %s", firstLine(mvd.Msg), oneLine(mc.F.String()))
	case vdExport:
		w.Message = mvd.Msg
		what = fmt.Sprintf("exported function does not follow the spec's type mapping: %s | %s", mvd.Msg, oneLine(mc.F.String()))
	}
	h.Violation(layer, cn, sig, what, w)
}

func firstLine(s string) string {
	if i := strings.Index(s, "\n"); i >= 0 {
		return s[:i]
	}
	return s
}

func oneLine(s string) string {
	return strings.Join(strings.Fields(s), " ")
}

// opTypeCoverage records operator x type combinations present in accepted functions.
func opTypeCoverage(f *Func, into map[string]struct{}) {
	walkExprs(f.Body, func(e *E) {
		var rec func(e *E)
		rec = func(e *E) {
			if e == nil {
				return
			}
			switch e.K {
			case KArith:
				into[opName(e.Op)+"."+e.T.String()] = struct{}{}
			case KCmp:
				into[opName(e.Op)+"."+e.A.T.String()] = struct{}{}
			case KCast:
				into["cast."+e.A.T.String()+"-"+e.T.String()] = struct{}{}
			case KNeg:
				into["neg."+e.T.String()] = struct{}{}
			case KLogic, KNot:
				into[e.Op] = struct{}{}
			}
			rec(e.A)
			rec(e.B)
		}
		rec(e)
	})
}

func checkProgram(ctx context.Context, env *hostEnv, h Sink, layer string, cn int, r *prng.R, sp progSpec) {
	src := sp.prog.String()
	if sp.quirk == "" {
		h.Count("plain_programs_generated", 1)
	}
	b, pmsg := buildSafe(ctx, env, src)
	if b == nil {
		// find a single function that reproduces the panic
		for _, f := range sp.prog.Funcs {
			c := Case{F: f}
			if vd := judgeCase(ctx, env, c); vd.Kind == vdPanic {
				report(ctx, env, h, layer, cn, c, vd, src, sp.quirk)
				return
			}
		}
		h.Violation(layer, cn, "c19:panic:"+normMsg(pmsg)+":multi-function", "pipeline panicked: "+firstLine(pmsg), witness{Source: src, Message: pmsg})
		return
	}
	defer b.Close(ctx)
	if b.stage == stParse || b.stage == stAnalyze {
		h.Count("programs_rejected", 1)
		if sp.quirk != "" {
			h.Count("quirk_rejected_"+sp.quirk, 1)
		} else {
			h.Seen("reject_reasons", b.stage.String()+":"+normMsg(b.diag))
			h.Note(fmt.Sprintf("rejected (%s) %s | %s", b.stage, firstLine(b.diag), head(oneLine(src), 400)))
		}
		if strings.TrimSpace(b.diag) == "" {
			h.Violation(layer, cn, "c19:rejected-without-diagnostics:"+b.stage.String(), "source rejected with empty diagnostics", witness{Source: src})
		}
		return
	}
	h.Count("programs_accepted", 1)
	if sp.quirk != "" {
		h.Count("quirk_accepted_"+sp.quirk, 1)
	} else {
		h.Count("plain_programs_accepted", 1)
	}
	if b.stage != stOK {
		h.Count("pipeline_failures", 1)
		for _, f := range sp.prog.Funcs {
			c := Case{F: f}
			if vd := judgeCase(ctx, env, c); vd.Kind == vdPipeline && vd.Stage == b.stage {
				report(ctx, env, h, layer, cn, c, vd, src, sp.quirk)
				return
			}
		}
		k := map[stage]string{stCompile: "compile-fails", stValidate: "invalid-module", stInstantiate: "instantiate-fails"}[b.stage]
		h.Violation(layer, cn, "c19:"+k+":"+normMsg(b.diag)+":multi-function",
			fmt.Sprintf("analyzer accepted the program but stage %s failed: %s", b.stage, firstLine(b.diag)), witness{Source: src, Stage: b.stage.String(), Message: b.diag})
		return
	}
	tagCount := map[string]int{}
	silentCount := map[string]int{}
	cov := map[string]struct{}{}
	judged, agreeErr, mism := 0, 0, 0
	for _, f := range sp.prog.Funcs {
		h.Count("functions_checked", 1)
		opTypeCoverage(f, cov)
		if p := exportProblem(b, f); p != "" {
			report(ctx, env, h, layer, cn, Case{F: f}, Verdict{Kind: vdExport, Msg: p}, src, sp.quirk)
			continue
		}
		if f.NoRef {
			continue
		}
		var cases []Case
		if f.Stateful {
			for s := 0; s < sp.nseq; s++ {
				cases = append(cases, Case{F: f, Calls: argVectors(r, f, 6+r.Range(3, 4))[6:]})
			}
		} else {
			for _, v := range argVectors(r, f, sp.nvec) {
				cases = append(cases, Case{F: f, Calls: [][]Value{v}})
			}
		}
		reported := map[string]bool{}
		fjudged := 0
		for _, c := range cases {
			vd := runCallsCollect(ctx, b, c, tagCount)
			judged += vd.Judged
			fjudged += vd.Judged
			agreeErr += vd.ErrAgree
			for k, n := range vd.Silent {
				silentCount[k] += n
			}
			switch vd.Kind {
			case vdTimeout:
				h.Inconclusive("real-call-timeout")
				h.Note(fmt.Sprintf("real call timed out: %s args %v", oneLine(f.String()), callsToStrings(c.Calls)))
				// the module is closed after a timeout: abandon this program
				flush(h, tagCount, silentCount, cov, judged, agreeErr, mism)
				return
			case vdMismatch:
				mism++
				if vd.MKind == mkNonterm {
					// the watchdog closed the guest module: report and abandon the program.
					// The first few per worker process are minimised (each kept candidate
					// costs a watchdog period); later ones are filed as they are.
					c.Calls = c.Calls[:vd.CallIdx+1]
					nontermReports++
					if nontermReports <= maxNontermMinimised {
						report(ctx, env, h, layer, cn, c, vd, src, sp.quirk)
					} else {
						h.Count("nonterminating_calls", 1)
						h.Seen("nonterminating_shapes", funcShape(c.F))
						h.Violation(layer, cn, signatureOf(c, vd), fmt.Sprintf("%s: spec.md gives %s after %s, the compiled code had not returned after %v: call %v of %s",
							mkNonterm, vd.Ref, "a bounded number of reference statements", callTimeout, callsToStrings(c.Calls)[vd.CallIdx], head(oneLine(c.F.String()), 600)),
							witness{Source: c.F.String(), Calls: callsToStrings(c.Calls), CallsRaw: c.Calls, FailingCall: vd.CallIdx, Spec: vd.Ref.String(), Real: "no return within the watchdog", Tags: vd.Tags, OriginalSource: src})
					}
					flush(h, tagCount, silentCount, cov, judged, agreeErr, mism)
					return
				}
				key := vd.MKind
				if !reported[key] {
					reported[key] = true
					// reproduce in isolation (single-function program), then minimise
					iso := judgeCase(ctx, env, c)
					if iso.Kind == vdMismatch && iso.MKind == vd.MKind {
						report(ctx, env, h, layer, cn, c, iso, src, sp.quirk)
					} else {
						h.Violation(layer, cn, "c19:"+vd.MKind+":not-reproducible-in-isolation",
							fmt.Sprintf("mismatch inside a multi-function program (spec %s, real %s) does not reproduce with the function alone", vd.Ref, vd.Real),
							witness{Source: src, Calls: callsToStrings(c.Calls), CallsRaw: c.Calls, Spec: vd.Ref.String(), Real: vd.Real.String(), Tags: vd.Tags})
					}
				}
			}
		}
		if fjudged > 0 {
			h.Distinct(f.String())
			h.Sample(map[string]any{"layer": layer, "case": cn, "function": f.String(), "calls_judged": fjudged, "first_args": callsToStrings(cases[0].Calls)})
		}
	}
	flush(h, tagCount, silentCount, cov, judged, agreeErr, mism)
}

func flush(h Sink, tags map[string]int, silentCount map[string]int, cov map[string]struct{}, judged, agreeErr, mism int) {
	for t, n := range tags {
		h.Seen("reference_features", t)
		// arm coverage: judged calls that entered arm <i> of an if-chain (inside a loop /
		// at top level), and those that left it by break / continue / return
		if strings.HasPrefix(t, "ctl.") {
			parts := strings.Split(t, ".")
			switch len(parts) {
			case 3:
				h.Count("arms_entered_"+parts[1]+"_"+parts[2], n)
			case 4:
				h.Count("arm_exits_"+parts[1]+"_"+parts[2]+"_"+parts[3], n)
			}
		}
	}
	for t := range cov {
		h.Seen("op_type_combinations", t)
	}
	total := 0
	for k, n := range silentCount {
		h.Count("spec_silent_"+k, n)
		total += n
	}
	h.Count("calls_spec_silent", total)
	h.Count("calls_judged", judged)
	h.Count("calls_runtime_error_agreed", agreeErr)
	h.Count("calls_mismatching", mism)
}

// runCallsCollect is runCalls plus collection of the reference tags of every judged call.
func runCallsCollect(ctx context.Context, b *built, c Case, tags map[string]int) Verdict {
	vd := Verdict{Kind: vdOK, Silent: map[string]int{}}
	in := newInterp(c.F)
	acc := map[string]struct{}{}
	b.state.SetNodeKey(freshKey())
	for i, args := range c.Calls {
		ref := in.Call(args)
		for _, t := range in.Tags() {
			acc[t] = struct{}{}
		}
		if ref.Kind == oSilent {
			vd.Silent[ref.Reason]++
			if c.F.Stateful {
				break
			}
			continue
		}
		real := realCall(ctx, b, c.F, args)
		if real.Timeout {
			if in.Stmts() < nontermStmtLimit {
				vd.Kind, vd.CallIdx, vd.MKind, vd.Ref, vd.Real, vd.Tags = vdMismatch, i, mkNonterm, ref, real, seqTags(acc, in)
				vd.Real.Err = "" // the error text carries the watchdog's duration
				return vd
			}
			vd.Kind, vd.CallIdx, vd.Ref, vd.Real = vdTimeout, i, ref, real
			return vd
		}
		vd.Judged++
		for _, t := range in.Tags() {
			tags[t]++
		}
		if mk := compareCall(ref, real); mk != "" {
			vd.Kind, vd.CallIdx, vd.MKind, vd.Ref, vd.Real, vd.Tags = vdMismatch, i, mk, ref, real, seqTags(acc, in)
			c.Calls = c.Calls[:i+1]
			return vd
		}
		if ref.Kind == oError {
			vd.ErrAgree++
			if c.F.Stateful {
				break
			}
		}
	}
	return vd
}
