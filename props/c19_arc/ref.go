package main

// Reference interpreter for the scalar imperative fragment of Arc, written from
// /repo/arc/docs/spec.md (section names in quotes below), NOT from the compiler.
//
//   "Type System / Boolean Semantics":   u8 is the boolean; 0 false, non-zero true; logical
//                                        operators normalise to 0/1 and short-circuit.
//   "Numeric Literals":                  integer literals default to i64, float to f64;
//                                        T(literal) gives a literal of type T.
//   "Type Casting":                      widening sign/zero-extends; narrowing truncates;
//                                        signed<->unsigned saturates at bounds; float->int
//                                        truncates toward zero and saturates on overflow;
//                                        integer overflow wraps (two's complement).
//   "Variables":                         := locals reset on each invocation; $= stateful
//                                        variables persist; compound assignment x op= e is
//                                        x = x op e.
//   "Operators":                         precedence table (used by the printer in ast.go).
//   "Control Flow", "Return Statements": if / else if / else; early return.
//   "Runtime Errors":                    division / modulo by zero.
//   "Language Restrictions":             no mixed-type arithmetic.
//
// spec.md says nothing about loops ("No loops"), although the language has them and the
// property statement lists bounded loops. Their semantics here are the ones documented in
// /repo/docs/site/src/pages/reference/control/arc/reference/loops.mdx (range(end),
// range(start,end), range(start,end,step), conditional `for c {}`, bare `for {}`, break,
// continue). This is recorded as an assumption in the evidence.
//
// Everything spec.md leaves open aborts the evaluation with a *silent* outcome (reason
// recorded, never judged):
//   int-div-negative / int-mod-negative   rounding/sign of / and % with a negative operand
//   int-min-div-minus-one                  overflowing signed division
//   pow-negative-exponent, pow-zero-zero   integer ^ with negative exponent, 0 ^ 0
//   float-div-zero                         x / 0.0 (IEEE value vs "division by zero" error)
//   float-pow-inexact                      float ^ whose exact value is not representable
//   cast-nan-to-int                        float -> int of NaN
//   cast-sign-and-width                    int cast that changes sign AND width on a value
//                                          the target cannot represent (truncate-vs-saturate
//                                          rules conflict)
//   neg-unsigned                           unary minus on an unsigned value
//   loop-var-overflow, range-step-zero     range loops leaving the loop variable's type
//   float-mod                              % on floats
//   budget                                 more than maxSteps loop iterations

import (
	"fmt"
	"math"
	"math/big"
	"sort"
)

type outcomeKind int

const (
	oValue  outcomeKind = iota // function returned V
	oError                     // spec-defined runtime error (division / modulo by zero)
	oSilent                    // outcome not defined by spec.md: never judged
)

type Outcome struct {
	Kind   outcomeKind
	V      Value
	Reason string // oError / oSilent
}

func (o Outcome) String() string {
	switch o.Kind {
	case oValue:
		return o.V.String()
	case oError:
		return "runtime-error(" + o.Reason + ")"
	}
	return "spec-silent(" + o.Reason + ")"
}

type refAbort struct {
	kind   outcomeKind
	reason string
}

const maxSteps = 4000

// Interp evaluates one function. State holds stateful variables across Call()s.
type Interp struct {
	f     *Func
	state map[string]Value
	env   map[string]Value
	steps int // loop iterations of the current call
	stmts int // statements executed in the current call
	loops int // loop nesting depth at the point of execution
	tags  map[string]struct{}
}

// Stmts: statements the last Call executed (a measure of how little work the call is).
func (in *Interp) Stmts() int { return in.stmts }

func newInterp(f *Func) *Interp {
	return &Interp{f: f, state: map[string]Value{}}
}

func (in *Interp) tag(t string) { in.tags[t] = struct{}{} }

func (in *Interp) Tags() []string {
	out := make([]string, 0, len(in.tags))
	for t := range in.tags {
		out = append(out, t)
	}
	sort.Strings(out)
	return out
}

func silent(reason string)  { panic(refAbort{oSilent, reason}) }
func rtError(reason string) { panic(refAbort{oError, reason}) }

type ctrl int

const (
	cNone ctrl = iota
	cBreak
	cContinue
	cReturn
)

// Call runs the function once on args (len == len(Params)), returning what spec.md says
// the call produces. Tags of this call are available through Tags() afterwards.
func (in *Interp) Call(args []Value) (out Outcome) {
	in.env = map[string]Value{}
	in.steps = 0
	in.stmts = 0
	in.loops = 0
	in.tags = map[string]struct{}{}
	for i, p := range in.f.Params {
		if args[i].T != p.T {
			panic(fmt.Sprintf("reference: argument %d has type %s, parameter is %s", i, args[i].T, p.T))
		}
		in.env[p.Name] = args[i]
	}
	defer func() {
		if r := recover(); r != nil {
			if a, ok := r.(refAbort); ok {
				out = Outcome{Kind: a.kind, Reason: a.reason}
				return
			}
			panic(r)
		}
	}()
	c, v := in.block(in.f.Body)
	if c != cReturn {
		// "Explicit return statements are required": the generator always ends with one.
		silent("fell-off-end")
	}
	return Outcome{Kind: oValue, V: v}
}

func (in *Interp) lookup(name string) Value {
	if v, ok := in.env[name]; ok {
		return v
	}
	panic("reference: undefined variable " + name)
}

func (in *Interp) assign(name string, v Value) {
	old := in.lookup(name)
	if old.T != v.T {
		panic(fmt.Sprintf("reference: assigning %s to %s variable %s", v.T, old.T, name))
	}
	in.env[name] = v
	if _, ok := in.state[name]; ok {
		in.state[name] = v
	}
}

func truthy(v Value) bool {
	if v.T.IsFloat() {
		return v.Float() != 0
	}
	return v.B != 0
}

func (in *Interp) block(body []*S) (ctrl, Value) {
	declared := []string{}
	defer func() {
		for _, n := range declared {
			delete(in.env, n)
		}
	}()
	for _, s := range body {
		in.stmts++
		switch s.K {
		case SDecl:
			v := in.eval(s.X)
			if v.T != s.T {
				panic(fmt.Sprintf("reference: decl %s type %s init %s", s.Name, s.T, v.T))
			}
			in.env[s.Name] = v
			declared = append(declared, s.Name)
			in.tag("stmt.decl")
		case SState:
			// persists across invocations; initialised on the first one
			in.tag("stmt.stateful")
			if v, ok := in.state[s.Name]; ok {
				in.env[s.Name] = v
				in.tag("stateful.reloaded")
			} else {
				v := in.eval(s.X)
				in.state[s.Name] = v
				in.env[s.Name] = v
			}
			declared = append(declared, s.Name)
		case SAssign:
			in.assign(s.Name, in.eval(s.X))
			in.tag("stmt.assign")
		case SCompound:
			// x op= e  is  x = x op e
			cur := in.lookup(s.Name)
			r := in.eval(s.X)
			in.assign(s.Name, in.arith(s.Op, cur, r))
			in.tag("stmt.compound")
		case SIf:
			in.tag("stmt.if")
			// arm index: 0 = if, 1.. = else-if, "else"
			arm, armBody := "", []*S(nil)
			if truthy(in.cond(s.X)) {
				arm, armBody = "arm0", s.Body
			} else {
				for i, ei := range s.Elifs {
					if truthy(in.cond(ei.X)) {
						arm, armBody = fmt.Sprintf("arm%d", i+1), ei.Body
						in.tag("if.elif-taken")
						break
					}
				}
				if arm == "" && s.HasElse {
					arm, armBody = "else", s.Else
					in.tag("if.else-taken")
				}
			}
			if arm != "" {
				where := "ctl.top."
				if in.loops > 0 {
					where = "ctl.loop."
				}
				in.tag(where + arm)
				c, v := in.block(armBody)
				if c != cNone {
					in.tag(where + arm + "." + [...]string{"", "break", "continue", "return"}[c])
					return c, v
				}
			} else {
				in.tag("ctl.no-arm")
			}
		case SForRange:
			if c, v := in.forRange(s); c == cReturn {
				return c, v
			}
		case SForCond:
			in.tag("loop.cond")
			for truthy(in.cond(s.X)) {
				in.step()
				in.loops++
				c, v := in.block(s.Body)
				in.loops--
				if c == cReturn {
					return c, v
				}
				if c == cBreak {
					in.tag("loop.break")
					break
				}
				if c == cContinue {
					in.tag("loop.continue")
				}
			}
		case SForInf:
			in.tag("loop.inf")
			for {
				in.step()
				in.loops++
				c, v := in.block(s.Body)
				in.loops--
				if c == cReturn {
					return c, v
				}
				if c == cBreak {
					in.tag("loop.break")
					break
				}
				if c == cContinue {
					in.tag("loop.continue")
				}
			}
		case SBreak:
			return cBreak, Value{}
		case SContinue:
			return cContinue, Value{}
		case SReturn:
			v := in.eval(s.X)
			if v.T != in.f.Ret {
				panic(fmt.Sprintf("reference: return %s from %s function", v.T, in.f.Ret))
			}
			return cReturn, v
		}
	}
	return cNone, Value{}
}

func (in *Interp) cond(e *E) Value {
	v := in.eval(e)
	if v.T == U8 && v.B > 1 {
		in.tag("bool.nonnormal-cond")
	}
	return v
}

func (in *Interp) step() {
	if in.loops > 0 {
		in.tag("loop.nested")
	}
	in.steps++
	if in.steps > maxSteps {
		silent("budget")
	}
}

// forRange: loops.mdx "Range Loops". All arguments have the loop variable's type.
func (in *Interp) forRange(s *S) (ctrl, Value) {
	t := s.T
	zero, one := big.NewInt(0), big.NewInt(1)
	var start, end, stepv *big.Int
	switch len(s.Args) {
	case 1:
		start, end, stepv = zero, toBig(in.eval(s.Args[0])), one
	case 2:
		start, end, stepv = toBig(in.eval(s.Args[0])), toBig(in.eval(s.Args[1])), one
	default:
		start, end, stepv = toBig(in.eval(s.Args[0])), toBig(in.eval(s.Args[1])), toBig(in.eval(s.Args[2]))
	}
	in.tag(fmt.Sprintf("loop.range%d", len(s.Args)))
	if stepv.Sign() == 0 {
		silent("range-step-zero")
	}
	if stepv.Sign() < 0 {
		in.tag("loop.range-negstep")
	}
	i := new(big.Int).Set(start)
	iters := 0
	for {
		if stepv.Sign() > 0 && i.Cmp(end) >= 0 {
			break
		}
		if stepv.Sign() < 0 && i.Cmp(end) <= 0 {
			break
		}
		in.step()
		iters++
		in.env[s.Name] = fromBig(t, i)
		in.loops++
		c, v := in.block(s.Body)
		in.loops--
		delete(in.env, s.Name)
		if c == cReturn {
			return c, v
		}
		if c == cBreak {
			in.tag("loop.break")
			break
		}
		if c == cContinue {
			in.tag("loop.continue")
		}
		i = new(big.Int).Add(i, stepv)
		if !inRange(t, i) {
			silent("loop-var-overflow")
		}
	}
	if iters == 0 {
		in.tag("loop.zero-iterations")
	}
	return cNone, Value{}
}

// ---------------------------------------------------------------------------------------
// Expressions
// ---------------------------------------------------------------------------------------

func toBig(v Value) *big.Int {
	if v.T.Signed() {
		return big.NewInt(int64(v.B))
	}
	return new(big.Int).SetUint64(v.B)
}

func typeBounds(t Typ) (lo, hi *big.Int) {
	w := uint(t.Bits())
	if t.Signed() {
		hi = new(big.Int).Lsh(big.NewInt(1), w-1)
		lo = new(big.Int).Neg(hi)
		hi.Sub(hi, big.NewInt(1))
		return
	}
	lo = big.NewInt(0)
	hi = new(big.Int).Lsh(big.NewInt(1), w)
	hi.Sub(hi, big.NewInt(1))
	return
}

func inRange(t Typ, x *big.Int) bool {
	lo, hi := typeBounds(t)
	return x.Cmp(lo) >= 0 && x.Cmp(hi) <= 0
}

// fromBig: x must be in range of t.
func fromBig(t Typ, x *big.Int) Value {
	if t.Signed() {
		return intValue(t, x.Int64())
	}
	return uintValue(t, x.Uint64())
}

// wrap: two's-complement wrapping of the exact result x into t's width.
func wrap(t Typ, x *big.Int) Value {
	w := uint(t.Bits())
	mod := new(big.Int).Lsh(big.NewInt(1), w)
	r := new(big.Int).Mod(x, mod) // 0 <= r < 2^w
	if t.Signed() {
		half := new(big.Int).Lsh(big.NewInt(1), w-1)
		if r.Cmp(half) >= 0 {
			r.Sub(r, mod)
		}
	}
	return fromBig(t, r)
}

func saturate(t Typ, x *big.Int) (Value, bool) {
	lo, hi := typeBounds(t)
	if x.Cmp(lo) < 0 {
		return fromBig(t, lo), true
	}
	if x.Cmp(hi) > 0 {
		return fromBig(t, hi), true
	}
	return fromBig(t, x), false
}

func (in *Interp) eval(e *E) Value {
	switch e.K {
	case KLit:
		if e.V.T != e.T {
			panic("reference: literal value/type mismatch")
		}
		return e.V
	case KVar:
		v := in.lookup(e.Name)
		if v.T != e.T {
			panic(fmt.Sprintf("reference: variable %s is %s, node says %s", e.Name, v.T, e.T))
		}
		return v
	case KNeg:
		x := in.eval(e.A)
		switch {
		case x.T == F64:
			return f64Value(-x.F64())
		case x.T == F32:
			return f32Value(-x.F32())
		case x.T.Unsigned():
			silent("neg-unsigned")
		}
		exact := new(big.Int).Neg(toBig(x))
		if !inRange(x.T, exact) {
			in.tag("wrap.neg." + x.T.String())
		}
		return wrap(x.T, exact)
	case KNot:
		x := in.eval(e.A)
		if x.T == U8 && x.B > 1 {
			in.tag("bool.nonnormal-not")
		}
		if truthy(x) {
			return uintValue(U8, 0)
		}
		return uintValue(U8, 1)
	case KLogic:
		l := in.eval(e.A)
		if l.T == U8 && l.B > 1 {
			in.tag("bool.nonnormal-" + e.Op)
		}
		if e.Op == "and" {
			if !truthy(l) {
				in.tag("sc.and-skip")
				return uintValue(U8, 0)
			}
		} else if truthy(l) {
			in.tag("sc.or-skip")
			return uintValue(U8, 1)
		}
		r := in.eval(e.B)
		if r.T == U8 && r.B > 1 {
			in.tag("bool.nonnormal-" + e.Op)
		}
		if truthy(r) {
			return uintValue(U8, 1)
		}
		return uintValue(U8, 0)
	case KCmp:
		l := in.eval(e.A)
		r := in.eval(e.B)
		if l.T != r.T {
			panic("reference: mixed-type comparison")
		}
		return boolValue(in.compare(e.Op, l, r))
	case KArith:
		l := in.eval(e.A)
		r := in.eval(e.B)
		return in.arith(e.Op, l, r)
	case KCast:
		return in.cast(in.eval(e.A), e.T)
	}
	panic("reference: unknown expression kind")
}

func boolValue(b bool) Value {
	if b {
		return uintValue(U8, 1)
	}
	return uintValue(U8, 0)
}

func (in *Interp) compare(op string, l, r Value) bool {
	if l.T.IsFloat() {
		a, b := l.Float(), r.Float()
		if math.IsNaN(a) || math.IsNaN(b) {
			in.tag("float.nan-compare")
		}
		switch op {
		case "==":
			return a == b
		case "!=":
			return a != b
		case "<":
			return a < b
		case ">":
			return a > b
		case "<=":
			return a <= b
		case ">=":
			return a >= b
		}
	}
	c := toBig(l).Cmp(toBig(r))
	if l.T.Signed() && (int64(l.B) < 0) != (int64(r.B) < 0) {
		in.tag("cmp.mixed-sign." + l.T.String())
	}
	if l.T.Unsigned() && l.T.Bits() >= 32 && (l.B>>(uint(l.T.Bits())-1) != r.B>>(uint(l.T.Bits())-1)) {
		in.tag("cmp.unsigned-msb." + l.T.String())
	}
	switch op {
	case "==":
		return c == 0
	case "!=":
		return c != 0
	case "<":
		return c < 0
	case ">":
		return c > 0
	case "<=":
		return c <= 0
	case ">=":
		return c >= 0
	}
	panic("reference: unknown comparison " + op)
}

func opName(op string) string {
	switch op {
	case "+":
		return "add"
	case "-":
		return "sub"
	case "*":
		return "mul"
	case "/":
		return "div"
	case "%":
		return "mod"
	case "^":
		return "pow"
	case "==":
		return "eq"
	case "!=":
		return "ne"
	case "<":
		return "lt"
	case ">":
		return "gt"
	case "<=":
		return "le"
	case ">=":
		return "ge"
	}
	return op
}

func (in *Interp) arith(op string, l, r Value) Value {
	if l.T != r.T {
		panic(fmt.Sprintf("reference: mixed-type arithmetic %s %s %s", l.T, op, r.T))
	}
	t := l.T
	if t.IsFloat() {
		return in.farith(op, l, r)
	}
	a, b := toBig(l), toBig(r)
	var exact *big.Int
	switch op {
	case "+":
		exact = new(big.Int).Add(a, b)
	case "-":
		exact = new(big.Int).Sub(a, b)
	case "*":
		exact = new(big.Int).Mul(a, b)
	case "/", "%":
		if b.Sign() == 0 {
			in.tag("divzero")
			rtError("division or modulo by zero")
		}
		if a.Sign() < 0 || b.Sign() < 0 {
			lo, _ := typeBounds(t)
			if op == "/" && a.Cmp(lo) == 0 && b.Cmp(big.NewInt(-1)) == 0 {
				silent("int-min-div-minus-one")
			}
			if op == "/" {
				silent("int-div-negative")
			}
			silent("int-mod-negative")
		}
		if op == "/" {
			exact = new(big.Int).Quo(a, b)
		} else {
			exact = new(big.Int).Rem(a, b)
		}
	case "^":
		if b.Sign() < 0 {
			silent("pow-negative-exponent")
		}
		if a.Sign() == 0 && b.Sign() == 0 {
			silent("pow-zero-zero")
		}
		// exact value modulo 2^w (wrapping is a ring homomorphism, so this is the wrapped
		// exact power whatever the exponent's size)
		w := uint(t.Bits())
		mod := new(big.Int).Lsh(big.NewInt(1), w)
		am := new(big.Int).Mod(a, mod)
		p := new(big.Int).Exp(am, b, mod)
		// overflow tag: |a| >= 2 and the exact power leaves the type
		if new(big.Int).Abs(a).Cmp(big.NewInt(2)) >= 0 {
			if b.BitLen() > 7 {
				in.tag("wrap.pow." + t.String())
			} else if ex := new(big.Int).Exp(a, b, nil); !inRange(t, ex) {
				in.tag("wrap.pow." + t.String())
			}
		}
		in.tag("arith.pow." + t.String())
		if b.BitLen() > 63 {
			in.tag("pow.exp-ge-2p63." + t.String())
		}
		return wrap(t, p)
	default:
		panic("reference: unknown arithmetic operator " + op)
	}
	if !inRange(t, exact) {
		in.tag("wrap." + opName(op) + "." + t.String())
	}
	return wrap(t, exact)
}

func (in *Interp) farith(op string, l, r Value) Value {
	t := l.T
	if op == "%" {
		silent("float-mod")
	}
	if op == "/" && r.Float() == 0 {
		silent("float-div-zero")
	}
	if op == "^" {
		return in.fpow(l, r)
	}
	if t == F32 {
		a, b := l.F32(), r.F32()
		var x float32
		switch op {
		case "+":
			x = a + b
		case "-":
			x = a - b
		case "*":
			x = a * b
		case "/":
			x = a / b
		}
		v := f32Value(x)
		in.ftag(v)
		return v
	}
	a, b := l.F64(), r.F64()
	var x float64
	switch op {
	case "+":
		x = a + b
	case "-":
		x = a - b
	case "*":
		x = a * b
	case "/":
		x = a / b
	}
	v := f64Value(x)
	in.ftag(v)
	return v
}

func (in *Interp) ftag(v Value) {
	f := v.Float()
	if math.IsNaN(f) {
		in.tag("float.nan")
	} else if math.IsInf(f, 0) {
		in.tag("float.inf")
	}
}

// fpow: only exponentiations whose exact mathematical value is representable are
// defined here (small non-negative integer exponent, exact product at every step);
// everything else is float-pow-inexact (no libm is correctly rounded, spec.md gives no
// error bound).
func (in *Interp) fpow(l, r Value) Value {
	base, exp := l.Float(), r.Float()
	if math.IsNaN(base) || math.IsNaN(exp) || math.IsInf(base, 0) || math.IsInf(exp, 0) {
		silent("float-pow-inexact")
	}
	if exp != math.Trunc(exp) || exp < 0 || exp > 64 {
		silent("float-pow-inexact")
	}
	if base == 0 && exp == 0 {
		silent("pow-zero-zero")
	}
	n := int(exp)
	acc := new(big.Float).SetPrec(4096).SetInt64(1)
	b := new(big.Float).SetPrec(4096).SetFloat64(base)
	for i := 0; i < n; i++ {
		acc.Mul(acc, b)
	}
	in.tag("arith.pow." + l.T.String())
	if l.T == F32 {
		f, acc32 := acc.Float32()
		if acc32 != big.Exact || math.IsInf(float64(f), 0) {
			silent("float-pow-inexact")
		}
		return f32Value(f)
	}
	f, accy := acc.Float64()
	if accy != big.Exact || math.IsInf(f, 0) {
		silent("float-pow-inexact")
	}
	return f64Value(f)
}

// cast: spec.md "Type Casting" rules.
func (in *Interp) cast(v Value, to Typ) Value {
	from := v.T
	if from == to {
		in.tag("cast.same")
		return v
	}
	ft := from.String() + "-" + to.String()
	switch {
	case from.IsInt() && to.IsInt():
		x := toBig(v)
		fits := inRange(to, x)
		sameSign := from.Signed() == to.Signed()
		switch {
		case sameSign && to.Bits() > from.Bits():
			// widening: sign/zero extend = value preserved
			in.tag("cast.widen")
			return fromBig(to, x)
		case sameSign:
			// narrowing truncates
			if !fits {
				in.tag("cast.trunc." + ft)
			} else {
				in.tag("cast.narrow-fits")
			}
			return wrap(to, x)
		case to.Bits() == from.Bits():
			// signed <-> unsigned saturates at bounds
			r, clamped := saturate(to, x)
			if clamped {
				in.tag("cast.sat." + ft)
			} else {
				in.tag("cast.signchange-fits")
			}
			return r
		default:
			// sign and width both change: every rule gives the value itself when the
			// target can represent it; otherwise the rules disagree
			if !fits {
				silent("cast-sign-and-width")
			}
			in.tag("cast.signwidth-fits")
			return fromBig(to, x)
		}
	case from.IsFloat() && to.IsInt():
		f := v.Float()
		if math.IsNaN(f) {
			silent("cast-nan-to-int")
		}
		lo, hi := typeBounds(to)
		if math.IsInf(f, 1) {
			in.tag("cast.f2i-sat." + ft)
			return fromBig(to, hi)
		}
		if math.IsInf(f, -1) {
			in.tag("cast.f2i-sat." + ft)
			return fromBig(to, lo)
		}
		bf := new(big.Float).SetFloat64(math.Trunc(f)) // toward zero
		x, _ := bf.Int(nil)
		r, clamped := saturate(to, x)
		if clamped {
			in.tag("cast.f2i-sat." + ft)
		} else {
			in.tag("cast.f2i")
			if f != math.Trunc(f) {
				in.tag("cast.f2i-fraction")
			}
		}
		return r
	case from.IsInt() && to.IsFloat():
		// value-preserving; rounded to nearest-even when not representable (IEEE 754)
		var r Value
		if to == F32 {
			if from.Signed() {
				r = f32Value(float32(int64(v.B)))
			} else {
				r = f32Value(float32(v.B))
			}
		} else {
			if from.Signed() {
				r = f64Value(float64(int64(v.B)))
			} else {
				r = f64Value(float64(v.B))
			}
		}
		back := new(big.Float).SetFloat64(r.Float())
		if xi, acc := back.Int(nil); acc != big.Exact || xi.Cmp(toBig(v)) != 0 {
			in.tag("cast.i2f-inexact")
		} else {
			in.tag("cast.i2f")
		}
		if from.Signed() && int64(v.B) < 0 {
			in.tag("cast.i2f-negative")
		}
		if from.Unsigned() && v.B>>(uint(from.Bits())-1) == 1 {
			in.tag("cast.i2f-unsigned-msb")
		}
		return r
	case from == F32 && to == F64:
		in.tag("cast.f2f")
		return f64Value(float64(v.F32()))
	case from == F64 && to == F32:
		in.tag("cast.f2f")
		r := f32Value(float32(v.F64()))
		in.ftag(r)
		return r
	}
	panic("reference: unhandled cast " + ft)
}
