package main

import (
	"fmt"
	"math"
	"strconv"
	"strings"
)

// ---------------------------------------------------------------------------------------
// Types and values
// ---------------------------------------------------------------------------------------

type Typ int

const (
	I8 Typ = iota
	I16
	I32
	I64
	U8
	U16
	U32
	U64
	F32
	F64
	numTyps
)

var typNames = [...]string{"i8", "i16", "i32", "i64", "u8", "u16", "u32", "u64", "f32", "f64"}

func (t Typ) String() string { return typNames[t] }
func (t Typ) IsFloat() bool  { return t == F32 || t == F64 }
func (t Typ) IsInt() bool    { return t < F32 }
func (t Typ) Signed() bool   { return t <= I64 }
func (t Typ) Unsigned() bool { return t >= U8 && t <= U64 }
func (t Typ) Bits() int {
	switch t {
	case I8, U8:
		return 8
	case I16, U16:
		return 16
	case I32, U32, F32:
		return 32
	}
	return 64
}
func (t Typ) Narrow() bool { return t.IsInt() && t.Bits() < 32 }

var allTyps = []Typ{I8, I16, I32, I64, U8, U16, U32, U64, F32, F64}
var intTyps = []Typ{I8, I16, I32, I64, U8, U16, U32, U64}

// Value is a typed scalar. Integers are held canonically in B: sign-extended to 64 bits
// for signed types, zero-extended for unsigned types. f32 holds the 32 IEEE bits in the
// low half, f64 all 64 bits.
type Value struct {
	T Typ    `json:"t"`
	B uint64 `json:"b"`
}

func intValue(t Typ, x int64) Value   { return Value{t, uint64(x)} }
func uintValue(t Typ, x uint64) Value { return Value{t, x} }
func f64Value(x float64) Value        { return Value{F64, math.Float64bits(x)} }
func f32Value(x float32) Value        { return Value{F32, uint64(math.Float32bits(x))} }
func (v Value) F64() float64          { return math.Float64frombits(v.B) }
func (v Value) F32() float32          { return math.Float32frombits(uint32(v.B)) }
func (v Value) Float() float64 {
	if v.T == F32 {
		return float64(v.F32())
	}
	return v.F64()
}
func (v Value) IsNaN() bool { return v.T.IsFloat() && math.IsNaN(v.Float()) }

func (v Value) String() string {
	switch {
	case v.T == F32:
		return fmt.Sprintf("f32(%v|0x%08x)", v.F32(), uint32(v.B))
	case v.T == F64:
		return fmt.Sprintf("f64(%v|0x%016x)", v.F64(), v.B)
	case v.T.Signed():
		return fmt.Sprintf("%s(%d)", v.T, int64(v.B))
	}
	return fmt.Sprintf("%s(%d)", v.T, v.B)
}

// sameValue: typed equality; floats bitwise except that any NaN equals any NaN.
func sameValue(a, b Value) bool {
	if a.T != b.T {
		return false
	}
	if a.IsNaN() && b.IsNaN() {
		return true
	}
	return a.B == b.B
}

// encodeArg is the calling convention used towards the compiled function: narrow integers
// in canonical form inside a 32-bit register (sign-extended when signed, zero-extended
// when unsigned — the form the compiler itself emits for literals), 64-bit integers
// as they are, floats as their IEEE bits.
func encodeArg(v Value) uint64 {
	switch v.T {
	case I8, I16, I32:
		return uint64(uint32(int32(int64(v.B))))
	case U8, U16, U32:
		return uint64(uint32(v.B))
	case F32:
		return uint64(uint32(v.B))
	}
	return v.B
}

// decodeResult reads a function result the way the Arc runtime does
// (arc/go/stl/wasm/node.go setValueAt): the low `width` bits of the returned register.
func decodeResult(t Typ, raw uint64) Value {
	switch t {
	case I8:
		return intValue(t, int64(int8(raw)))
	case I16:
		return intValue(t, int64(int16(raw)))
	case I32:
		return intValue(t, int64(int32(raw)))
	case I64:
		return intValue(t, int64(raw))
	case U8:
		return uintValue(t, uint64(uint8(raw)))
	case U16:
		return uintValue(t, uint64(uint16(raw)))
	case U32:
		return uintValue(t, uint64(uint32(raw)))
	case U64:
		return uintValue(t, raw)
	case F32:
		return Value{F32, uint64(uint32(raw))}
	}
	return Value{F64, raw}
}

// ---------------------------------------------------------------------------------------
// AST
// ---------------------------------------------------------------------------------------

type EKind int

const (
	KLit EKind = iota
	KVar
	KNeg
	KNot
	KArith // + - * / % ^   operands and result of type T
	KCmp   // == != < > <= >=   operands of type OT, result u8
	KLogic // and or   result u8
	KCast  // T(A)
)

// E is an expression node. T is the type the specification assigns to the node.
type E struct {
	K    EKind  `json:"k"`
	Op   string `json:"op,omitempty"`
	T    Typ    `json:"t"`
	A    *E     `json:"a,omitempty"`
	B    *E     `json:"b,omitempty"`
	Name string `json:"name,omitempty"`
	// literals: Text is the token as written (digits, or digits '.' digits); V its value
	// in type T. Bare literals are written without a cast and take their type from the
	// context; non-bare ones are written T(text).
	Text string `json:"text,omitempty"`
	V    Value  `json:"v,omitempty"`
	Bare bool   `json:"bare,omitempty"`
}

type SKind int

const (
	SDecl     SKind = iota // Name [T] := X
	SState                 // Name T $= X
	SAssign                // Name = X
	SCompound              // Name Op= X
	SIf                    // if X Body (else if ...)* (else Else)?
	SForRange              // for Name := range(Args...) Body
	SForCond               // for X Body
	SForInf                // for Body
	SBreak
	SContinue
	SReturn // return X
)

type Elif struct {
	X    *E   `json:"x"`
	Body []*S `json:"body"`
}

type S struct {
	K        SKind  `json:"k"`
	Name     string `json:"name,omitempty"`
	T        Typ    `json:"t"`
	Explicit bool   `json:"explicit,omitempty"` // SDecl: type written out
	Op       string `json:"op,omitempty"`
	X        *E     `json:"x,omitempty"`
	Args     []*E   `json:"args,omitempty"`
	Body     []*S   `json:"body,omitempty"`
	Elifs    []Elif `json:"elifs,omitempty"`
	Else     []*S   `json:"else,omitempty"`
	HasElse  bool   `json:"has_else,omitempty"`
}

type Param struct {
	Name string `json:"name"`
	T    Typ    `json:"t"`
}

type Func struct {
	Name     string  `json:"name"`
	Params   []Param `json:"params"`
	Ret      Typ     `json:"ret"`
	Body     []*S    `json:"body"`
	Stateful bool    `json:"stateful,omitempty"`
	// NoRef: only the pipeline stages are judged for this function (its construct has no
	// value defined by spec.md), never a returned value.
	NoRef bool `json:"no_ref,omitempty"`
	// Hints: per parameter, values its selector conditions distinguish (generator aid for
	// argument selection only; no semantic content).
	Hints map[string][]Value `json:"-"`
}

type Prog struct {
	Funcs []*Func `json:"funcs"`
}

// ---------------------------------------------------------------------------------------
// Printer. Parentheses are placed from the precedence table of spec.md ("Expression
// Grammar and Precedence"): 1 `^` (right-assoc) > 2 unary `-`,`not` > 3 `* / %` (left) >
// 4 `+ -` (left) > 5 comparisons > 6 `and`,`or`. Where the table does not fix the
// grouping (two comparison operators in a row; `and` mixed with `or`) parentheses are
// always written, so every printed expression has exactly one reading under the spec.
// ---------------------------------------------------------------------------------------

const (
	precLogic = 1
	precCmp   = 2
	precAdd   = 3
	precMul   = 4
	precUnary = 5
	precPow   = 6
	precPrim  = 7
)

func (e *E) prec() int {
	switch e.K {
	case KLit, KVar, KCast:
		return precPrim
	case KNeg, KNot:
		return precUnary
	case KArith:
		switch e.Op {
		case "^":
			return precPow
		case "*", "/", "%":
			return precMul
		}
		return precAdd
	case KCmp:
		return precCmp
	}
	return precLogic
}

func paren(s string, need bool) string {
	if need {
		return "(" + s + ")"
	}
	return s
}

func (e *E) String() string {
	switch e.K {
	case KLit:
		if e.Bare {
			return e.Text
		}
		return e.T.String() + "(" + e.Text + ")"
	case KVar:
		return e.Name
	case KCast:
		return e.T.String() + "(" + e.A.String() + ")"
	case KNeg:
		// unary binds looser than ^ (spec level 2 vs 1): -a ^ b is -(a ^ b)
		s := paren(e.A.String(), e.A.prec() < precUnary)
		if strings.HasPrefix(s, "-") {
			s = "(" + s + ")"
		}
		return "-" + s
	case KNot:
		return "not " + paren(e.A.String(), e.A.prec() < precUnary)
	case KArith:
		p := e.prec()
		if e.Op == "^" { // right-associative, operands of a higher level only on the left
			return paren(e.A.String(), e.A.prec() <= precPow) + " ^ " + paren(e.B.String(), e.B.prec() < precPow)
		}
		return paren(e.A.String(), e.A.prec() < p) + " " + e.Op + " " + paren(e.B.String(), e.B.prec() <= p)
	case KCmp:
		return paren(e.A.String(), e.A.prec() <= precCmp) + " " + e.Op + " " + paren(e.B.String(), e.B.prec() <= precCmp)
	case KLogic:
		l := paren(e.A.String(), e.A.prec() <= precLogic && !(e.A.K == KLogic && e.A.Op == e.Op))
		r := paren(e.B.String(), e.B.prec() <= precLogic)
		return l + " " + e.Op + " " + r
	}
	return "?"
}

func indent(n int) string { return strings.Repeat("    ", n) }

func printBlock(sb *strings.Builder, body []*S, lvl int) {
	sb.WriteString("{\n")
	for _, s := range body {
		s.print(sb, lvl+1)
	}
	sb.WriteString(indent(lvl) + "}")
}

func (s *S) print(sb *strings.Builder, lvl int) {
	sb.WriteString(indent(lvl))
	switch s.K {
	case SDecl:
		if s.Explicit {
			fmt.Fprintf(sb, "%s %s := %s", s.Name, s.T, s.X)
		} else {
			fmt.Fprintf(sb, "%s := %s", s.Name, s.X)
		}
	case SState:
		fmt.Fprintf(sb, "%s %s $= %s", s.Name, s.T, s.X)
	case SAssign:
		fmt.Fprintf(sb, "%s = %s", s.Name, s.X)
	case SCompound:
		fmt.Fprintf(sb, "%s %s= %s", s.Name, s.Op, s.X)
	case SIf:
		fmt.Fprintf(sb, "if %s ", s.X)
		printBlock(sb, s.Body, lvl)
		for _, ei := range s.Elifs {
			fmt.Fprintf(sb, " else if %s ", ei.X)
			printBlock(sb, ei.Body, lvl)
		}
		if s.HasElse {
			sb.WriteString(" else ")
			printBlock(sb, s.Else, lvl)
		}
	case SForRange:
		as := make([]string, len(s.Args))
		for i, a := range s.Args {
			as[i] = a.String()
		}
		fmt.Fprintf(sb, "for %s := range(%s) ", s.Name, strings.Join(as, ", "))
		printBlock(sb, s.Body, lvl)
	case SForCond:
		fmt.Fprintf(sb, "for %s ", s.X)
		printBlock(sb, s.Body, lvl)
	case SForInf:
		sb.WriteString("for ")
		printBlock(sb, s.Body, lvl)
	case SBreak:
		sb.WriteString("break")
	case SContinue:
		sb.WriteString("continue")
	case SReturn:
		fmt.Fprintf(sb, "return %s", s.X)
	}
	sb.WriteString("\n")
}

func (f *Func) String() string {
	var sb strings.Builder
	ps := make([]string, len(f.Params))
	for i, p := range f.Params {
		ps[i] = p.Name + " " + p.T.String()
	}
	fmt.Fprintf(&sb, "func %s(%s) %s ", f.Name, strings.Join(ps, ", "), f.Ret)
	printBlock(&sb, f.Body, 0)
	sb.WriteString("\n")
	return sb.String()
}

func (p *Prog) String() string {
	var sb strings.Builder
	for _, f := range p.Funcs {
		sb.WriteString(f.String())
		sb.WriteString("\n")
	}
	return sb.String()
}

// ---------------------------------------------------------------------------------------
// Constructors / helpers
// ---------------------------------------------------------------------------------------

func litInt(t Typ, x uint64, bare bool) *E {
	return &E{K: KLit, T: t, Text: strconv.FormatUint(x, 10), V: Value{t, x}, Bare: bare}
}

// litFloat builds a float literal from its decimal text; the value is the text's nearest
// representable value in t.
func litFloat(t Typ, text string, bare bool) *E {
	if t == F32 {
		f, _ := strconv.ParseFloat(text, 32)
		return &E{K: KLit, T: t, Text: text, V: f32Value(float32(f)), Bare: bare}
	}
	f, _ := strconv.ParseFloat(text, 64)
	return &E{K: KLit, T: t, Text: text, V: f64Value(f), Bare: bare}
}

func mkVar(name string, t Typ) *E { return &E{K: KVar, Name: name, T: t} }
func mkNeg(a *E) *E               { return &E{K: KNeg, Op: "-", T: a.T, A: a} }
func mkNot(a *E) *E               { return &E{K: KNot, Op: "not", T: U8, A: a} }
func mkArith(op string, a, b *E) *E {
	return &E{K: KArith, Op: op, T: a.T, A: a, B: b}
}
func mkCmp(op string, a, b *E) *E   { return &E{K: KCmp, Op: op, T: U8, A: a, B: b} }
func mkLogic(op string, a, b *E) *E { return &E{K: KLogic, Op: op, T: U8, A: a, B: b} }
func mkCast(t Typ, a *E) *E         { return &E{K: KCast, Op: "cast", T: t, A: a} }

// anchored reports whether the type of e is fixed by e itself (a variable, a cast, a typed
// literal, a comparison/logical result ...) rather than taken from the context. Bare
// literals are never anchored; the generator only places them where the context or the
// other operand fixes the type, and only with values representable in that type.
func (e *E) anchored() bool {
	switch e.K {
	case KLit:
		return !e.Bare
	case KVar, KCast, KCmp, KLogic, KNot:
		return true
	case KNeg:
		return e.A.anchored()
	case KArith:
		return e.A.anchored() || e.B.anchored()
	}
	return false
}

func (e *E) clone() *E {
	if e == nil {
		return nil
	}
	c := *e
	c.A = e.A.clone()
	c.B = e.B.clone()
	return &c
}

func cloneBody(b []*S) []*S {
	if b == nil {
		return nil
	}
	out := make([]*S, len(b))
	for i, s := range b {
		out[i] = s.clone()
	}
	return out
}

func (s *S) clone() *S {
	c := *s
	c.X = s.X.clone()
	if s.Args != nil {
		c.Args = make([]*E, len(s.Args))
		for i, a := range s.Args {
			c.Args[i] = a.clone()
		}
	}
	c.Body = cloneBody(s.Body)
	c.Else = cloneBody(s.Else)
	if s.Elifs != nil {
		c.Elifs = make([]Elif, len(s.Elifs))
		for i, ei := range s.Elifs {
			c.Elifs[i] = Elif{X: ei.X.clone(), Body: cloneBody(ei.Body)}
		}
	}
	return &c
}

func (f *Func) clone() *Func {
	c := *f
	c.Params = append([]Param(nil), f.Params...)
	c.Body = cloneBody(f.Body)
	return &c
}

func (e *E) size() int {
	if e == nil {
		return 0
	}
	return 1 + e.A.size() + e.B.size()
}

func bodySize(b []*S) int {
	n := 0
	for _, s := range b {
		n += 2 + s.X.size() + bodySize(s.Body) + bodySize(s.Else)
		for _, a := range s.Args {
			n += a.size()
		}
		for _, ei := range s.Elifs {
			n += 2 + ei.X.size() + bodySize(ei.Body)
		}
	}
	return n
}

func (f *Func) size() int { return len(f.Params) + bodySize(f.Body) }
