package main

import (
	"context"
	"fmt"
	"sort"
)

// Witness minimisation (greedy delta debugging over the AST). The reference interpreter is
// the oracle for every candidate, so a candidate is kept only if the REAL code still
// disagrees with the specification on it, in the same way (same stage and normalised
// message for pipeline failures; same mismatch kind, and no salient reference tag that the
// original did not have, for value mismatches). The signature is computed from the
// minimal case.

type minimizer struct {
	ctx    context.Context
	budget int
	tests  int
	want   func(Case, Verdict) bool
}

func salientSet(c Case, vd Verdict) map[string]struct{} {
	set := map[string]struct{}{}
	for _, t := range vd.Tags {
		if salient(t) {
			set[t] = struct{}{}
		}
	}
	walkExprs(c.F.Body, func(e *E) { precTags(e, set) })
	return set
}

func sameClass(orig Case, ov Verdict) func(Case, Verdict) bool {
	switch ov.Kind {
	case vdPipeline:
		nm := normMsg(ov.Msg)
		return func(_ Case, v Verdict) bool { return v.Kind == vdPipeline && v.Stage == ov.Stage && normMsg(v.Msg) == nm }
	case vdPanic:
		nm := normMsg(ov.Msg)
		return func(_ Case, v Verdict) bool { return v.Kind == vdPanic && normMsg(v.Msg) == nm }
	case vdExport:
		return func(_ Case, v Verdict) bool { return v.Kind == vdExport }
	case vdMismatch:
		allowed := salientSet(orig, ov)
		trapMsg := normMsg(ov.Real.Err)
		return func(c Case, v Verdict) bool {
			if v.Kind != vdMismatch || v.MKind != ov.MKind {
				return false
			}
			if ov.MKind == "trap-not-value" && normMsg(v.Real.Err) != trapMsg {
				return false
			}
			for t := range salientSet(c, v) {
				if _, ok := allowed[t]; !ok {
					return false
				}
			}
			return true
		}
	}
	return func(Case, Verdict) bool { return false }
}

func caseSize(c Case) int {
	n := (c.F.size()-len(c.F.Params))*4 + len(c.F.Params)
	for _, call := range c.Calls {
		n += 1 + len(call)
	}
	return n
}

// exprSlots returns pointers to every *E field reachable from the function body, in
// pre-order.
func exprSlots(f *Func) []**E {
	var out []**E
	var walkE func(p **E)
	walkE = func(p **E) {
		if *p == nil {
			return
		}
		out = append(out, p)
		walkE(&(*p).A)
		walkE(&(*p).B)
	}
	var walkB func(b []*S)
	walkB = func(b []*S) {
		for _, s := range b {
			walkE(&s.X)
			for i := range s.Args {
				walkE(&s.Args[i])
			}
			walkB(s.Body)
			for i := range s.Elifs {
				walkE(&s.Elifs[i].X)
				walkB(s.Elifs[i].Body)
			}
			walkB(s.Else)
		}
	}
	walkB(f.Body)
	return out
}

// stmtLists returns pointers to every statement list in the function.
func stmtLists(f *Func) []*[]*S {
	var out []*[]*S
	var walk func(b *[]*S)
	walk = func(b *[]*S) {
		out = append(out, b)
		for _, s := range *b {
			if s.Body != nil {
				walk(&s.Body)
			}
			for i := range s.Elifs {
				walk(&s.Elifs[i].Body)
			}
			if s.Else != nil {
				walk(&s.Else)
			}
		}
	}
	walk(&f.Body)
	return out
}

func freeVars(e *E) map[string]bool {
	m := map[string]bool{}
	usedVars(e, m)
	return m
}

func paramSet(f *Func) map[string]bool {
	m := map[string]bool{}
	for _, p := range f.Params {
		m[p.Name] = true
	}
	return m
}

func subset(a, b map[string]bool) bool {
	for k := range a {
		if !b[k] {
			return false
		}
	}
	return true
}

// refValueOf evaluates expression e (free variables all parameters) under the reference
// on one call; ok=false when the value is not defined.
func refValueOf(f *Func, e *E, args []Value) (Value, bool) {
	tmp := &Func{Name: f.Name, Params: f.Params, Ret: e.T, Body: []*S{{K: SReturn, X: e}}}
	o := newInterp(tmp).Call(args)
	if o.Kind != oValue {
		return Value{}, false
	}
	return o.V, true
}

func (m *minimizer) try(c Case) (Verdict, bool) {
	if m.tests >= m.budget {
		return Verdict{}, false
	}
	m.tests++
	vd := judgeCase(m.ctx, c)
	return vd, m.want(c, vd)
}

// candidates yields reduced variants of c, most aggressive first.
func (m *minimizer) candidates(c Case, vd Verdict, yield func(Case) bool) {
	f := c.F
	// 0. fewer calls
	if len(c.Calls) > 1 {
		if !f.Stateful && vd.Kind == vdMismatch {
			if !yield(Case{F: f, Calls: [][]Value{c.Calls[vd.CallIdx]}}) {
				return
			}
		}
		for i := range c.Calls {
			nc := Case{F: f}
			nc.Calls = append(nc.Calls, c.Calls[:i]...)
			nc.Calls = append(nc.Calls, c.Calls[i+1:]...)
			if !yield(nc) {
				return
			}
		}
	}
	// 1. `return <sub-expression>` for sub-expressions over parameters only, smallest first
	if !f.Stateful {
		ps := paramSet(f)
		type cand struct {
			e    *E
			size int
		}
		var cs []cand
		single := len(f.Body) == 1 && f.Body[0].K == SReturn
		for _, p := range exprSlots(f) {
			e := *p
			if e.K == KLit || e.K == KVar {
				continue
			}
			if single && e == f.Body[0].X {
				continue
			}
			if e.K == KLit && e.Bare {
				continue
			}
			if !subset(freeVars(e), ps) {
				continue
			}
			cs = append(cs, cand{e, e.size()})
		}
		sort.SliceStable(cs, func(i, j int) bool { return cs[i].size < cs[j].size })
		for _, k := range cs {
			nf := &Func{Name: f.Name, Params: f.Params, Ret: k.e.T, Body: []*S{{K: SReturn, X: k.e.clone()}}}
			if !yield(Case{F: nf, Calls: c.Calls}) {
				return
			}
		}
	}
	// 2. statement removal and un-nesting
	nl := len(stmtLists(f))
	for li := 0; li < nl; li++ {
		n := len(*stmtLists(f)[li])
		for si := n - 1; si >= 0; si-- {
			nf := f.clone()
			l := stmtLists(nf)[li]
			s := (*l)[si]
			rest := append(append([]*S{}, (*l)[:si]...), (*l)[si+1:]...)
			*l = rest
			if !yield(Case{F: nf, Calls: c.Calls}) {
				return
			}
			// replace a compound statement by one of its bodies
			var bodies [][]*S
			switch s.K {
			case SIf:
				bodies = append(bodies, s.Body)
				for _, ei := range s.Elifs {
					bodies = append(bodies, ei.Body)
				}
				if s.HasElse {
					bodies = append(bodies, s.Else)
				}
			case SForCond, SForInf, SForRange:
				bodies = append(bodies, s.Body)
			}
			for bi := range bodies {
				nf2 := f.clone()
				l2 := stmtLists(nf2)[li]
				s2 := (*l2)[si]
				var inner []*S
				switch {
				case s2.K == SIf && bi == 0:
					inner = s2.Body
				case s2.K == SIf && bi-1 < len(s2.Elifs):
					inner = s2.Elifs[bi-1].Body
				case s2.K == SIf:
					inner = s2.Else
				default:
					inner = s2.Body
				}
				spliced := append(append(append([]*S{}, (*l2)[:si]...), inner...), (*l2)[si+1:]...)
				*l2 = spliced
				if !yield(Case{F: nf2, Calls: c.Calls}) {
					return
				}
			}
			// drop else-if / else arms
			if s.K == SIf && (len(s.Elifs) > 0 || s.HasElse) {
				nf3 := f.clone()
				s3 := (*stmtLists(nf3)[li])[si]
				s3.Elifs, s3.Else, s3.HasElse = nil, nil, false
				if !yield(Case{F: nf3, Calls: c.Calls}) {
					return
				}
			}
		}
	}
	// 3. expression reductions: node -> same-typed child; node -> fresh parameter holding
	// the node's reference value (single call, non-stateful, parameters-only nodes)
	ns := len(exprSlots(f))
	ps := paramSet(f)
	for i := 0; i < ns; i++ {
		e := *exprSlots(f)[i]
		if e.K == KLit || e.K == KVar {
			continue
		}
		for _, ch := range []*E{e.A, e.B} {
			if ch != nil && ch.T == e.T && (ch.anchored() || !e.anchored()) {
				nf := f.clone()
				*exprSlots(nf)[i] = ch.clone()
				if !yield(Case{F: nf, Calls: c.Calls}) {
					return
				}
			}
		}
		if !f.Stateful && len(c.Calls) == 1 && e.size() >= 2 && subset(freeVars(e), ps) {
			if v, ok := refValueOf(f, e, c.Calls[0]); ok {
				nf := f.clone()
				name := fmt.Sprintf("q%d", len(nf.Params))
				for ps[name] {
					name += "x"
				}
				nf.Params = append(nf.Params, Param{Name: name, T: e.T})
				*exprSlots(nf)[i] = mkVar(name, e.T)
				call := append(append([]Value{}, c.Calls[0]...), v)
				if !yield(Case{F: nf, Calls: [][]Value{call}}) {
					return
				}
			}
		}
	}
	// 4. unused parameters
	used := map[string]bool{}
	walkExprs(f.Body, func(e *E) { usedVars(e, used) })
	for pi := len(f.Params) - 1; pi >= 0; pi-- {
		if used[f.Params[pi].Name] {
			continue
		}
		nf := f.clone()
		nf.Params = append(append([]Param{}, f.Params[:pi]...), f.Params[pi+1:]...)
		nc := Case{F: nf}
		for _, call := range c.Calls {
			nc.Calls = append(nc.Calls, append(append([]Value{}, call[:pi]...), call[pi+1:]...))
		}
		if !yield(nc) {
			return
		}
	}
}

// minimize returns the smallest case found that fails like (c, vd), its verdict and the
// number of candidate builds spent.
func minimize(ctx context.Context, c Case, vd Verdict, budget int) (Case, Verdict, int) {
	m := &minimizer{ctx: ctx, budget: budget, want: sameClass(c, vd)}
	cur, curVd := c, vd
	for progress := true; progress && m.tests < m.budget; {
		progress = false
		m.candidates(cur, curVd, func(nc Case) bool {
			if caseSize(nc) >= caseSize(cur) {
				return true
			}
			v, ok := m.try(nc)
			if ok {
				cur, curVd, progress = nc, v, true
				return false
			}
			return m.tests < m.budget
		})
	}
	return cur, curVd, m.tests
}
